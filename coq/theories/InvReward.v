(* InvReward.v — property C13: block rewards (who earns what in begin_block) and the reward
   ledger identity (withdrawable = issued - withdrawn; withdrawals bounded by it).
   Statements about Spec.v. *)
From Rigo Require Import Base.
From stdpp Require Import gmap sorting.
From Rigo Require Import Spec SpecProps.
Local Open Scope Z_scope.

Local Opaque two256 two255 two64 two63.
Arguments Z.pow : simpl never.

(* head-match stepping: destruct the scrutinee of the outermost match/if of an equation *)
Ltac step_in H name :=
  match type of H with
  | (match ?x with _ => _ end) = _ => destruct x eqn:name
  | (if ?x then _ else _) = _ => destruct x eqn:name
  end.

(* ================================================================== small frames *)
Lemma find_or_new_frame l a :
  let l' := (find_or_new l a).1 in
  dels l' = dels l ∧ frozen l' = frozen l ∧ rewards l' = rewards l ∧ props l' = props l ∧
  fprops l' = fprops l ∧ lparams l' = lparams l ∧ (∀ b, acct_of l' b = acct_of l b).
Proof.
  unfold find_or_new. destruct (accts l !! a) as [x|] eqn:E; simpl; repeat split.
  intros b. unfold acct_of; simpl. destruct (decide (b = a)) as [->|Hne].
  - rewrite lookup_insert, E. reflexivity.
  - rewrite lookup_insert_ne by congruence. reflexivity.
Qed.

Lemma find_or_new_rewards l a l0 x : find_or_new l a = (l0, x) → rewards l0 = rewards l.
Proof. intros H. pose proof (find_or_new_frame l a) as F. rewrite H in F. simpl in F. tauto. Qed.

Lemma acct_reward_rewards l a amt l' : acct_reward l a amt = Some l' → rewards l' = rewards l.
Proof.
  unfold acct_reward. intros H. destruct (accts l !! a) as [x|]; simpl in H; [|discriminate].
  destruct (add_balance x amt) as [x'|]; simpl in H; [|discriminate]. injection H as <-. reflexivity.
Qed.

Lemma gov_execute_rewards s l t l' : gov_execute s l t = Ok l' → rewards l' = rewards l.
Proof.
  unfold gov_execute. intros H.
  destruct (t_type t =? TRX_PROPOSAL).
  - destruct (t_payload t); try discriminate. injection H as <-. reflexivity.
  - destruct (t_payload t) as [| | | |ph ch| |]; try discriminate.
    destruct (props l !! ph) as [p|]; [|discriminate].
    destruct (prop_vote p (t_from t) ch); [|discriminate]. injection H as <-. reflexivity.
Qed.

Lemma acct_execute_rewards l t l' : acct_execute l t = Ok l' → rewards l' = rewards l.
Proof.
  unfold acct_execute. intros H.
  destruct (accts l !! t_from t) as [sender|]; [|discriminate].
  destruct (accts l !! t_to t) as [receiver|]; [|discriminate].
  destruct (t_type t =? TRX_TRANSFER).
  - destruct (sub_balance sender (t_amount t)) as [sender'|]; [|discriminate].
    destruct (add_balance _ (t_amount t)) as [recv'|]; [|discriminate]. injection H as <-. reflexivity.
  - destruct (t_payload t); try discriminate. injection H as <-. reflexivity.
Qed.

Lemma evm_execute_rewards l t l' g : evm_execute l t = Ok (l', g) → rewards l' = rewards l.
Proof.
  unfold evm_execute. intros H.
  destruct (t_evm t) as [e|]; [|discriminate].
  destruct (negb (e_ok e)); [discriminate|]. injection H as <- _.
  assert (Hf : ∀ xs l0, rewards (foldl (λ l x, let '(a, bal, nonce) := x in
                  let old := default acct0 (accts l !! a) in
                  set_acct l a {| a_nonce := nonce; a_bal := bal; a_code := a_code old; a_name := a_name old; a_doc := a_doc old |})
                l0 xs) = rewards l0).
  { induction xs as [|[[a bal] nonce] xs IH]; intros l0; simpl; [reflexivity|]. rewrite IH. reflexivity. }
  destruct (e_created e); simpl; apply Hf.
Qed.

(* staking and unstaking leave the reward ledger alone *)
Lemma stake_execute_rewards s l t l' :
  (t_type t =? TRX_STAKING) || (t_type t =? TRX_UNSTAKING) = true →
  stake_execute s l t = Ok l' → rewards l' = rewards l.
Proof.
  unfold stake_execute. intros Hty H.
  destruct (t_type t =? TRX_STAKING) eqn:E2.
  - destruct (match dels l !! t_to t with Some d => Some d | None => _ end) as [d|]; [|discriminate].
    destruct (accts l !! t_from t) as [sender|]; [|discriminate].
    destruct (sub_balance sender (t_amount t)); [|discriminate]. injection H as <-. reflexivity.
  - simpl in Hty. rewrite Hty in H.
    destruct (dels l !! t_to t) as [d|]; [|discriminate].
    destruct (t_payload t) as [|hs ok| | | | |]; try discriminate.
    destruct (find_stake hs (d_stakes d)) as [s0|]; [|discriminate].
    destruct (negb (s_from s0 =? t_from t)%N); [discriminate|].
    destruct (if d_self (del_stake d hs) =? 0 then _ else _) as [d2 fr2].
    destruct (d_total d2 =? 0); injection H as <-; reflexivity.
Qed.

(* ================================================================== R2 (i): other transactions *)
(* R2 (i).  A transaction that is not a withdrawal leaves the reward ledger unchanged, whatever
   its outcome. *)
Theorem deliver_rewards_other s t :
  t_type t ≠ TRX_WITHDRAW → rewards (work (deliver s t).1) = rewards (work s).
Proof.
  intros Hty. destruct (deliver s t) as [s' r] eqn:Hd. simpl.
  unfold deliver in Hd.
  destruct (accts (work s) !! t_from t) as [sender|] eqn:Es; [|injection Hd as <- _; reflexivity].
  cbv zeta in Hd. cbn [work with_bctx] in Hd.
  destruct (find_or_new (work s) (t_to t)) as [l0 receiver] eqn:Ef.
  pose proof (find_or_new_rewards _ _ _ _ Ef) as Hl0.
  step_in Hd Ecv0; [injection Hd as <- _; exact Hl0|].
  step_in Hd Ecv1; [injection Hd as <- _; exact Hl0|].
  step_in Hd Eval; [|injection Hd as <- _; exact Hl0|injection Hd as <- _; exact Hl0].
  step_in Hd Eevm.
  - (* EVM path *)
    cbn [work with_lim with_work] in Hd.
    destruct (evm_execute l0 t) as [[l' gas]|e|p] eqn:Ex; injection Hd as <- _; cbn [work with_bctx with_work with_lim]; try exact Hl0.
    rewrite (evm_execute_rewards _ _ _ _ Ex). exact Hl0.
  - cbn [work with_lim with_work] in Hd.
    assert (Hex : ∀ l', (if (t_type t =? TRX_PROPOSAL) || (t_type t =? TRX_VOTING) then gov_execute (with_lim (with_work (with_bctx s {| b_height := b_height (bctx s); b_proposer := b_proposer (bctx s); b_feesum := b_feesum (bctx s); b_txs := b_txs (bctx s) + 1 |}) l0) a) l0 t
               else if (t_type t =? TRX_TRANSFER) || (t_type t =? TRX_SETDOC) then acct_execute l0 t
               else stake_execute (with_lim (with_work (with_bctx s {| b_height := b_height (bctx s); b_proposer := b_proposer (bctx s); b_feesum := b_feesum (bctx s); b_txs := b_txs (bctx s) + 1 |}) l0) a) l0 t) = Ok l' → rewards l' = rewards l0).
    { intros l' Hx.
      destruct ((t_type t =? TRX_PROPOSAL) || (t_type t =? TRX_VOTING)) eqn:Eg; [eapply gov_execute_rewards, Hx|].
      destruct ((t_type t =? TRX_TRANSFER) || (t_type t =? TRX_SETDOC)) eqn:Ea; [eapply acct_execute_rewards, Hx|].
      eapply stake_execute_rewards; [|exact Hx].
      (* validation succeeded, so the type is one of staking / unstaking / withdraw *)
      apply orb_false_iff in Eevm as [E6 _]. rewrite E6 in Eval.
      destruct (t_type t =? TRX_STAKING) eqn:E2; [reflexivity|].
      destruct (t_type t =? TRX_UNSTAKING) eqn:E3; [reflexivity|].
      destruct (t_type t =? TRX_WITHDRAW) eqn:E8; [apply Z.eqb_eq in E8; contradiction|].
      simpl in Eval. discriminate. }
    step_in Hd Ex; [|injection Hd as <- _; exact Hl0|injection Hd as <- _; exact Hl0].
    specialize (Hex _ eq_refl).
    step_in Hd Esnd; [|injection Hd as <- _; exact Hl0].
    step_in Hd Efee; injection Hd as <- _; cbn [work with_bctx with_work with_lim set_acct rewards]; congruence.
Qed.
Print Assumptions deliver_rewards_other.

(* ================================================================== withdrawals *)
(* [deliver] specialised to a withdrawal: the type tests are decided *)
Definition deliver_w (s : state) (t : tx) : state * res Z :=
  let b := bctx s in
  match accts (work s) !! t_from t with
  | None => (s, Err E_NOACCT)
  | Some sender =>
    let s0 := with_bctx s {| b_height := b_height b; b_proposer := b_proposer b; b_feesum := b_feesum b; b_txs := b_txs b + 1 |} in
    let '(l0, receiver) := find_or_new (work s0) (t_to t) in
    let s1 := with_work s0 l0 in
    match common_validation0 (gparams s) t with Some e => (s1, Err e) | None =>
    match common_validation1 sender t with Some e => (s1, Err e) | None =>
    match stake_validate s1 t with
    | Err e => (s1, Err e)
    | Panic p => (s1, Panic p)
    | Ok lim' =>
      let s2 := with_lim s1 lim' in
      match stake_execute s2 (work s2) t with
      | Err e => (s2, Err e)
      | Panic p => (s2, Panic p)
      | Ok l' =>
          match accts l' !! t_from t with
          | None => (s2, Err E_NOACCT)
          | Some snd' =>
              match sub_balance snd' (fee_of t) with
              | None => (with_work s2 l', Err E_FUND)
              | Some snd'' =>
                  let l'' := set_acct l' (t_from t) (add_nonce snd'') in
                  let b2 := bctx s2 in
                  (with_bctx (with_work s2 l'') {| b_height := b_height b2; b_proposer := b_proposer b2;
                     b_feesum := add256 (b_feesum b2) (mul256 (t_gas t) (g_gasPrice (gparams s))); b_txs := b_txs b2 |},
                   Ok (t_gas t))
              end
          end
      end
    end end end
  end.

Lemma deliver_withdraw_eq s t : t_type t = TRX_WITHDRAW → deliver s t = deliver_w s t.
Proof. intros Hty. unfold deliver, deliver_w. rewrite Hty. reflexivity. Qed.

Lemma stake_validate_withdraw s t :
  t_type t = TRX_WITHDRAW →
  stake_validate s t =
    if negb (t_amount t =? 0) then Err E_INVTRX
    else match t_payload t with
    | PWithdraw req =>
        match rewards (work s) !! t_from t with
        | None => Err E_NOREWARD
        | Some r => if r_cumulated r <? req then Err E_NOREWARD else Ok (lim s)
        end
    | _ => Err E_PAYLOAD
    end.
Proof. intros Hty. unfold stake_validate. rewrite Hty. reflexivity. Qed.

Lemma stake_execute_withdraw s l t :
  t_type t = TRX_WITHDRAW →
  stake_execute s l t =
    let h := b_height (bctx s) in
    match t_payload t, rewards l !! t_from t with
    | PWithdraw req, Some r =>
        if r_height r >? h then Panic P_REWARD_HEIGHT else
        let r' := {| r_issued := r_issued r;
                     r_withdrawn := if r_height r <? h then req else add256 (r_withdrawn r) req;
                     r_slashed := r_slashed r; r_cumulated := sub256 (r_cumulated r) req; r_height := h |} in
        let l1 := set_rewards l (<[t_from t := r']> (rewards l)) in
        match acct_reward l1 (t_from t) req with
        | Some l2 => Ok l2
        | None => Err E_AMOUNT
        end
    | _, _ => Err E_NOREWARD
    end.
Proof. intros Hty. unfold stake_execute. rewrite Hty. reflexivity. Qed.

(* the reward record after withdrawing [req] at height [h] *)
Definition withdrawn_record (r : reward) (req h : Z) : reward :=
  {| r_issued := r_issued r;
     r_withdrawn := if r_height r <? h then req else add256 (r_withdrawn r) req;
     r_slashed := r_slashed r; r_cumulated := sub256 (r_cumulated r) req; r_height := h |}.

(* everything a successful withdrawal tells us and does *)
Lemma withdraw_ok_inv s t s' g :
  deliver s t = (s', Ok g) → t_type t = TRX_WITHDRAW →
  ∃ req r sender bal',
    t_payload t = PWithdraw req ∧ t_amount t = 0 ∧ g = t_gas t ∧
    accts (work s) !! t_from t = Some sender ∧
    rewards (work s) !! t_from t = Some r ∧ req ≤ r_cumulated r ∧ r_height r ≤ b_height (bctx s) ∧
    sign256 req >= 0 ∧ a_bal sender >= fee_of t ∧ add256 (a_bal sender) req >= fee_of t ∧
    bal' = sub256 (add256 (a_bal sender) req) (fee_of t) ∧
    rewards (work s') = <[t_from t := withdrawn_record r req (b_height (bctx s))]> (rewards (work s)) ∧
    accts (work s') = <[t_from t := {| a_nonce := (a_nonce sender + 1) mod two64; a_bal := bal';
                                       a_code := a_code sender; a_name := a_name sender; a_doc := a_doc sender |}]>
                        (accts (find_or_new (work s) (t_to t)).1) ∧
    dels (work s') = dels (work s) ∧ frozen (work s') = frozen (work s) ∧ props (work s') = props (work s) ∧
    fprops (work s') = fprops (work s) ∧ lparams (work s') = lparams (work s).
Proof.
  intros Hd Hty. rewrite deliver_withdraw_eq in Hd by assumption. unfold deliver_w in Hd.
  destruct (accts (work s) !! t_from t) as [sender|] eqn:Es; [|discriminate].
  cbv zeta in Hd. cbn [work with_bctx] in Hd.
  pose proof (find_or_new_frame (work s) (t_to t)) as F. cbv zeta in F.
  destruct (find_or_new (work s) (t_to t)) as [l0 receiver] eqn:Ef. simpl in F.
  destruct F as (Fd & Ffr & Frw & Fp & Ffp & Flp & Fac).
  step_in Hd Ecv0; [discriminate|].
  step_in Hd Ecv1; [discriminate|].
  rewrite stake_validate_withdraw in Hd by assumption. cbn [work with_work with_bctx lim] in Hd.
  destruct (negb (t_amount t =? 0)) eqn:Eam; [discriminate|].
  destruct (t_payload t) as [| |req| | | |] eqn:Epl; try discriminate.
  rewrite Frw in Hd.
  destruct (rewards (work s) !! t_from t) as [r|] eqn:Er; [|discriminate].
  destruct (r_cumulated r <? req) eqn:Ecum; [discriminate|].
  rewrite stake_execute_withdraw in Hd by assumption. cbv zeta in Hd.
  cbn [work with_work with_bctx with_lim bctx b_height] in Hd.
  rewrite Epl, Frw, Er in Hd.
  destruct (r_height r >? b_height (bctx s)) eqn:Eh; [discriminate|].
  fold (withdrawn_record r req (b_height (bctx s))) in Hd.
  unfold acct_reward in Hd. cbn [accts set_rewards] in Hd.
  (* the sender's account in l0 *)
  assert (Hs0 : accts l0 !! t_from t = Some sender).
  { unfold find_or_new in Ef. destruct (accts (work s) !! t_to t) eqn:Et.
    - injection Ef as <- _. exact Es.
    - injection Ef as <- _. simpl. rewrite lookup_insert_ne; [exact Es|]. intros Heq. rewrite Heq in Et. congruence. }
  rewrite Hs0 in Hd. cbn [mbind option_bind] in Hd.
  unfold add_balance in Hd.
  destruct (sign256 req <? 0) eqn:Esg; [discriminate|]. cbn [mbind option_bind] in Hd.
  cbn [accts set_acct set_rewards] in Hd. rewrite lookup_insert in Hd.
  unfold sub_balance in Hd. cbn [a_bal] in Hd.
  destruct (sign256 (fee_of t) <? 0) eqn:Esf; [discriminate|].
  destruct (add256 (a_bal sender) req <? fee_of t) eqn:Ebf; [discriminate|].
  injection Hd as <- <-.
  unfold common_validation1 in Ecv1.
  destruct (a_bal sender <? add256 (fee_of t) (t_amount t)) eqn:Efund; [discriminate|].
  assert (Ham : t_amount t = 0) by (apply negb_false_iff, Z.eqb_eq in Eam; exact Eam).
  assert (Hfee : add256 (fee_of t) (t_amount t) = fee_of t).
  { rewrite Ham. unfold add256. rewrite Z.add_0_r. apply wrap256_small. unfold fee_of, mul256. apply wrap256_range. }
  rewrite Hfee in Efund.
  exists req, r, sender, (sub256 (add256 (a_bal sender) req) (fee_of t)).
  cbn [work with_bctx with_work with_lim set_acct set_rewards accts rewards dels frozen props fprops lparams add_nonce a_nonce a_bal a_code a_name a_doc].
  repeat split; try assumption; try lia.
  rewrite insert_insert. reflexivity.
Qed.

(* R3.  A withdrawal succeeds only up to the withdrawable amount. *)
Theorem withdraw_only_up_to s t s' g :
  deliver s t = (s', Ok g) → t_type t = TRX_WITHDRAW →
  ∃ req r, t_payload t = PWithdraw req ∧ rewards (work s) !! t_from t = Some r ∧
           req ≤ r_cumulated r ∧ t_amount t = 0.
Proof.
  intros Hd Hty. destruct (withdraw_ok_inv s t s' g Hd Hty) as (req & r & sender & bal' & H).
  exists req, r. tauto.
Qed.
Print Assumptions withdraw_only_up_to.

(* ------------------------------------------------------------------ R2 (ii): a successful withdrawal *)
(* the withdrawal payload carries a uint256 *)
Definition payload_wf (t : tx) : Prop :=
  match t_payload t with PWithdraw req => 0 ≤ req < two256 | _ => True end.

Lemma sub256_exact a b : 0 ≤ b ≤ a → a < two256 → sub256 a b = a - b.
Proof. intros. unfold sub256. apply wrap256_small. unfold in256. lia. Qed.
Lemma add256_exact a b : 0 ≤ a → 0 ≤ b → a + b < two256 → add256 a b = a + b.
Proof. intros. unfold add256. apply wrap256_small. unfold in256. lia. Qed.
Lemma fee_of_range t : 0 ≤ fee_of t < two256.
Proof. unfold fee_of, mul256. apply wrap256_range. Qed.

(* R2 (ii).  A successful withdrawal of [req] by [a = t_from t]: [req] was at most the
   withdrawable amount, which drops by exactly [req]; the per-height [r_withdrawn] field is
   updated; the balance is credited with exactly [req] (and then charged the fee, like every
   transaction); no other reward record, account, stake or proposal changes. *)
Theorem withdraw_ok s t s' g :
  deliver s t = (s', Ok g) → t_type t = TRX_WITHDRAW → payload_wf t → ranges_ok (work s) →
  ∃ req r r',
    t_payload t = PWithdraw req ∧
    rewards (work s) !! t_from t = Some r ∧ 0 ≤ req ≤ r_cumulated r ∧
    rewards (work s') !! t_from t = Some r' ∧
    r_cumulated r' = r_cumulated r - req ∧
    r_withdrawn r' = (if r_height r <? b_height (bctx s) then req else add256 (r_withdrawn r) req) ∧
    r_issued r' = r_issued r ∧ r_slashed r' = r_slashed r ∧ r_height r' = b_height (bctx s) ∧
    (∀ b, b ≠ t_from t → rewards (work s') !! b = rewards (work s) !! b) ∧
    (* balance: credited req (mod 2^256), charged the fee *)
    bal_of (work s') (t_from t) = sub256 (add256 (bal_of (work s) (t_from t)) req) (fee_of t) ∧
    (bal_of (work s) (t_from t) + req < two256 →
       bal_of (work s') (t_from t) = bal_of (work s) (t_from t) + req - fee_of t) ∧
    (∀ b, b ≠ t_from t → acct_of (work s') b = acct_of (work s) b) ∧
    dels (work s') = dels (work s) ∧ frozen (work s') = frozen (work s) ∧ props (work s') = props (work s) ∧
    fprops (work s') = fprops (work s) ∧ lparams (work s') = lparams (work s).
Proof.
  intros Hd Hty Hwf (Hacc & _ & Hrw).
  destruct (withdraw_ok_inv s t s' g Hd Hty)
    as (req & r & sender & bal' & Hpl & Ham & Hg & Hs & Hr & Hle & Hh & Hsg & Hfee & Hfee' & Hbal' & Hrw' & Hac' & Hrest).
  unfold payload_wf in Hwf. rewrite Hpl in Hwf.
  destruct (Hrw _ _ Hr) as [Hc0 Hc1]. destruct (Hacc _ _ Hs) as [[Hb0 Hb1] _].
  exists req, r, (withdrawn_record r req (b_height (bctx s))).
  assert (Hbo : bal_of (work s) (t_from t) = a_bal sender) by (unfold bal_of, acct_of; rewrite Hs; reflexivity).
  assert (Hbn : bal_of (work s') (t_from t) = bal') by (unfold bal_of, acct_of; rewrite Hac', lookup_insert; reflexivity).
  split; [exact Hpl|]. split; [exact Hr|]. split; [lia|].
  split; [rewrite Hrw'; apply lookup_insert|].
  split; [simpl; apply sub256_exact; lia|].
  split; [reflexivity|]. split; [reflexivity|]. split; [reflexivity|]. split; [reflexivity|].
  split; [intros b Hb; rewrite Hrw'; apply lookup_insert_ne; congruence|].
  split; [rewrite Hbn, Hbo; exact Hbal'|].
  split.
  { intros Hnw. rewrite Hbn, Hbal', Hbo in *. pose proof (fee_of_range t).
    rewrite add256_exact in * by lia. apply sub256_exact; lia. }
  split; [|exact Hrest].
  intros b Hb. unfold acct_of. rewrite Hac', lookup_insert_ne by congruence.
  destruct (find_or_new_frame (work s) (t_to t)) as (_ & _ & _ & _ & _ & _ & F). apply F.
Qed.
Print Assumptions withdraw_ok.

(* ------------------------------------------------------------------ R2 (iii): a failed withdrawal *)
Lemma fee_small g t :
  params_ok g → tx_wf t → common_validation0 g t = None → fee_of t < two255.
Proof.
  intros Hg Ht Hcv. unfold common_validation0 in Hcv.
  destruct (negb (t_from_ok t)); [discriminate|]. destruct (negb (t_to_ok t)); [discriminate|].
  destruct (sign256 (t_amount t) <? 0); [discriminate|].
  destruct (maxInt64 <? t_gas t) eqn:Egas; [discriminate|].
  destruct ((sign256 (t_price t) <? 0) || negb (t_price t =? g_gasPrice g)) eqn:Epr; [discriminate|].
  apply orb_false_iff in Epr as [_ Epr]. apply negb_false_iff, Z.eqb_eq in Epr.
  destruct Hg as ((Hp0 & Hp1) & _). destruct Ht as (_ & _ & (Hg0 & _) & _).
  unfold fee_of, mul256, wrap256. rewrite Epr.
  assert (E : two255 = 2 ^ 192 * 2 ^ 63) by reflexivity.
  assert (E2 : two256 = 2 * two255) by reflexivity.
  assert (maxInt64 = 2 ^ 63 - 1) by reflexivity.
  assert (0 < 2 ^ 63) by reflexivity. assert (0 < 2 ^ 192) by reflexivity.
  rewrite Z.mod_small; nia.
Qed.

(* R2 (iii).  A withdrawal that does not succeed changes nothing observable.
   INTENDED without the third hypothesis — that form is false of the model, see
   [withdraw_fail_frame_refuted]: if crediting the reward wraps the balance around 2^256 the fee
   can no longer be paid, the transaction fails with E_FUND and the model (like the code: the fee
   is charged after execution, with nothing to undo it) keeps the executed reward update.  On
   reachable states balances plus outstanding rewards stay far below 2^256. *)
Theorem withdraw_fail_frame s t s' r :
  deliver s t = (s', r) → t_type t = TRX_WITHDRAW → (∀ g, r ≠ Ok g) →
  params_ok (gparams s) → tx_wf t →
  (∀ req sender, t_payload t = PWithdraw req → accts (work s) !! t_from t = Some sender →
                 0 ≤ req ∧ 0 ≤ a_bal sender ∧ a_bal sender + req < two256) →
  same_obs (work s) (work s') ∧ same_ctl s s'.
Proof.
  intros Hd Hty Hr Hg Ht Hnw. rewrite deliver_withdraw_eq in Hd by assumption. unfold deliver_w in Hd.
  assert (Hrefl : ∀ l, same_obs l l) by (intros l; repeat split).
  destruct (accts (work s) !! t_from t) as [sender|] eqn:Es;
    [|injection Hd as <- _; split; [apply Hrefl|repeat split]].
  cbv zeta in Hd. cbn [work with_bctx] in Hd.
  pose proof (find_or_new_frame (work s) (t_to t)) as F. cbv zeta in F.
  destruct (find_or_new (work s) (t_to t)) as [l0 receiver] eqn:Ef. simpl in F.
  destruct F as (Fd & Ffr & Frw & Fp & Ffp & Flp & Fac).
  assert (Hobs0 : same_obs (work s) l0) by (repeat split; auto).
  step_in Hd Ecv0; [injection Hd as <- _; split; [exact Hobs0|repeat split]|].
  step_in Hd Ecv1; [injection Hd as <- _; split; [exact Hobs0|repeat split]|].
  rewrite stake_validate_withdraw in Hd by assumption. cbn [work with_work with_bctx lim] in Hd.
  destruct (negb (t_amount t =? 0)) eqn:Eam; [injection Hd as <- _; split; [exact Hobs0|repeat split]|].
  destruct (t_payload t) as [| |req| | | |] eqn:Epl; try (injection Hd as <- _; split; [exact Hobs0|repeat split]).
  rewrite Frw in Hd.
  destruct (rewards (work s) !! t_from t) as [r0|] eqn:Er; [|injection Hd as <- _; split; [exact Hobs0|repeat split]].
  destruct (r_cumulated r0 <? req) eqn:Ecum; [injection Hd as <- _; split; [exact Hobs0|repeat split]|].
  rewrite stake_execute_withdraw in Hd by assumption. cbv zeta in Hd.
  cbn [work with_work with_bctx with_lim bctx b_height] in Hd.
  rewrite Epl, Frw, Er in Hd.
  destruct (r_height r0 >? b_height (bctx s)) eqn:Eh; [injection Hd as <- _; split; [exact Hobs0|repeat split]|].
  unfold acct_reward in Hd. cbn [accts set_rewards] in Hd.
  assert (Hs0 : accts l0 !! t_from t = Some sender).
  { unfold find_or_new in Ef. destruct (accts (work s) !! t_to t) eqn:Et.
    - injection Ef as <- _. exact Es.
    - injection Ef as <- _. simpl. rewrite lookup_insert_ne; [exact Es|]. intros Heq. rewrite Heq in Et. congruence. }
  rewrite Hs0 in Hd. cbn [mbind option_bind] in Hd.
  unfold add_balance in Hd.
  destruct (sign256 req <? 0) eqn:Esg; [injection Hd as <- _; split; [exact Hobs0|repeat split]|].
  cbn [mbind option_bind] in Hd.
  cbn [accts set_acct set_rewards] in Hd. rewrite lookup_insert in Hd.
  unfold sub_balance in Hd. cbn [a_bal] in Hd.
  (* the fee can be paid: the two failing leaves are impossible *)
  destruct (Hnw _ _ eq_refl eq_refl) as (Hreq & Hb0 & Hb1).
  pose proof (fee_small _ _ Hg Ht Ecv0) as Hfs. pose proof (fee_of_range t) as Hfr.
  unfold common_validation1 in Ecv1.
  destruct (a_bal sender <? add256 (fee_of t) (t_amount t)) eqn:Efund; [discriminate|].
  assert (Ham : t_amount t = 0) by (apply negb_false_iff, Z.eqb_eq in Eam; exact Eam).
  rewrite Ham in Efund. unfold add256 at 1 in Efund. rewrite Z.add_0_r, wrap256_small in Efund by exact Hfr.
  assert (Hsf : sign256 (fee_of t) <? 0 = false).
  { unfold sign256. destruct (fee_of t =? 0); [reflexivity|]. destruct (two255 <=? fee_of t) eqn:E; [lia|reflexivity]. }
  rewrite Hsf in Hd. rewrite add256_exact in Hd by lia.
  destruct (a_bal sender + req <? fee_of t) eqn:Ebf; [lia|].
  injection Hd as _ <-. exfalso. eapply Hr. reflexivity.
Qed.
Print Assumptions withdraw_fail_frame.

(* the witness: balance 2^256 - 1, withdrawable 10, fee 10.  The credit wraps the balance to 9,
   the fee cannot be paid, the answer is an error, and the reward record has been emptied. *)
Definition wrap_params : params :=
  {| g_version := 1; g_maxValidatorCnt := 21; g_minValidatorStake := amountPerPower; g_minDelegatorStake := 0;
     g_rewardPerPower := 1; g_lazyRewardBlocks := 10; g_lazyApplyingBlocks := 10; g_gasPrice := 1;
     g_minTrxGas := 1; g_maxTrxGas := 1000000; g_maxBlockGas := 10000000; g_minVotingPeriodBlocks := 1;
     g_maxVotingPeriodBlocks := 100; g_minSelfStakeRatio := 50; g_maxUpdatableStakeRatio := 30;
     g_maxIndividualStakeRatio := 100; g_slashRatio := 50; g_signedBlocksWindow := 10; g_minSignedBlocks := 5 |}.
Definition wrap_state : state :=
  let s := init_chain {| gen_params := wrap_params; gen_holders := [(1%N, two256 - 1)]; gen_validators := [] |} in
  with_work s (set_rewards (work s) {[ 1%N := {| r_issued := 10; r_withdrawn := 0; r_slashed := 0; r_cumulated := 10; r_height := 0 |} ]}).
Definition wrap_tx : tx :=
  {| t_type := TRX_WITHDRAW; t_from := 1%N; t_to := 0%N; t_from_ok := true; t_to_ok := true; t_amount := 0;
     t_price := 1; t_gas := 10; t_nonce := 0; t_payload := PWithdraw 10; t_hash := 99%N; t_sigok := true; t_evm := None |}.

Lemma withdraw_fail_frame_refuted :
  ∃ s t s' e, deliver s t = (s', Err e) ∧ t_type t = TRX_WITHDRAW ∧ params_ok (gparams s) ∧ tx_wf t ∧
              rewards (work s') !! t_from t ≠ rewards (work s) !! t_from t ∧
              bal_of (work s') (t_from t) = 9.
Proof.
  exists wrap_state, wrap_tx, (deliver wrap_state wrap_tx).1, E_FUND.
  split; [vm_compute; reflexivity|]. split; [reflexivity|].
  split; [vm_compute; repeat split; discriminate|].
  split; [vm_compute; repeat split; discriminate|].
  split; [vm_compute; discriminate|vm_compute; reflexivity].
Qed.

(* ------------------------------------------------------------------ R2 (iv): end_block, commit *)
Lemma foldl_res_inv {A B} (P : A → Prop) (f : res A → B → res A) (l : list B) :
  (∀ acc x a', (∀ a, acc = Ok a → P a) → f acc x = Ok a' → P a') →
  ∀ acc, (∀ a, acc = Ok a → P a) → ∀ a', foldl f acc l = Ok a' → P a'.
Proof.
  intros Hstep. induction l as [|x l IH]; simpl; intros acc Hacc a' H.
  - apply Hacc, H.
  - eapply IH; [|exact H]. intros a Ha. eapply Hstep; eauto.
Qed.

Lemma freeze_proposals_rewards base l h l' : freeze_proposals base l h = Ok l' → rewards l' = rewards l.
Proof.
  unfold freeze_proposals. apply (foldl_res_inv (λ x, rewards x = rewards l)).
  - intros acc kp a' Hacc Hf. destruct acc as [l1| |]; try discriminate. specialize (Hacc _ eq_refl).
    destruct (p_end kp.2 <? h); [|injection Hf as <-; exact Hacc].
    destruct (props l1 !! kp.1); [|discriminate].
    destruct (update_major kp.2) as [p'| |]; try discriminate.
    destruct (p_major p'); injection Hf as <-; exact Hacc.
  - intros a [= <-]. reflexivity.
Qed.

Lemma apply_proposals_rewards s base l h l' np : apply_proposals s base l h = Ok (l', np) → rewards l' = rewards l.
Proof.
  unfold apply_proposals. intros H.
  apply (foldl_res_inv (λ x : ledgers * option params, rewards x.1 = rewards l)) in H; [exact H| |].
  - intros acc kp a' Hacc Hf. destruct acc as [[l1 np1]| |]; try discriminate. specialize (Hacc _ eq_refl). simpl in Hacc.
    destruct (p_apply kp.2 <=? h); [|injection Hf as <-; exact Hacc].
    destruct (fprops l1 !! kp.1); [|discriminate].
    destruct (p_major kp.2) as [o|]; [|injection Hf as <-; exact Hacc].
    destruct (p_opttype kp.2 =? PROPOSAL_GOVPARAMS); [|injection Hf as <-; exact Hacc].
    destruct (o_params o); [|discriminate]. injection Hf as <-. exact Hacc.
  - intros a [= <-]. reflexivity.
Qed.

Lemma unfreeze_rewards base l h l' : unfreeze base l h = Ok l' → rewards l' = rewards l.
Proof.
  unfold unfreeze. apply (foldl_res_inv (λ x, rewards x = rewards l)).
  - intros acc kp a' Hacc Hf. destruct acc as [l1| |]; try discriminate. specialize (Hacc _ eq_refl).
    destruct (s_refund kp.2 <=? h); [|injection Hf as <-; exact Hacc].
    destruct (acct_reward l1 (s_from kp.2) (power_to_amount (s_power kp.2))) as [l2|] eqn:E; [|discriminate].
    injection Hf as <-. simpl. rewrite (acct_reward_rewards _ _ _ _ E). exact Hacc.
  - intros a [= <-]. reflexivity.
Qed.

(* R2 (iv) *)
Theorem end_block_rewards s : rewards (work (end_block s).1) = rewards (work s).
Proof.
  unfold end_block.
  destruct (freeze_proposals (base_of s) (work s) (b_height (bctx s))) as [l1|e|p] eqn:E1; try reflexivity.
  destruct (apply_proposals s (base_of s) l1 (b_height (bctx s))) as [[l2 np]|e|p] eqn:E2; try reflexivity.
  apply freeze_proposals_rewards in E1. apply apply_proposals_rewards in E2.
  set (l3 := match b_proposer (bctx s) with Some pa => _ | None => Some l2 end).
  assert (H3 : ∀ x, l3 = Some x → rewards x = rewards l2).
  { subst l3. intros x Hx. destruct (b_proposer (bctx s)) as [pa|]; [|injection Hx as <-; reflexivity].
    destruct (0 <? sign256 (b_feesum (bctx s))); [|injection Hx as <-; reflexivity].
    destruct (add_balance _ _); [|discriminate]. injection Hx as <-. reflexivity. }
  destruct l3 as [x|]; [|reflexivity]. specialize (H3 _ eq_refl).
  destruct (unfreeze (base_of s) x (b_height (bctx s))) as [l4|e|p] eqn:E4; try reflexivity.
  apply unfreeze_rewards in E4.
  destruct (g_maxValidatorCnt (gparams s) <? 0); [reflexivity|]. simpl. congruence.
Qed.

Theorem commit_rewards s : rewards (work (commit s)) = rewards (work s).
Proof. reflexivity. Qed.
Print Assumptions end_block_rewards.

(* ================================================================== R1: issuance in begin_block *)
(* what one stake earns in a block *)
Definition amt_of (g : params) (st : stake) : Z := mul256 (s_power st mod two64) (g_rewardPerPower g).

Lemma amt_of_range g st : 0 ≤ amt_of g st < two256.
Proof. unfold amt_of, mul256. apply wrap256_range. Qed.

(* with powers and the reward rate in range the product does not wrap *)
Lemma amt_of_exact g st :
  0 ≤ s_power st < two63 → 0 ≤ g_rewardPerPower g < 2 ^ 192 → amt_of g st = s_power st * g_rewardPerPower g.
Proof.
  intros Hp Hr. unfold amt_of, mul256.
  assert (E63 : two63 = 2 ^ 63) by reflexivity. assert (E64 : two64 = 2 * 2 ^ 63) by reflexivity.
  assert (E256 : two256 = 2 * (2 ^ 192 * 2 ^ 63)) by reflexivity.
  assert (0 < 2 ^ 63) by reflexivity. assert (0 < 2 ^ 192) by reflexivity.
  rewrite (Z.mod_small (s_power st)) by lia. apply wrap256_small. unfold in256. nia.
Qed.

(* the step of doRewardTo's loop *)
Definition issue_step (g : params) (h : Z) (acc : res (gmap addr reward * Z)) (s0 : stake) : res (gmap addr reward * Z) :=
  match acc with
  | Ok (m, issued) =>
      let amt := mul256 (s_power s0 mod two64) (g_rewardPerPower g) in
      match reward_issue (default reward0 (m !! s_from s0)) amt h with
      | None => Panic P_REWARD_HEIGHT
      | Some r' => Ok (<[s_from s0 := r']> m, add256 issued amt)
      end
  | x => x end.

Lemma reward_to_fold g h rw d : reward_to g h rw d = foldl (issue_step g h) (Ok (rw, 0)) (d_stakes d).
Proof. reflexivity. Qed.

Lemma issue_fold_stuck g h sts (x : res (gmap addr reward * Z)) :
  (∀ a, x ≠ Ok a) → foldl (issue_step g h) x sts = x.
Proof.
  intros Hx. induction sts as [|st sts IH]; simpl; [reflexivity|].
  destruct x as [a| |]; [exfalso; eapply Hx; reflexivity| |]; exact IH.
Qed.

(* the stakes one vote gets rewarded: those of the signing validator at the height its voting
   power was taken from, provided the recorded power is the voting power *)
Definition rewarded (old : ledgers) (v : addr * Z * bool) : list stake :=
  let '(a, pw, signed) := v in
  if signed : bool then
    match dels old !! a with
    | Some d => if d_total d =? pw then d_stakes d else []
    | None => []
    end
  else [].
(* all reward events of a block, in order (a validator listed twice is rewarded twice) *)
Definition rewarded_stakes (old : ledgers) (votes : list (addr * Z * bool)) : list stake :=
  flat_map (rewarded old) votes.

(* what account [a] earns from a list of reward events, and the block's total *)
Definition issue_to (g : params) (sts : list stake) (a : addr) : Z :=
  sumZ_with (amt_of g) (List.filter (λ st, (s_from st =? a)%N) sts).
Definition total_issue (g : params) (sts : list stake) : Z := sumZ_with (amt_of g) sts.
Definition has_stake (a : addr) (sts : list stake) : bool := existsb (λ st, (s_from st =? a)%N) sts.

(* the record of an account that earned [E] in the block at height [h] *)
Definition issued_record (r : reward) (E h : Z) : reward :=
  {| r_issued := (if r_height r <? h then E else r_issued r + E) mod two256;
     r_withdrawn := r_withdrawn r; r_slashed := r_slashed r;
     r_cumulated := (r_cumulated r + E) mod two256; r_height := h |}.

Lemma sumZ_with_app {A} (f : A → Z) l k : sumZ_with f (l ++ k) = sumZ_with f l + sumZ_with f k.
Proof. unfold sumZ_with. induction l as [|x l IH]; simpl; lia. Qed.

Lemma sumZ_with_nonneg {A} (f : A → Z) l : (∀ x, 0 ≤ f x) → 0 ≤ sumZ_with f l.
Proof. intros Hf. unfold sumZ_with. induction l as [|x l IH]; simpl; [lia|]. specialize (Hf x). lia. Qed.

Lemma issue_to_nonneg g sts a : 0 ≤ issue_to g sts a.
Proof. apply sumZ_with_nonneg. intros st. apply amt_of_range. Qed.

Lemma issue_to_app g l k a : issue_to g (l ++ k) a = issue_to g l a + issue_to g k a.
Proof. unfold issue_to. rewrite List.filter_app. apply sumZ_with_app. Qed.

(* the sum runs over the votes in order *)
Lemma issue_to_votes g old votes a :
  issue_to g (rewarded_stakes old votes) a = sumZ_with (λ v, issue_to g (rewarded old v) a) votes.
Proof.
  unfold rewarded_stakes. induction votes as [|v votes IH]; simpl; [reflexivity|].
  rewrite issue_to_app, IH. reflexivity.
Qed.

Lemma issue_to_none g sts a : has_stake a sts = false → issue_to g sts a = 0.
Proof.
  unfold has_stake, issue_to. induction sts as [|st sts IH]; simpl; [reflexivity|].
  intros H. apply orb_false_iff in H as [H1 H2]. rewrite H1. apply IH, H2.
Qed.

(* one pass over a list of stakes, from any accumulator *)
Lemma issue_fold_spec g h sts : ∀ m i m' i',
  foldl (issue_step g h) (Ok (m, i)) sts = Ok (m', i') →
  i' = (match sts with [] => i | _ => (i + total_issue g sts) mod two256 end) ∧
  ∀ a, m' !! a = if has_stake a sts
                 then Some (issued_record (default reward0 (m !! a)) (issue_to g sts a) h)
                 else m !! a.
Proof.
  induction sts as [|st sts IH]; intros m i m' i' H.
  - simpl in H. injection H as <- <-. split; [reflexivity|]. intros a. reflexivity.
  - simpl in H. fold (amt_of g st) in H.
    destruct (reward_issue (default reward0 (m !! s_from st)) (amt_of g st) h) as [r1|] eqn:Ei.
    2:{ rewrite issue_fold_stuck in H by discriminate. discriminate. }
    apply IH in H as [Hi Hm]. pose proof (amt_of_range g st) as Hamt.
    unfold reward_issue in Ei. destruct (h <? r_height (default reward0 (m !! s_from st))) eqn:Eh; [discriminate|].
    injection Ei as <-.
    split.
    + rewrite Hi. unfold total_issue. change (sumZ_with (amt_of g) (st :: sts)) with (amt_of g st + sumZ_with (amt_of g) sts).
      destruct sts as [|st2 sts].
      * unfold add256, wrap256. f_equal. unfold sumZ_with; simpl. lia.
      * unfold add256, wrap256. rewrite Zplus_mod_idemp_l. f_equal. lia.
    + intros a. rewrite Hm. unfold has_stake, issue_to. simpl.
      destruct (s_from st =? a)%N eqn:Ea.
      * apply N.eqb_eq in Ea. subst a. simpl. rewrite lookup_insert. cbn [default].
        fold (has_stake (s_from st) sts). fold (issue_to g sts (s_from st)).
        set (r := default reward0 (m !! s_from st)) in *.
        change (sumZ_with (amt_of g) (st :: List.filter (λ st0, (s_from st0 =? s_from st)%N) sts))
          with (amt_of g st + issue_to g sts (s_from st)).
        destruct (has_stake (s_from st) sts) eqn:Ehas.
        -- f_equal. unfold issued_record, id. cbn [r_height r_issued r_cumulated r_withdrawn r_slashed].
           rewrite Z.ltb_irrefl. unfold add256, wrap256. f_equal.
           ++ destruct (r_height r <? h); rewrite ?Zplus_mod_idemp_l; f_equal; lia.
           ++ rewrite Zplus_mod_idemp_l. f_equal. lia.
        -- rewrite (issue_to_none g sts _ Ehas), Z.add_0_r. f_equal. unfold issued_record.
           unfold add256, wrap256. f_equal.
           destruct (r_height r <? h); [symmetry; apply Z.mod_small; lia|reflexivity].
      * simpl. apply N.eqb_neq in Ea. rewrite lookup_insert_ne by assumption. reflexivity.
Qed.

(* moving the running total out of a pass *)
Lemma issue_shift g h sts : ∀ m i, in256 i →
  foldl (issue_step g h) (Ok (m, i)) sts =
  match foldl (issue_step g h) (Ok (m, 0)) sts with
  | Ok (m', j) => Ok (m', add256 i j) | Err e => Err e | Panic p => Panic p end.
Proof.
  induction sts as [|st sts IH]; intros m i Hi; simpl.
  - unfold add256. rewrite Z.add_0_r, wrap256_small by assumption. reflexivity.
  - destruct (reward_issue _ _ h) as [r1|].
    2:{ rewrite !issue_fold_stuck by discriminate. reflexivity. }
    rewrite (IH _ (add256 i _)) by apply wrap256_range.
    rewrite (IH _ (add256 0 _)) by apply wrap256_range.
    destruct (foldl _ (Ok (_, 0)) sts) as [[m' j]| |]; try reflexivity.
    f_equal. f_equal. unfold add256, wrap256. rewrite !Zplus_mod_idemp_l, Zplus_mod_idemp_r. f_equal. lia.
Qed.

(* the vote loop of process_votes *)
Definition vote_step (s : state) (old : ledgers) (h : Z) (acc : res (ledgers * Z)) (v : addr * Z * bool) : res (ledgers * Z) :=
  let g := gparams s in
  match acc with
  | Ok (l, issued) =>
    let '(a, pw, signed) := v in
    if signed : bool then
      match dels old !! a with
      | None => Ok (l, issued)
      | Some d => if negb (d_total d =? pw) then Ok (l, issued)
                  else match reward_to g h (rewards l) d with
                       | Ok (rw, iss) => Ok (set_rewards l rw, add256 issued iss)
                       | Err e => Err e | Panic p => Panic p end
      end
    else
      match dels l !! a with
      | None => Ok (l, issued)
      | Some d =>
          let sh := h - 1 in
          let m1 := mark (d_marks d) sh in
          let s0 := if sh - g_signedBlocksWindow g <? 0 then 0 else sh - g_signedBlocksWindow g in
          let '(cnt, m2) := count_in_window m1 s0 sh in
          let d1 := {| d_addr := d_addr d; d_self := d_self d; d_total := d_total d; d_stakes := d_stakes d; d_marks := m2 |} in
          let l1 := set_dels l (<[a := d1]> (dels l)) in
          if g_signedBlocksWindow g - cnt <? g_minSignedBlocks g then
            let '(_, ss) := del_all_stakes d1 in
            let l2 := set_frozen l1 (freeze_all (frozen l1) (h + g_lazyRewardBlocks g) ss) in
            Ok (set_dels l2 (delete a (dels l2)), issued)
          else Ok (l1, issued)
      end
  | x => x end.

Lemma process_votes_fold s l h votes old :
  ledgers_at s (hgt_of_power h) = Some old →
  process_votes s l h votes = foldl (vote_step s old h) (Ok (l, 0)) votes.
Proof. intros H. unfold process_votes. rewrite H. reflexivity. Qed.

Lemma vote_fold_stuck s old h votes (x : res (ledgers * Z)) :
  (∀ a, x ≠ Ok a) → foldl (vote_step s old h) x votes = x.
Proof.
  intros Hx. induction votes as [|v votes IH]; simpl; [reflexivity|].
  destruct x as [a| |]; [exfalso; eapply Hx; reflexivity| |]; exact IH.
Qed.

(* the reward side of the vote loop is one pass of doRewardTo's loop over all reward events *)
Lemma vote_fold_rewards s old h votes : ∀ l i l3 i3, in256 i →
  foldl (vote_step s old h) (Ok (l, i)) votes = Ok (l3, i3) →
  foldl (issue_step (gparams s) h) (Ok (rewards l, i)) (rewarded_stakes old votes) = Ok (rewards l3, i3).
Proof.
  induction votes as [|[[a pw] signed] votes IH]; intros l i l3 i3 Hi H.
  - simpl in *. injection H as <- <-. reflexivity.
  - simpl in H. unfold rewarded_stakes; simpl. fold (rewarded_stakes old votes).
    destruct signed.
    + destruct (dels old !! a) as [d|]; [|simpl; apply IH; assumption].
      destruct (d_total d =? pw); simpl negb in H; cbv iota in H; [|simpl; apply IH; assumption].
      rewrite foldl_app. rewrite issue_shift by assumption. rewrite <- reward_to_fold.
      destruct (reward_to (gparams s) h (rewards l) d) as [[rw iss]|e|p].
      * apply IH in H; [exact H|apply wrap256_range].
      * rewrite vote_fold_stuck in H by discriminate. discriminate.
      * rewrite vote_fold_stuck in H by discriminate. discriminate.
    + simpl. destruct (dels l !! a) as [d|]; [|apply IH; assumption].
      destruct (count_in_window _ _ _) as [cnt m2].
      destruct (_ <? g_minSignedBlocks (gparams s)); apply IH in H; try assumption; exact H.
Qed.

(* slashing never touches the reward ledger *)
Lemma stake_punish_rewards l ratio evi : rewards (stake_punish l ratio evi) = rewards l.
Proof.
  unfold stake_punish. revert l. induction evi as [|a evi IH]; intros l; simpl; [reflexivity|].
  rewrite IH. destruct (dels l !! a); reflexivity.
Qed.

Lemma gov_punish_rewards l ratio evi : rewards (gov_punish l ratio evi) = rewards l.
Proof.
  unfold gov_punish. revert l. induction evi as [|a evi IH]; intros l; simpl; [reflexivity|].
  rewrite IH. generalize (List.filter (λ kp : hash * proposal, match p_voters kp.2 !! a with Some _ => true | None => false end) (sorted_items (props l))).
  intros L. revert l. induction L as [|kp L IHL]; intros l; simpl; [reflexivity|].
  rewrite IHL. destruct (props l !! kp.1); reflexivity.
Qed.

(* the shape of a successful begin_block *)
Lemma begin_block_ok_inv s hd s' issued :
  begin_block s hd = (s', Ok issued) →
  h_height hd = last_height s + 1 ∧
  let l2 := stake_punish (gov_punish (work s) (g_slashRatio (gparams s)) (h_evidence hd)) (g_slashRatio (gparams s)) (h_evidence hd) in
  committed s' = committed s ∧ gparams s' = gparams s ∧ last_height s' = last_height s ∧
  b_height (bctx s') = h_height hd ∧
  ((h_votes hd = [] ∧ work s' = l2 ∧ issued = 0) ∨
   (h_votes hd ≠ [] ∧ ∃ s1, committed s1 = committed s ∧ gparams s1 = gparams s ∧
      process_votes s1 l2 (h_height hd) (h_votes hd) = Ok (work s', issued))).
Proof.
  unfold begin_block. intros H.
  destruct (negb (h_height hd =? last_height s + 1)) eqn:Eh; [discriminate|].
  apply negb_false_iff, Z.eqb_eq in Eh. split; [exact Eh|]. cbv zeta.
  destruct (h_votes hd) as [|v votes] eqn:Ev.
  - injection H as <- <-. simpl. repeat split. left. repeat split.
  - match type of H with (match process_votes ?s1 ?l2 ?h ?vs with _ => _ end) = _ =>
      destruct (process_votes s1 l2 h vs) as [[l3 iss]|e|p] eqn:Ep; try discriminate;
      injection H as <- <-; simpl; repeat split; right; split; [discriminate|]; exists s1; repeat split; exact Ep end.
Qed.

(* R1.  Issuance in a block.  [sts] are the reward events of the block: for every vote with
   signed = true, in order, the stakes of that validator as recorded at the height consensus
   derived its power from (provided the recorded total is the voting power).  Every account owning
   one of them earns the sum of power * rewardPerPower over its events; its cumulated reward grows
   by that, its per-height fields are set for this height; accounts owning none of them keep their
   record (or absence of record) as it was; the reported number is the total. *)
Theorem begin_block_rewards s hd s' issued old :
  begin_block s hd = (s', Ok issued) →
  ledgers_at s (hgt_of_power (h_height hd)) = Some old →
  let g := gparams s in let h := h_height hd in
  let sts := rewarded_stakes old (h_votes hd) in
  issued = total_issue g sts mod two256 ∧
  ∀ a, rewards (work s') !! a =
         if has_stake a sts
         then Some (issued_record (default reward0 (rewards (work s) !! a)) (issue_to g sts a) h)
         else rewards (work s) !! a.
Proof.
  intros Hb Hold g h sts.
  destruct (begin_block_ok_inv _ _ _ _ Hb) as (Hh & Hc & Hg & Hl & Hbh & Hcase).
  destruct Hcase as [(Hv & Hw & Hi)|(Hv & s1 & Hc1 & Hg1 & Hp)].
  - subst sts. rewrite Hv. simpl. split; [rewrite Hi; reflexivity|].
    intros a. rewrite Hw, stake_punish_rewards, gov_punish_rewards. reflexivity.
  - assert (Hold1 : ledgers_at s1 (hgt_of_power h) = Some old).
    { unfold ledgers_at in *. rewrite Hc1, Hg1. exact Hold. }
    rewrite (process_votes_fold _ _ _ _ _ Hold1) in Hp.
    apply vote_fold_rewards in Hp; [|unfold in256; split; [lia|reflexivity]].
    rewrite stake_punish_rewards, gov_punish_rewards, Hg1 in Hp.
    apply issue_fold_spec in Hp as [Hi Hm]. fold sts in Hi, Hm. split; [|exact Hm].
    rewrite Hi. destruct sts; reflexivity.
Qed.
Print Assumptions begin_block_rewards.

(* the exact (non-modular) reading of R1: powers in the int64 range, reward rate below 2^192,
   and no overflow of the account's cumulated reward *)
Corollary begin_block_rewards_exact s hd s' issued old a :
  begin_block s hd = (s', Ok issued) →
  ledgers_at s (hgt_of_power (h_height hd)) = Some old →
  0 ≤ g_rewardPerPower (gparams s) < 2 ^ 192 →
  (∀ st, st ∈ bonded_stakes old → 0 ≤ s_power st < two63) →
  let r := default reward0 (rewards (work s) !! a) in
  let sts := rewarded_stakes old (h_votes hd) in
  let E := sumZ_with (λ st, s_power st * g_rewardPerPower (gparams s)) (List.filter (λ st, (s_from st =? a)%N) sts) in
  0 ≤ r_cumulated r → r_cumulated r + E < two256 → has_stake a sts = true →
  ∃ r', rewards (work s') !! a = Some r' ∧ r_cumulated r' = r_cumulated r + E ∧ r_height r' = h_height hd ∧
        r_issued r' = (if r_height r <? h_height hd then E else r_issued r + E) mod two256 ∧
        r_withdrawn r' = r_withdrawn r ∧ r_slashed r' = r_slashed r.
Proof.
  intros Hb Hold Hrpp Hpw r sts E Hc0 Hc1 Hhas.
  destruct (begin_block_rewards _ _ _ _ _ Hb Hold) as [_ Hm]. cbv zeta in Hm. fold sts in Hm.
  specialize (Hm a). rewrite Hhas in Hm. fold r in Hm.
  assert (HE : issue_to (gparams s) sts a = E).
  { unfold issue_to, E.
    assert (Hall : ∀ st, In st sts → 0 ≤ s_power st < two63).
    { intros st Hst. apply Hpw. unfold sts, rewarded_stakes in Hst. apply in_flat_map in Hst as ([[v pw] sg] & _ & Hst).
      unfold rewarded in Hst. destruct sg; [|contradiction]. destruct (dels old !! v) as [d|] eqn:Ed; [|contradiction].
      destruct (d_total d =? pw); [|contradiction].
      unfold bonded_stakes. apply elem_of_list_In, in_concat. exists (d_stakes d). split; [|exact Hst].
      apply elem_of_list_In, elem_of_list_fmap. exists (v, d). split; [reflexivity|]. apply elem_of_map_to_list, Ed. }
    clear -Hall Hrpp. induction sts as [|st sts IH]; [reflexivity|]. simpl.
    destruct (s_from st =? a)%N.
    - change (amt_of (gparams s) st + sumZ_with (amt_of (gparams s)) (List.filter (λ st0, (s_from st0 =? a)%N) sts)
              = s_power st * g_rewardPerPower (gparams s) + sumZ_with (λ st0, s_power st0 * g_rewardPerPower (gparams s)) (List.filter (λ st0, (s_from st0 =? a)%N) sts)).
      rewrite IH by (intros; apply Hall; right; assumption). rewrite amt_of_exact; [reflexivity| |assumption].
      apply Hall. left. reflexivity.
    - apply IH. intros; apply Hall; right; assumption. }
  rewrite HE in Hm. pose proof (issue_to_nonneg (gparams s) sts a) as HE0. rewrite HE in HE0.
  eexists. split; [exact Hm|]. simpl. repeat split. apply Z.mod_small. lia.
Qed.

(* ================================================================== the height panic is unreachable *)
(* [reward_issue] (and exeWithdraw) refuse a record whose height is above the block height; the
   model turns that into Panic P_REWARD_HEIGHT.  Along every run records never run ahead. *)
Definition rewards_height_ok (s : state) : Prop :=
  0 ≤ last_height s ∧ 0 ≤ b_height (bctx s) ≤ last_height s + 1 ∧
  ∀ a r, rewards (work s) !! a = Some r → r_height r ≤ b_height (bctx s).

Lemma deliver_heights s t :
  b_height (bctx (deliver s t).1) = b_height (bctx s) ∧ last_height (deliver s t).1 = last_height s.
Proof.
  destruct (deliver s t) as [s' r] eqn:Hd. simpl. unfold deliver in Hd.
  destruct (accts (work s) !! t_from t) as [sender|] eqn:Es; [|injection Hd as <- _; split; reflexivity].
  cbv zeta in Hd. cbn [work with_bctx] in Hd.
  destruct (find_or_new (work s) (t_to t)) as [l0 receiver] eqn:Ef.
  step_in Hd Ecv0; [injection Hd as <- _; split; reflexivity|].
  step_in Hd Ecv1; [injection Hd as <- _; split; reflexivity|].
  step_in Hd Eval; [|injection Hd as <- _; split; reflexivity|injection Hd as <- _; split; reflexivity].
  step_in Hd Eevm.
  - step_in Hd Ex; [destruct a0|..]; injection Hd as <- _; split; reflexivity.
  - step_in Hd Ex; [|injection Hd as <- _; split; reflexivity|injection Hd as <- _; split; reflexivity].
    step_in Hd Esnd; [|injection Hd as <- _; split; reflexivity].
    step_in Hd Efee; injection Hd as <- _; split; reflexivity.
Qed.

(* whatever a withdrawal answers, the reward ledger is either unchanged or has the sender's
   record replaced by the withdrawn one *)
Lemma deliver_withdraw_rewards_cases s t :
  t_type t = TRX_WITHDRAW →
  rewards (work (deliver s t).1) = rewards (work s) ∨
  ∃ req r, t_payload t = PWithdraw req ∧ rewards (work s) !! t_from t = Some r ∧
           rewards (work (deliver s t).1) = <[t_from t := withdrawn_record r req (b_height (bctx s))]> (rewards (work s)).
Proof.
  intros Hty. rewrite deliver_withdraw_eq by assumption.
  destruct (deliver_w s t) as [s' res] eqn:Hd. simpl. unfold deliver_w in Hd.
  destruct (accts (work s) !! t_from t) as [sender|] eqn:Es; [|injection Hd as <- _; left; reflexivity].
  cbv zeta in Hd. cbn [work with_bctx] in Hd.
  pose proof (find_or_new_frame (work s) (t_to t)) as F. cbv zeta in F.
  destruct (find_or_new (work s) (t_to t)) as [l0 receiver] eqn:Ef. simpl in F.
  destruct F as (_ & _ & Frw & _).
  step_in Hd Ecv0; [injection Hd as <- _; left; exact Frw|].
  step_in Hd Ecv1; [injection Hd as <- _; left; exact Frw|].
  step_in Hd Eval; [|injection Hd as <- _; left; exact Frw|injection Hd as <- _; left; exact Frw].
  rewrite stake_execute_withdraw in Hd by assumption. cbv zeta in Hd.
  cbn [work with_work with_bctx with_lim bctx b_height] in Hd.
  destruct (t_payload t) as [| |req| | | |] eqn:Epl; try (injection Hd as <- _; left; exact Frw).
  rewrite Frw in Hd.
  destruct (rewards (work s) !! t_from t) as [r|] eqn:Er; [|injection Hd as <- _; left; exact Frw].
  destruct (r_height r >? b_height (bctx s)) eqn:Eh; [injection Hd as <- _; left; exact Frw|].
  fold (withdrawn_record r req (b_height (bctx s))) in Hd.
  destruct (acct_reward _ (t_from t) req) as [l2|] eqn:Ear; [|injection Hd as <- _; left; exact Frw].
  apply acct_reward_rewards in Ear. cbn [rewards set_rewards] in Ear.
  step_in Hd Esnd; [|injection Hd as <- _; left; exact Frw].
  step_in Hd Efee; injection Hd as <- _; right; exists req, r; (split; [reflexivity|split; [reflexivity|exact Ear]]).
Qed.

Lemma init_chain_rewards g : rewards (work (init_chain g)) = ∅.
Proof.
  unfold init_chain. cbn [work].
  assert (H1 : ∀ hs l, rewards (foldl (λ l (h : addr * Z), set_acct l h.1 {| a_nonce := 0; a_bal := h.2; a_code := false; a_name := 0%N; a_doc := 0%N |}) l hs) = rewards l).
  { induction hs as [|x hs IH]; intros l; simpl; [reflexivity|]. rewrite IH. reflexivity. }
  assert (H2 : ∀ (vs : list (addr * Z)) l, rewards (foldl (λ l v, (find_or_new l v.1).1) l vs) = rewards l).
  { induction vs as [|x vs IH]; intros l; simpl; [reflexivity|]. rewrite IH.
    destruct (find_or_new_frame l x.1) as (_ & _ & H & _). exact H. }
  assert (H3 : ∀ (vs : list (addr * Z)) l, rewards (foldl (λ l v, set_dels l (<[v.1 := add_stake (new_delegatee v.1)
               {| s_from := v.1; s_to := v.1; s_hash := 0%N; s_start := 1; s_refund := 0; s_power := v.2 |}]> (dels l))) l vs) = rewards l).
  { induction vs as [|x vs IH]; intros l; simpl; [reflexivity|]. rewrite IH. reflexivity. }
  rewrite H3, H2, H1. reflexivity.
Qed.

(* a pass of doRewardTo's loop over records that are not ahead of [h] always succeeds and keeps
   them so *)
Lemma issue_fold_total g h sts : ∀ m i,
  0 ≤ h → (∀ a r, m !! a = Some r → r_height r ≤ h) →
  ∃ m' i', foldl (issue_step g h) (Ok (m, i)) sts = Ok (m', i') ∧ (∀ a r, m' !! a = Some r → r_height r ≤ h).
Proof.
  induction sts as [|st sts IH]; intros m i Hh Hm; simpl.
  - eauto.
  - unfold reward_issue.
    assert (Hr : r_height (default reward0 (m !! s_from st)) ≤ h).
    { destruct (m !! s_from st) as [r|] eqn:E; simpl; [eapply Hm, E|exact Hh]. }
    destruct (h <? _) eqn:E; [lia|]. apply IH; [exact Hh|].
    intros a r Ha. destruct (decide (a = s_from st)) as [->|Hne].
    + rewrite lookup_insert in Ha. injection Ha as <-. simpl. lia.
    + rewrite lookup_insert_ne in Ha by congruence. eapply Hm, Ha.
Qed.

Lemma vote_fold_total s old h votes : ∀ l i,
  0 ≤ h → (∀ a r, rewards l !! a = Some r → r_height r ≤ h) →
  ∃ l' i', foldl (vote_step s old h) (Ok (l, i)) votes = Ok (l', i') ∧ (∀ a r, rewards l' !! a = Some r → r_height r ≤ h).
Proof.
  induction votes as [|[[a pw] signed] votes IH]; intros l i Hh Hl; simpl.
  - eauto.
  - destruct signed.
    + destruct (dels old !! a) as [d|]; [|apply IH; assumption].
      destruct (negb (d_total d =? pw)); [apply IH; assumption|].
      rewrite reward_to_fold.
      destruct (issue_fold_total (gparams s) h (d_stakes d) (rewards l) 0 Hh Hl) as (m' & i' & -> & Hm').
      apply IH; assumption.
    + destruct (dels l !! a) as [d|]; [|apply IH; assumption].
      destruct (count_in_window _ _ _) as [cnt m2].
      destruct (_ <? g_minSignedBlocks (gparams s)); apply IH; assumption.
Qed.

(* begin_block answers Ok whenever the height is the next one and the ledger version the voting
   power came from can be loaded; in particular the reward-height panic is unreachable *)
Theorem begin_block_total s hd :
  rewards_height_ok s → h_height hd = last_height s + 1 →
  h_votes hd = [] ∨ ledgers_at s (hgt_of_power (h_height hd)) ≠ None →
  ∃ issued, (begin_block s hd).2 = Ok issued.
Proof.
  intros (Hl & Hb & Hr) Hh Hv. unfold begin_block.
  rewrite Hh, Z.eqb_refl. cbn [negb]. cbv zeta.
  destruct (h_votes hd) as [|v votes] eqn:Ev; [eexists; reflexivity|].
  destruct Hv as [Hv|Hv]; [discriminate|].
  destruct (ledgers_at s (hgt_of_power (last_height s + 1))) as [old|] eqn:Eold; [|rewrite Hh in Hv; contradiction].
  match goal with |- context [process_votes ?s1 ?l2 ?h ?vs] =>
    assert (Hp : ∃ l' i', process_votes s1 l2 h vs = Ok (l', i')) end.
  { erewrite process_votes_fold; [|exact Eold].
    edestruct vote_fold_total as (l' & i' & Hf & _); [| |eauto]; [lia|].
    intros a r Ha. rewrite stake_punish_rewards, gov_punish_rewards in Ha. apply Hr in Ha. lia. }
  destruct Hp as (l' & i' & ->). eexists; reflexivity.
Qed.

Theorem begin_block_no_reward_panic s hd :
  rewards_height_ok s → (begin_block s hd).2 ≠ Panic P_REWARD_HEIGHT.
Proof.
  intros Hok.
  destruct (Z.eq_dec (h_height hd) (last_height s + 1)) as [Hh|Hh].
  - destruct (h_votes hd) as [|v votes] eqn:Ev.
    + destruct (begin_block_total s hd Hok Hh (or_introl Ev)) as (i & ->). discriminate.
    + destruct (ledgers_at s (hgt_of_power (h_height hd))) as [old|] eqn:Eold.
      * destruct (begin_block_total s hd Hok Hh) as (i & ->); [right; congruence|discriminate].
      * unfold begin_block. rewrite Hh, Z.eqb_refl. cbn [negb]. cbv zeta. rewrite Ev.
        unfold process_votes. cbn [committed gparams ledgers_at]. unfold ledgers_at in Eold |- *.
        cbn [committed gparams]. rewrite <- Hh, Eold. discriminate.
  - unfold begin_block. apply Z.eqb_neq in Hh. rewrite Hh. discriminate.
Qed.

(* the invariant holds along every run *)
Lemma rewards_height_ok_init g : rewards_height_ok (init_chain g).
Proof.
  unfold rewards_height_ok. rewrite init_chain_rewards. simpl. repeat split; try lia.
  intros a r H. rewrite lookup_empty in H. discriminate.
Qed.

Lemma rewards_height_ok_step s o : rewards_height_ok s → rewards_height_ok (sstep s o).
Proof.
  intros (Hl & Hb & Hr). destruct o as [hd|t| |]; simpl.
  - (* begin_block *)
    unfold begin_block. destruct (negb (h_height hd =? last_height s + 1)) eqn:Eh; [exact (conj Hl (conj Hb Hr))|].
    apply negb_false_iff, Z.eqb_eq in Eh. cbv zeta.
    assert (Hl2 : ∀ a r, rewards (stake_punish (gov_punish (work s) (g_slashRatio (gparams s)) (h_evidence hd)) (g_slashRatio (gparams s)) (h_evidence hd)) !! a = Some r → r_height r ≤ h_height hd).
    { intros a r Ha. rewrite stake_punish_rewards, gov_punish_rewards in Ha. apply Hr in Ha. lia. }
    destruct (h_votes hd) as [|v votes] eqn:Ev; [unfold rewards_height_ok; simpl; repeat split; try lia; exact Hl2|].
    match goal with |- context [process_votes ?s1 ?l2 ?h ?vs] =>
      destruct (process_votes s1 l2 h vs) as [[l3 iss]|e|p] eqn:Ep; try (unfold rewards_height_ok; simpl; repeat split; try lia; exact Hl2) end.
    unfold rewards_height_ok; simpl. repeat split; try lia.
    unfold process_votes in Ep. destruct (ledgers_at _ _) as [old|]; [|discriminate].
    edestruct vote_fold_total as (l' & i' & Hf & Hl'); [| |fold (vote_step {| committed := committed s; work := stake_punish (gov_punish (work s) (g_slashRatio (gparams s)) (h_evidence hd)) (g_slashRatio (gparams s)) (h_evidence hd); gparams := gparams s; newparams := newparams s; alldels := sort_power (List.filter (λ d, min_power (gparams s) <=? d_self d) (snd <$> sorted_items (dels (base_of s)))); lastvals := lastvals s; lim := limiter_reset (sort_power (List.filter (λ d, min_power (gparams s) <=? d_self d) (snd <$> sorted_items (dels (base_of s))))) (gparams s); bctx := {| b_height := h_height hd; b_proposer := h_proposer hd; b_feesum := 0; b_txs := 0 |}; last_height := last_height s |} old (h_height hd)) in Ep; rewrite Hf in Ep; injection Ep as <- _; exact Hl']; [lia|exact Hl2].
  - (* deliver *)
    destruct (deliver_heights s t) as [Hbh Hlh]. unfold rewards_height_ok. rewrite Hbh, Hlh.
    repeat split; try lia.
    destruct (Z.eq_dec (t_type t) TRX_WITHDRAW) as [Hty|Hty].
    + destruct (deliver_withdraw_rewards_cases s t Hty) as [->|(req & r0 & _ & _ & ->)]; [exact Hr|].
      intros a r Ha. destruct (decide (a = t_from t)) as [->|Hne].
      * rewrite lookup_insert in Ha. injection Ha as <-. simpl. lia.
      * rewrite lookup_insert_ne in Ha by congruence. eapply Hr, Ha.
    + rewrite deliver_rewards_other by assumption. exact Hr.
  - (* end_block *)
    unfold rewards_height_ok. rewrite end_block_rewards.
    assert (Hc : bctx (end_block s).1 = bctx s ∧ last_height (end_block s).1 = last_height s).
    { unfold end_block.
      destruct (freeze_proposals _ _ _) as [l1| |]; try (split; reflexivity).
      destruct (apply_proposals _ _ _ _) as [[l2 np]| |]; try (split; reflexivity).
      destruct (match b_proposer (bctx s) with Some pa => _ | None => Some l2 end) as [l3|]; try (split; reflexivity).
      destruct (unfreeze _ _ _) as [l4| |]; try (split; reflexivity).
      destruct (g_maxValidatorCnt (gparams s) <? 0); split; reflexivity. }
    destruct Hc as [-> ->]. repeat split; assumption || lia.
  - (* commit *)
    unfold rewards_height_ok, commit; simpl. repeat split; try lia. exact Hr.
Qed.

Theorem rewards_height_ok_run g ops : rewards_height_ok (srun (init_chain g) ops).
Proof.
  unfold srun. generalize (rewards_height_ok_init g). generalize (init_chain g).
  induction ops as [|o ops IH]; intros s Hs; simpl; [exact Hs|]. apply IH, rewards_height_ok_step, Hs.
Qed.
Print Assumptions rewards_height_ok_run.
Print Assumptions begin_block_total.

(* on a run from genesis no BeginBlock ends in the reward-height panic *)
Corollary run_no_reward_panic g ops hd :
  (begin_block (srun (init_chain g) ops) hd).2 ≠ Panic P_REWARD_HEIGHT.
Proof. apply begin_block_no_reward_panic, rewards_height_ok_run. Qed.

(* nor does a withdrawal *)
Lemma withdraw_no_reward_panic s t :
  rewards_height_ok s → t_type t = TRX_WITHDRAW → (deliver s t).2 ≠ Panic P_REWARD_HEIGHT.
Proof.
  intros (_ & _ & Hr) Hty. rewrite deliver_withdraw_eq by assumption. unfold deliver_w.
  destruct (accts (work s) !! t_from t) as [sender|] eqn:Es; [|discriminate].
  cbv zeta. cbn [work with_bctx].
  pose proof (find_or_new_frame (work s) (t_to t)) as F. cbv zeta in F.
  destruct (find_or_new (work s) (t_to t)) as [l0 receiver] eqn:Ef. simpl in F.
  destruct F as (_ & _ & Frw & _).
  destruct (common_validation0 _ _); [discriminate|]. destruct (common_validation1 _ _); [discriminate|].
  rewrite stake_validate_withdraw by assumption.
  destruct (negb (t_amount t =? 0)); [discriminate|].
  destruct (t_payload t) as [| |req| | | |] eqn:Epl; try discriminate.
  cbn [work with_work with_bctx]. rewrite Frw.
  destruct (rewards (work s) !! t_from t) as [r|] eqn:Er; [|discriminate].
  destruct (r_cumulated r <? req); [discriminate|].
  rewrite stake_execute_withdraw by assumption. cbv zeta.
  cbn [work with_work with_bctx with_lim bctx b_height]. rewrite Epl, Frw, Er.
  apply Hr in Er. destruct (r_height r >? b_height (bctx s)) eqn:E; [lia|].
  destruct (acct_reward _ _ _) as [l2|]; [|discriminate].
  destruct (accts l2 !! t_from t) as [snd'|]; [|discriminate].
  destruct (sub_balance snd' (fee_of t)); discriminate.
Qed.

(* ------------------------------------------------------------------ no transaction ends in the reward-height panic *)
Ltac step_all H := repeat (let E := fresh "E" in step_in H E).

Lemma check_limit_panic sl da dt diff p : check_limit sl da dt diff = Panic p → p = P_LIMITER_DIV.
Proof.
  unfold check_limit. intros H. cbv zeta in H.
  destruct (lim_objs sl) as [objs|]; [|discriminate].
  step_all H; try discriminate; injection H as <-; reflexivity.
Qed.

Lemma stake_validate_panic s t p : stake_validate s t = Panic p → p ≠ P_REWARD_HEIGHT.
Proof.
  unfold stake_validate. intros H. cbv zeta in H.
  destruct (t_type t =? TRX_STAKING).
  - destruct (t_amount t / amountPerPower <=? 0); [discriminate|].
    destruct (negb (t_amount t mod amountPerPower =? 0)); [discriminate|].
    destruct (amount_to_power (t_amount t)) as [txp|]; [|injection H as <-; discriminate].
    step_in H Eself.
    + (* self/delegation check passed *)
      destruct (wrap64 (a + txp) <=? 0); [injection H as <-; discriminate|].
      destruct (3 <=? Z.of_nat (length (lastvals s))); [|discriminate].
      apply check_limit_panic in H. subst p. discriminate.
    + discriminate.
    + injection H as <-. step_all Eself; try discriminate; injection Eself as <-; discriminate.
  - destruct (t_type t =? TRX_UNSTAKING).
    + destruct (dels (work s) !! t_to t) as [d|]; [|discriminate].
      destruct (t_payload t) as [|h ok| | | | |]; try (injection H as <-; discriminate).
      destruct (negb ok); [discriminate|].
      destruct (find_stake h (d_stakes d)) as [s0|]; [|discriminate].
      destruct (negb (s_from s0 =? t_from t)%N); [discriminate|].
      destruct (3 <=? Z.of_nat (length (lastvals s))); [|discriminate].
      apply check_limit_panic in H. subst p. discriminate.
    + destruct (negb (t_amount t =? 0)); [discriminate|].
      destruct (t_payload t); try discriminate.
      destruct (rewards (work s) !! t_from t) as [r|]; [|discriminate].
      destruct (r_cumulated r <? _); discriminate.
Qed.

Lemma acct_execute_panic l t p : acct_execute l t = Panic p → p = P_ENDBLOCK.
Proof.
  unfold acct_execute. intros H. step_all H; try discriminate; injection H as <-; reflexivity.
Qed.

Lemma gov_execute_no_panic s l t p : gov_execute s l t ≠ Panic p.
Proof. unfold gov_execute. intros H. step_all H; discriminate. Qed.

Lemma evm_execute_no_panic l t p : evm_execute l t ≠ Panic p.
Proof. unfold evm_execute. intros H. step_all H; discriminate. Qed.

Lemma stake_execute_no_panic s l t p :
  (t_type t =? TRX_STAKING) || (t_type t =? TRX_UNSTAKING) = true → stake_execute s l t ≠ Panic p.
Proof.
  unfold stake_execute. intros Hty H. cbv zeta in H.
  destruct (t_type t =? TRX_STAKING).
  - step_all H; discriminate.
  - simpl in Hty. rewrite Hty in H.
    destruct (dels l !! t_to t) as [d|]; [|discriminate].
    destruct (t_payload t) as [|hs ok| | | | |]; try discriminate.
    destruct (find_stake hs (d_stakes d)) as [s0|]; [|discriminate].
    destruct (negb (s_from s0 =? t_from t)%N); [discriminate|].
    destruct (if d_self (del_stake d hs) =? 0 then _ else _) as [d2 fr2].
    destruct (d_total d2 =? 0); discriminate.
Qed.

(* on states where reward records are not ahead of the block no DeliverTx ends in Panic P_REWARD_HEIGHT *)
Theorem deliver_no_reward_panic s t :
  rewards_height_ok s → (deliver s t).2 ≠ Panic P_REWARD_HEIGHT.
Proof.
  intros Hok. destruct (Z.eq_dec (t_type t) TRX_WITHDRAW) as [Hty|Hty]; [apply withdraw_no_reward_panic; assumption|].
  destruct (deliver s t) as [s' r] eqn:Hd. simpl. intros ->. unfold deliver in Hd.
  destruct (accts (work s) !! t_from t) as [sender|] eqn:Es; [|discriminate].
  cbv zeta in Hd. cbn [work with_bctx] in Hd.
  destruct (find_or_new (work s) (t_to t)) as [l0 receiver] eqn:Ef.
  step_in Hd Ecv0; [discriminate|].
  step_in Hd Ecv1; [discriminate|].
  step_in Hd Eval; [|discriminate|].
  2:{ (* a panic of validation *)
      injection Hd as _ ->.
      destruct ((t_type t =? TRX_PROPOSAL) || (t_type t =? TRX_VOTING)); [destruct (gov_validate _ t); discriminate|].
      destruct ((t_type t =? TRX_TRANSFER) || (t_type t =? TRX_SETDOC)); [destruct (acct_validate t); discriminate|].
      destruct ((t_type t =? TRX_STAKING) || (t_type t =? TRX_UNSTAKING) || (t_type t =? TRX_WITHDRAW)).
      - apply stake_validate_panic in Eval. contradiction.
      - destruct (t_type t =? TRX_CONTRACT); [destruct (evm_validate receiver t)|]; discriminate. }
  step_in Hd Eevm.
  - step_in Hd Ex; [destruct a0; discriminate|discriminate|]. eapply evm_execute_no_panic, Ex.
  - step_in Hd Ex; [|discriminate|].
    + step_in Hd Esnd; [|discriminate]. step_in Hd Efee; discriminate.
    + injection Hd as _ ->.
      destruct ((t_type t =? TRX_PROPOSAL) || (t_type t =? TRX_VOTING)) eqn:Eg; [eapply gov_execute_no_panic, Ex|].
      destruct ((t_type t =? TRX_TRANSFER) || (t_type t =? TRX_SETDOC)) eqn:Ea; [apply acct_execute_panic in Ex; discriminate|].
      eapply stake_execute_no_panic; [|exact Ex].
      apply orb_false_iff in Eevm as [E6 _]. rewrite E6 in Eval.
      destruct (t_type t =? TRX_STAKING) eqn:E2; [reflexivity|].
      destruct (t_type t =? TRX_UNSTAKING) eqn:E3; [reflexivity|].
      destruct (t_type t =? TRX_WITHDRAW) eqn:E8; [apply Z.eqb_eq in E8; contradiction|].
      simpl in Eval. discriminate.
Qed.
Print Assumptions deliver_no_reward_panic.

(* ================================================================== R2: the ledger identity along runs *)
(* the withdrawable reward of an account (no record = nothing) *)
Definition cum_of (s : state) (a : addr) : Z := r_cumulated (default reward0 (rewards (work s) !! a)).

(* ghost bookkeeping: what one operation issues to [a] (R1's formula) and what [a] withdraws in it *)
Definition step_issue (s : state) (o : sop) (a : addr) : Z :=
  match o with
  | SBegin hd =>
      match (begin_block s hd).2, ledgers_at s (hgt_of_power (h_height hd)) with
      | Ok _, Some old => issue_to (gparams s) (rewarded_stakes old (h_votes hd)) a
      | _, _ => 0
      end
  | _ => 0
  end.
Definition step_withdraw (s : state) (o : sop) (a : addr) : Z :=
  match o with
  | SDeliver t =>
      if (t_type t =? TRX_WITHDRAW) && (t_from t =? a)%N then
        match (deliver s t).2, t_payload t with Ok _, PWithdraw req => req | _, _ => 0 end
      else 0
  | _ => 0
  end.
Fixpoint issued_to (s : state) (ops : list sop) (a : addr) : Z :=
  match ops with [] => 0 | o :: r => step_issue s o a + issued_to (sstep s o) r a end.
Fixpoint withdrawn_by (s : state) (ops : list sop) (a : addr) : Z :=
  match ops with [] => 0 | o :: r => step_withdraw s o a + withdrawn_by (sstep s o) r a end.

(* side conditions on the withdrawals of a run: the payload is a uint256, the parameters and the
   transaction are in range, and crediting the reward does not wrap the sender's balance (see
   [withdraw_fail_frame_refuted] for why the last one is needed) *)
Definition step_wf (s : state) (o : sop) : Prop :=
  match o with
  | SDeliver t =>
      t_type t = TRX_WITHDRAW →
      payload_wf t ∧ params_ok (gparams s) ∧ tx_wf t ∧
      (∀ req sender, t_payload t = PWithdraw req → accts (work s) !! t_from t = Some sender →
                     0 ≤ a_bal sender ∧ a_bal sender + req < two256)
  | _ => True
  end.
Fixpoint run_wf (s : state) (ops : list sop) : Prop :=
  match ops with [] => True | o :: r => step_wf s o ∧ run_wf (sstep s o) r end.

Definition cum_ok (s : state) : Prop := ∀ a r, rewards (work s) !! a = Some r → 0 ≤ r_cumulated r < two256.

Lemma cum_of_range s a : cum_ok s → 0 ≤ cum_of s a < two256.
Proof.
  intros H. unfold cum_of. destruct (rewards (work s) !! a) as [r|] eqn:E; simpl; [eapply H, E|].
  split; [lia|reflexivity].
Qed.

Lemma begin_block_notok_rewards s hd :
  match (begin_block s hd).2 with Ok _ => True | _ => rewards (work (begin_block s hd).1) = rewards (work s) end.
Proof.
  unfold begin_block. destruct (negb (h_height hd =? last_height s + 1)); [reflexivity|]. cbv zeta.
  destruct (h_votes hd) as [|v votes]; [exact I|].
  match goal with |- context [process_votes ?s1 ?l2 ?h ?vs] =>
    destruct (process_votes s1 l2 h vs) as [[l3 iss]|e|p]; simpl; [exact I| |] end;
  rewrite stake_punish_rewards, gov_punish_rewards; reflexivity.
Qed.

Lemma mod_in_range x : 0 ≤ x `mod` two256 < two256.
Proof. apply Z.mod_pos_bound. reflexivity. Qed.

(* one operation *)
Lemma step_cum s o a :
  cum_ok s → step_wf s o →
  cum_of (sstep s o) a = (cum_of s a + step_issue s o a - step_withdraw s o a) mod two256 ∧
  0 ≤ step_issue s o a ∧ 0 ≤ step_withdraw s o a ≤ cum_of s a ∧
  (step_issue s o a = 0 ∨ step_withdraw s o a = 0).
Proof.
  intros Hok Hwf. pose proof (cum_of_range s a Hok) as Hc.
  assert (Hsame : ∀ s', rewards (work s') = rewards (work s) → cum_of s' a = (cum_of s a + 0 - 0) mod two256).
  { intros s' E. unfold cum_of. rewrite E. fold (cum_of s a). rewrite Z.add_0_r, Z.sub_0_r, Z.mod_small by lia. reflexivity. }
  destruct o as [hd|t| |]; simpl.
  - (* begin_block *)
    pose proof (begin_block_notok_rewards s hd) as Hnok.
    destruct (begin_block s hd) as [s' res] eqn:Hb. simpl in *.
    destruct res as [issued|e|p]; [|rewrite Hsame by exact Hnok; repeat split; try lia; try (left; reflexivity)..].
    destruct (ledgers_at s (hgt_of_power (h_height hd))) as [old|] eqn:Eold.
    + destruct (begin_block_rewards _ _ _ _ _ Hb Eold) as [_ Hm]. cbv zeta in Hm. specialize (Hm a).
      pose proof (issue_to_nonneg (gparams s) (rewarded_stakes old (h_votes hd)) a) as Hi.
      split; [|repeat split; try lia; try (right; reflexivity)].
      unfold cum_of at 1. rewrite Hm.
      destruct (has_stake a _) eqn:Ehas.
      * simpl. fold (cum_of s a). f_equal. lia.
      * fold (cum_of s a). rewrite (issue_to_none _ _ _ Ehas), Z.add_0_r, Z.sub_0_r, Z.mod_small by lia. reflexivity.
    + destruct (begin_block_ok_inv _ _ _ _ Hb) as (_ & _ & _ & _ & _ & Hcase).
      destruct Hcase as [(_ & Hw & _)|(_ & s1 & Hc1 & Hg1 & Hp)].
      * rewrite Hsame by (rewrite Hw, stake_punish_rewards, gov_punish_rewards; reflexivity).
        repeat split; try lia; try (left; reflexivity).
      * exfalso. unfold process_votes in Hp. unfold ledgers_at in Hp, Eold. rewrite Hc1, Hg1, Eold in Hp. discriminate.
  - (* deliver *)
    destruct (t_type t =? TRX_WITHDRAW) eqn:Ety.
    + apply Z.eqb_eq in Ety. destruct (Hwf Ety) as (Hpw & Hg & Htx & Hnw).
      destruct (deliver s t) as [s' res] eqn:Hd. simpl.
      destruct res as [gas|e|p].
      * destruct (withdraw_ok_inv _ _ _ _ Hd Ety) as (req & r & sender & bal' & Hpl & _ & _ & _ & Hr & Hle & _ & _ & _ & _ & _ & Hrw' & _).
        unfold payload_wf in Hpw. rewrite Hpl in Hpw. rewrite Hpl.
        destruct (t_from t =? a)%N eqn:Ea; simpl.
        -- apply N.eqb_eq in Ea. subst a.
           assert (Hcr : cum_of s (t_from t) = r_cumulated r) by (unfold cum_of; rewrite Hr; reflexivity).
           split; [|repeat split; try lia; try (left; reflexivity)].
           unfold cum_of at 1. rewrite Hrw', lookup_insert. simpl. unfold sub256, wrap256. f_equal. lia.
        -- apply N.eqb_neq in Ea. split; [|repeat split; try lia; try (left; reflexivity)].
           unfold cum_of at 1. rewrite Hrw', lookup_insert_ne by assumption. fold (cum_of s a).
           rewrite Z.add_0_r, Z.sub_0_r, Z.mod_small by lia. reflexivity.
      * destruct (withdraw_fail_frame _ _ _ _ Hd Ety) as [(_ & _ & _ & Hrw & _) _]; [discriminate|assumption|assumption| |].
        { intros req sender H1 H2. unfold payload_wf in Hpw. rewrite H1 in Hpw. destruct (Hnw _ _ H1 H2). lia. }
        rewrite Hsame by (symmetry; exact Hrw).
        assert (Hz : (if (t_from t =? a)%N then 0 else 0) = 0) by (destruct (t_from t =? a)%N; reflexivity).
        simpl. rewrite Hz. repeat split; try lia; try (left; reflexivity).
      * destruct (withdraw_fail_frame _ _ _ _ Hd Ety) as [(_ & _ & _ & Hrw & _) _]; [discriminate|assumption|assumption| |].
        { intros req sender H1 H2. unfold payload_wf in Hpw. rewrite H1 in Hpw. destruct (Hnw _ _ H1 H2). lia. }
        rewrite Hsame by (symmetry; exact Hrw).
        assert (Hz : (if (t_from t =? a)%N then 0 else 0) = 0) by (destruct (t_from t =? a)%N; reflexivity).
        simpl. rewrite Hz. repeat split; try lia; try (left; reflexivity).
    + apply Z.eqb_neq in Ety. simpl. rewrite Hsame by (apply deliver_rewards_other, Ety).
      repeat split; try lia; try (left; reflexivity).
  - rewrite Hsame by apply end_block_rewards. repeat split; try lia; try (left; reflexivity).
  - rewrite Hsame by reflexivity. repeat split; try lia; try (left; reflexivity).
Qed.

Lemma step_cum_ok s o : cum_ok s → step_wf s o → cum_ok (sstep s o).
Proof.
  intros Hok Hwf a r Hr. pose proof (step_cum s o a Hok Hwf) as (Hc & _).
  unfold cum_of at 1 in Hc. rewrite Hr in Hc. simpl in Hc. rewrite Hc. apply mod_in_range.
Qed.

(* R2, run level, modular form: along any run whose withdrawals are well-formed, the withdrawable
   reward is everything issued minus everything withdrawn (mod 2^256; exact below). *)
Theorem reward_identity_mod s ops a :
  cum_ok s → run_wf s ops →
  cum_of (srun s ops) a = (cum_of s a + issued_to s ops a - withdrawn_by s ops a) mod two256.
Proof.
  revert s. induction ops as [|o ops IH]; intros s Hok Hwf; simpl.
  - pose proof (cum_of_range s a Hok). rewrite Z.add_0_r, Z.sub_0_r, Z.mod_small by lia. reflexivity.
  - destruct Hwf as [Hw Hwf]. change (srun (sstep s o) ops) with (foldl sstep (sstep s o) ops) in IH.
    unfold srun in IH. rewrite IH by (try apply step_cum_ok; assumption).
    destruct (step_cum s o a Hok Hw) as (-> & _). rewrite <- Z.add_sub_assoc, Zplus_mod_idemp_l. f_equal. lia.
Qed.

(* R2, run level, exact: as long as the total ever issued to [a] fits a uint256, the withdrawable
   reward is exactly issued minus withdrawn, and withdrawals never exceed issuance. *)
Theorem reward_identity s ops a :
  cum_ok s → run_wf s ops → cum_of s a + issued_to s ops a < two256 →
  cum_of (srun s ops) a = cum_of s a + issued_to s ops a - withdrawn_by s ops a ∧
  0 ≤ withdrawn_by s ops a ≤ cum_of s a + issued_to s ops a ∧ 0 ≤ issued_to s ops a.
Proof.
  revert s. induction ops as [|o ops IH]; intros s Hok Hwf Hb; simpl in *.
  - pose proof (cum_of_range s a Hok). lia.
  - destruct Hwf as [Hw Hwf]. pose proof (cum_of_range s a Hok) as Hc.
    destruct (step_cum s o a Hok Hw) as (Hstep & Hi & Hwd & Hor).
    assert (Hrest : 0 ≤ issued_to (sstep s o) ops a).
    { clear. generalize (sstep s o). induction ops as [|o' ops IH]; intros s'; simpl; [lia|].
      specialize (IH (sstep s' o')).
      assert (0 ≤ step_issue s' o' a); [|lia].
      unfold step_issue. destruct o'; try lia. destruct (begin_block s' h).2; try lia.
      destruct (ledgers_at s' _); [apply issue_to_nonneg|lia]. }
    assert (Hexact : cum_of (sstep s o) a = cum_of s a + step_issue s o a - step_withdraw s o a).
    { rewrite Hstep. apply Z.mod_small. lia. }
    destruct (IH (sstep s o)) as (IH1 & IH2 & IH3); [apply step_cum_ok; assumption|assumption|lia|].
    change (foldl sstep (sstep s o) ops) with (srun (sstep s o) ops). lia.
Qed.
Print Assumptions reward_identity_mod.
Print Assumptions reward_identity.

(* from genesis nothing is withdrawable and nothing has been issued *)
Lemma cum_ok_init g : cum_ok (init_chain g).
Proof. intros a r H. rewrite init_chain_rewards, lookup_empty in H. discriminate. Qed.

Corollary reward_identity_genesis g ops a :
  run_wf (init_chain g) ops → issued_to (init_chain g) ops a < two256 →
  cum_of (srun (init_chain g) ops) a = issued_to (init_chain g) ops a - withdrawn_by (init_chain g) ops a ∧
  0 ≤ withdrawn_by (init_chain g) ops a ≤ issued_to (init_chain g) ops a.
Proof.
  intros Hwf Hb.
  assert (H0 : cum_of (init_chain g) a = 0) by (unfold cum_of; rewrite init_chain_rewards, lookup_empty; reflexivity).
  destruct (reward_identity (init_chain g) ops a (cum_ok_init g) Hwf) as (H1 & H2 & _); [lia|]. lia.
Qed.

(* ================================================================== examples *)
(* one validator (address 1, power 100) that is also an asset holder; reward 3 per power *)
Definition ex_params : params :=
  {| g_version := 1; g_maxValidatorCnt := 21; g_minValidatorStake := amountPerPower; g_minDelegatorStake := 0;
     g_rewardPerPower := 3; g_lazyRewardBlocks := 10; g_lazyApplyingBlocks := 10; g_gasPrice := 1;
     g_minTrxGas := 1; g_maxTrxGas := 1000000; g_maxBlockGas := 10000000; g_minVotingPeriodBlocks := 1;
     g_maxVotingPeriodBlocks := 100; g_minSelfStakeRatio := 50; g_maxUpdatableStakeRatio := 30;
     g_maxIndividualStakeRatio := 100; g_slashRatio := 50; g_signedBlocksWindow := 10; g_minSignedBlocks := 5 |}.
Definition ex_gen : genesis := {| gen_params := ex_params; gen_holders := [(1%N, 1000000)]; gen_validators := [(1%N, 100)] |}.
Definition ex_hdr (h : Z) (votes : list (addr * Z * bool)) : header :=
  {| h_height := h; h_proposer := Some 1%N; h_votes := votes; h_evidence := [] |}.
Definition ex_block1 : list sop := [SBegin (ex_hdr 1 []); SEnd; SCommit].
Definition ex_s1 : state := srun (init_chain ex_gen) ex_block1.
Definition ex_hd2 : header := ex_hdr 2 [(1%N, 100, true)].
Definition ex_withdraw : tx :=
  {| t_type := TRX_WITHDRAW; t_from := 1%N; t_to := 0%N; t_from_ok := true; t_to_ok := true; t_amount := 0;
     t_price := 1; t_gas := 10; t_nonce := 0; t_payload := PWithdraw 120; t_hash := 77%N; t_sigok := true; t_evm := None |}.
Definition ex_s2 : state := (begin_block ex_s1 ex_hd2).1.

Lemma pair_eta {A B} (p : A * B) x y : p.1 = x → p.2 = y → p = (x, y).
Proof. destruct p; simpl; congruence. Qed.

(* R1: block 2 pays 100 * 3 to account 1 *)
Example begin_block_rewards_example :
  ∃ old, begin_block ex_s1 ex_hd2 = (ex_s2, Ok 300) ∧
         ledgers_at ex_s1 (hgt_of_power (h_height ex_hd2)) = Some old ∧
         has_stake 1%N (rewarded_stakes old (h_votes ex_hd2)) = true ∧
         issue_to (gparams ex_s1) (rewarded_stakes old (h_votes ex_hd2)) 1%N = 300 ∧
         rewards (work ex_s2) !! 1%N = Some {| r_issued := 300; r_withdrawn := 0; r_slashed := 0; r_cumulated := 300; r_height := 2 |}.
Proof.
  exists (work ex_s1). split; [apply pair_eta; [reflexivity|vm_compute; reflexivity]|].
  split; [vm_compute; reflexivity|]. split; [vm_compute; reflexivity|]. split; vm_compute; reflexivity.
Qed.

(* R2 (ii) / R3: withdrawing 120 of the 300 *)
Example withdraw_ok_example :
  (deliver ex_s2 ex_withdraw).2 = Ok 10 ∧ t_type ex_withdraw = TRX_WITHDRAW ∧ payload_wf ex_withdraw ∧
  cum_of (deliver ex_s2 ex_withdraw).1 1%N = 180 ∧
  bal_of (work (deliver ex_s2 ex_withdraw).1) 1%N = bal_of (work ex_s2) 1%N + 120 - 10.
Proof.
  split; [vm_compute; reflexivity|]. split; [reflexivity|]. split; [vm_compute; split; [discriminate|reflexivity]|].
  split; vm_compute; reflexivity.
Qed.

(* R3: asking for more than is withdrawable fails and changes nothing *)
Example withdraw_too_much_example :
  let t := {| t_type := TRX_WITHDRAW; t_from := 1%N; t_to := 0%N; t_from_ok := true; t_to_ok := true; t_amount := 0;
              t_price := 1; t_gas := 10; t_nonce := 0; t_payload := PWithdraw 301; t_hash := 78%N; t_sigok := true; t_evm := None |} in
  (deliver ex_s2 t).2 = Err E_NOREWARD ∧ cum_of (deliver ex_s2 t).1 1%N = 300 ∧
  params_ok (gparams ex_s2) ∧ tx_wf t ∧ rewards_height_ok ex_s2.
Proof.
  cbv zeta. split; [vm_compute; reflexivity|]. split; [vm_compute; reflexivity|].
  split; [vm_compute; repeat split; discriminate|]. split; [vm_compute; repeat split; discriminate|].
  apply (rewards_height_ok_step _ (SBegin ex_hd2)), (rewards_height_ok_run ex_gen ex_block1).
Qed.

(* the run-level identity on a run with an issue and a withdrawal *)
Definition ex_run : list sop := ex_block1 ++ [SBegin ex_hd2; SDeliver ex_withdraw; SEnd; SCommit].
Example reward_identity_example :
  issued_to (init_chain ex_gen) ex_run 1%N = 300 ∧ withdrawn_by (init_chain ex_gen) ex_run 1%N = 120 ∧
  cum_of (srun (init_chain ex_gen) ex_run) 1%N = 180.
Proof. split; [vm_compute; reflexivity|]. split; vm_compute; reflexivity. Qed.

Example run_wf_example : run_wf (init_chain ex_gen) ex_run.
Proof.
  unfold ex_run, ex_block1. cbn [app run_wf step_wf].
  split; [exact I|]. split; [exact I|]. split; [exact I|]. split; [exact I|]. split; [|repeat split].
  intros _. split; [vm_compute; split; [discriminate|reflexivity]|].
  split; [vm_compute; repeat split; discriminate|].
  split; [vm_compute; repeat split; discriminate|].
  intros req sender Hp Hs. injection Hp as <-. vm_compute in Hs. injection Hs as <-. vm_compute. split; [discriminate|reflexivity].
Qed.

Print Assumptions begin_block_rewards_exact.
Print Assumptions withdraw_ok_inv.
Print Assumptions withdraw_fail_frame_refuted.
Print Assumptions reward_identity_genesis.
Print Assumptions run_no_reward_panic.
