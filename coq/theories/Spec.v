(* Spec.v — the cache-free abstract application: rigo-go's ABCI state machine over plain maps.
   Definitions only (proofs live in Inv*.v), total and executable under vm_compute.
   Function names follow the Go code (node/app.go, node/trx_executor.go, ctrlers) so the two
   can be read side by side.  What is abstracted: ledger caches (one map per ledger holds what a
   finality read would return), byte-level encodings (transactions arrive decoded, with the
   signature check summarised by [t_sigok]), the EVM interpreter (observed effect oracle). *)
From Rigo Require Import Base.
From stdpp Require Import gmap sorting.
Local Open Scope Z_scope.

Definition addr := N.    (* 20-byte address, big-endian value; bytes.Compare = N.compare *)
Definition hash := N.    (* 32-byte hash, big-endian value *)

Definition amountPerPower : Z := 1000000000000000000.
Definition maxInt64 : Z := 9223372036854775807.

(* ------------------------------------------------------------------ governance parameters *)
Record params := {
  g_version : Z; g_maxValidatorCnt : Z; g_minValidatorStake : Z; g_minDelegatorStake : Z;
  g_rewardPerPower : Z; g_lazyRewardBlocks : Z; g_lazyApplyingBlocks : Z; g_gasPrice : Z;
  g_minTrxGas : Z; g_maxTrxGas : Z; g_maxBlockGas : Z; g_minVotingPeriodBlocks : Z;
  g_maxVotingPeriodBlocks : Z; g_minSelfStakeRatio : Z; g_maxUpdatableStakeRatio : Z;
  g_maxIndividualStakeRatio : Z; g_slashRatio : Z; g_signedBlocksWindow : Z; g_minSignedBlocks : Z }.

Definition pick (new old : Z) : Z := if new =? 0 then old else new.

(* ctrlertypes.MergeGovParams: a field the option leaves at its zero value keeps the old value *)
Definition merge_params (old new : params) : params := {|
  g_version := pick (g_version new) (g_version old);
  g_maxValidatorCnt := pick (g_maxValidatorCnt new) (g_maxValidatorCnt old);
  g_minValidatorStake := pick (g_minValidatorStake new) (g_minValidatorStake old);
  g_minDelegatorStake := pick (g_minDelegatorStake new) (g_minDelegatorStake old);
  g_rewardPerPower := pick (g_rewardPerPower new) (g_rewardPerPower old);
  g_lazyRewardBlocks := pick (g_lazyRewardBlocks new) (g_lazyRewardBlocks old);
  g_lazyApplyingBlocks := pick (g_lazyApplyingBlocks new) (g_lazyApplyingBlocks old);
  g_gasPrice := pick (g_gasPrice new) (g_gasPrice old);
  g_minTrxGas := pick (g_minTrxGas new) (g_minTrxGas old);
  g_maxTrxGas := pick (g_maxTrxGas new) (g_maxTrxGas old);
  g_maxBlockGas := pick (g_maxBlockGas new) (g_maxBlockGas old);
  g_minVotingPeriodBlocks := pick (g_minVotingPeriodBlocks new) (g_minVotingPeriodBlocks old);
  g_maxVotingPeriodBlocks := pick (g_maxVotingPeriodBlocks new) (g_maxVotingPeriodBlocks old);
  g_minSelfStakeRatio := pick (g_minSelfStakeRatio new) (g_minSelfStakeRatio old);
  g_maxUpdatableStakeRatio := pick (g_maxUpdatableStakeRatio new) (g_maxUpdatableStakeRatio old);
  g_maxIndividualStakeRatio := pick (g_maxIndividualStakeRatio new) (g_maxIndividualStakeRatio old);
  g_slashRatio := pick (g_slashRatio new) (g_slashRatio old);
  g_signedBlocksWindow := pick (g_signedBlocksWindow new) (g_signedBlocksWindow old);
  g_minSignedBlocks := pick (g_minSignedBlocks new) (g_minSignedBlocks old) |}.

(* AmountToPower: uint64 of amount/10^18 reinterpreted as int64; the code panics if negative *)
Definition amount_to_power (a : Z) : option Z :=
  let v := wrap64 ((a / amountPerPower) mod two64) in
  if v <? 0 then None else Some v.
Definition power_of (a : Z) : Z := default 0 (amount_to_power a).
Definition power_to_amount (p : Z) : Z := mul256 (p mod two64) amountPerPower.

(* ------------------------------------------------------------------ ledger items *)
Record account := { a_nonce : Z; a_bal : Z; a_code : bool; a_name : N; a_doc : N }.
Definition acct0 : account := {| a_nonce := 0; a_bal := 0; a_code := false; a_name := 0%N; a_doc := 0%N |}.

Record stake := { s_from : addr; s_to : addr; s_hash : hash; s_start : Z; s_refund : Z; s_power : Z }.

Record delegatee := { d_addr : addr; d_self : Z; d_total : Z; d_stakes : list stake; d_marks : list Z }.

Record reward := { r_issued : Z; r_withdrawn : Z; r_slashed : Z; r_cumulated : Z; r_height : Z }.
Definition reward0 : reward := {| r_issued := 0; r_withdrawn := 0; r_slashed := 0; r_cumulated := 0; r_height := 0 |}.

Record voter := { v_power : Z; v_choice : Z }.
(* an option document of a proposal: [o_params] = the parameters it parses to (None: not a
   parameter document or unparseable), [o_id] identifies the bytes *)
Record voption := { o_id : N; o_params : option params; o_votes : Z }.
Record proposal := {
  p_hash : hash; p_start : Z; p_end : Z; p_apply : Z; p_total : Z; p_majority : Z;
  p_voters : gmap addr voter; p_opttype : Z; p_options : list voption; p_major : option voption }.

Definition PROPOSAL_GOVPARAMS : Z := 257.

Global Instance params_eqdec : EqDecision params.  Proof. solve_decision. Defined.
Global Instance account_eqdec : EqDecision account. Proof. solve_decision. Defined.
Global Instance stake_eqdec : EqDecision stake. Proof. solve_decision. Defined.
Global Instance delegatee_eqdec : EqDecision delegatee. Proof. solve_decision. Defined.
Global Instance reward_eqdec : EqDecision reward. Proof. solve_decision. Defined.
Global Instance voter_eqdec : EqDecision voter. Proof. solve_decision. Defined.
Global Instance voption_eqdec : EqDecision voption. Proof. solve_decision. Defined.
Global Instance proposal_eqdec : EqDecision proposal. Proof. solve_decision. Defined.

(* the seven finality ledgers as one record of maps *)
Record ledgers := {
  accts : gmap addr account;
  dels : gmap addr delegatee;
  frozen : gmap hash stake;
  rewards : gmap addr reward;
  props : gmap hash proposal;
  fprops : gmap hash proposal;
  lparams : params }.

(* ------------------------------------------------------------------ stake limiter *)
Record limiter := {
  lim_objs : option (list (addr * Z));   (* powerObjs; None = nil: limiter inactive *)
  lim_base : Z; lim_updated : Z; lim_indiv : Z; lim_updatable : Z; lim_maxcnt : Z }.

(* ------------------------------------------------------------------ application state *)
Record blockctx := { b_height : Z; b_proposer : option addr; b_feesum : Z; b_txs : Z }.

Record state := {
  committed : list ledgers;        (* committed !! (v-1) = version v of every ledger *)
  work : ledgers;                  (* what consensus-side (finality) reads return *)
  gparams : params;                (* GovCtrler.GovParams in memory *)
  newparams : option params;       (* GovCtrler.newGovParams, switched in at Commit *)
  alldels : list delegatee;        (* StakeCtrler.allDelegatees (power order) *)
  lastvals : list (addr * Z);      (* StakeCtrler.lastValidators as (address, total power) *)
  lim : limiter;
  bctx : blockctx;                 (* nextBlockCtx *)
  last_height : Z }.               (* lastBlockCtx.Height() *)

(* ------------------------------------------------------------------ transactions *)
Inductive payload :=
| PNone
| PUnstake (h : hash) (len_ok : bool)
| PWithdraw (req : Z)
| PProposal (start period apply : Z) (opttype : Z) (opts : list (N * option params)) (opts_parse : bool)
| PVoting (h : hash) (choice : Z)
| PSetDoc (name url : N) (name_len url_len : Z)
| PContract (intrinsic : Z).   (* intrinsic gas of the call data, as go-ethereum computes it *)

(* observed effect of one EVM execution (oracle; see DESIGN C17): success flag, gas used, the
   created contract address, balances and nonces of the touched accounts afterwards *)
Record evm_effect := { e_ok : bool; e_gas : Z; e_created : option addr; e_accts : list (addr * Z * Z) }.

Record tx := {
  t_type : Z; t_from : addr; t_to : addr; t_from_ok : bool; t_to_ok : bool;  (* 20-byte addresses? *)
  t_amount : Z; t_price : Z; t_gas : Z; t_nonce : Z; t_payload : payload; t_hash : hash;
  t_sigok : bool;                  (* VerifyTrxRLP succeeds: signed by From's key over exactly these fields and chain id *)
  t_evm : option evm_effect }.

Definition TRX_TRANSFER := 1. Definition TRX_STAKING := 2. Definition TRX_UNSTAKING := 3.
Definition TRX_PROPOSAL := 4. Definition TRX_VOTING := 5. Definition TRX_CONTRACT := 6.
Definition TRX_SETDOC := 7.   Definition TRX_WITHDRAW := 8.

(* failure reasons (the ABCI code of every failed DeliverTx is 5; the reason is in the log) *)
Definition E_NOACCT := 1. Definition E_ADDR := 2. Definition E_AMOUNT := 3. Definition E_GAS := 4.
Definition E_PRICE := 5. Definition E_SIG := 6. Definition E_FUND := 7. Definition E_NONCE := 8.
Definition E_PAYLOAD := 9. Definition E_TYPE := 10. Definition E_STAKE_AMT := 11.
Definition E_MINSTAKE := 12. Definition E_NODELEGATEE := 13. Definition E_SELFRATIO := 14.
Definition E_LIMIT := 15. Definition E_NOSTAKE := 16. Definition E_NOTOWNER := 17.
Definition E_NOREWARD := 18. Definition E_NORIGHT := 19. Definition E_DUP := 20.
Definition E_PERIOD := 21. Definition E_NOPROP := 22. Definition E_EVM := 23. Definition E_INVTRX := 24.

Definition P_POWER_OVERFLOW := 1. Definition P_AMOUNT_TO_POWER := 2. Definition P_REWARD_HEIGHT := 3.
Definition P_LIMITER_DIV := 4. Definition P_SELECT := 5. Definition P_ENDBLOCK := 6.
Definition P_BEGINBLOCK := 7.

(* ------------------------------------------------------------------ small helpers *)
Definition sumZ_with {A} (f : A → Z) (l : list A) : Z := foldr (λ x acc, f x + acc) 0 l.
Definition get_acct (l : ledgers) (a : addr) : option account := accts l !! a.
Definition set_acct (l : ledgers) (a : addr) (x : account) : ledgers :=
  {| accts := <[a := x]> (accts l); dels := dels l; frozen := frozen l; rewards := rewards l;
     props := props l; fprops := fprops l; lparams := lparams l |}.
Definition set_dels (l : ledgers) (m : gmap addr delegatee) : ledgers :=
  {| accts := accts l; dels := m; frozen := frozen l; rewards := rewards l;
     props := props l; fprops := fprops l; lparams := lparams l |}.
Definition set_frozen (l : ledgers) (m : gmap hash stake) : ledgers :=
  {| accts := accts l; dels := dels l; frozen := m; rewards := rewards l;
     props := props l; fprops := fprops l; lparams := lparams l |}.
Definition set_rewards (l : ledgers) (m : gmap addr reward) : ledgers :=
  {| accts := accts l; dels := dels l; frozen := frozen l; rewards := m;
     props := props l; fprops := fprops l; lparams := lparams l |}.
Definition set_props (l : ledgers) (m : gmap hash proposal) : ledgers :=
  {| accts := accts l; dels := dels l; frozen := frozen l; rewards := rewards l;
     props := m; fprops := fprops l; lparams := lparams l |}.
Definition set_fprops (l : ledgers) (m : gmap hash proposal) : ledgers :=
  {| accts := accts l; dels := dels l; frozen := frozen l; rewards := rewards l;
     props := props l; fprops := m; lparams := lparams l |}.
Definition set_lparams (l : ledgers) (p : params) : ledgers :=
  {| accts := accts l; dels := dels l; frozen := frozen l; rewards := rewards l;
     props := props l; fprops := fprops l; lparams := p |}.

Definition with_work (s : state) (l : ledgers) : state :=
  {| committed := committed s; work := l; gparams := gparams s; newparams := newparams s;
     alldels := alldels s; lastvals := lastvals s; lim := lim s; bctx := bctx s; last_height := last_height s |}.
Definition with_lim (s : state) (x : limiter) : state :=
  {| committed := committed s; work := work s; gparams := gparams s; newparams := newparams s;
     alldels := alldels s; lastvals := lastvals s; lim := x; bctx := bctx s; last_height := last_height s |}.
Definition with_bctx (s : state) (b : blockctx) : state :=
  {| committed := committed s; work := work s; gparams := gparams s; newparams := newparams s;
     alldels := alldels s; lastvals := lastvals s; lim := lim s; bctx := b; last_height := last_height s |}.

(* items of a map in ascending key order: what iterating the IAVL tree delivers *)
Definition key_le {A} (x y : N * A) : Prop := (x.1 ≤ y.1)%N.
Global Instance key_le_dec {A} : RelDecision (@key_le A).
Proof. intros x y; unfold key_le; apply _. Defined.
Definition sorted_items {A} (m : gmap N A) : list (N * A) := merge_sort key_le (map_to_list m).

(* AcctCtrler.FindOrNewAccount on the consensus side *)
Definition find_or_new (l : ledgers) (a : addr) : ledgers * account :=
  match accts l !! a with Some x => (l, x) | None => (set_acct l a acct0, acct0) end.

(* Account.AddBalance (amounts with bit 255 set are "negative" and refused) *)
Definition add_balance (x : account) (amt : Z) : option account :=
  if sign256 amt <? 0 then None
  else Some {| a_nonce := a_nonce x; a_bal := add256 (a_bal x) amt; a_code := a_code x; a_name := a_name x; a_doc := a_doc x |}.
Definition sub_balance (x : account) (amt : Z) : option account :=
  if sign256 amt <? 0 then None
  else if a_bal x <? amt then None
  else Some {| a_nonce := a_nonce x; a_bal := sub256 (a_bal x) amt; a_code := a_code x; a_name := a_name x; a_doc := a_doc x |}.
Definition add_nonce (x : account) : account :=
  {| a_nonce := (a_nonce x + 1) mod two64; a_bal := a_bal x; a_code := a_code x; a_name := a_name x; a_doc := a_doc x |}.

(* AcctCtrler.Reward(to, amt, exec=true): the account must exist *)
Definition acct_reward (l : ledgers) (a : addr) (amt : Z) : option ledgers :=
  x ← accts l !! a; x' ← add_balance x amt; Some (set_acct l a x').

(* ------------------------------------------------------------------ delegatee operations *)
Definition is_self (s : stake) : bool := (s_from s =? s_to s)%N.
Definition sum_power (l : list stake) : Z := foldr (λ s acc, s_power s + acc) 0 l.
Definition sum_power_of (a : addr) (l : list stake) : Z :=
  foldr (λ s acc, (if (s_from s =? a)%N then s_power s else 0) + acc) 0 l.

Definition new_delegatee (a : addr) : delegatee :=
  {| d_addr := a; d_self := 0; d_total := 0; d_stakes := []; d_marks := [] |}.

Definition add_stake (d : delegatee) (s : stake) : delegatee :=
  {| d_addr := d_addr d; d_self := d_self d + (if is_self s then s_power s else 0);
     d_total := d_total d + s_power s; d_stakes := d_stakes d ++ [s]; d_marks := d_marks d |}.

Fixpoint find_stake (h : hash) (l : list stake) : option stake :=
  match l with [] => None | s :: r => if (s_hash s =? h)%N then Some s else find_stake h r end.
(* removes the FIRST stake with that hash *)
Fixpoint remove_stake (h : hash) (l : list stake) : list stake :=
  match l with [] => [] | s :: r => if (s_hash s =? h)%N then r else s :: remove_stake h r end.

Definition del_stake (d : delegatee) (h : hash) : delegatee :=
  match find_stake h (d_stakes d) with
  | None => d
  | Some s => {| d_addr := d_addr d; d_self := d_self d - (if is_self s then s_power s else 0);
                 d_total := d_total d - s_power s; d_stakes := remove_stake h (d_stakes d); d_marks := d_marks d |}
  end.

(* DelAllStakes: TotalPower is reduced stake by stake, SelfPower is left as it was *)
Definition del_all_stakes (d : delegatee) : delegatee * list stake :=
  ({| d_addr := d_addr d; d_self := d_self d; d_total := d_total d - sum_power (d_stakes d);
      d_stakes := []; d_marks := d_marks d |}, d_stakes d).

Definition with_refund (r : Z) (s : stake) : stake :=
  {| s_from := s_from s; s_to := s_to s; s_hash := s_hash s; s_start := s_start s; s_refund := r; s_power := s_power s |}.
Definition with_power (p : Z) (s : stake) : stake :=
  {| s_from := s_from s; s_to := s_to s; s_hash := s_hash s; s_start := s_start s; s_refund := s_refund s; s_power := p |}.

(* doSlashAll: each stake loses floor(power*ratio/100); a stake that would lose less than 1 is
   removed (by hash) altogether; totals are recomputed.  Returns the summed reduction of the
   stakes that were kept. *)
Definition slash_all (d : delegatee) (ratio : Z) : delegatee * Z :=
  let small (s : stake) : bool := (s_power s * ratio) `quot` 100 <? 1 in
  let removing := List.filter small (d_stakes d) in
  let slashed := map (λ s, if small s then s else with_power (s_power s - (s_power s * ratio) `quot` 100) s) (d_stakes d) in
  let sum := sum_power (List.filter (λ s, negb (small s)) (d_stakes d))
             - sum_power (map (λ s, with_power (s_power s - (s_power s * ratio) `quot` 100) s)
                              (List.filter (λ s, negb (small s)) (d_stakes d))) in
  let kept := foldl (λ l s, remove_stake (s_hash s) l) slashed removing in
  ({| d_addr := d_addr d; d_self := sum_power_of (d_addr d) kept; d_total := sum_power kept;
      d_stakes := kept; d_marks := d_marks d |}, sum).

(* BlockMarker.Mark / CountInWindow(h0,h1,rewin=true) *)
Definition mark (m : list Z) (h : Z) : list Z :=
  match last m with Some l => if h <=? l then m else m ++ [h] | None => m ++ [h] end.

Fixpoint count_window (m : list Z) (h0 h1 : Z) (i : nat) (cnt : Z) (pre : option nat) : Z * option nat :=
  match m with
  | [] => (cnt, pre)
  | h :: r =>
      let pre' := if h <? h0 then Some i else pre in
      let cnt' := if (h0 <=? h) && (h <=? h1) then cnt + 1 else cnt in
      if h1 <=? h then (cnt', pre') else count_window r h0 h1 (S i) cnt' pre'
  end.
Definition count_in_window (m : list Z) (h0 h1 : Z) : Z * list Z :=
  if h1 <? h0 then (0, m)
  else let '(c, pre) := count_window m h0 h1 0%nat 0 None in
       (c, match pre with Some (S i) => drop (S (S i)) m | _ => m end).

(* PowerOrderDelegatees.Less *)
Definition power_less (a b : delegatee) : bool :=
  if d_total a =? d_total b then
    if Nat.eqb (length (d_stakes a)) (length (d_stakes b)) then (d_addr b <? d_addr a)%N
    else Nat.ltb (length (d_stakes b)) (length (d_stakes a))
  else d_total b <? d_total a.
(* "not after": on delegatees with distinct addresses power_less is a strict total order *)
Definition power_le (a b : delegatee) : bool := negb (power_less b a).
Definition power_leP (a b : delegatee) : Prop := Is_true (power_le a b).
Global Instance power_leP_dec : RelDecision power_leP.
Proof. intros x y; unfold power_leP; apply _. Defined.
Definition sort_power (l : list delegatee) : list delegatee := merge_sort power_leP l.

(* orderedPowerObj.Less *)
Definition pobj_le (a b : addr * Z) : bool :=
  if a.2 =? b.2 then (b.1 <=? a.1)%N else b.2 <? a.2.
Definition pobj_leP (a b : addr * Z) : Prop := Is_true (pobj_le a b).
Global Instance pobj_leP_dec : RelDecision pobj_leP.
Proof. intros x y; unfold pobj_leP; apply _. Defined.

(* ------------------------------------------------------------------ StakeLimiter *)
Definition limiter_reset (ds : list delegatee) (p : params) : limiter :=
  let maxc := g_maxValidatorCnt p in
  {| lim_objs := match ds with [] => None | _ => Some (map (λ d, (d_addr d, d_total d)) ds) end;
     lim_base := sumZ_with d_total (take (Z.to_nat maxc) ds);
     lim_updated := 0; lim_indiv := g_maxIndividualStakeRatio p; lim_updatable := g_maxUpdatableStakeRatio p;
     lim_maxcnt := maxc |}.

Fixpoint find_pobj (a : addr) (l : list (addr * Z)) (i : nat) : option (nat * Z) :=
  match l with [] => None | (b, p) :: r => if (a =? b)%N then Some (i, p) else find_pobj a r (S i) end.

(* CheckLimit.  Ok lim' | Err | Panic *)
Definition check_limit (sl : limiter) (da : addr) (dtotal diff : Z) : res limiter :=
  match lim_objs sl with
  | None => Ok sl
  | Some objs =>
    let indiv_ok :=
      if diff <=? 0 then true
      else negb (lim_indiv sl <? ((dtotal + diff) * 100) `quot` (lim_base sl + diff)) in
    if negb indiv_ok then Err E_LIMIT else
    let found := find_pobj da objs 0%nat in
    let ppow := match found with Some (_, p) => p | None => dtotal end in
    if negb (ppow =? dtotal) then Err E_LIMIT else
    let maxc := lim_maxcnt sl in
    let in_top := match found with Some (i, _) => Z.of_nat i <? maxc | None => false end in
    let up1 :=
      if in_top && (diff <? 0) then
        match (if maxc <? 0 then None else objs !! Z.to_nat maxc) with
        | Some cand => if ppow + diff <? cand.2 then lim_updated sl + ppow else lim_updated sl - diff
        | None => lim_updated sl - diff
        end
      else lim_updated sl in
    if negb in_top && (0 <? diff) && (maxc <=? 0) && (0 <=? Z.of_nat (length objs) - maxc) then Panic P_LIMITER_DIV else
    let up2 :=
      if negb in_top && (0 <? diff) then
        match (if Z.of_nat (length objs) <? maxc then None else objs !! Z.to_nat (maxc - 1)) with
        | Some lastv => if lastv.2 <? ppow + diff then up1 + lastv.2 else up1
        | None => up1
        end
      else up1 in
    if lim_base sl =? 0 then Panic P_LIMITER_DIV else
    let ratio := (up2 * 100) `quot` lim_base sl in
    if lim_updatable sl <? ratio then Err E_LIMIT else
    let objs' := match found with
                 | Some (i, p) => <[i := (da, p + diff)]> objs
                 | None => objs end in
    if ppow + diff <? 0 then
      Err E_LIMIT
    else Ok {| lim_objs := Some (merge_sort pobj_leP objs'); lim_base := lim_base sl; lim_updated := up2;
               lim_indiv := lim_indiv sl; lim_updatable := lim_updatable sl; lim_maxcnt := lim_maxcnt sl |}
  end.

(* ------------------------------------------------------------------ proposals *)
Definition set_votes (v : Z) (o : voption) : voption := {| o_id := o_id o; o_params := o_params o; o_votes := v |}.

Definition cancel_vote (opts : list voption) (v : voter) : list voption * voter :=
  if 0 <=? v_choice v then
    (alter (λ o, set_votes (o_votes o - v_power v) o) (Z.to_nat (v_choice v)) opts, {| v_power := v_power v; v_choice := -1 |})
  else (opts, v).
Definition do_vote (opts : list voption) (v : voter) (choice : Z) : list voption * voter :=
  if 0 <=? choice then
    (alter (λ o, set_votes (o_votes o + v_power v) o) (Z.to_nat choice) opts, {| v_power := v_power v; v_choice := choice |})
  else (opts, v).

Definition with_voters_opts (p : proposal) (vs : gmap addr voter) (os : list voption) : proposal :=
  {| p_hash := p_hash p; p_start := p_start p; p_end := p_end p; p_apply := p_apply p; p_total := p_total p;
     p_majority := p_majority p; p_voters := vs; p_opttype := p_opttype p; p_options := os; p_major := p_major p |}.

(* GovProposal.DoVote: cancel the voter's previous choice, then count the new one *)
Definition prop_vote (p : proposal) (a : addr) (choice : Z) : option proposal :=
  v ← p_voters p !! a;
  let '(o1, v1) := cancel_vote (p_options p) v in
  let '(o2, v2) := do_vote o1 v1 choice in
  Some (with_voters_opts p (<[a := v2]> (p_voters p)) o2).

(* GovProposal.DoPunish *)
Definition prop_punish (p : proposal) (a : addr) (ratio : Z) : proposal * Z :=
  match p_voters p !! a with
  | None => (p, 0)
  | Some v =>
    let choice := v_choice v in
    let '(o1, v1) := cancel_vote (p_options p) v in
    let sl := wrap64 ((((v_power v1 mod two64) * (ratio mod two64)) mod two256 / 100) mod two64) in
    let v2 := {| v_power := v_power v1 - sl; v_choice := v_choice v1 |} in
    let '(vs, o2) :=
      if v_power v2 <=? 0 then (delete a (p_voters p), o1)
      else if 0 <=? choice then let '(o', v') := do_vote o1 v2 choice in (<[a := v']> (p_voters p), o')
      else (<[a := v2]> (p_voters p), o1) in
    ({| p_hash := p_hash p; p_start := p_start p; p_end := p_end p; p_apply := p_apply p;
        p_total := p_total p - sl; p_majority := ((p_total p - sl) * 2) `quot` 3;
        p_voters := vs; p_opttype := p_opttype p; p_options := o2; p_major := p_major p |}, sl)
  end.

(* updateMajorOption: options sorted by votes, descending.  Go's sort.Sort is pdqsort, which for
   fewer than 12 elements is insertion sort and hence stable; proposals with more options are
   outside the model (the harness generates at most 4). *)
Fixpoint insert_opt (x : voption) (l : list voption) : list voption :=
  match l with [] => [x] | y :: r => if o_votes y <? o_votes x then x :: y :: r else y :: insert_opt x r end.
Definition sort_opts (l : list voption) : list voption := foldl (λ acc x, insert_opt x acc) [] l.

Definition update_major (p : proposal) : res proposal :=
  let os := sort_opts (p_options p) in
  match os with
  | [] => Panic P_ENDBLOCK
  | o :: _ =>
    Ok {| p_hash := p_hash p; p_start := p_start p; p_end := p_end p; p_apply := p_apply p; p_total := p_total p;
          p_majority := p_majority p; p_voters := p_voters p; p_opttype := p_opttype p; p_options := os;
          p_major := if p_majority p <=? o_votes o then Some o else p_major p |}
  end.

(* ------------------------------------------------------------------ transaction validation *)
Definition fee_of (t : tx) : Z := mul256 (t_price t) (t_gas t).

(* commonValidation0 *)
Definition common_validation0 (g : params) (t : tx) : option Z :=
  if negb (t_from_ok t) then Some E_ADDR
  else if negb (t_to_ok t) then Some E_ADDR
  else if sign256 (t_amount t) <? 0 then Some E_AMOUNT
  else if maxInt64 <? t_gas t then Some E_GAS
  else if (sign256 (t_price t) <? 0) || negb (t_price t =? g_gasPrice g) then Some E_PRICE
  else if fee_of t <? mul256 (g_minTrxGas g) (g_gasPrice g) then Some E_GAS
  else if negb (t_sigok t) then Some E_SIG
  else None.

(* commonValidation1 *)
Definition common_validation1 (sender : account) (t : tx) : option Z :=
  if a_bal sender <? add256 (fee_of t) (t_amount t) then Some E_FUND
  else if negb (a_nonce sender =? t_nonce t) then Some E_NONCE
  else None.

Definition is_validator (s : state) (a : addr) : bool := existsb (λ v : addr * Z, (v.1 =? a)%N) (lastvals s).

(* GovCtrler.ValidateTrx *)
Definition gov_validate (s : state) (t : tx) : option Z :=
  let g := gparams s in let h := b_height (bctx s) in
  if t_type t =? TRX_PROPOSAL then
    if negb (t_to t =? 0)%N then Some E_INVTRX
    else if negb (is_validator s (t_from t)) then Some E_NORIGHT
    else match t_payload t with
    | PProposal start period apply opttype opts parse_ok =>
        if (match props (work s) !! t_hash t with Some _ => true | None => false end) then Some E_DUP
        else if start <=? h then Some E_PAYLOAD
        else if (g_maxVotingPeriodBlocks g <? period) || (period <? g_minVotingPeriodBlocks g) then Some E_PAYLOAD
        else if (opttype =? PROPOSAL_GOVPARAMS) && negb parse_ok then Some E_PAYLOAD
        else let endh := wrap64 (start + period) in
             let minapply := wrap64 (endh + g_lazyApplyingBlocks g) in
             if endh <? start then Some E_PAYLOAD
             else if (apply <? minapply) || (apply <? endh) then Some E_PAYLOAD
             else if (match opts with [] => true | _ => false end) then Some E_PAYLOAD
             else None
    | _ => Some E_PAYLOAD
    end
  else (* TRX_VOTING *)
    if negb (t_to t =? 0)%N then Some E_PAYLOAD
    else match t_payload t with
    | PVoting ph choice =>
        match props (work s) !! ph with
        | None => Some E_NOPROP
        | Some p =>
            if (match p_voters p !! t_from t with Some _ => false | None => true end) then Some E_NORIGHT
            else if (choice <? 0) || (Z.of_nat (length (p_options p)) <=? choice) then Some E_PAYLOAD
            else if (p_end p <? h) || (h <? p_start p) then Some E_PERIOD
            else None
        end
    | _ => Some E_PAYLOAD
    end.

(* StakeCtrler.ValidateTrx.  Returns the new limiter (CheckLimit mutates it) *)
Definition stake_validate (s : state) (t : tx) : res limiter :=
  let g := gparams s in
  if t_type t =? TRX_STAKING then
    let q := t_amount t / amountPerPower in let r := t_amount t mod amountPerPower in
    if q <=? 0 then Err E_STAKE_AMT
    else if negb (r =? 0) then Err E_STAKE_AMT
    else match amount_to_power (t_amount t) with
    | None => Panic P_AMOUNT_TO_POWER
    | Some txp =>
      let dopt := dels (work s) !! t_to t in
      let check_self :=
        if (t_from t =? t_to t)%N then
          let selfp := txp + match dopt with Some d => d_self d | None => 0 end in
          match amount_to_power (g_minValidatorStake g) with
          | None => Panic P_AMOUNT_TO_POWER
          | Some minp => if selfp <? minp then Err E_MINSTAKE else Ok (match dopt with Some d => d_total d | None => 0 end)
          end
        else match dopt with
        | None => Err E_NODELEGATEE
        | Some d =>
            match amount_to_power (g_minDelegatorStake g) with
            | None => Panic P_AMOUNT_TO_POWER
            | Some mind =>
                if (0 <? mind) && (txp <? mind) then Err E_MINSTAKE
                else if d_total d + txp =? 0 then Panic P_POWER_OVERFLOW
                else if (d_self d * 100) `quot` (d_total d + txp) <? g_minSelfStakeRatio g then Err E_SELFRATIO
                else Ok (d_total d)
            end
        end in
      match check_self with
      | Err e => Err e | Panic p => Panic p
      | Ok total =>
          if wrap64 (total + txp) <=? 0 then Panic P_POWER_OVERFLOW
          else if 3 <=? Z.of_nat (length (lastvals s)) then
            check_limit (lim s) (t_to t) (match dopt with Some d => d_total d | None => 0 end) txp
          else Ok (lim s)
      end
    end
  else if t_type t =? TRX_UNSTAKING then
    match dels (work s) !! t_to t with
    | None => Err E_NODELEGATEE
    | Some d =>
        match t_payload t with
        | PUnstake h len_ok =>
            if negb len_ok then Err E_PAYLOAD else
            match find_stake h (d_stakes d) with
            | None => Err E_NOSTAKE
            | Some s0 =>
                if negb (s_from s0 =? t_from t)%N then Err E_NOTOWNER
                else if 3 <=? Z.of_nat (length (lastvals s)) then check_limit (lim s) (d_addr d) (d_total d) (- s_power s0)
                else Ok (lim s)
            end
        | _ => Panic P_ENDBLOCK   (* unchecked type assertion on the payload *)
        end
    end
  else (* TRX_WITHDRAW *)
    if negb (t_amount t =? 0) then Err E_INVTRX
    else match t_payload t with
    | PWithdraw req =>
        match rewards (work s) !! t_from t with
        | None => Err E_NOREWARD
        | Some r => if r_cumulated r <? req then Err E_NOREWARD else Ok (lim s)
        end
    | _ => Err E_PAYLOAD
    end.

(* EVMCtrler.ValidateTrx *)
Definition evm_validate (receiver : account) (t : tx) : option Z :=
  if negb (t_type t =? TRX_CONTRACT) && negb (a_code receiver) then Some E_TYPE
  else let intrinsic := match t_payload t with PContract i => i | _ => 21000 end in
       if t_gas t <? intrinsic then Some E_GAS else None.

Definition acct_validate (t : tx) : option Z :=
  if t_type t =? TRX_SETDOC then
    match t_payload t with
    | PSetDoc _ _ nl ul => if (2048 <? nl) || (2048 <? ul) then Some E_PAYLOAD else None
    | _ => Some E_PAYLOAD
    end
  else None.

(* ------------------------------------------------------------------ transaction execution *)
Definition stake_of_tx (t : tx) (h : Z) (p : Z) : stake :=
  {| s_from := t_from t; s_to := t_to t; s_hash := t_hash t; s_start := h + 1; s_refund := 0; s_power := p |}.

Definition freeze_all (fr : gmap hash stake) (refund : Z) (l : list stake) : gmap hash stake :=
  foldl (λ m s, <[s_hash s := with_refund refund s]> m) fr l.

(* exeStaking / exeUnstaking / exeWithdraw on the consensus side; the sender object is the one
   NewTrxContext found, [l] already contains the receiver account *)
Definition stake_execute (s : state) (l : ledgers) (t : tx) : res ledgers :=
  let h := b_height (bctx s) in let g := gparams s in
  if t_type t =? TRX_STAKING then
    let dopt := match dels l !! t_to t with
                | Some d => Some d
                | None => if (t_from t =? t_to t)%N then Some (new_delegatee (t_from t)) else None end in
    match dopt, accts l !! t_from t with
    | Some d, Some sender =>
        match sub_balance sender (t_amount t) with
        | None => Err E_FUND
        | Some sender' =>
            let l1 := set_acct l (t_from t) sender' in
            let d' := add_stake d (stake_of_tx t h (power_of (t_amount t))) in
            Ok (set_dels l1 (<[t_to t := d']> (dels l1)))
        end
    | _, _ => Err E_NODELEGATEE
    end
  else if t_type t =? TRX_UNSTAKING then
    match dels l !! t_to t, t_payload t with
    | Some d, PUnstake hs _ =>
        match find_stake hs (d_stakes d) with
        | None => Err E_NOSTAKE
        | Some s0 =>
            if negb (s_from s0 =? t_from t)%N then Err E_NOTOWNER else
            let refund := h + g_lazyRewardBlocks g in
            let d1 := del_stake d hs in
            let fr1 := <[s_hash s0 := with_refund refund s0]> (frozen l) in
            let '(d2, fr2) := if d_self d1 =? 0 then
                                let '(dx, ss) := del_all_stakes d1 in (dx, freeze_all fr1 refund ss)
                              else (d1, fr1) in
            let l1 := set_frozen l fr2 in
            if d_total d2 =? 0 then Ok (set_dels l1 (delete (t_to t) (dels l1)))
            else Ok (set_dels l1 (<[t_to t := d2]> (dels l1)))
        end
    | _, _ => Err E_NODELEGATEE
    end
  else (* withdraw *)
    match t_payload t, rewards l !! t_from t with
    | PWithdraw req, Some r =>
        if r_height r >? h then Panic P_REWARD_HEIGHT else
        let r' := {| r_issued := r_issued r;
                     r_withdrawn := if r_height r <? h then req else add256 (r_withdrawn r) req;
                     r_slashed := r_slashed r; r_cumulated := sub256 (r_cumulated r) req; r_height := h |} in
        let l1 := set_rewards l (<[t_from t := r']> (rewards l)) in
        match acct_reward l1 (t_from t) req with
        | Some l2 => Ok l2
        | None => Err E_AMOUNT      (* reward update cancelled: nothing changes *)
        end
    | _, _ => Err E_NOREWARD
    end.

Definition gov_execute (s : state) (l : ledgers) (t : tx) : res ledgers :=
  if t_type t =? TRX_PROPOSAL then
    match t_payload t with
    | PProposal start period apply opttype opts _ =>
        let total := sumZ_with snd (lastvals s) in
        let p := {| p_hash := t_hash t; p_start := start; p_end := wrap64 (start + period); p_apply := apply;
                    p_total := total; p_majority := (total * 2) `quot` 3;
                    p_voters := list_to_map (map (λ v, (v.1, {| v_power := v.2; v_choice := -1 |})) (lastvals s));
                    p_opttype := opttype;
                    p_options := map (λ o, {| o_id := o.1; o_params := o.2; o_votes := 0 |}) opts;
                    p_major := None |} in
        Ok (set_props l (<[t_hash t := p]> (props l)))
    | _ => Err E_PAYLOAD
    end
  else
    match t_payload t with
    | PVoting ph choice =>
        match props l !! ph with
        | None => Err E_NOPROP
        | Some p => match prop_vote p (t_from t) choice with
                    | Some p' => Ok (set_props l (<[ph := p']> (props l)))
                    | None => Err E_NORIGHT end
        end
    | _ => Err E_PAYLOAD
    end.

Definition acct_execute (l : ledgers) (t : tx) : res ledgers :=
  match accts l !! t_from t, accts l !! t_to t with
  | Some sender, Some receiver =>
      if t_type t =? TRX_TRANSFER then
        match sub_balance sender (t_amount t) with
        | None => Err E_FUND
        | Some sender' =>
            (* sender and receiver are one object when from = to *)
            let l1 := set_acct l (t_from t) sender' in
            let recv := if (t_from t =? t_to t)%N then sender' else receiver in
            match add_balance recv (t_amount t) with
            | None => Err E_AMOUNT
            | Some recv' => Ok (set_acct l1 (t_to t) recv')
            end
        end
      else
        match t_payload t with
        | PSetDoc name url _ _ =>
            Ok (set_acct l (t_from t) {| a_nonce := a_nonce sender; a_bal := a_bal sender; a_code := a_code sender;
                                         a_name := name; a_doc := url |})
        | _ => Panic P_ENDBLOCK
        end
  | _, _ => Err E_NOACCT
  end.

(* the EVM path: the observed effect is written into the native accounts (StateDBWrapper.Finish);
   a failed execution is reverted to the snapshot taken before gas purchase *)
Definition evm_execute (l : ledgers) (t : tx) : res (ledgers * Z) :=
  match t_evm t with
  | None => Err E_EVM
  | Some e =>
      if negb (e_ok e) then Err E_EVM else
      let l1 := foldl (λ l x, let '(a, bal, nonce) := x in
                  let old := default acct0 (accts l !! a) in
                  set_acct l a {| a_nonce := nonce; a_bal := bal; a_code := a_code old; a_name := a_name old; a_doc := a_doc old |})
                l (e_accts e) in
      let l2 := match e_created e with
                | Some c => let old := default acct0 (accts l1 !! c) in
                            set_acct l1 c {| a_nonce := a_nonce old; a_bal := a_bal old; a_code := true; a_name := a_name old; a_doc := a_doc old |}
                | None => l1 end in
      Ok (l2, e_gas e)
  end.

(* RigoApp.deliverTxSync.  Result: Ok gasUsed | Err reason | Panic site *)
Definition deliver (s : state) (t : tx) : state * res Z :=
  let b := bctx s in
  match accts (work s) !! t_from t with
  | None => (s, Err E_NOACCT)
  | Some sender =>
    (* txsCnt is bumped and the receiver account created before validation *)
    let s0 := with_bctx s {| b_height := b_height b; b_proposer := b_proposer b; b_feesum := b_feesum b; b_txs := b_txs b + 1 |} in
    let '(l0, receiver) := find_or_new (work s0) (t_to t) in
    let s1 := with_work s0 l0 in
    let fail e := (s1, Err e) in
    match common_validation0 (gparams s) t with Some e => fail e | None =>
    match common_validation1 sender t with Some e => fail e | None =>
    let ty := t_type t in
    let evm_path := (ty =? TRX_CONTRACT) || ((ty =? TRX_TRANSFER) && a_code receiver) in
    let validated : res limiter :=
      if (ty =? TRX_PROPOSAL) || (ty =? TRX_VOTING) then
        match gov_validate s1 t with Some e => Err e | None => Ok (lim s1) end
      else if (ty =? TRX_TRANSFER) || (ty =? TRX_SETDOC) then
        match acct_validate t with Some e => Err e | None => Ok (lim s1) end
      else if (ty =? TRX_STAKING) || (ty =? TRX_UNSTAKING) || (ty =? TRX_WITHDRAW) then stake_validate s1 t
      else if ty =? TRX_CONTRACT then
        match evm_validate receiver t with Some e => Err e | None => Ok (lim s1) end
      else Err E_TYPE in
    match validated with
    | Err e => fail e
    | Panic p => (s1, Panic p)
    | Ok lim' =>
      let s2 := with_lim s1 lim' in
      if evm_path then
        match evm_execute (work s2) t with
        | Ok (l', gas) =>
            let b2 := bctx s2 in
            (with_bctx (with_work s2 l') {| b_height := b_height b2; b_proposer := b_proposer b2;
               b_feesum := add256 (b_feesum b2) (mul256 gas (g_gasPrice (gparams s))); b_txs := b_txs b2 |}, Ok gas)
        | Err e => (s2, Err e)
        | Panic p => (s2, Panic p)
        end
      else
        let exec : res ledgers :=
          if (ty =? TRX_PROPOSAL) || (ty =? TRX_VOTING) then gov_execute s2 (work s2) t
          else if (ty =? TRX_TRANSFER) || (ty =? TRX_SETDOC) then acct_execute (work s2) t
          else stake_execute s2 (work s2) t in
        match exec with
        | Err e => (s2, Err e)
        | Panic p => (s2, Panic p)
        | Ok l' =>
            (* postRunTrx: fee and nonce *)
            match accts l' !! t_from t with
            | None => (s2, Err E_NOACCT)
            | Some snd' =>
                match sub_balance snd' (fee_of t) with
                | None => (with_work s2 l', Err E_FUND)
                | Some snd'' =>
                    let l'' := set_acct l' (t_from t) (add_nonce snd'') in
                    let b2 := bctx s2 in
                    (with_bctx (with_work s2 l'') {| b_height := b_height b2; b_proposer := b_proposer b2;
                       b_feesum := add256 (b_feesum b2) (mul256 (t_gas t) (g_gasPrice (gparams s))); b_txs := b_txs b2 |},
                     Ok (t_gas t))
                end
            end
        end
    end end end
  end.

(* ------------------------------------------------------------------ block boundaries *)
Record header := {
  h_height : Z; h_proposer : option addr;
  h_votes : list (addr * Z * bool);     (* LastCommitInfo: validator address, power, signed *)
  h_evidence : list addr }.             (* ByzantineValidators *)

Definition empty_ledgers (p : params) : ledgers :=
  {| accts := ∅; dels := ∅; frozen := ∅; rewards := ∅; props := ∅; fprops := ∅; lparams := p |}.
(* the committed trees block processing iterates: the last saved version, empty before the first commit *)
Definition base_of (s : state) : ledgers := default (empty_ledgers (gparams s)) (last (committed s)).

Definition ledgers_at (s : state) (n : Z) : option ledgers :=
  (* ImmutableLedgerAt(n): error if beyond the latest version; n <= 0 loads the latest *)
  if Z.of_nat (length (committed s)) <? n then None
  else if n <=? 0 then Some (default (empty_ledgers (gparams s)) (last (committed s)))
  else committed s !! Z.to_nat (n - 1).

Definition reward_issue (r : reward) (amt h : Z) : option reward :=
  if h <? r_height r then None
  else Some {| r_issued := if r_height r <? h then amt else add256 (r_issued r) amt;
               r_withdrawn := r_withdrawn r; r_slashed := r_slashed r;
               r_cumulated := add256 (r_cumulated r) amt; r_height := h |}.

(* doRewardTo *)
Definition reward_to (g : params) (h : Z) (rw : gmap addr reward) (d : delegatee) : res (gmap addr reward * Z) :=
  foldl (λ acc s0, match acc with
     | Ok (m, issued) =>
         let amt := mul256 (s_power s0 mod two64) (g_rewardPerPower g) in
         match reward_issue (default reward0 (m !! s_from s0)) amt h with
         | None => Panic P_REWARD_HEIGHT
         | Some r' => Ok (<[s_from s0 := r']> m, add256 issued amt)
         end
     | x => x end) (Ok (rw, 0)) (d_stakes d).

(* StakeCtrler.BeginBlock after the limiter reset: slashing, then reward / missed-block marking *)
Definition gov_punish (l : ledgers) (ratio : Z) (evi : list addr) : ledgers :=
  foldl (λ l a,
    let targets := List.filter (λ kp : hash * proposal, match p_voters kp.2 !! a with Some _ => true | None => false end) (sorted_items (props l)) in
    foldl (λ l kp, match props l !! kp.1 with
                   | Some p => set_props l (<[kp.1 := (prop_punish p a ratio).1]> (props l))
                   | None => l end) l targets) l evi.

Definition stake_punish (l : ledgers) (ratio : Z) (evi : list addr) : ledgers :=
  foldl (λ l a, match dels l !! a with
                | Some d => set_dels l (<[a := (slash_all d ratio).1]> (dels l))
                | None => l end) l evi.

Definition hgt_of_power (h : Z) : Z := if h - 4 <=? 0 then 1 else h - 4.

Definition process_votes (s : state) (l : ledgers) (h : Z) (votes : list (addr * Z * bool)) : res (ledgers * Z) :=
  let g := gparams s in
  match ledgers_at s (hgt_of_power h) with
  | None => Panic P_BEGINBLOCK
  | Some old =>
    foldl (λ acc v, match acc with
      | Ok (l, issued) =>
        let '(a, pw, signed) := v in
        if signed : bool then
          match dels old !! a with
          | None => Ok (l, issued)
          | Some d => if negb (d_total d =? pw) then Ok (l, issued)
                      else match reward_to g h (rewards l) d with
                           | Ok (rw, iss) => Ok (set_rewards l rw, add256 issued iss)
                           | Err e => Err e | Panic p => Panic p end
          end
        else
          match dels l !! a with
          | None => Ok (l, issued)
          | Some d =>
              let sh := h - 1 in
              let m1 := mark (d_marks d) sh in
              let s0 := if sh - g_signedBlocksWindow g <? 0 then 0 else sh - g_signedBlocksWindow g in
              let '(cnt, m2) := count_in_window m1 s0 sh in
              let d1 := {| d_addr := d_addr d; d_self := d_self d; d_total := d_total d; d_stakes := d_stakes d; d_marks := m2 |} in
              (* SetFinality happens before the window is rewound: the stored object is the same pointer *)
              let l1 := set_dels l (<[a := d1]> (dels l)) in
              if g_signedBlocksWindow g - cnt <? g_minSignedBlocks g then
                let '(_, ss) := del_all_stakes d1 in
                let l2 := set_frozen l1 (freeze_all (frozen l1) (h + g_lazyRewardBlocks g) ss) in
                Ok (set_dels l2 (delete a (dels l2)), issued)
              else Ok (l1, issued)
          end
      | x => x end) (Ok (l, 0)) votes
  end.

Definition min_power (g : params) : Z := power_of (g_minValidatorStake g).

Definition begin_block (s : state) (hd : header) : state * res Z :=
  if negb (h_height hd =? last_height s + 1) then (s, Panic P_BEGINBLOCK) else
  let g := gparams s in
  let base := base_of s in
  let b := {| b_height := h_height hd; b_proposer := h_proposer hd; b_feesum := 0; b_txs := 0 |} in
  (* GovCtrler.BeginBlock *)
  let l1 := gov_punish (work s) (g_slashRatio g) (h_evidence hd) in
  (* StakeCtrler.BeginBlock: eligible delegatees of the committed tree, in power order *)
  let all := sort_power (List.filter (λ d, min_power g <=? d_self d) (snd <$> sorted_items (dels base))) in
  let lim' := limiter_reset all g in
  let l2 := stake_punish l1 (g_slashRatio g) (h_evidence hd) in
  let s1 := {| committed := committed s; work := l2; gparams := g; newparams := newparams s; alldels := all;
               lastvals := lastvals s; lim := lim'; bctx := b; last_height := last_height s |} in
  match h_votes hd with
  | [] => (s1, Ok 0)
  | votes =>
      match process_votes s1 l2 (h_height hd) votes with
      | Ok (l3, issued) => (with_work s1 l3, Ok issued)
      | Err e => (s1, Err e)
      | Panic p => (s1, Panic p)
      end
  end.

(* GovCtrler.EndBlock: freezeProposals then applyProposals, both iterating the COMMITTED trees *)
Definition freeze_proposals (base l : ledgers) (h : Z) : res ledgers :=
  foldl (λ acc kp, match acc with
    | Ok l =>
        let p := kp.2 in
        if p_end p <? h then
          match props l !! kp.1 with
          | None => Panic P_ENDBLOCK      (* DelFinality error is returned from EndBlock *)
          | Some _ =>
              let l1 := set_props l (delete kp.1 (props l)) in
              match update_major p with
              | Ok p' => match p_major p' with
                         | Some _ => Ok (set_fprops l1 (<[kp.1 := p']> (fprops l1)))
                         | None => Ok l1 end
              | Err e => Err e | Panic x => Panic x
              end
          end
        else Ok l
    | x => x end) (Ok l) (sorted_items (props base)).

Definition apply_proposals (s : state) (base l : ledgers) (h : Z) : res (ledgers * option params) :=
  foldl (λ acc kp, match acc with
    | Ok (l, np) =>
        let p := kp.2 in
        if p_apply p <=? h then
          match fprops l !! kp.1 with
          | None => Panic P_ENDBLOCK
          | Some _ =>
              let l1 := set_fprops l (delete kp.1 (fprops l)) in
              match p_major p with
              | Some o =>
                  if p_opttype p =? PROPOSAL_GOVPARAMS then
                    match o_params o with
                    | Some newp => let m := merge_params (gparams s) newp in Ok (set_lparams l1 m, Some m)
                    | None => Panic P_ENDBLOCK
                    end
                  else Ok (l1, np)
              | None => Ok (l1, np)
              end
          end
        else Ok (l, np)
    | x => x end) (Ok (l, newparams s)) (sorted_items (fprops base)).

(* unfreezingStakes: matured stakes of the COMMITTED frozen tree are refunded and deleted *)
Definition unfreeze (base l : ledgers) (h : Z) : res ledgers :=
  foldl (λ acc kp, match acc with
    | Ok l =>
        let s0 := kp.2 in
        if s_refund s0 <=? h then
          match acct_reward l (s_from s0) (power_to_amount (s_power s0)) with
          | None => Panic P_ENDBLOCK
          | Some l1 => Ok (set_frozen l1 (delete kp.1 (frozen l1)))
          end
        else Ok l
    | x => x end) (Ok l) (sorted_items (frozen base)).

(* validatorUpdates: merge of two address-sorted lists *)
Fixpoint val_updates (fuel : nat) (old new : list (addr * Z)) : list (addr * Z) :=
  match fuel with O => [] | S f =>
  match old, new with
  | [], _ => new
  | _, [] => map (λ x, (x.1, 0)) old
  | (a, p) :: o', (b, q) :: n' =>
      if (a <? b)%N then (a, 0) :: val_updates f o' new
      else if (a =? b)%N then (if p =? q then [] else [(b, q)]) ++ val_updates f o' n'
      else (b, q) :: val_updates f old n'
  end end.

Definition sort_addr (l : list (addr * Z)) : list (addr * Z) := merge_sort key_le l.

Definition end_block (s : state) : state * res (list (addr * Z)) :=
  let h := b_height (bctx s) in
  let base := base_of s in
  match freeze_proposals base (work s) h with
  | Err e => (s, Err e) | Panic p => (s, Panic p)
  | Ok l1 =>
  match apply_proposals s base l1 h with
  | Err e => (s, Err e) | Panic p => (s, Panic p)
  | Ok (l2, np) =>
  (* AcctCtrler.EndBlock: fees to the proposer *)
  let l3 := match b_proposer (bctx s) with
            | Some pa => if 0 <? sign256 (b_feesum (bctx s)) then
                           match add_balance (default acct0 (accts l2 !! pa)) (b_feesum (bctx s)) with
                           | Some x => Some (set_acct l2 pa x) | None => None end
                         else Some l2
            | None => Some l2 end in
  match l3 with None => (s, Panic P_ENDBLOCK) | Some l3 =>
  match unfreeze base l3 h with
  | Err e => (s, Err e) | Panic p => (s, Panic p)
  | Ok l4 =>
      let maxv := g_maxValidatorCnt (gparams s) in
      if maxv <? 0 then (s, Panic P_SELECT) else
      let newv := map (λ d, (d_addr d, d_total d)) (take (Z.to_nat maxv) (alldels s)) in
      let ups := val_updates (S (length (lastvals s) + length newv)) (sort_addr (lastvals s)) (sort_addr newv) in
      ({| committed := committed s; work := l4; gparams := gparams s; newparams := np; alldels := alldels s;
          lastvals := newv; lim := lim s; bctx := bctx s; last_height := last_height s |}, Ok ups)
  end end end end.

Definition commit (s : state) : state :=
  {| committed := committed s ++ [work s]; work := work s;
     gparams := default (gparams s) (newparams s); newparams := None; alldels := alldels s;
     lastvals := lastvals s; lim := lim s; bctx := bctx s; last_height := b_height (bctx s) |}.

(* ------------------------------------------------------------------ genesis *)
Record genesis := {
  gen_params : params;
  gen_holders : list (addr * Z);       (* asset holders *)
  gen_validators : list (addr * Z) }.  (* address, power *)

Definition init_chain (g : genesis) : state :=
  let l0 := empty_ledgers (gen_params g) in
  let l1 := foldl (λ l h, set_acct l h.1 {| a_nonce := 0; a_bal := h.2; a_code := false; a_name := 0%N; a_doc := 0%N |}) l0 (gen_holders g) in
  let l2 := foldl (λ l v, (find_or_new l v.1).1) l1 (gen_validators g) in
  let l3 := foldl (λ l v, set_dels l (<[v.1 := add_stake (new_delegatee v.1)
               {| s_from := v.1; s_to := v.1; s_hash := 0%N; s_start := 1; s_refund := 0; s_power := v.2 |}]> (dels l))) l2 (gen_validators g) in
  {| committed := []; work := l3; gparams := gen_params g; newparams := None; alldels := []; lastvals := [];
     lim := limiter_reset [] (gen_params g);
     bctx := {| b_height := 0; b_proposer := None; b_feesum := 0; b_txs := 0 |}; last_height := 0 |}.
