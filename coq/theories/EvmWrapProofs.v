(* EvmWrapProofs.v — proofs about the EVM state wrapper model of EvmWrap.v (property C17).

   W1  wrapper_refines_reference(_tx): on every disciplined call sequence the wrapper (on
       arbitrary stale geth balances/nonces) answers every call as geth alone does on the native
       balances/nonces; simulation invariant [Inv].
       wrapper_refuted_without_snapshot: without "Snapshot before Prepare" (issue #69) it does not.
   W2  finish_syncs_out, finish_order_irrelevant, finish_matches_reference, tx_success.
   W3  top_level_revert_no_effect.
   W4  examples evaluated on both machines. *)
From Coq Require Import ZArith NArith Lia.
From Rigo Require Import EvmWrap.
From stdpp Require Import gmap.

(** * journal: undoing *)

Lemma sj_undo1 e j s : sj (undo1 e j s) = j.
Proof. by destruct e. Qed.

Lemma undo_nil k s : sj s = [] → undo k s = s.
Proof. intros Hs. destruct k; simpl; [done|]. by rewrite Hs. Qed.

Lemma undo_add a b s : undo (a + b) s = undo b (undo a s).
Proof.
  revert s. induction a as [|a IH]; intros s; simpl; [done|].
  destruct (sj s) as [|e j] eqn:Hs; [by rewrite undo_nil|]. apply IH.
Qed.

Lemma undo_length k s : length (sj (undo k s)) = length (sj s) - k.
Proof.
  revert s. induction k as [|k IH]; intros s; simpl; [lia|].
  destruct (sj s) as [|e j] eqn:Hs; simpl; [by rewrite Hs|].
  rewrite IH, sj_undo1. done.
Qed.

Lemma partial_alter_insert_old {A} (m : gmap addr A) a v :
  partial_alter (λ _, m !! a) a (<[a:=v]> m) = m.
Proof.
  apply map_eq; intros i. destruct (decide (i = a)) as [->|Hne].
  - by rewrite lookup_partial_alter.
  - by rewrite lookup_partial_alter_ne, lookup_insert_ne.
Qed.

(* [s'] is [s] plus journaled changes: undoing the new entries gives back [s] exactly *)
Definition sext (s s' : jstate) : Prop :=
  ∃ k, undo k s' = s ∧ length (sj s') = k + length (sj s).

Lemma sext_refl s : sext s s.
Proof. by exists 0. Qed.

Lemma sext_trans s1 s2 s3 : sext s1 s2 → sext s2 s3 → sext s1 s3.
Proof.
  intros (k1 & Hu1 & Hl1) (k2 & Hu2 & Hl2). exists (k2 + k1). split.
  - by rewrite undo_add, Hu2.
  - lia.
Qed.

Lemma sext_length s s' : sext s s' → length (sj s) ≤ length (sj s').
Proof. intros (k & _ & Hl). lia. Qed.

Lemma set_bal_sext a v s : sext s (set_bal a v s).
Proof.
  exists 1. split; [|done]. destruct s as [b n c j]; simpl.
  by rewrite partial_alter_insert_old.
Qed.

Lemma set_nonce_sext a v s : sext s (set_nonce a v s).
Proof.
  exists 1. split; [|done]. destruct s as [b n c j]; simpl.
  by rewrite partial_alter_insert_old.
Qed.

Lemma in_acl_true s a : in_acl s a = true ↔ is_Some (sacl s !! a).
Proof. unfold in_acl. destruct (sacl s !! a); split; intros H; try done; by destruct H. Qed.

Lemma in_acl_false s a : in_acl s a = false ↔ sacl s !! a = None.
Proof. unfold in_acl. by destruct (sacl s !! a). Qed.

Lemma add_acl_sext a s : sext s (add_acl a s).
Proof.
  unfold add_acl. destruct (in_acl s a) eqn:Hin; [apply sext_refl|].
  apply in_acl_false in Hin. exists 1. split; [|done].
  destruct s as [b n c j]; simpl in *. by rewrite delete_insert.
Qed.

Lemma undo_sext s s' jl :
  sext s s' → jl ≤ length (sj s) →
  undo (length (sj s') - jl) s' = undo (length (sj s) - jl) s.
Proof.
  intros (k & Hu & Hl) Hjl.
  replace (length (sj s') - jl) with (k + (length (sj s) - jl)) by lia.
  by rewrite undo_add, Hu.
Qed.

(** * views after the elementary writes *)

Lemma gb_set_bal a v s b : gb (set_bal a v s) b = if decide (b = a) then v else gb s b.
Proof.
  unfold gb; simpl. destruct (decide (b = a)) as [->|].
  - by rewrite lookup_insert.
  - by rewrite lookup_insert_ne.
Qed.
Lemma gn_set_bal a v s b : gn (set_bal a v s) b = gn s b.
Proof. done. Qed.
Lemma gn_set_nonce a v s b : gn (set_nonce a v s) b = if decide (b = a) then v else gn s b.
Proof.
  unfold gn; simpl. destruct (decide (b = a)) as [->|].
  - by rewrite lookup_insert.
  - by rewrite lookup_insert_ne.
Qed.
Lemma gb_set_nonce a v s b : gb (set_nonce a v s) b = gb s b.
Proof. done. Qed.
Lemma gb_add_acl a s b : gb (add_acl a s) b = gb s b.
Proof. unfold add_acl. by destruct (in_acl s a). Qed.
Lemma gn_add_acl a s b : gn (add_acl a s) b = gn s b.
Proof. unfold add_acl. by destruct (in_acl s a). Qed.

Lemma in_acl_add_acl a s b :
  in_acl (add_acl a s) b = if decide (b = a) then true else in_acl s b.
Proof.
  unfold add_acl. destruct (in_acl s a) eqn:Hin.
  - destruct (decide (b = a)) as [->|]; done.
  - unfold in_acl; simpl. destruct (decide (b = a)) as [->|].
    + by rewrite lookup_insert.
    + by rewrite lookup_insert_ne.
Qed.

(* the address an interpreter call works on *)
Definition op_target (o : wop) : option addr :=
  match o with
  | OGetBalance a | OGetNonce a | OAddBalance a _ | OSubBalance a _
  | OSetNonce a _ | OCreate a | OSuicide a => Some a
  | _ => None
  end.

Lemma jstep_target o s out s' : jstep o s = Some (out, s') → ∃ a, op_target o = Some a.
Proof. destruct o; simpl; intros; try done; eauto. Qed.

Lemma jstep_total o s r x : jstep o s = Some x → ∃ y, jstep o r = Some y.
Proof. destruct o; simpl; intros; try done; eauto. Qed.

Lemma jstep_none o s r : jstep o s = None → jstep o r = None.
Proof. destruct o; simpl; intros; done. Qed.

Lemma jstep_sext o s out s' : jstep o s = Some (out, s') → sext s s'.
Proof.
  destruct o; simpl; intros H; try done; injection H as <- <-;
    unfold j_add_balance, j_sub_balance, j_create, j_suicide;
    try apply sext_refl; try apply set_nonce_sext; try apply set_bal_sext;
    try (destruct (Z.eqb _ _); [apply sext_refl|apply set_bal_sext]).
Qed.

Lemma jstep_acl o s out s' : jstep o s = Some (out, s') → sacl s' = sacl s.
Proof.
  destruct o; simpl; intros H; try done; injection H as <- <-;
    unfold j_add_balance, j_sub_balance, j_create, j_suicide; try done;
    by destruct (Z.eqb _ _).
Qed.

Lemma jstep_other o s out s' a b :
  jstep o s = Some (out, s') → op_target o = Some a → b ≠ a →
  gb s' b = gb s b ∧ gn s' b = gn s b.
Proof.
  destruct o; simpl; intros H Ht Hne; try done; injection H as <- <-; injection Ht as <-;
    unfold j_add_balance, j_sub_balance, j_create, j_suicide;
    try (destruct (Z.eqb _ _)); rewrite ?gb_set_bal, ?gn_set_bal, ?gb_set_nonce, ?gn_set_nonce;
    try done; by destruct (decide (b = _)).
Qed.

(* on the target the result depends only on the target's balance and nonce *)
Lemma jstep_same o s r out s' out' r' a :
  jstep o s = Some (out, s') → jstep o r = Some (out', r') → op_target o = Some a →
  gb s a = gb r a → gn s a = gn r a →
  out = out' ∧ gb s' a = gb r' a ∧ gn s' a = gn r' a.
Proof.
  destruct o; simpl; intros H H' Ht Hb Hn; try done;
    injection H as <- <-; injection H' as <- <-; injection Ht as <-;
    unfold j_add_balance, j_sub_balance, j_create, j_suicide;
    try (destruct (Z.eqb _ _)); rewrite ?gb_set_bal, ?gn_set_bal, ?gb_set_nonce, ?gn_set_nonce;
    rewrite ?Hb, ?Hn; try done; by destruct (decide (_ = _)).
Qed.

(** * revisions *)

Fixpoint revs_ok (bi bj : nat) (revs : list (nat * nat)) : Prop :=
  match revs with
  | [] => True
  | (i, jl) :: rest => i < bi ∧ jl ≤ bj ∧ revs_ok i jl rest
  end.

Definition gwf (g : gstate) : Prop := revs_ok (gnext g) (length (sj (gs g))) (grevs g).

Lemma revs_ok_weaken bi bj bi' bj' revs :
  bi ≤ bi' → bj ≤ bj' → revs_ok bi bj revs → revs_ok bi' bj' revs.
Proof. destruct revs as [|[i jl] rest]; simpl; [done|]. intros ?? (?&?&?). repeat split; [lia..|done]. Qed.

Lemma find_rev_ok bi bj revs id jl rest :
  revs_ok bi bj revs → find_rev id revs = Some (jl, rest) →
  id < bi ∧ jl ≤ bj ∧ revs_ok id jl rest.
Proof.
  revert bi bj. induction revs as [|[i j] tl IH]; intros bi bj; simpl; [done|].
  intros (Hi & Hj & Hok). destruct (Nat.eqb_spec i id) as [->|Hne].
  - intros [= <- <-]. done.
  - intros Hf. destruct (IH _ _ Hok Hf) as (?&?&?). repeat split; [lia..|done].
Qed.

Lemma find_rev_older bi bj revs id jl rest id2 x :
  revs_ok bi bj revs → find_rev id revs = Some (jl, rest) →
  find_rev id2 rest = Some x → find_rev id2 revs = Some x.
Proof.
  revert bi bj. induction revs as [|[i j] tl IH]; intros bi bj; simpl; [done|].
  intros (Hi & Hj & Hok). destruct x as [jl2 rest2]. destruct (Nat.eqb_spec i id) as [->|Hne].
  - intros [= <- <-] Hf2. destruct (find_rev_ok _ _ _ _ _ _ Hok Hf2) as (Hlt&_&_).
    destruct (Nat.eqb_spec id id2); [lia|done].
  - intros Hf Hf2. pose proof (IH _ _ Hok Hf Hf2) as Hf3.
    destruct (find_rev_ok _ _ _ _ _ _ Hok Hf3) as (Hlt&_&_).
    destruct (Nat.eqb_spec i id2); [lia|done].
Qed.

Lemma find_rev_ids revs1 revs2 id jl rest :
  revs1.*1 = revs2.*1 → find_rev id revs1 = Some (jl, rest) →
  ∃ jl' rest', find_rev id revs2 = Some (jl', rest') ∧ rest.*1 = rest'.*1.
Proof.
  revert revs2. induction revs1 as [|[i j] tl IH]; intros [|[i' j'] tl']; simpl; try done.
  intros [= <- Htl]. destruct (Nat.eqb_spec i id) as [->|Hne].
  - intros [= <- <-]. eauto.
  - intros Hf. by apply IH.
Qed.

(** * keep_tags *)

Lemma keep_tags_lookup id m a t : keep_tags id m !! a = Some t ↔ m !! a = Some t ∧ t ≤ id.
Proof. unfold keep_tags. by rewrite map_filter_lookup_Some. Qed.

Lemma keep_tags_all id m : (∀ a t, m !! a = Some t → t ≤ id) → keep_tags id m = m.
Proof.
  intros H. apply map_eq; intros a. apply option_eq; intros t.
  rewrite keep_tags_lookup. naive_solver.
Qed.

Lemma keep_tags_none id m : (∀ a t, m !! a = Some t → id < t) → keep_tags id m = ∅.
Proof.
  intros H. apply map_eq; intros a. rewrite lookup_empty. apply option_eq; intros t.
  rewrite keep_tags_lookup. split; [|done]. intros [Hm Hle]. apply H in Hm. lia.
Qed.

Lemma keep_tags_twice id2 id m : id2 ≤ id → keep_tags id2 (keep_tags id m) = keep_tags id2 m.
Proof.
  intros Hle. apply map_eq; intros a. apply option_eq; intros t.
  rewrite !keep_tags_lookup. split; [naive_solver|]. intros [? ?]. repeat split; [done|lia|done].
Qed.

Lemma keep_tags_insert_new id m a t : id < t → m !! a = None →
  keep_tags id (<[a:=t]> m) = keep_tags id m.
Proof.
  intros Hlt Hnone. apply map_eq; intros b. apply option_eq; intros u.
  rewrite !keep_tags_lookup. destruct (decide (b = a)) as [->|Hne].
  - rewrite lookup_insert, Hnone. split; [|naive_solver]. intros [[= <-] ?]. lia.
  - by rewrite lookup_insert_ne.
Qed.

(** * runs *)

Lemma wrun_app ops1 ops2 w :
  wrun (ops1 ++ ops2) w =
  ((wrun ops1 w).1 ++ (wrun ops2 (wrun ops1 w).2).1, (wrun ops2 (wrun ops1 w).2).2).
Proof.
  revert w. induction ops1 as [|o r IH]; intros w; simpl.
  - by destruct (wrun ops2 w).
  - destruct (wstep o w) as [out w1]. rewrite IH.
    destruct (wrun r w1) as [outs1 w2]; simpl. by destruct (wrun ops2 w2).
Qed.

Lemma wrun_cons o r w :
  wrun (o :: r) w = ((wstep o w).1 :: (wrun r (wstep o w).2).1, (wrun r (wstep o w).2).2).
Proof. simpl. destruct (wstep o w) as [out w1]; simpl. by destruct (wrun r w1). Qed.

Lemma rrun_cons o r g :
  rrun (o :: r) g = ((rstep o g).1 :: (rrun r (rstep o g).2).1, (rrun r (rstep o g).2).2).
Proof. simpl. destruct (rstep o g) as [out g1]; simpl. by destruct (rrun r g1). Qed.

(** * W3: the failure path of ExecuteTrx leaves the native ledger alone *)

(* calls the interpreter can make in the body of a transaction *)
Definition body_op (o : wop) : Prop :=
  match o with OPrepare _ _ _ | OFinish => False | _ => True end.

Lemma sync_in_wnat a w : wnat (sync_in a w) = wnat w.
Proof. unfold sync_in. by destruct (wacc w !! a). Qed.
Lemma w_add_access_wnat a w : wnat (w_add_access a w) = wnat w.
Proof. unfold w_add_access; simpl. apply sync_in_wnat. Qed.

Lemma wstep_wnat o w : o ≠ OFinish → wnat (wstep o w).2 = wnat w.
Proof.
  intros Hne. unfold wstep. destruct (jstep o (gs (wg w))) as [[out s']|] eqn:Hj; [done|].
  destruct o; try done; simpl.
  - by destruct (g_revert id (wg w)).
  - apply w_add_access_wnat.
  - destruct to as [t|]; unfold opt_access; rewrite ?w_add_access_wnat; done.
Qed.

(* a run without Finish never writes the native ledger (in particular: a read-only call) *)
Lemma no_finish_native_unchanged ops w : OFinish ∉ ops → wnat (wrun ops w).2 = wnat w.
Proof.
  revert w. induction ops as [|o r IH]; intros w Hnot; [done|].
  rewrite wrun_cons; simpl. rewrite IH, wstep_wnat; [done|..].
  - intros ->. apply Hnot. by left.
  - intros Hin. apply Hnot. by right.
Qed.

(* every recorded address was recorded after revision [n] was taken *)
Definition after_snap (n : nat) (w : wstate) : Prop :=
  n < gnext (wg w) ∧ n ≤ wsnap w ∧ ∀ a t, wacc w !! a = Some t → n < t.

Lemma sync_in_after n a w : after_snap n w → after_snap n (sync_in a w).
Proof.
  intros (Hn & Hs & Ht). unfold sync_in. destruct (wacc w !! a) eqn:Ha; [done|].
  repeat split; simpl; [done..|]. intros b t. destruct (decide (b = a)) as [->|Hne].
  - rewrite lookup_insert. intros [= <-]. lia.
  - rewrite lookup_insert_ne by done. apply Ht.
Qed.

Lemma w_add_access_after n a w : after_snap n w → after_snap n (w_add_access a w).
Proof. intros H. apply (sync_in_after _ a) in H. exact H. Qed.

Lemma wstep_after n o w : body_op o → after_snap n w → after_snap n (wstep o w).2.
Proof.
  intros Hb (Hn & Hs & Ht). unfold wstep.
  destruct (jstep o (gs (wg w))) as [[out s']|] eqn:Hj; [done|].
  destruct o; try done; simpl.
  - repeat split; simpl; [lia..|done].
  - unfold g_revert. destruct (find_rev id (grevs (wg w))) as [[jl rest]|]; simpl; [|done].
    repeat split; simpl; [done..|]. intros a t [Hm _]%keep_tags_lookup. by eapply Ht.
  - by apply w_add_access_after.
Qed.

Lemma wrun_after n ops w :
  Forall body_op ops → after_snap n w → after_snap n (wrun ops w).2.
Proof.
  revert w. induction ops as [|o r IH]; intros w Hall Haft; [done|].
  inversion Hall as [|?? Ho Hr]; subst. rewrite wrun_cons; simpl.
  apply IH; [done|]. by apply wstep_after.
Qed.

Lemma body_op_not_finish ops : Forall body_op ops → OFinish ∉ ops.
Proof.
  intros Hall Hin. rewrite Forall_forall in Hall. by apply Hall in Hin.
Qed.

Lemma w_finish_empty w : wacc w = ∅ → wnat (w_finish w) = wnat w.
Proof. intros He. unfold w_finish, acc_addrs; simpl. by rewrite He, map_to_list_empty. Qed.

(* Snapshot; Prepare(snap); body; RevertToSnapshot(snap); Finish — the failure path of
   ExecuteTrx.  After the revert nothing is recorded any more (all tags are > snap), so Finish
   writes nothing.  [Hnopanic]: geth's RevertToSnapshot(snap) does not panic, i.e. the body has
   not itself reverted to [snap] or below (properly nested revisions). *)
Theorem top_level_revert_no_effect w f t body :
  wacc w = ∅ → Forall body_op body →
  let n := gnext (wg w) in
  let w1 := (wrun (OSnapshot :: OPrepare n f t :: body) w).2 in
  (wstep (ORevert n) w1).1 = OutUnit →
  let w2 := (wrun [ORevert n; OFinish] w1).2 in
  wacc (wstep (ORevert n) w1).2 = ∅ ∧ wacc w2 = ∅ ∧ wnat w2 = wnat w.
Proof.
  intros Hacc Hbody n w1 Hnopanic w2.
  assert (Haft : after_snap n w1).
  { unfold w1. rewrite !wrun_cons; simpl. apply wrun_after; [done|].
    assert (H0 : after_snap n (WS (GS (gs (wg w)) ((n, length (sj (gs (wg w)))) :: grevs (wg w)) (S n))
                                  (wacc w) n (wnat w))).
    { repeat split; simpl; [lia..|]. intros a u. by rewrite Hacc, lookup_empty. }
    destruct t as [t|]; simpl; [apply w_add_access_after|]; by apply w_add_access_after. }
  assert (Hnat1 : wnat w1 = wnat w).
  { unfold w1. apply no_finish_native_unchanged. intros Hin.
    apply elem_of_cons in Hin as [?|Hin]; [done|].
    apply elem_of_cons in Hin as [?|Hin]; [done|]. by apply body_op_not_finish in Hin. }
  assert (Hrev : wacc (wstep (ORevert n) w1).2 = ∅ ∧ wnat (wstep (ORevert n) w1).2 = wnat w1).
  { revert Hnopanic. unfold wstep; simpl. destruct (g_revert n (wg w1)); simpl; [|done].
    intros _. split; [|done]. apply keep_tags_none. by destruct Haft as (_&_&?). }
  destruct Hrev as [Hrev1 Hrev2]. split; [done|].
  unfold w2. rewrite !wrun_cons; simpl. split; [done|].
  unfold wstep at 1; simpl.
  change (wnat (w_finish (wstep (ORevert n) w1).2) = wnat w).
  rewrite w_finish_empty by done. congruence.
Qed.

(** * W2: Finish *)

Lemma finish_list_in l s m a :
  a ∈ l → finish_list l s m !! a = Some (gb s a, gn s a).
Proof.
  induction l as [|x l IH]; simpl; [by intros ?%elem_of_nil|].
  intros Hin. destruct (decide (a = x)) as [->|Hne]; [by rewrite lookup_insert|].
  rewrite lookup_insert_ne by done. apply IH. by apply elem_of_cons in Hin as [?|?].
Qed.

Lemma finish_list_notin l s m a : a ∉ l → finish_list l s m !! a = m !! a.
Proof.
  induction l as [|x l IH]; simpl; [done|].
  intros Hnot. apply not_elem_of_cons in Hnot as [Hne Hnot].
  rewrite lookup_insert_ne by done. by apply IH.
Qed.

(* the visiting order of Finish (Go map iteration) does not matter *)
Lemma finish_list_perm l1 l2 s m : l1 ≡ₚ l2 → finish_list l1 s m = finish_list l2 s m.
Proof.
  intros Hp. apply map_eq; intros a. destruct (decide (a ∈ l1)) as [Hin|Hnot].
  - rewrite !finish_list_in; [done| |done]. by rewrite <- Hp.
  - rewrite !finish_list_notin; [done| |done]. by rewrite <- Hp.
Qed.

Lemma elem_of_acc_addrs (m : gmap addr nat) a : a ∈ acc_addrs m ↔ is_Some (m !! a).
Proof.
  unfold acc_addrs. rewrite elem_of_list_fmap. split.
  - intros ([b t] & -> & Hin). apply elem_of_map_to_list in Hin. by exists t.
  - intros [t Ht]. exists (a, t). split; [done|]. by apply elem_of_map_to_list.
Qed.

Theorem finish_order_irrelevant w l :
  l ≡ₚ acc_addrs (wacc w) →
  finish_list l (gs (wg w)) (wnat w) = wnat (wstep OFinish w).2.
Proof. intros Hp. unfold wstep; simpl. by apply finish_list_perm. Qed.

(* Finish writes geth's balance and nonce of every recorded address into the native ledger,
   leaves every other account alone, and clears the record; geth's state is not changed *)
Theorem finish_syncs_out w :
  let w' := (wstep OFinish w).2 in
  wacc w' = ∅ ∧ wg w' = wg w ∧
  (∀ a, is_Some (wacc w !! a) →
        wnat w' !! a = Some (gb (gs (wg w)) a, gn (gs (wg w)) a)) ∧
  (∀ a, wacc w !! a = None → wnat w' !! a = wnat w !! a).
Proof.
  intros w'. unfold w', wstep; simpl. split; [done|]. split; [done|]. split.
  - intros a Ha. apply finish_list_in. by apply elem_of_acc_addrs.
  - intros a Ha. apply finish_list_notin. rewrite elem_of_acc_addrs, Ha. by intros [? ?].
Qed.

(** * W1: the simulation *)

(* [E]: "the two access lists are equal" is carried along only when it holds initially *)
Definition CoreS (E : Prop) (s : jstate) (acc : gmap addr nat) (nat : gmap addr (Z * Z))
    (r : jstate) : Prop :=
  (∀ a, is_Some (acc !! a) → gb s a = gb r a ∧ gn s a = gn r a) ∧
  (∀ a, acc !! a = None → nb nat a = gb r a ∧ nn nat a = gn r a) ∧
  (∀ a, is_Some (acc !! a) ↔ in_acl r a = true) ∧
  (E → sacl s = sacl r).

Record Inv (E : Prop) (w : wstate) (g : gstate) : Prop := {
  i_wfw  : gwf (wg w);
  i_wfr  : gwf g;
  i_next : gnext (wg w) = gnext g;
  i_ids  : (grevs (wg w)).*1 = (grevs g).*1;
  i_snap : S (wsnap w) = gnext g;
  i_tags : ∀ a t, wacc w !! a = Some t → t ≤ gnext g;
  i_core : CoreS E (gs (wg w)) (wacc w) (wnat w) (gs g);
  (* the heart: reverting both worlds to any valid revision — geth by its journal, the wrapper
     additionally by its tags — gives related states again *)
  i_all  : ∀ id jl rest jl' rest',
             find_rev id (grevs (wg w)) = Some (jl, rest) →
             find_rev id (grevs g) = Some (jl', rest') →
             CoreS E (undo (length (sj (gs (wg w))) - jl) (gs (wg w)))
                     (keep_tags id (wacc w)) (wnat w)
                     (undo (length (sj (gs g)) - jl') (gs g))
}.

(* journaled extension of both worlds which records only new addresses (tag = nextRevisionId) *)
Lemma Inv_ext E w g s' acc' sn' r' :
  Inv E w g →
  sext (gs (wg w)) s' → sext (gs g) r' →
  S sn' = gnext g →
  (∀ id, id < gnext g → keep_tags id acc' = keep_tags id (wacc w)) →
  (∀ a t, acc' !! a = Some t → t ≤ gnext g) →
  CoreS E s' acc' (wnat w) r' →
  Inv E (WS (GS s' (grevs (wg w)) (gnext (wg w))) acc' sn' (wnat w)) (GS r' (grevs g) (gnext g)).
Proof.
  intros [Hwfw Hwfr Hnext Hids Hsnap Htags Hcore Hall] Hsw Hsr Hsn Hkeep Htags' Hcore'.
  split; simpl; try done.
  - unfold gwf in *; simpl. eapply revs_ok_weaken; [done| |exact Hwfw]. by apply sext_length.
  - unfold gwf in *; simpl. eapply revs_ok_weaken; [done| |exact Hwfr]. by apply sext_length.
  - intros id jl rest jl' rest' Hf Hf'.
    destruct (find_rev_ok _ _ _ _ _ _ Hwfw Hf) as (Hid & Hjl & _).
    destruct (find_rev_ok _ _ _ _ _ _ Hwfr Hf') as (Hid' & Hjl' & _).
    rewrite (undo_sext _ _ _ Hsw Hjl), (undo_sext _ _ _ Hsr Hjl'), Hkeep by done.
    by eapply Hall.
Qed.

Lemma Inv_jstep E w g o out s' out' r' :
  Inv E w g → op_ok o g →
  jstep o (gs (wg w)) = Some (out, s') → jstep o (gs g) = Some (out', r') →
  out = out' ∧
  Inv E (WS (GS s' (grevs (wg w)) (gnext (wg w))) (wacc w) (wsnap w) (wnat w))
        (GS r' (grevs g) (gnext g)).
Proof.
  intros HI Hok Hj Hj'. destruct (jstep_target _ _ _ _ Hj) as [a Ht].
  assert (Hin : in_acl (gs g) a = true) by (destruct o; simpl in *; try done; by injection Ht as <-).
  destruct (i_core _ _ _ HI) as (Hc1 & Hc2 & Hc3 & Hc4).
  assert (Hacc : is_Some (wacc w !! a)) by by apply Hc3.
  destruct (Hc1 _ Hacc) as [Hb Hn].
  destruct (jstep_same _ _ _ _ _ _ _ _ Hj Hj' Ht Hb Hn) as (Hout & Hb' & Hn').
  split; [done|]. apply Inv_ext; try done.
  - by eapply jstep_sext.
  - by eapply jstep_sext.
  - by apply (i_snap _ _ _ HI).
  - by apply (i_tags _ _ _ HI).
  - repeat split.
    + destruct (decide (a0 = a)) as [->|Hne]; [done|].
      destruct (jstep_other _ _ _ _ _ _ Hj Ht Hne) as [-> _].
      destruct (jstep_other _ _ _ _ _ _ Hj' Ht Hne) as [-> _]. by apply Hc1.
    + destruct (decide (a0 = a)) as [->|Hne]; [done|].
      destruct (jstep_other _ _ _ _ _ _ Hj Ht Hne) as [_ ->].
      destruct (jstep_other _ _ _ _ _ _ Hj' Ht Hne) as [_ ->]. by apply Hc1.
    + assert (Hne : a0 ≠ a) by (intros ->; rewrite H in Hacc; by destruct Hacc).
      destruct (jstep_other _ _ _ _ _ _ Hj' Ht Hne) as [-> _]. by apply Hc2.
    + assert (Hne : a0 ≠ a) by (intros ->; rewrite H in Hacc; by destruct Hacc).
      destruct (jstep_other _ _ _ _ _ _ Hj' Ht Hne) as [_ ->]. by apply Hc2.
    + intros H. apply Hc3 in H. unfold in_acl in *. by rewrite (jstep_acl _ _ _ _ Hj').
    + intros H. apply Hc3. unfold in_acl in *. by rewrite (jstep_acl _ _ _ _ Hj') in H.
    + intros HE. rewrite (jstep_acl _ _ _ _ Hj), (jstep_acl _ _ _ _ Hj'). by apply Hc4.
Qed.

Lemma add_acl_same_acl a s r : sacl s = sacl r → sacl (add_acl a s) = sacl (add_acl a r).
Proof.
  intros Heq. unfold add_acl, in_acl. rewrite Heq. destruct (sacl r !! a); simpl; [done|].
  by f_equal.
Qed.

(* AddAddressToAccessList on both worlds *)
Lemma Inv_add_access E w g a :
  Inv E w g → Inv E (w_add_access a w) (g_lift (add_acl a) g).
Proof.
  intros HI. destruct (i_core _ _ _ HI) as (Hc1 & Hc2 & Hc3 & Hc4).
  unfold w_add_access, w_lift, g_lift, sync_in. destruct (wacc w !! a) as [t|] eqn:Ha; simpl.
  - (* already recorded: no sync-in; the reference has it on the list already *)
    assert (Hin : in_acl (gs g) a = true) by (apply Hc3; by rewrite Ha).
    assert (Hr : add_acl a (gs g) = gs g) by (unfold add_acl; by rewrite Hin).
    rewrite Hr. destruct g as [r revs nx]; simpl in *.
    apply (Inv_ext E w (GS r revs nx)); simpl; try done.
    + apply add_acl_sext.
    + apply sext_refl.
    + by apply (i_snap _ _ _ HI).
    + by apply (i_tags _ _ _ HI).
    + repeat split; intros; rewrite ?gb_add_acl, ?gn_add_acl; try (by apply Hc1);
        try (by apply Hc2); try (by apply Hc3).
      rewrite <- Hr. apply add_acl_same_acl. by apply Hc4.
  - (* first access: sync-in *)
    assert (Hin : in_acl (gs g) a = false).
    { destruct (in_acl (gs g) a) eqn:Hin; [|done]. apply Hc3 in Hin. rewrite Ha in Hin. by destruct Hin. }
    destruct (Hc2 _ Ha) as [Hnb Hnn].
    apply (Inv_ext E w g); simpl; try done.
    + eapply sext_trans; [apply set_nonce_sext|]. eapply sext_trans; [apply set_bal_sext|].
      apply add_acl_sext.
    + apply add_acl_sext.
    + by apply (i_snap _ _ _ HI).
    + intros id Hid. apply keep_tags_insert_new; [|done]. rewrite (i_snap _ _ _ HI). done.
    + intros b u. destruct (decide (b = a)) as [->|Hne].
      * rewrite lookup_insert. intros [= <-]. by rewrite (i_snap _ _ _ HI).
      * rewrite lookup_insert_ne by done. apply (i_tags _ _ _ HI).
    + repeat split.
      * rewrite !gb_add_acl, gb_set_bal, gb_set_nonce. destruct (decide (a0 = a)) as [->|Hne]; [done|].
        rewrite lookup_insert_ne in H by done. by apply Hc1.
      * rewrite !gn_add_acl, gn_set_bal, gn_set_nonce. destruct (decide (a0 = a)) as [->|Hne]; [done|].
        rewrite lookup_insert_ne in H by done. by apply Hc1.
      * rewrite gb_add_acl. destruct (decide (a0 = a)) as [->|Hne]; [by rewrite lookup_insert in H|].
        rewrite lookup_insert_ne in H by done. by apply Hc2.
      * rewrite gn_add_acl. destruct (decide (a0 = a)) as [->|Hne]; [by rewrite lookup_insert in H|].
        rewrite lookup_insert_ne in H by done. by apply Hc2.
      * rewrite in_acl_add_acl. destruct (decide (a0 = a)) as [->|Hne]; [done|].
        rewrite lookup_insert_ne by done. apply Hc3.
      * rewrite in_acl_add_acl. destruct (decide (a0 = a)) as [->|Hne]; [by rewrite lookup_insert|].
        rewrite lookup_insert_ne by done. apply Hc3.
      * intros HE. apply add_acl_same_acl. simpl. by apply Hc4.
Qed.

Lemma Inv_set_snap E w g sn :
  Inv E w g → S sn = gnext g → Inv E (WS (wg w) (wacc w) sn (wnat w)) g.
Proof. intros [] ?. by split. Qed.

Lemma Inv_snapshot E w g :
  Inv E w g →
  (g_snapshot (wg w)).1 = (g_snapshot g).1 ∧
  Inv E (WS (g_snapshot (wg w)).2 (wacc w) (g_snapshot (wg w)).1 (wnat w)) (g_snapshot g).2.
Proof.
  intros [Hwfw Hwfr Hnext Hids Hsnap Htags Hcore Hall]. unfold g_snapshot; simpl.
  split; [done|]. split; simpl.
  - unfold gwf in *; simpl. repeat split; [lia..|done].
  - unfold gwf in *; simpl. repeat split; [lia..|done].
  - by rewrite Hnext.
  - rewrite Hnext. f_equal. exact Hids.
  - by rewrite Hnext.
  - intros a t Ht. apply Htags in Ht. lia.
  - done.
  - intros id jl rest jl' rest'. rewrite Hnext.
    destruct (Nat.eqb_spec (gnext g) id) as [<-|Hne].
    + intros [= <- <-] [= <- <-]. rewrite !Nat.sub_diag; simpl.
      rewrite keep_tags_all; [done|]. intros a t Ht. by apply Htags in Ht.
    + apply Hall.
Qed.

Lemma Inv_revert E w g id g' :
  Inv E w g → g_revert id g = Some g' →
  ∃ gw', g_revert id (wg w) = Some gw' ∧
         Inv E (WS gw' (keep_tags id (wacc w)) (wsnap w) (wnat w)) g'.
Proof.
  intros [Hwfw Hwfr Hnext Hids Hsnap Htags Hcore Hall]. unfold g_revert.
  destruct (find_rev id (grevs g)) as [[jl' rest']|] eqn:Hf'; [|done]. intros [= <-].
  destruct (find_rev_ids _ _ _ _ _ (eq_sym Hids) Hf') as (jl & rest & Hf & Hrest).
  rewrite Hf. eexists; split; [done|].
  destruct (find_rev_ok _ _ _ _ _ _ Hwfw Hf) as (Hid & Hjl & Hokw).
  destruct (find_rev_ok _ _ _ _ _ _ Hwfr Hf') as (Hid' & Hjl' & Hokr).
  split; simpl.
  - unfold gwf; simpl. rewrite undo_length.
    eapply revs_ok_weaken; [| |exact Hokw]; lia.
  - unfold gwf; simpl. rewrite undo_length.
    eapply revs_ok_weaken; [| |exact Hokr]; lia.
  - done.
  - done.
  - done.
  - intros a t [Ht _]%keep_tags_lookup. by eapply Htags.
  - by eapply Hall.
  - intros id2 jl2 rest2 jl2' rest2' Hf2 Hf2'.
    destruct (find_rev_ok _ _ _ _ _ _ Hokw Hf2) as (Hid2 & Hjl2 & _).
    destruct (find_rev_ok _ _ _ _ _ _ Hokr Hf2') as (_ & Hjl2' & _).
    pose proof (find_rev_older _ _ _ _ _ _ _ _ Hwfw Hf Hf2) as Hg2.
    pose proof (find_rev_older _ _ _ _ _ _ _ _ Hwfr Hf' Hf2') as Hg2'.
    rewrite !undo_length, <- !undo_add, keep_tags_twice by lia.
    replace (length (sj (gs (wg w))) - jl + (length (sj (gs (wg w))) - (length (sj (gs (wg w))) - jl) - jl2))
      with (length (sj (gs (wg w))) - jl2) by lia.
    replace (length (sj (gs g)) - jl' + (length (sj (gs g)) - (length (sj (gs g)) - jl') - jl2'))
      with (length (sj (gs g)) - jl2') by lia.
    by eapply Hall.
Qed.

(* one call, made on both worlds *)
Lemma Inv_step E w g o :
  Inv E w g → op_ok o g →
  (wstep o w).1 = (rstep o g).1 ∧ Inv E (wstep o w).2 (rstep o g).2.
Proof.
  intros HI Hok. unfold wstep, rstep.
  destruct (jstep o (gs (wg w))) as [[out s']|] eqn:Hj.
  - destruct (jstep_total _ _ (gs g) _ Hj) as [[out' r'] Hj']. rewrite Hj'; simpl.
    by eapply Inv_jstep.
  - rewrite (jstep_none _ _ (gs g) Hj). destruct o; try done; simpl in *.
    + (* Snapshot *)
      destruct (Inv_snapshot _ _ _ HI) as [Hid HI'].
      unfold g_snapshot in *; simpl in *. split; [by rewrite Hid|done].
    + (* RevertToSnapshot *)
      destruct Hok as [[jl' rest'] Hf'].
      assert (Hr : ∃ g', g_revert id g = Some g') by (unfold g_revert; rewrite Hf'; eauto).
      destruct Hr as [g' Hr]. destruct (Inv_revert _ _ _ _ _ HI Hr) as (gw' & Hrw & HI').
      rewrite Hr, Hrw; simpl. done.
    + (* AddAddressToAccessList *)
      split; [done|]. by apply Inv_add_access.
    + (* Prepare *)
      split; [done|]. pose proof (Inv_set_snap _ _ _ snap HI Hok) as HI1.
      pose proof (Inv_add_access _ _ _ from HI1) as HI2.
      destruct to as [t|]; simpl; [|exact HI2].
      exact (Inv_add_access _ _ _ t HI2).
Qed.

(* W1, general form *)
Theorem wrapper_refines_reference E w g ops :
  Inv E w g → disciplined ops g →
  (wrun ops w).1 = (rrun ops g).1 ∧ Inv E (wrun ops w).2 (rrun ops g).2.
Proof.
  revert w g. induction ops as [|o r IH]; intros w g HI Hd; [done|].
  destruct Hd as [Hok Hd]. rewrite wrun_cons, rrun_cons; simpl.
  destruct (Inv_step _ _ _ _ HI Hok) as [Hout HI'].
  destruct (IH _ _ HI' Hd) as [Houts HI'']. split; [by rewrite Hout, Houts|done].
Qed.

(** ** initial states *)

Lemma nb_fmap (m : gmap addr (Z * Z)) a : default 0%Z ((fst <$> m) !! a) = nb m a.
Proof. unfold nb. rewrite lookup_fmap. by destruct (m !! a). Qed.
Lemma nn_fmap (m : gmap addr (Z * Z)) a : default 0%Z ((snd <$> m) !! a) = nn m a.
Proof. unfold nn. rewrite lookup_fmap. by destruct (m !! a). Qed.

Lemma CoreS_init (E : Prop) w :
  wacc w = ∅ → (E → sacl (gs (wg w)) = ∅) →
  CoreS E (gs (wg w)) (wacc w) (wnat w) (gs (ref_init w)).
Proof.
  intros Hacc HE. split; [|split; [|split]].
  - intros a. rewrite Hacc, lookup_empty. by intros [? ?].
  - intros a _. unfold gb, gn; simpl. by rewrite nb_fmap, nn_fmap.
  - intros a. rewrite Hacc, lookup_empty. split; [by intros [? ?]|done].
  - done.
Qed.

(* a wrapper between two transactions whose s.snapshot is the last revision id issued *)
Lemma Inv_init (E : Prop) w :
  wacc w = ∅ → grevs (wg w) = [] → S (wsnap w) = gnext (wg w) →
  (E → sacl (gs (wg w)) = ∅) → Inv E w (ref_init w).
Proof.
  intros Hacc Hrevs Hsnap HE. split; simpl; try done.
  - unfold gwf. by rewrite Hrevs.
  - by rewrite Hrevs.
  - intros a t. by rewrite Hacc, lookup_empty.
  - by apply CoreS_init.
Qed.

(* ExecuteTrx: any wrapper between two transactions (s.snapshot arbitrary, e.g. the fresh
   wrapper with s.snapshot = nextRevisionId = 0), after the Snapshot() call *)
Lemma Inv_after_snapshot (E : Prop) w :
  wacc w = ∅ → grevs (wg w) = [] → (E → sacl (gs (wg w)) = ∅) →
  Inv E (wstep OSnapshot w).2 (rstep OSnapshot (ref_init w)).2.
Proof.
  intros Hacc Hrevs HE. unfold wstep, rstep; simpl. split; simpl; try done.
  - unfold gwf; simpl. rewrite Hrevs. repeat split; lia.
  - unfold gwf; simpl. repeat split; lia.
  - by rewrite Hrevs.
  - intros a t. by rewrite Hacc, lookup_empty.
  - by apply CoreS_init.
  - intros id jl rest jl' rest'. rewrite Hrevs; simpl.
    destruct (Nat.eqb_spec (gnext (wg w)) id) as [<-|Hne]; [|done].
    intros [= <- <-] [= <- <-]. rewrite !Nat.sub_diag; simpl.
    rewrite keep_tags_all; [by apply CoreS_init|]. intros a t. by rewrite Hacc, lookup_empty.
Qed.

(* W1 for the shape ExecuteTrx produces: ARBITRARY stale geth balances, nonces, access list and
   journal; only "nothing recorded, no open revision" is assumed of the wrapper *)
Theorem wrapper_refines_reference_tx w f t body :
  wacc w = ∅ → grevs (wg w) = [] →
  let ops := OSnapshot :: OPrepare (gnext (wg w)) f t :: body in
  disciplined ops (ref_init w) →
  (wrun ops w).1 = (rrun ops (ref_init w)).1 ∧
  Inv False (wrun ops w).2 (rrun ops (ref_init w)).2.
Proof.
  intros Hacc Hrevs ops [_ Hd]. unfold ops. rewrite wrun_cons, rrun_cons. cbn [fst snd].
  pose proof (Inv_after_snapshot False w Hacc Hrevs (λ H : False, match H with end)) as HI.
  destruct (wrapper_refines_reference _ _ _ _ HI Hd) as [Houts HI']. split; [|exact HI'].
  rewrite Houts. reflexivity.
Qed.

(* if moreover the geth access list starts empty, the wrapper's geth access list equals the
   reference's all along: the interpreter's AddressInAccessList test on the wrapper is the
   discipline's test *)
Theorem acl_agree w f t body :
  wacc w = ∅ → grevs (wg w) = [] → sacl (gs (wg w)) = ∅ →
  let ops := OSnapshot :: OPrepare (gnext (wg w)) f t :: body in
  disciplined ops (ref_init w) →
  sacl (gs (wg (wrun ops w).2)) = sacl (gs (rrun ops (ref_init w)).2) ∧
  ∀ a, is_Some (wacc (wrun ops w).2 !! a) ↔ in_acl (gs (wg (wrun ops w).2)) a = true.
Proof.
  intros Hacc Hrevs Hacl ops [_ Hd]. unfold ops. rewrite wrun_cons, rrun_cons. cbn [fst snd].
  pose proof (Inv_after_snapshot True w Hacc Hrevs (λ _, Hacl)) as HI.
  destruct (wrapper_refines_reference _ _ _ _ HI Hd) as [_ HI'].
  destruct (i_core _ _ _ HI') as (_ & _ & Hc3 & Hc4). specialize (Hc4 I).
  split; [done|]. intros a. rewrite Hc3. unfold in_acl. by rewrite Hc4.
Qed.

(** ** W2 with the simulation: after Finish the native ledger IS the reference world *)

Theorem finish_matches_reference E w g :
  Inv E w g →
  ∀ a, nb (wnat (wstep OFinish w).2) a = gb (gs g) a ∧
       nn (wnat (wstep OFinish w).2) a = gn (gs g) a.
Proof.
  intros HI a. destruct (i_core _ _ _ HI) as (Hc1 & Hc2 & _).
  destruct (finish_syncs_out w) as (_ & _ & Hin & Hout).
  destruct (wacc w !! a) as [t|] eqn:Ha.
  - assert (Hs : is_Some (wacc w !! a)) by (by rewrite Ha).
    unfold nb, nn. rewrite (Hin _ Hs); simpl. by apply Hc1.
  - unfold nb, nn. rewrite (Hout _ Ha). by apply Hc2.
Qed.

(* the success path of ExecuteTrx, end to end *)
Theorem tx_success w f t body :
  wacc w = ∅ → grevs (wg w) = [] →
  let ops := OSnapshot :: OPrepare (gnext (wg w)) f t :: body in
  disciplined ops (ref_init w) →
  let w' := (wrun (ops ++ [OFinish]) w).2 in
  let g' := (rrun ops (ref_init w)).2 in
  (wrun ops w).1 = (rrun ops (ref_init w)).1 ∧
  wacc w' = ∅ ∧
  ∀ a, nb (wnat w') a = gb (gs g') a ∧ nn (wnat w') a = gn (gs g') a.
Proof.
  intros Hacc Hrevs ops Hd w' g'.
  destruct (wrapper_refines_reference_tx w f t body Hacc Hrevs Hd) as [Houts HI].
  split; [done|]. unfold w'. rewrite wrun_app. cbn [fst snd]. rewrite wrun_cons. cbn [fst snd wrun].
  split.
  - pose proof (finish_syncs_out (wrun ops w).2) as (He & _). exact He.
  - exact (finish_matches_reference _ _ _ HI).
Qed.

(* Two transactions of one block with native activity in between: after the first transaction
   (Finish, then geth's Finalise) native transactions change the native ledger to ANY [m'];
   the next contract transaction sees exactly [m'] (and by [tx_success] leaves behind exactly
   the reference world's result).  Nothing is assumed about what the first transaction left in
   geth's balances, nonces and access list. *)
Theorem native_changes_visible w m' f t body :
  wacc w = ∅ →
  let w' := w_set_native m' (w_finalise w) in
  let ops := OSnapshot :: OPrepare (gnext (wg w)) f t :: body in
  disciplined ops (ref_init w') →
  gs (ref_init w') = JS (fst <$> m') (snd <$> m') ∅ [] ∧
  (wrun ops w').1 = (rrun ops (ref_init w')).1 ∧
  ∀ a, nb (wnat (wrun (ops ++ [OFinish]) w').2) a = gb (gs (rrun ops (ref_init w')).2) a ∧
       nn (wnat (wrun (ops ++ [OFinish]) w').2) a = gn (gs (rrun ops (ref_init w')).2) a.
Proof.
  intros Hacc w' ops Hd. split; [done|].
  destruct (tx_success w' f t body Hacc eq_refl Hd) as (Houts & _ & Hfin). by split.
Qed.

(** * the refutation: Prepare without a fresh Snapshot (the state of the code before issue #69,
      and what callVM in query.go still does: Prepare(..., snap = 0, ...) on a new wrapper) *)

Definition op_ok_nosnap (o : wop) (g : gstate) : Prop :=
  match o with OPrepare _ _ _ => True | _ => op_ok o g end.
Fixpoint disciplined_nosnap (ops : list wop) (g : gstate) : Prop :=
  match ops with
  | [] => True
  | o :: r => op_ok_nosnap o g ∧ disciplined_nosnap r (rstep o g).2
  end.

Definition w_refute : wstate := fresh_wrapper ∅ ∅ (<[1%N := (1000%Z, 5%Z)]> ∅).

(* Prepare records sender 1 with tag 0+1; the first Snapshot (of evm.Call) returns id 0; a
   revert to 0 then drops the sender from the record although geth keeps it on the access list
   and keeps its synced-in balance; the next AddAddressToAccessList syncs in AGAIN and wipes the
   credit of 5. *)
Definition ops_refute : list wop :=
  [OPrepare 0 1%N None; OAddBalance 1%N 5; OSnapshot; ORevert 0; OAddAccess 1%N; OGetBalance 1%N].

Theorem wrapper_refuted_without_snapshot :
  ∃ (w : wstate) (ops : list wop),
    wacc w = ∅ ∧ grevs (wg w) = [] ∧ sacl (gs (wg w)) = ∅ ∧
    disciplined_nosnap ops (ref_init w) ∧
    (wrun ops w).1 ≠ (rrun ops (ref_init w)).1.
Proof.
  exists w_refute, ops_refute. repeat split; try (vm_compute; reflexivity).
  - vm_compute. eauto.
  - vm_compute. intros H. discriminate H.
Qed.

(* the same defect seen at Finish: a credit made after the revert is never written out *)
Definition ops_refute_finish : list wop :=
  [OPrepare 0 1%N None; OSnapshot; ORevert 0; OAddBalance 1%N 5].

Theorem finish_refuted_without_snapshot :
  ∃ (w : wstate) (ops : list wop),
    wacc w = ∅ ∧ grevs (wg w) = [] ∧ sacl (gs (wg w)) = ∅ ∧
    disciplined_nosnap ops (ref_init w) ∧
    nb (wnat (wrun (ops ++ [OFinish]) w).2) 1%N ≠ gb (gs (rrun ops (ref_init w)).2) 1%N.
Proof.
  exists w_refute, ops_refute_finish. repeat split; try (vm_compute; reflexivity).
  - vm_compute. eauto.
  - vm_compute. intros H. discriminate H.
Qed.

(** * W4: examples, evaluated on both machines

   Each example is a call sequence as geth v1.10.23 issues it (core/state_transition.go,
   core/vm/evm.go, instructions.go, operations_acl.go) on a NEW wrapper (nextRevisionId = 0), with
   stale geth copies that differ from the native ledger everywhere.  [agree] compares all outputs
   and, after Finish, the native ledger with the reference world's balances and nonces on every
   address of the example. *)

Local Open Scope Z_scope.

Definition ex_native : list acct :=
  [(1%N, 1000, 5); (2%N, 50, 1); (3%N, 7, 1); (9%N, 3, 0)].
Definition ex_stale : list acct :=
  [(1%N, 1, 1); (2%N, 2, 2); (3%N, 99, 9); (4%N, 44, 4); (9%N, 0, 7)].
Definition ex_w0 : wstate :=
  fresh_wrapper (bal_of ex_stale) (nonce_of ex_stale) (native_of ex_native).

(* sender 1 calls contract 2 with value 10 (gas 100 bought, 40 refunded).  2 calls 3 (frame with
   revision 2) which reads the balance of 4 (first access: BALANCE) and reverts; 2 then touches
   4 again (BALANCE: access list entry was rolled back, so it is added and synced in again),
   sends 5 to 3 and returns. *)
Definition ex_nested_body : list wop :=
  [ OSnapshot; OPrepare 0 1%N (Some 2%N);
    OGetNonce 1%N; OGetBalance 1%N; OSubBalance 1%N 100;            (* preCheck, buyGas *)
    OGetBalance 1%N;                                                (* CanTransfer *)
    OAddAccess 1%N; OAddAccess 2%N; OAddAccess 9%N;                 (* PrepareAccessList *)
    OGetNonce 1%N; OSetNonce 1%N 6;
    OGetBalance 1%N; OSnapshot; OSubBalance 1%N 10; OAddBalance 2%N 10;   (* evm.Call 1 -> 2 *)
    OAddAccess 3%N;                                                 (* CALL gas function *)
    OGetBalance 2%N; OSnapshot; OSubBalance 2%N 4; OAddBalance 3%N 4;     (* evm.Call 2 -> 3 *)
    OAddAccess 4%N; OGetBalance 4%N; OGetBalance 3%N;
    ORevert 2;                                                      (* 3 reverts *)
    OGetBalance 3%N; OGetBalance 2%N;
    OAddAccess 4%N; OGetBalance 4%N;                                (* 4 touched again *)
    OGetBalance 2%N; OSnapshot; OSubBalance 2%N 5; OAddBalance 3%N 5;     (* evm.Call 2 -> 3 *)
    OGetBalance 3%N;
    OAddBalance 1%N 40 ].                                           (* refundGas *)

Example ex_nested_disciplined : disciplinedb ex_nested_body (ref_init ex_w0) = true.
Proof. vm_compute. reflexivity. Qed.
Example ex_nested_agree : agree ex_native ex_stale (ex_nested_body ++ [OFinish]) = true.
Proof. vm_compute. reflexivity. Qed.
Example ex_nested_result :
  wrun_outs ex_native ex_stale (ex_nested_body ++ [OFinish]) =
  ([OutId 0; OutUnit; OutVal 5; OutVal 1000; OutUnit; OutVal 900; OutUnit; OutUnit; OutUnit;
    OutVal 5; OutUnit; OutVal 900; OutId 1; OutUnit; OutUnit; OutUnit; OutVal 60; OutId 2;
    OutUnit; OutUnit; OutUnit; OutVal 0; OutVal 11; OutUnit; OutVal 7; OutVal 60; OutUnit;
    OutVal 0; OutVal 60; OutId 3; OutUnit; OutUnit; OutVal 12; OutUnit; OutUnit],
   [(1%N, 930, 6); (2%N, 55, 1); (3%N, 12, 1); (4%N, 0, 0); (9%N, 3, 0)]).
Proof. vm_compute. reflexivity. Qed.

(* the same transaction failing at the top: evm.Call 1 -> 2 reverts (revision 1), gas is
   refunded, ExecuteTrx reverts to its own snapshot and calls Finish: nothing is written *)
Definition ex_fail_body : list wop :=
  [ OSnapshot; OPrepare 0 1%N (Some 2%N);
    OGetNonce 1%N; OGetBalance 1%N; OSubBalance 1%N 100; OGetBalance 1%N;
    OAddAccess 1%N; OAddAccess 2%N; OAddAccess 9%N;
    OGetNonce 1%N; OSetNonce 1%N 6;
    OGetBalance 1%N; OSnapshot; OSubBalance 1%N 10; OAddBalance 2%N 10;
    OAddAccess 3%N; OGetBalance 3%N;
    ORevert 1;
    OAddBalance 1%N 40;
    ORevert 0 ].

Example ex_fail_disciplined : disciplinedb ex_fail_body (ref_init ex_w0) = true.
Proof. vm_compute. reflexivity. Qed.
Example ex_fail_agree : agree ex_native ex_stale (ex_fail_body ++ [OFinish]) = true.
Proof. vm_compute. reflexivity. Qed.
Example ex_fail_native_unchanged :
  (wrun_outs ex_native ex_stale (ex_fail_body ++ [OFinish])).2 =
  [(1%N, 1000, 5); (2%N, 50, 1); (3%N, 7, 1); (4%N, 0, 0); (9%N, 3, 0)].
Proof. vm_compute. reflexivity. Qed.

(* deployment: sender 1 creates contract 4 with endowment 20 (evm.create); the constructor
   reads its own balance *)
Definition ex_create_body : list wop :=
  [ OSnapshot; OPrepare 0 1%N None;
    OGetNonce 1%N; OGetBalance 1%N; OSubBalance 1%N 100; OGetBalance 1%N;
    OAddAccess 1%N; OAddAccess 9%N;
    OGetNonce 1%N;                                     (* evm.Create: address from the nonce *)
    OGetBalance 1%N; OGetNonce 1%N; OSetNonce 1%N 6;   (* evm.create *)
    OAddAccess 4%N; OGetNonce 4%N;
    OSnapshot; OCreate 4%N; OSetNonce 4%N 1;
    OSubBalance 1%N 20; OAddBalance 4%N 20;
    OGetBalance 4%N; OGetNonce 4%N;
    OAddBalance 1%N 30 ].

Example ex_create_disciplined : disciplinedb ex_create_body (ref_init ex_w0) = true.
Proof. vm_compute. reflexivity. Qed.
Example ex_create_agree : agree ex_native ex_stale (ex_create_body ++ [OFinish]) = true.
Proof. vm_compute. reflexivity. Qed.
Example ex_create_final :
  (wrun_outs ex_native ex_stale (ex_create_body ++ [OFinish])).2 =
  [(1%N, 910, 6); (2%N, 50, 1); (3%N, 7, 1); (4%N, 20, 1); (9%N, 3, 0)].
Proof. vm_compute. reflexivity. Qed.

(* sender 1 calls contract 2, which self-destructs in favour of 3 (opSelfdestruct); in a second
   variant the frame then fails and the self-destruct is rolled back *)
Definition ex_suicide_prefix : list wop :=
  [ OSnapshot; OPrepare 0 1%N (Some 2%N);
    OGetNonce 1%N; OGetBalance 1%N; OSubBalance 1%N 100; OGetBalance 1%N;
    OAddAccess 1%N; OAddAccess 2%N; OAddAccess 9%N;
    OGetNonce 1%N; OSetNonce 1%N 6;
    OSnapshot;
    OAddAccess 3%N;                                     (* makeSelfdestructGasFn *)
    OGetBalance 3%N; OGetNonce 3%N; OGetBalance 2%N;    (* Empty(3), GetBalance(2) *)
    OGetBalance 2%N; OAddBalance 3%N 50; OSuicide 2%N;  (* opSelfdestruct *)
    OGetBalance 2%N; OGetBalance 3%N ].
Definition ex_suicide_body : list wop := ex_suicide_prefix ++ [OAddBalance 1%N 70].
Definition ex_suicide_reverted_body : list wop :=
  ex_suicide_prefix ++ [ORevert 1; OGetBalance 2%N; OAddBalance 1%N 0; ORevert 0].

Example ex_suicide_disciplined : disciplinedb ex_suicide_body (ref_init ex_w0) = true.
Proof. vm_compute. reflexivity. Qed.
Example ex_suicide_agree : agree ex_native ex_stale (ex_suicide_body ++ [OFinish]) = true.
Proof. vm_compute. reflexivity. Qed.
Example ex_suicide_final :
  (wrun_outs ex_native ex_stale (ex_suicide_body ++ [OFinish])).2 =
  [(1%N, 970, 6); (2%N, 0, 1); (3%N, 57, 1); (4%N, 0, 0); (9%N, 3, 0)].
Proof. vm_compute. reflexivity. Qed.
Example ex_suicide_reverted_disciplined :
  disciplinedb ex_suicide_reverted_body (ref_init ex_w0) = true.
Proof. vm_compute. reflexivity. Qed.
Example ex_suicide_reverted_agree :
  agree ex_native ex_stale (ex_suicide_reverted_body ++ [OFinish]) = true.
Proof. vm_compute. reflexivity. Qed.

(* the harness entry point on a recorded case *)
Example ex_check_wcases :
  check_wcases
    [ WCase ex_native ex_stale (ex_create_body ++ [OFinish])
        (wrun_outs ex_native ex_stale (ex_create_body ++ [OFinish])).1
        [(1%N, 910, 6); (2%N, 50, 1); (3%N, 7, 1); (4%N, 20, 1); (9%N, 3, 0)] ] = true.
Proof. vm_compute. reflexivity. Qed.

(* the examples are instances of the theorems: e.g. the discipline of [ex_nested_body] gives,
   by [tx_success], the agreement that [ex_nested_agree] computed *)
Lemma disciplinedb_sound ops g : disciplinedb ops g = true → disciplined ops g.
Proof.
  revert g. induction ops as [|o r IH]; intros g; cbn [disciplinedb disciplined]; [done|].
  intros [Hok Hr]%andb_prop. split; [|by apply IH].
  destruct o; cbn [op_okb op_ok] in *; try done.
  - by destruct (find_rev id (grevs g)).
  - by apply Nat.eqb_eq in Hok.
Qed.
