(* Ledger.v — executable model of /repo/ledger (mem_items.go, simple_ledger.go,
   finality_ledger.go), container by container.  DEFINITIONS ONLY (no proofs), so that
   the model stays runnable whatever happens to the proof files.

   Modelled WITH ONE REPAIR: in SimpleLedger.get / FinalityLedger.getFinality the cache
   lookup (getGotItem) comes BEFORE the isRemovedKey check ([mem_get]).  The code as it
   is today (removed-key check first) is [mem_get_buggy]; [step_buggy]/[run_buggy] run
   the whole ledger with it.

   Keys are N (the 32-byte LedgerKey read as a big-endian number: bytes.Compare order =
   numeric order), values an arbitrary type V.  An item's key is kept outside the value
   (Go: item.Key()); Decode/Encode failures and the "key is compromised" check of
   SimpleLedger.read are outside the model (values are abstract). *)
From stdpp Require Import gmap sorting.

(* bytes.Compare(a,b) > 0 as "less" (types.go LedgerKeyList.Less): descending order *)
Definition key_ge (a b : N) : Prop := (b ≤ a)%N.
Global Instance key_ge_dec : RelDecision key_ge := λ a b, decide (b ≤ a)%N.

(* sort.Sort(keys) with LedgerKeyList.Less.  The keys of one Go map are pairwise
   different, so the result of sort.Sort is determined by the set of keys
   (LedgerRefine.sort_desc_perm); any sorting algorithm models it. *)
Definition sort_desc (l : list N) : list N := merge_sort key_ge l.

(* memItems.delRemovedKey: removes the FIRST occurrence only *)
Fixpoint remove_first (k : N) (l : list N) : list N :=
  match l with
  | [] => []
  | x :: r => if decide (x = k) then r else x :: remove_first k r
  end.

Section ledger.
Context {V : Type}.

(* iavl Iterate: ascending key order *)
Definition kv_le (p q : N * V) : Prop := (p.1 ≤ q.1)%N.
Global Instance kv_le_dec : RelDecision kv_le := λ p q, decide (p.1 ≤ q.1)%N.
Definition sorted_items (T : gmap N V) : list (N * V) := merge_sort kv_le (map_to_list T).

(** * memItems[T] *)
Record mem := Mem {
  got     : gmap N V;   (* gotItems *)
  upd     : gmap N V;   (* updatedItems *)
  removed : list N      (* removedKeys: a slice, duplicates possible *)
}.

Definition mem_empty : mem := Mem ∅ ∅ [].                              (* newMemItems / reset *)
Definition is_removed_key (m : mem) (k : N) : bool := bool_decide (k ∈ removed m).
Definition append_removed_key (k : N) (m : mem) : mem := Mem (got m) (upd m) (removed m ++ [k]).
Definition del_removed_key (k : N) (m : mem) : mem := Mem (got m) (upd m) (remove_first k (removed m)).
Definition set_got_item (k : N) (v : V) (m : mem) : mem := Mem (<[k:=v]> (got m)) (upd m) (removed m).
Definition set_updated_item (k : N) (v : V) (m : mem) : mem := Mem (got m) (<[k:=v]> (upd m)) (removed m).
Definition del_got_item (k : N) (m : mem) : mem := Mem (delete k (got m)) (upd m) (removed m).
Definition del_updated_item (k : N) (m : mem) : mem := Mem (got m) (delete k (upd m)) (removed m).
(* refresh: for k,v := range updatedItems { gotItems[k] = v }; updatedItems = {}; removedKeys = nil.
   [∪] on gmap is left-biased: upd wins. *)
Definition mem_refresh (m : mem) : mem := Mem (upd m ∪ got m) ∅ [].

(* Set / SetFinality: setUpdatedItem then setGotItem *)
Definition mem_set (k : N) (v : V) (m : mem) : mem := set_got_item k v (set_updated_item k v m).
(* CancelSet / CancelSetFinality: delUpdatedItem then delGotItem *)
Definition mem_cancel_set (k : N) (m : mem) : mem := del_got_item k (del_updated_item k m).

(* SimpleLedger.read on tree T: None = ErrNotFoundResult *)
Definition tree_read (T : gmap N V) (k : N) : option V := T !! k.

(* get / getFinality, REPAIRED order: cache, then removed keys, then tree (read-through) *)
Definition mem_get (T : gmap N V) (k : N) (m : mem) : mem * option V :=
  match got m !! k with
  | Some v => (m, Some v)
  | None =>
    if is_removed_key m k then (m, None)
    else match tree_read T k with
         | Some v => (set_got_item k v m, Some v)
         | None => (m, None)
         end
  end.

(* get / getFinality as in the repository today: removed keys first *)
Definition mem_get_buggy (T : gmap N V) (k : N) (m : mem) : mem * option V :=
  if is_removed_key m k then (m, None)
  else match got m !! k with
       | Some v => (m, Some v)
       | None =>
         match tree_read T k with
         | Some v => (set_got_item k v m, Some v)
         | None => (m, None)
         end
       end.

Definition getter := gmap N V → N → mem → mem * option V.

(* del / the second half of DelFinality: get, and if found delGotItem, delUpdatedItem,
   appendRemovedKey; if not found nothing changes (the failing get caches nothing) *)
Definition mem_del (getf : getter) (T : gmap N V) (k : N) (m : mem) : mem * option V :=
  let '(m1, r) := getf T k m in
  match r with
  | Some v => (append_removed_key k (del_updated_item k (del_got_item k m1)), Some v)
  | None => (m1, None)
  end.

(** * FinalityLedger[T] (embeds SimpleLedger[T]) *)
Record fledger := FLedger {
  tree : gmap N V;          (* ledger.tree: working tree = last saved tree between commits *)
  hist : list (gmap N V);   (* the versions in the db: hist !! (v-1) is version v; Version() = length hist *)
  chk  : mem;               (* SimpleLedger.cachedItems: the mempool overlay *)
  fin  : mem                (* finalityItems: the consensus overlay *)
}.

Definition fledger_empty : fledger := FLedger ∅ [] mem_empty mem_empty.

Inductive op :=
(* SimpleLedger (mempool overlay) *)
| SetM (k : N) (v : V)      (* Set *)
| CancelSetM (k : N)        (* CancelSet *)
| GetM (k : N)              (* Get *)
| DelM (k : N)              (* Del *)
| CancelDelM (k : N)        (* CancelDel *)
| Read (k : N)              (* Read: tree only, no caching *)
| IterM                     (* IterateReadAllItems: tree only *)
(* FinalityLedger (consensus overlay) *)
| SetF (k : N) (v : V)      (* SetFinality *)
| CancelSetF (k : N)        (* CancelSetFinality *)
| GetF (k : N)              (* GetFinality *)
| DelF (k : N)              (* DelFinality *)
| CancelDelF (k : N)        (* CancelDelFinality *)
| IterF                     (* IterateReadAllFinalityItems = IterateReadAllItems *)
| Commit                    (* FinalityLedger.Commit *)
(* ImmutableLedgerAt(n) followed by Get(k)/Read(k) resp. IterateReadAllItems on the result *)
| ReadAt (n : Z) (k : N)
| IterAt (n : Z)
(* Close, then NewFinalityLedger on the same directory *)
| Reopen.

Inductive out :=
| ONil                                         (* nil error, no value *)
| OVal (v : V)                                 (* item, nil *)
| ONotFound                                    (* xerrors.ErrNotFoundResult *)
| OItems (l : list (N * V))                    (* the items an iteration passed to cb, in order *)
| OCommitted (ver : N) (ops : list (bool * N)) (* Commit: new version; the tree operations in
                                                  order, false = tree.Remove, true = tree.Set *)
| OErr.                                        (* ImmutableLedgerAt returned an error *)

Definition out_of_read (r : option V) : out :=
  match r with Some v => OVal v | None => ONotFound end.

(** Commit.  [iter_keys] is the order in which Go's map iteration delivers the keys of
    finalityItems.updatedItems (arbitrary); they are then sorted.  The model takes
    [map_to_list]'s order; LedgerRefine.commit_treeops_order_irrelevant shows that any
    other order of the same keys gives the same operations. *)
Definition commit_treeops (removed_keys iter_keys : list N) : list (bool * N) :=
  map (pair false) removed_keys ++ map (pair true) (sort_desc iter_keys).

(* tree.Remove (absent key: no error, no change) / tree.Set(updatedItems[k]);
   the [None] branch is unreachable (k ranges over the keys of u), kept for totality *)
Definition apply_treeop (u : gmap N V) (T : gmap N V) (o : bool * N) : gmap N V :=
  if o.1 then match u !! o.2 with Some v => <[o.2 := v]> T | None => T end
  else delete o.2 T.

Definition upd_keys (m : mem) : list N := (map_to_list (upd m)).*1.

Definition commit (c : fledger) : fledger * out :=
  let ops := commit_treeops (removed (fin c)) (upd_keys (fin c)) in
  let T' := foldl (apply_treeop (upd (fin c))) (tree c) ops in
  (FLedger T' (hist c ++ [T'])           (* SaveVersion *)
           mem_empty                      (* SimpleLedger.cachedItems.reset() *)
           (mem_refresh (fin c)),         (* finalityItems.refresh() *)
   OCommitted (N.of_nat (S (length (hist c)))) ops).

(** ImmutableLedgerAt(n) = iavl LazyLoadVersion(n) on a fresh tree over the same db
    (iavl v0.19.1 mutable_tree.go): error if latest < n; if n <= 0 the latest version
    (the empty tree when nothing was saved yet); otherwise version n, which exists
    because versions are never deleted. *)
Definition tree_at (h : list (gmap N V)) (n : Z) : option (gmap N V) :=
  if decide (Z.of_nat (length h) < n)%Z then None
  else if decide (n ≤ 0)%Z then Some (default ∅ (last h))
  else h !! Z.to_nat (n - 1).

(* NewFinalityLedger after Close: tree.Load() = LoadVersion(0) = latest saved version *)
Definition reopen (c : fledger) : fledger :=
  FLedger (default ∅ (last (hist c))) (hist c) mem_empty mem_empty.

Definition with_chk (c : fledger) (m : mem) : fledger := FLedger (tree c) (hist c) m (fin c).
Definition with_fin (c : fledger) (m : mem) : fledger := FLedger (tree c) (hist c) (chk c) m.

Definition step_with (getf : getter) (c : fledger) (o : op) : fledger * out :=
  match o with
  | SetM k v => (with_chk c (mem_set k v (chk c)), ONil)
  | CancelSetM k => (with_chk c (mem_cancel_set k (chk c)), ONil)
  | GetM k => let '(m, r) := getf (tree c) k (chk c) in (with_chk c m, out_of_read r)
  | DelM k => let '(m, r) := mem_del getf (tree c) k (chk c) in (with_chk c m, out_of_read r)
  | CancelDelM k => (with_chk c (del_removed_key k (chk c)), ONil)
  | Read k => (c, out_of_read (tree_read (tree c) k))
  | IterM => (c, OItems (sorted_items (tree c)))
  | SetF k v => (with_fin c (mem_set k v (fin c)), ONil)
  | CancelSetF k => (with_fin c (mem_cancel_set k (fin c)), ONil)
  | GetF k => let '(m, r) := getf (tree c) k (fin c) in (with_fin c m, out_of_read r)
  | DelF k =>
    (* _, _ = ledger.SimpleLedger.del(key): result ignored, side effect kept *)
    let '(m1, _) := mem_del getf (tree c) k (chk c) in
    let '(m2, r) := mem_del getf (tree c) k (fin c) in
    (FLedger (tree c) (hist c) m1 m2, out_of_read r)
  | CancelDelF k => (with_fin c (del_removed_key k (fin c)), ONil)
  | IterF => (c, OItems (sorted_items (tree c)))
  | Commit => commit c
  | ReadAt n k =>
    (c, match tree_at (hist c) n with Some T => out_of_read (tree_read T k) | None => OErr end)
  | IterAt n =>
    (c, match tree_at (hist c) n with Some T => OItems (sorted_items T) | None => OErr end)
  | Reopen => (reopen c, ONil)
  end.

Definition step : fledger → op → fledger * out := step_with mem_get.
Definition step_buggy : fledger → op → fledger * out := step_with mem_get_buggy.

Fixpoint run_from (stp : fledger → op → fledger * out) (c : fledger) (ops : list op)
  : fledger * list out :=
  match ops with
  | [] => (c, [])
  | o :: r => let '(c1, x) := stp c o in let '(c2, xs) := run_from stp c1 r in (c2, x :: xs)
  end.

Definition run (ops : list op) : list out := (run_from step fledger_empty ops).2.
Definition run_buggy (ops : list op) : list out := (run_from step_buggy fledger_empty ops).2.
Definition final (ops : list op) : fledger := (run_from step fledger_empty ops).1.

(** Traces are compared modulo the tree-operation lists of commits: the abstract
    specification does not keep the order of deletions (it counts them), so it reports
    [OCommitted ver []].  What the operations do to the tree is stated separately
    (LedgerRefine.commit_net_effect). *)
Definition erase_treeops (x : out) : out :=
  match x with OCommitted ver _ => OCommitted ver [] | _ => x end.
Definition outs (l : list out) : list out := map erase_treeops l.

(** * Mutation through aliased pointers (outside property C18; no counterpart in the spec)
    GetFinality/Get hand out the cached object; callers change it in place.  The object
    in gotItems and the one in updatedItems are the same object whenever both are present
    (LedgerRefine.alias_inv), so an in-place change shows in both. *)
Definition mem_mutate_got (k : N) (f : V → V) (m : mem) : mem :=
  Mem (alter f k (got m)) (alter f k (upd m)) (removed m).

Inductive xop :=
| Plain (o : op)
| MutateGotM (k : N) (f : V → V)   (* in-place change of the object cached by Get *)
| MutateGotF (k : N) (f : V → V).  (* in-place change of the object cached by GetFinality *)

Definition xstep (c : fledger) (o : xop) : fledger * out :=
  match o with
  | Plain o => step c o
  | MutateGotM k f => (with_chk c (mem_mutate_got k f (chk c)), ONil)
  | MutateGotF k f => (with_fin c (mem_mutate_got k f (fin c)), ONil)
  end.

Fixpoint xrun_from (c : fledger) (ops : list xop) : fledger * list out :=
  match ops with
  | [] => (c, [])
  | o :: r => let '(c1, x) := xstep c o in let '(c2, xs) := xrun_from c1 r in (c2, x :: xs)
  end.
Definition xrun (ops : list xop) : list out := (xrun_from fledger_empty ops).2.

End ledger.

Global Arguments mem : clear implicits.
Global Arguments fledger : clear implicits.
Global Arguments op : clear implicits.
Global Arguments xop : clear implicits.
Global Arguments out : clear implicits.
Global Arguments getter : clear implicits.
