(* InvClosed.v — the remaining history theorems (C11, C10, C05, C13) with their hypotheses about
   intermediate states discharged from hypotheses on the inputs (genesis document, operation list,
   transactions), continuing InvReach.v.

   4  C11_*_inputs          hashes_unique / never_lost / identity_preserved from [hashes_fresh]
   2  C10_closed            [Forall sel_positive (block_starts ...)] from params_ok of the genesis
                            parameters, genesis powers in the int64 range and [opts_ok]
   2' C10_closed_inputs     the covering hypothesis of C10_holds in input terms (block 1 quiet,
                            genesis powers meet the minimum, genesis set fits the maximum count)
   1  C05_closed(_along)    failed delivery has no effect in every state of a closed run;
                            [reward_headroom] is not needed (deliver_fail_no_effect_small)
   3  C13_closed            reward identity, [run_wf] discharged; C13_closed_mod needs no
                            no-wrap hypothesis *)
From Rigo Require Import Base.
From stdpp Require Import gmap sorting.
From Rigo Require Import Spec SpecProps.
From Rigo Require InvFail InvNonce InvReward InvGov InvPanic InvValSet ValSet.
From Rigo Require Import InvStake InvFee InvSupply InvReach.
Local Open Scope Z_scope.

Local Opaque two256 two255 two64 two63.

(* ================================================================== 4. C11 from the transaction hashes *)

Theorem C11_hashes_unique_inputs g ops :
  (length (gen_validators g) ≤ 1)%nat → hashes_fresh ops →
  hashes_unique (work (srun (init_chain g) ops)).
Proof.
  intros Hlen Hh. apply hashes_unique_reachable; [exact Hlen|]. apply fresh_run_reachable. exact Hh.
Qed.
Print Assumptions C11_hashes_unique_inputs.

(* the last operation of a fresh run is fresh in the state it is applied to *)
Lemma fresh_run_last pre o : ∀ s,
  fresh_run s (pre ++ [o]) → match o with SDeliver t => fresh_tx (srun s pre) t | _ => True end.
Proof.
  induction pre as [|o' pre IH]; intros s H; cbn [app fresh_run] in H.
  - destruct H as [H _]. exact H.
  - destruct H as [_ H]. apply (IH (sstep s o') H).
Qed.

(* in every state of a run from a well-formed genesis whose staking transactions carry pairwise
   distinct non-zero hashes and whose parameter documents are [doc_ok], no transaction whatsoever
   loses a bonded stake *)
Theorem C11_never_lost_inputs g ops t st :
  genesis_ok g → hashes_fresh ops → opts_ok ops →
  let s := srun (init_chain g) ops in
  st ∈ bonded_stakes (work s) →
  st ∈ bonded_stakes (work (deliver s t).1) ∨
  frozen (work (deliver s t).1) !! s_hash st
    = Some (with_refund (b_height (bctx s) + g_lazyRewardBlocks (gparams s)) st).
Proof.
  intros Hg Hh Hopts s Hst.
  pose proof (run_ok_reachable g ops Hg (fresh_run_reachable g ops Hh) Hopts ops (reflexivity _)) as (Hu & _ & Hpw & _).
  fold s in Hu, Hpw.
  apply deliver_never_loses; [exact Hu| | |exact Hst].
  - apply (dels_ok_reachable g ops).
  - intros x Hx. assert (0 ≤ s_power x < two63); [|lia]. apply Hpw. apply elem_of_app. left. exact Hx.
Qed.
Print Assumptions C11_never_lost_inputs.

(* owner, target, hash, start height and power of a bonded stake are unchanged by the next operation
   of such a list (BeginBlock without evidence) *)
Theorem C11_identity_preserved_inputs g ops o st :
  (length (gen_validators g) ≤ 1)%nat → hashes_fresh (ops ++ [o]) →
  match o with SBegin hd => h_evidence hd = [] | _ => True end →
  let s := srun (init_chain g) ops in
  st ∈ bonded_stakes (work s) →
  (∀ st', st' ∈ bonded_stakes (work (sstep s o)) → s_hash st' = s_hash st → st' = st) ∧
  (∀ st', st' ∈ frozen_stakes (work (sstep s o)) → s_hash st' = s_hash st → st' = with_refund (s_refund st') st).
Proof.
  intros Hlen Hh Ho s Hst.
  pose proof (fresh_run_reachable g _ Hh) as Hf.
  apply stake_unchanged_step; [| |exact Hst].
  - apply hashes_unique_reachable; [exact Hlen|]. eapply fresh_run_prefix. exact Hf.
  - pose proof (fresh_run_last ops o (init_chain g) Hf) as Hl.
    destruct o as [hd|t| |]; [exact Ho|exact Hl|exact I|exact I].
Qed.
Print Assumptions C11_identity_preserved_inputs.

Example C11_inputs_example :
  (length (gen_validators hx_genesis) ≤ 1)%nat ∧ genesis_ok hx_genesis ∧ hashes_fresh hx_ops ∧ opts_ok hx_ops ∧
  hashes_unique (work (srun (init_chain hx_genesis) hx_ops)) ∧
  bonded_stakes (work (srun (init_chain hx_genesis) hx_ops)) ≠ [].
Proof.
  assert (Hlen : (length (gen_validators hx_genesis) ≤ 1)%nat) by (vm_compute; lia).
  split; [exact Hlen|]. split; [exact hx_genesis_ok|]. split; [exact hx_hashes_fresh|]. split; [exact hx_opts_ok|].
  split; [exact (C11_hashes_unique_inputs _ _ Hlen hx_hashes_fresh)|].
  vm_compute. discriminate.
Qed.

(* ================================================================== 2. C10: positivity of the selections *)
(* what holds at every block boundary of a run of blocks from a genesis with well-formed parameters
   and powers in the int64 range, when the parameter documents of its proposals are [doc_ok] *)
Definition block_inv (s : state) : Prop :=
  InvValSet.boundary_ok s ∧ docs_inv s ∧ powers_ok (work s) ∧ dels_ok (work s).

Lemma dels_ok_run ops : ∀ s, dels_ok (work s) → dels_ok (work (srun s ops)).
Proof.
  unfold srun. induction ops as [|o ops IH]; intros s Hs; cbn [foldl]; [exact Hs|].
  apply IH. apply sstep_dels_ok. exact Hs.
Qed.

Lemma block_inv_init g :
  params_ok (gen_params g) → Forall (λ v : addr * Z, 0 ≤ v.2 < two63) (gen_validators g) →
  block_inv (init_chain g).
Proof.
  intros Hg Hv. split; [apply InvValSet.init_chain_boundary|]. split; [apply init_chain_docs_inv; exact Hg|].
  split; [apply init_chain_powers_ok; exact Hv|apply init_chain_dels_ok].
Qed.

Lemma block_inv_block s hd txs s' ups :
  block_inv s → opts_ok (InvValSet.block_ops hd txs) → InvValSet.do_block s hd txs = Some (s', ups) → block_inv s'.
Proof.
  intros (Hb & Hd & Hp & Hk) Hopts Hdo.
  destruct (InvValSet.do_block_inv s hd txs s' ups Hb Hdo) as (Hb' & _).
  destruct (InvValSet.do_block_srun s hd txs s' ups Hdo) as [<- _].
  split; [exact Hb'|]. split; [apply docs_inv_run; assumption|].
  split; [apply powers_ok_run; assumption|apply dels_ok_run; exact Hk].
Qed.

Lemma block_inv_sel_positive s : block_inv s → InvValSet.sel_positive s.
Proof.
  intros (Hb & (Hg & _) & Hp & Hk). apply InvValSet.sel_positive_of_totals; [exact Hb| |].
  - apply InvValSet.min_power_pos. destruct Hg as (_ & _ & _ & _ & _ & H6 & _). exact H6.
  - destruct (InvValSet.base_of_boundary s Hb) as [[_ ->]|[_ ->]].
    + intros a d Hd. cbn in Hd. rewrite lookup_empty in Hd. discriminate.
    + apply InvValSet.totals_ok_of_bookkeeping; [exact Hk|].
      intros st Hst. assert (0 ≤ s_power st < two63); [|lia]. apply Hp. apply elem_of_app. left. exact Hst.
Qed.

Lemma opts_ok_app l k : opts_ok (l ++ k) ↔ opts_ok l ∧ opts_ok k.
Proof. unfold opts_ok. apply Forall_app. Qed.

Lemma sel_positive_blocks bs : ∀ s sf upss,
  block_inv s → opts_ok (InvValSet.ops_of bs) → InvValSet.run_blocks s bs = Some (sf, upss) →
  Forall InvValSet.sel_positive (InvValSet.block_starts s bs).
Proof.
  induction bs as [|b r IH]; intros s sf upss Hi Hopts; cbn [InvValSet.run_blocks InvValSet.block_starts]; [constructor|].
  destruct (InvValSet.do_block s b.1 b.2) as [[s' u]|] eqn:Ed; [|discriminate].
  destruct (InvValSet.run_blocks s' r) as [[sf' us']|] eqn:Er; [|discriminate]. intros _.
  unfold InvValSet.ops_of in Hopts. cbn [map concat] in Hopts. apply opts_ok_app in Hopts as [Ho1 Ho2].
  pose proof (block_inv_block s b.1 b.2 s' u Hi Ho1 Ed) as Hi'.
  destruct (InvValSet.do_block_srun _ _ _ _ _ Ed) as [-> _].
  constructor; [apply block_inv_sel_positive; exact Hi|]. eapply IH; [exact Hi'|exact Ho2|exact Er].
Qed.

(* the positivity hypothesis of the C10 history theorems, from the inputs: well-formed genesis
   parameters (amountPerPower <= minValidatorStake), genesis powers in the int64 range, and
   parameter documents that keep parameters well formed *)
Theorem sel_positive_reachable g bs sf upss :
  params_ok (gen_params g) → Forall (λ v : addr * Z, 0 ≤ v.2 < two63) (gen_validators g) →
  opts_ok (InvValSet.ops_of bs) →
  InvValSet.run_blocks (init_chain g) bs = Some (sf, upss) →
  Forall InvValSet.sel_positive (InvValSet.block_starts (init_chain g) bs).
Proof.
  intros Hg Hv Hopts Hr. eapply sel_positive_blocks; [apply block_inv_init; assumption|exact Hopts|exact Hr].
Qed.
Print Assumptions sel_positive_reachable.

(* [opts_ok] on the operations of a list of blocks is a condition on their transactions *)
Lemma opts_ok_ops_of bs : opts_ok (InvValSet.ops_of bs) ↔ Forall (λ b : header * list tx, Forall tx_opts_ok b.2) bs.
Proof.
  induction bs as [|b r IH]; [split; constructor|].
  unfold InvValSet.ops_of. cbn [map concat]. fold (InvValSet.ops_of r). rewrite opts_ok_app, Forall_cons, IH.
  assert (H : opts_ok (InvValSet.block_ops b.1 b.2) ↔ Forall tx_opts_ok b.2); [|tauto].
  unfold InvValSet.block_ops, opts_ok. cbn [app]. rewrite Forall_cons, Forall_app, Forall_fmap.
  split.
  - intros (_ & H & _). exact H.
  - intros H. split; [exact I|]. split; [exact H|]. repeat constructor.
Qed.

(* C10_history (the fold from the empty set) without hypotheses about intermediate states *)
Theorem C10_history_closed g bs sf upss :
  params_ok (gen_params g) → Forall (λ v : addr * Z, 0 ≤ v.2 < two63) (gen_validators g) →
  opts_ok (InvValSet.ops_of bs) →
  InvValSet.run_blocks (init_chain g) bs = Some (sf, upss) →
  srun (init_chain g) (InvValSet.ops_of bs) = sf ∧
  length (committed sf) = length bs ∧
  lastvals sf = InvValSet.announced sf ∧
  ValSet.tm_run [] upss = Some (sort_addr (lastvals sf)) ∧
  fold_left ValSet.apply_updates upss [] = sort_addr (lastvals sf).
Proof.
  intros Hg Hv Hopts Hr. apply InvValSet.C10_history; [exact Hr|].
  eapply sel_positive_reachable; eassumption.
Qed.
Print Assumptions C10_history_closed.

(* C10_holds (the fold over the GENESIS validator set) with the positivity hypothesis discharged.
   The hypothesis that every genesis validator is still selected at block 2 stays: it is the known
   finding C10_genesis_leaver_refuted. *)
Theorem C10_closed g b1 b2 rest s2 u12 sf upss :
  params_ok (gen_params g) → Forall (λ v : addr * Z, 0 ≤ v.2 < two63) (gen_validators g) →
  opts_ok (InvValSet.ops_of (b1 :: b2 :: rest)) →
  NoDup (gen_validators g).*1 →
  InvValSet.run_blocks (init_chain g) [b1; b2] = Some (s2, u12) →
  (∀ a, a ∈ (gen_validators g).*1 → a ∈ (lastvals s2).*1) →
  InvValSet.run_blocks (init_chain g) (b1 :: b2 :: rest) = Some (sf, upss) →
  fold_left ValSet.apply_updates upss (sort_addr (gen_validators g)) = sort_addr (lastvals sf).
Proof.
  intros Hg Hv Hopts Hnd H12 Hcov Hr.
  eapply InvValSet.C10_history_genesis; [exact Hnd|exact H12|exact Hcov|exact Hr|].
  eapply sel_positive_reachable; eassumption.
Qed.
Print Assumptions C10_closed.

(* non-vacuity: InvValSet's five-block chain (two genesis validators, a new validator staking in
   block 2, a genesis validator leaving in block 3) satisfies the input hypotheses *)
Lemma ex_params_ok : params_ok (gen_params InvValSet.ex_genesis).
Proof. repeat split; vm_compute; congruence. Qed.

Lemma ex_powers_ok : Forall (λ v : addr * Z, 0 ≤ v.2 < two63) (gen_validators InvValSet.ex_genesis).
Proof. repeat apply Forall_cons_2; try apply Forall_nil_2; split; vm_compute; congruence. Qed.

Lemma good_blocks_opts_ok : opts_ok (InvValSet.ops_of InvValSet.good_blocks).
Proof.
  apply opts_ok_ops_of. unfold InvValSet.good_blocks.
  repeat (apply Forall_cons_2 || apply Forall_nil_2); intros Hty; vm_compute in Hty; discriminate.
Qed.

Example C10_closed_example :
  params_ok (gen_params InvValSet.ex_genesis) ∧
  Forall (λ v : addr * Z, 0 ≤ v.2 < two63) (gen_validators InvValSet.ex_genesis) ∧
  opts_ok (InvValSet.ops_of InvValSet.good_blocks) ∧
  fold_left ValSet.apply_updates (InvValSet.run_updates (init_chain InvValSet.ex_genesis) InvValSet.good_blocks)
            (sort_addr (gen_validators InvValSet.ex_genesis))
  = sort_addr (lastvals (InvValSet.run_state (init_chain InvValSet.ex_genesis) InvValSet.good_blocks)) ∧
  sort_addr (lastvals (InvValSet.run_state (init_chain InvValSet.ex_genesis) InvValSet.good_blocks)) = [(2%N, 20); (3%N, 5)] ∧
  ValSet.tm_run [] (InvValSet.run_updates (init_chain InvValSet.ex_genesis) InvValSet.good_blocks)
  = Some (sort_addr (lastvals (InvValSet.run_state (init_chain InvValSet.ex_genesis) InvValSet.good_blocks))).
Proof.
  split; [exact ex_params_ok|]. split; [exact ex_powers_ok|]. split; [exact good_blocks_opts_ok|].
  assert (Hr := InvValSet.run_blocks_proj (init_chain InvValSet.ex_genesis) InvValSet.good_blocks eq_refl).
  assert (Hr2 := InvValSet.run_blocks_proj (init_chain InvValSet.ex_genesis) (take 2 InvValSet.good_blocks) eq_refl).
  split; [|split; [vm_compute; reflexivity|]].
  - eapply (C10_closed InvValSet.ex_genesis _ _ _ _ _ _ _ ex_params_ok ex_powers_ok good_blocks_opts_ok
              InvValSet.ex_genesis_nodup Hr2); [|exact Hr].
    assert (Hl : (lastvals (InvValSet.run_state (init_chain InvValSet.ex_genesis) (take 2 InvValSet.good_blocks))).*1 = [2%N; 1%N])
      by (vm_compute; reflexivity).
    intros a. rewrite Hl. cbn. rewrite !elem_of_cons. tauto.
  - apply (C10_history_closed _ _ _ _ ex_params_ok ex_powers_ok good_blocks_opts_ok Hr).
Qed.

(* ================================================================== 1. C05 in the states of a closed run *)

(* ---- C05 without [reward_headroom], for sender balances below 2^255.
   InvFail.deliver_fail_no_effect asks for [reward_headroom] (balance + whole withdrawable reward
   below 2^256).  What its proof uses is only that crediting the REQUESTED amount does not wrap the
   balance -- and only when the withdrawal has been executed.  AddBalance refuses amounts with bit
   255 set (the reward update is then cancelled and nothing changes), so an executed withdrawal
   has req < 2^255, and a balance below 2^255 cannot wrap. *)
Lemma exec_native_withdraw_small s2 t l' req :
  InvFail.exec_native s2 t = Ok l' → t_type t = TRX_WITHDRAW → t_payload t = PWithdraw req → req < two255.
Proof.
  intros H Hty Hpl. unfold InvFail.exec_native in H. cbv zeta in H. rewrite Hty in H.
  assert (E1 : ((TRX_WITHDRAW =? TRX_PROPOSAL) || (TRX_WITHDRAW =? TRX_VOTING)) = false) by reflexivity.
  assert (E2 : ((TRX_WITHDRAW =? TRX_TRANSFER) || (TRX_WITHDRAW =? TRX_SETDOC)) = false) by reflexivity.
  rewrite E1, E2 in H. rewrite (InvReward.stake_execute_withdraw _ _ _ Hty) in H. cbv zeta in H. rewrite Hpl in H.
  destruct (rewards (work s2) !! t_from t) as [r|]; [|discriminate].
  destruct (r_height r >? b_height (bctx s2)); [discriminate|].
  match type of H with match acct_reward ?l ?a ?q with _ => _ end = _ => destruct (acct_reward l a q) as [l2|] eqn:Ea end;
    [|discriminate].
  unfold acct_reward in Ea.
  match type of Ea with context [accts ?l !! ?a] => destruct (accts l !! a) as [x|] end; [|discriminate].
  cbn [mbind option_bind] in Ea. unfold add_balance in Ea.
  destruct (sign256 req <? 0) eqn:Es; [discriminate|]. apply InvFail.sign256_nonneg in Es. exact Es.
Qed.

Theorem deliver_fail_no_effect_small s t s' e :
  0 ≤ t_amount t → 0 ≤ t_gas t → 0 ≤ g_gasPrice (gparams s) < 2 ^ 192 →
  (∀ x, accts (work s) !! t_from t = Some x → a_bal x < two255) →
  InvFail.payload_wf t →
  deliver s t = (s', Err e) →
  same_obs (work s) (work s') ∧ same_ctl s s'.
Proof.
  intros Hamt Hgas Hprice Hbal5 Hpw H. pose proof InvFail.two256_double as H2. pose proof InvFail.two255_pos as H5.
  assert (Hbal : InvFail.sender_bal_ok s t).
  { intros x Hx. specialize (Hbal5 x Hx). lia. }
  rewrite InvFail.deliver_eq in H.
  destruct (accts (work s) !! t_from t) as [sender|] eqn:Hs.
  2:{ injection H as <- _. split; [apply InvFail.same_obs_refl|apply InvFail.same_ctl_refl]. }
  cbv zeta in H.
  destruct (common_validation0 (gparams s) t) as [e0|] eqn:Hv0.
  { injection H as <- _. split; [apply InvFail.pre_obs|apply InvFail.pre_ctl]. }
  destruct (common_validation1 sender t) as [e1|] eqn:Hv1.
  { injection H as <- _. split; [apply InvFail.pre_obs|apply InvFail.pre_ctl]. }
  destruct (InvFail.validated (InvFail.pre s t) (InvFail.receiver_of s t) t) as [lim'|ev|pv] eqn:Hv.
  2:{ injection H as <- _. split; [apply InvFail.pre_obs|apply InvFail.pre_ctl]. }
  2:{ discriminate. }
  destruct (InvFail.evm_path s t) eqn:Hp.
  - apply InvFail.finish_evm_not_ok in H; [|discriminate]. subst s'.
    rewrite (InvFail.evm_path_lim _ _ _ _ Hp Hv). split; [apply InvFail.pre_obs|apply InvFail.pre_lim_ctl].
  - apply InvFail.evm_path_false_type in Hp.
    assert (Hfin : s' = with_lim (InvFail.pre s t) lim' ∧ InvFail.exec_native (with_lim (InvFail.pre s t) lim') t = Err e).
    { unfold InvFail.finish in H.
      destruct (InvFail.exec_native (with_lim (InvFail.pre s t) lim') t) as [l'|e'|p] eqn:Ex.
      - exfalso.
        destruct (InvFail.post_native_ok t sender (InvFail.vf_amount s t Hamt Hprice Hv0) (InvFail.vf_fee s t Hgas Hprice Hv0)
                    (InvFail.vf_bal s t sender Hamt Hgas Hprice Hbal Hs Hv0 Hv1)
                    (g_gasPrice (gparams s)) (with_lim (InvFail.pre s t) lim') l') as [s'' Hpn].
        + apply InvFail.pre_sender. exact Hs.
        + intros req Hty Hpl. pose proof (exec_native_withdraw_small _ _ _ _ Ex Hty Hpl) as Hr5.
          unfold InvFail.payload_wf in Hpw. rewrite Hpl in Hpw. specialize (Hbal5 sender eq_refl). lia.
        + eapply InvFail.validated_native; eassumption.
        + exact Ex.
        + rewrite Hpn in H. discriminate.
      - injection H as <- <-. split; reflexivity.
      - discriminate. }
    destruct Hfin as [-> Hx].
    rewrite (InvFail.validated_exec_lim s t sender lim' Hamt Hgas Hprice Hbal Hs Hv0 Hv1 Hv _ Hx).
    split; [apply InvFail.pre_obs|apply InvFail.pre_lim_ctl].
Qed.
Print Assumptions deliver_fail_no_effect_small.

(* ---- the facts of the last state of a closed run *)
Lemma supply_nonneg l : bal_range l → powers_ok l → 0 ≤ supply l.
Proof.
  intros Hb Hp. unfold supply. pose proof InvPanic.apP_pos as Ha.
  destruct (InvPanic.total_balance_ge l) as [HT _]; [intros a x Hx; apply Hb in Hx; lia|].
  assert (0 ≤ bonded_power l).
  { apply InvPanic.sum_power_nonneg. intros st Hst. assert (0 ≤ s_power st < two63); [|lia].
    apply Hp, elem_of_app. left. exact Hst. }
  assert (0 ≤ frozen_power l).
  { apply InvPanic.sum_power_nonneg. intros st Hst. assert (0 ≤ s_power st < two63); [|lia].
    apply Hp, elem_of_app. right. exact Hst. }
  nia.
Qed.

Lemma payload_wf_fee t : InvFail.payload_wf t → InvFee.payload_wf t.
Proof. intros H req _ Hp. unfold InvFail.payload_wf in H. rewrite Hp in H. exact H. Qed.

(* every state of a closed run (not only the last) has well-formed parameters, ranges, stake
   bookkeeping, and balances below 2^63 RIGO *)
Theorem closed_state_facts_along g ops :
  genesis_ok g → InvPanic.bracketed InvPanic.Idle 0 ops → hashes_fresh ops → txs_ok ops →
  supply (work (init_chain g)) + requested ops < supply_bound →
  ∀ pre post, ops = pre ++ post →
  let s := srun (init_chain g) pre in
  params_ok (gparams s) ∧ ranges_ok (work s) ∧ dels_ok (work s) ∧
  (∀ a x, accts (work s) !! a = Some x → 0 ≤ a_bal x < supply_bound).
Proof.
  intros Hg Hbr Hh Htx Hb pre post E s.
  pose proof (fresh_run_reachable g ops Hh) as Hf.
  pose proof (minted_le_requested ops Htx (init_chain g)) as Hle.
  assert (Hb' : supply (work (init_chain g)) + minted (init_chain g) ops < supply_bound) by lia.
  split.
  { apply (params_ok_reachable g ops); [apply Hg|eapply bracketed_opts_ok; exact Hbr|exists post; exact E]. }
  destruct (reach_facts g ops Hg Hbr Hf Htx Hb' pre post E) as (Hd & Hr & _).
  split; [exact Hr|]. split; [exact Hd|].
  destruct (closed_run_total g ops Hg Hbr Hf Htx Hb') as (_ & _ & Hreach).
  pose proof (reach_ok_ext_ok _ (Hreach pre post E)) as ((Hsm & _) & _).
  intros a x Hx. split; [|apply (Hsm a x Hx)].
  destruct Hr as (Hr & _). apply (Hr a x Hx).
Qed.
Print Assumptions closed_state_facts_along.

Corollary closed_state_facts g ops :
  genesis_ok g → InvPanic.bracketed InvPanic.Idle 0 ops → hashes_fresh ops → txs_ok ops →
  supply (work (init_chain g)) + requested ops < supply_bound →
  let s := srun (init_chain g) ops in
  params_ok (gparams s) ∧ ranges_ok (work s) ∧ dels_ok (work s) ∧
  (∀ a x, accts (work s) !! a = Some x → 0 ≤ a_bal x < supply_bound).
Proof.
  intros Hg Hbr Hh Htx Hb. apply (closed_state_facts_along g ops Hg Hbr Hh Htx Hb ops []). symmetry. apply app_nil_r.
Qed.

(* C05 in every state of every closed run.  Hypotheses on the inputs only: those of
   C09_closed_inputs on genesis and list, and the Go ranges of the delivered transaction.  Nothing
   is assumed about stored rewards: [reward_headroom] of C05_holds is not needed below the supply
   bound, because every balance of such a state is below 2^63 RIGO < 2^255. *)
Theorem C05_closed_along g ops pre post t s' e :
  genesis_ok g → InvPanic.bracketed InvPanic.Idle 0 ops → hashes_fresh ops → txs_ok ops →
  supply (work (init_chain g)) + requested ops < supply_bound →
  ops = pre ++ post →
  tx_wf t → InvFail.payload_wf t →
  let s := srun (init_chain g) pre in
  deliver s t = (s', Err e) → same_obs (work s) (work s') ∧ same_ctl s s'.
Proof.
  intros Hg Hbr Hh Htx Hb E (Ha & _ & Hgas & _) Hpw s Hd.
  destruct (closed_state_facts_along g ops Hg Hbr Hh Htx Hb pre post E) as ((Hp & _) & _ & _ & Hbal). fold s in Hp, Hbal.
  pose proof (supply_bound_lt) as [Hsb _].
  apply (deliver_fail_no_effect_small s t s' e); [lia|lia|exact Hp| |exact Hpw|exact Hd].
  intros x Hx. specialize (Hbal _ _ Hx). lia.
Qed.
Print Assumptions C05_closed_along.

(* the form with s := the state after the whole list *)
Theorem C05_closed g ops t s' e :
  genesis_ok g → InvPanic.bracketed InvPanic.Idle 0 ops → hashes_fresh ops → txs_ok ops →
  supply (work (init_chain g)) + requested ops < supply_bound →
  tx_wf t → InvFail.payload_wf t →
  let s := srun (init_chain g) ops in
  deliver s t = (s', Err e) → same_obs (work s) (work s') ∧ same_ctl s s'.
Proof.
  intros Hg Hbr Hh Htx Hb. apply (C05_closed_along g ops ops [] t s' e Hg Hbr Hh Htx Hb). symmetry. apply app_nil_r.
Qed.
Print Assumptions C05_closed.

(* the hypothesis [reward_headroom] of C05_holds is not implied by the input hypotheses -- the
   withdrawable reward of a reachable state is only known to be a uint256 -- but it is not needed:
   C05_holds' own hypotheses at the states of a closed run, except [reward_headroom] *)
Corollary C05_holds_hyps_reachable g ops :
  genesis_ok g → InvPanic.bracketed InvPanic.Idle 0 ops → hashes_fresh ops → txs_ok ops →
  supply (work (init_chain g)) + requested ops < supply_bound →
  ∀ pre post, ops = pre ++ post →
  params_ok (gparams (srun (init_chain g) pre)) ∧ ranges_ok (work (srun (init_chain g) pre)).
Proof.
  intros Hg Hbr Hh Htx Hb pre post E.
  destruct (closed_state_facts_along g ops Hg Hbr Hh Htx Hb pre post E) as (H1 & H2 & _). split; assumption.
Qed.

(* non-vacuity: inside block 1 of InvSupply's chain (after the transfer and the delegation) the
   third transaction of the block fails on its nonce; all input hypotheses hold *)
Example C05_closed_example :
  let t := demo_tx TRX_TRANSFER 1%N 2%N amountPerPower 4000 7 PNone 103%N in
  let s := srun (init_chain hx_genesis) (take 3 hx_ops) in
  genesis_ok hx_genesis ∧ InvPanic.bracketed InvPanic.Idle 0 hx_ops ∧ hashes_fresh hx_ops ∧ txs_ok hx_ops ∧
  supply (work (init_chain hx_genesis)) + requested hx_ops < supply_bound ∧
  tx_wf t ∧ InvFail.payload_wf t ∧
  (deliver s t).2 = Err E_NONCE ∧
  same_obs (work s) (work (deliver s t).1) ∧ same_ctl s (deliver s t).1.
Proof.
  intros t s.
  assert (Hb : supply (work (init_chain hx_genesis)) + requested hx_ops < supply_bound) by (vm_compute; reflexivity).
  assert (Hwf : tx_wf t) by (repeat split; vm_compute; congruence).
  assert (Hpw : InvFail.payload_wf t) by exact I.
  assert (Hr : (deliver s t).2 = Err E_NONCE) by (vm_compute; reflexivity).
  split; [exact hx_genesis_ok|]. split; [exact hx_bracketed|]. split; [exact hx_hashes_fresh|].
  split; [exact hx_txs_ok|]. split; [exact Hb|]. split; [exact Hwf|]. split; [exact Hpw|]. split; [exact Hr|].
  apply (C05_closed_along hx_genesis hx_ops (take 3 hx_ops) (drop 3 hx_ops) t (deliver s t).1 E_NONCE
           hx_genesis_ok hx_bracketed hx_hashes_fresh hx_txs_ok Hb); [symmetry; apply take_drop|exact Hwf|exact Hpw|].
  fold s. rewrite <- Hr. destruct (deliver s t); reflexivity.
Qed.

(* ================================================================== 3. C13: the reward identity on closed runs *)
(* [run_wf] asks, at every withdrawal of the run: payload and transaction in the Go ranges, well-formed
   active parameters, and that crediting the request does not wrap the sender's balance.  All of it
   follows from the input hypotheses: the balance is below 2^63 RIGO and the request is counted in
   [requested]. *)
Lemma run_wf_from_prefixes ops : ∀ s,
  (∀ pre post o, ops = pre ++ o :: post → InvReward.step_wf (srun s pre) o) → InvReward.run_wf s ops.
Proof.
  induction ops as [|o r IH]; intros s H; cbn [InvReward.run_wf]; [exact I|].
  split; [apply (H [] r o); reflexivity|].
  apply IH. intros pre post o' E. apply (H (o :: pre) post o'). rewrite E. reflexivity.
Qed.

Lemma requested_app l k : requested (l ++ k) = requested l + requested k.
Proof. unfold requested. apply InvReward.sumZ_with_app. Qed.

Lemma requested_nonneg ops : txs_ok ops → 0 ≤ requested ops.
Proof.
  intros Htx. pose proof (minted_nonneg ops Htx (init_chain {| gen_params := params_witness; gen_holders := []; gen_validators := [] |})).
  pose proof (minted_le_requested ops Htx (init_chain {| gen_params := params_witness; gen_holders := []; gen_validators := [] |})). lia.
Qed.

Lemma requested_elem pre t post : txs_ok (pre ++ SDeliver t :: post) → withdrawn_of t ≤ requested (pre ++ SDeliver t :: post).
Proof.
  intros Htx. pose proof Htx as Htx'. apply Forall_app in Htx' as [H1 H2]. apply Forall_cons in H2 as [_ H2].
  rewrite requested_app, requested_cons.
  pose proof (requested_nonneg pre H1). pose proof (requested_nonneg post H2). lia.
Qed.

Theorem run_wf_reachable g ops :
  genesis_ok g → InvPanic.bracketed InvPanic.Idle 0 ops → hashes_fresh ops → txs_ok ops →
  supply (work (init_chain g)) + requested ops < supply_bound →
  InvReward.run_wf (init_chain g) ops.
Proof.
  intros Hg Hbr Hh Htx Hb. apply run_wf_from_prefixes. intros pre post o E.
  destruct o as [hd|t| |]; cbn [InvReward.step_wf]; try exact I. intros Hty.
  destruct (closed_state_facts_along g ops Hg Hbr Hh Htx Hb pre (SDeliver t :: post) E) as (Hp & _ & _ & Hbal).
  assert (Ht : tx_wf t ∧ InvFee.payload_wf t ∧ t_evm t = None).
  { rewrite E in Htx. apply Forall_app in Htx as [_ H2]. apply Forall_cons in H2 as [H2 _]. exact H2. }
  destruct Ht as (Hwf & Hpw & _).
  split.
  { unfold InvReward.payload_wf. destruct (t_payload t) as [| |req| | | |] eqn:Epl; try exact I. apply (Hpw req Hty Epl). }
  split; [exact Hp|]. split; [exact Hwf|].
  intros req sender Hpl Hs. specialize (Hbal _ _ Hs).
  assert (Hreq : withdrawn_of t = req) by (unfold withdrawn_of; rewrite Hty, Hpl; reflexivity).
  assert (Hle : withdrawn_of t ≤ requested ops) by (rewrite E; apply requested_elem; rewrite <- E; exact Htx).
  assert (H0 : 0 ≤ supply (work (init_chain g))).
  { apply supply_nonneg; [apply init_chain_bal_range; apply Hg|apply init_chain_powers_ok; apply Hg]. }
  pose proof (supply_bound_lt) as [Hsb _]. pose proof InvFail.two256_double as H2. pose proof InvFail.two255_pos as H5.
  lia.
Qed.
Print Assumptions run_wf_reachable.

(* C13_holds with [run_wf] discharged.  The remaining hypothesis is the no-wrap condition of the
   statement itself: everything ever issued to [a] fits a uint256.  ([issued_to] is the ghost sum
   of R1's per-block formula; bounding it from the inputs needs a bound on rewardPerPower along
   the run, i.e. an invariant over governance like A of InvReach.v, and a bound on the voting
   powers recorded in old committed versions -- params_ok alone allows 2^63 * 2^192 per stake and
   block.) *)
Theorem C13_closed g ops a :
  genesis_ok g → InvPanic.bracketed InvPanic.Idle 0 ops → hashes_fresh ops → txs_ok ops →
  supply (work (init_chain g)) + requested ops < supply_bound →
  InvReward.issued_to (init_chain g) ops a < two256 →
  InvReward.cum_of (srun (init_chain g) ops) a
    = InvReward.issued_to (init_chain g) ops a - InvReward.withdrawn_by (init_chain g) ops a ∧
  0 ≤ InvReward.withdrawn_by (init_chain g) ops a ≤ InvReward.issued_to (init_chain g) ops a.
Proof.
  intros Hg Hbr Hh Htx Hb Hi. apply InvReward.reward_identity_genesis; [|exact Hi].
  apply run_wf_reachable; assumption.
Qed.
Print Assumptions C13_closed.

(* without any hypothesis beyond the inputs: the identity modulo 2^256 *)
Theorem C13_closed_mod g ops a :
  genesis_ok g → InvPanic.bracketed InvPanic.Idle 0 ops → hashes_fresh ops → txs_ok ops →
  supply (work (init_chain g)) + requested ops < supply_bound →
  InvReward.cum_of (srun (init_chain g) ops) a
    = (InvReward.issued_to (init_chain g) ops a - InvReward.withdrawn_by (init_chain g) ops a) mod two256.
Proof.
  intros Hg Hbr Hh Htx Hb.
  rewrite (InvReward.reward_identity_mod (init_chain g) ops a (InvReward.cum_ok_init g) (run_wf_reachable g ops Hg Hbr Hh Htx Hb)).
  unfold InvReward.cum_of at 1. rewrite InvReward.init_chain_rewards, lookup_empty. reflexivity.
Qed.
Print Assumptions C13_closed_mod.

(* non-vacuity on InvSupply's chain: validator 11 is issued 100 * 1000 (its own stake) in block 3 and withdraws 5000 *)
Example C13_closed_example :
  genesis_ok hx_genesis ∧ InvPanic.bracketed InvPanic.Idle 0 hx_ops ∧ hashes_fresh hx_ops ∧ txs_ok hx_ops ∧
  supply (work (init_chain hx_genesis)) + requested hx_ops < supply_bound ∧
  InvReward.issued_to (init_chain hx_genesis) hx_ops 11%N = 100000 ∧
  InvReward.withdrawn_by (init_chain hx_genesis) hx_ops 11%N = 5000 ∧
  InvReward.cum_of (srun (init_chain hx_genesis) hx_ops) 11%N = 95000.
Proof.
  assert (Hb : supply (work (init_chain hx_genesis)) + requested hx_ops < supply_bound) by (vm_compute; reflexivity).
  assert (Hi : InvReward.issued_to (init_chain hx_genesis) hx_ops 11%N = 100000) by (vm_compute; reflexivity).
  assert (Hw : InvReward.withdrawn_by (init_chain hx_genesis) hx_ops 11%N = 5000) by (vm_compute; reflexivity).
  split; [exact hx_genesis_ok|]. split; [exact hx_bracketed|]. split; [exact hx_hashes_fresh|].
  split; [exact hx_txs_ok|]. split; [exact Hb|]. split; [exact Hi|]. split; [exact Hw|].
  destruct (C13_closed hx_genesis hx_ops 11%N hx_genesis_ok hx_bracketed hx_hashes_fresh hx_txs_ok Hb) as [E _].
  - rewrite Hi. reflexivity.
  - rewrite E, Hi, Hw. reflexivity.
Qed.

(* ================================================================== 2'. C10: the covering hypothesis in input terms *)
(* [C10_closed] keeps the hypothesis "every genesis validator is still selected at block 2".
   The selection announced at block 2 is made from the ledger committed by block 1 under the
   parameters in force after block 1, so only block 1 matters.  Sufficient, on the inputs: block 1
   carries no evidence and no votes (consensus has none at height 1), none of its transactions is
   of staking or unstaking type, the genesis powers meet the minimum validator power, and the
   genesis set fits the maximum validator count. *)
Definition gdel (v : addr * Z) : delegatee := add_stake (new_delegatee v.1) (genesis_stake v).

Lemma fold_dels (f : addr * Z → delegatee) vs : ∀ l,
  dels (foldl (λ l v, set_dels l (<[v.1 := f v]> (dels l))) l vs) = foldl (λ m v, <[v.1 := f v]> m) (dels l) vs.
Proof. induction vs as [|v vs IH]; intros l; cbn [foldl]; [reflexivity|]. rewrite IH. reflexivity. Qed.

Lemma fold_ins_notin (f : addr * Z → delegatee) vs : ∀ (m : gmap addr delegatee) a,
  a ∉ vs.*1 → foldl (λ m v, <[v.1 := f v]> m) m vs !! a = m !! a.
Proof.
  induction vs as [|v vs IH]; intros m a Ha; cbn [foldl]; [reflexivity|].
  rewrite fmap_cons in Ha. apply not_elem_of_cons in Ha as [Hne Ha]. rewrite IH by exact Ha.
  apply lookup_insert_ne. congruence.
Qed.

Lemma fold_ins_in (f : addr * Z → delegatee) vs : ∀ (m : gmap addr delegatee) v,
  NoDup vs.*1 → v ∈ vs → foldl (λ m v, <[v.1 := f v]> m) m vs !! v.1 = Some (f v).
Proof.
  induction vs as [|w vs IH]; intros m v Hnd Hin; [inversion Hin|]. cbn [foldl].
  rewrite fmap_cons in Hnd. apply NoDup_cons in Hnd as [Hw Hnd].
  apply elem_of_cons in Hin as [->|Hin].
  - rewrite fold_ins_notin by exact Hw. apply lookup_insert.
  - apply IH; assumption.
Qed.

Lemma fold_ins_size (f : addr * Z → delegatee) vs : ∀ (m : gmap addr delegatee),
  (size (foldl (λ m v, <[v.1 := f v]> m) m vs) ≤ size m + length vs)%nat.
Proof.
  induction vs as [|v vs IH]; intros m; cbn [foldl length]; [lia|].
  etrans; [apply IH|].
  assert ((size (<[v.1 := f v]> m) ≤ S (size m))%nat); [|lia].
  destruct (m !! v.1) as [d|] eqn:E.
  - rewrite map_size_insert_Some by (rewrite E; eauto). lia.
  - rewrite map_size_insert_None by exact E. lia.
Qed.

Lemma init_chain_dels g :
  dels (work (init_chain g)) = foldl (λ m v, <[v.1 := gdel v]> m) ∅ (gen_validators g).
Proof.
  destruct (init_chain_pre_sf g) as (l2 & [HD _] & ->).
  etrans; [apply (fold_dels gdel)|]. rewrite HD. reflexivity.
Qed.

Lemma sel_vals_dels gp l l' : dels l' = dels l → InvValSet.sel_vals gp l' = InvValSet.sel_vals gp l.
Proof.
  intros E. unfold InvValSet.sel_vals, InvValSet.selection, InvValSet.ranked, InvValSet.eligible, InvValSet.committed_dels.
  rewrite E. reflexivity.
Qed.

Lemma List_filter_length_le {A} (p : A → bool) l : (length (List.filter p l) ≤ length l)%nat.
Proof. induction l as [|x l IH]; cbn [List.filter length]; [lia|]. destruct (p x); cbn [length]; lia. Qed.

Lemma genesis_selected g a :
  NoDup (gen_validators g).*1 →
  Forall (λ v : addr * Z, min_power (gen_params g) ≤ v.2) (gen_validators g) →
  Z.of_nat (length (gen_validators g)) ≤ g_maxValidatorCnt (gen_params g) →
  a ∈ (gen_validators g).*1 → a ∈ (InvValSet.sel_vals (gen_params g) (work (init_chain g))).*1.
Proof.
  intros Hnd Hmin Hcnt Ha. apply elem_of_list_fmap in Ha as (v & -> & Hv).
  set (l := work (init_chain g)). set (gp := gen_params g).
  assert (Hd : dels l !! v.1 = Some (gdel v)).
  { unfold l. rewrite init_chain_dels. apply fold_ins_in; assumption. }
  assert (He : gdel v ∈ InvValSet.eligible gp l).
  { apply InvValSet.elem_of_eligible. split; [exists v.1; exact Hd|].
    rewrite Forall_forall in Hmin. specialize (Hmin v Hv).
    unfold gdel, add_stake, new_delegatee, genesis_stake, is_self. cbn [d_self s_from s_to s_power]. rewrite N.eqb_refl. fold gp in Hmin. lia. }
  assert (Hlen : (length (InvValSet.ranked gp l) ≤ Z.to_nat (g_maxValidatorCnt gp))%nat).
  { unfold InvValSet.ranked. rewrite (Permutation_length (InvValSet.sort_power_perm _)).
    unfold InvValSet.eligible. etrans; [apply List_filter_length_le|].
    unfold InvValSet.committed_dels. rewrite fmap_length. rewrite (Permutation_length (sorted_items_perm (dels l))).
    change (length (map_to_list (dels l))) with (size (dels l)).
    unfold l. rewrite init_chain_dels.
    pose proof (fold_ins_size gdel (gen_validators g) ∅) as Hs. rewrite map_size_empty in Hs. fold gp in Hcnt. lia. }
  assert (Hs : gdel v ∈ InvValSet.selection gp l).
  { unfold InvValSet.selection. rewrite take_ge by exact Hlen. unfold InvValSet.ranked.
    rewrite InvValSet.sort_power_perm. exact He. }
  rewrite InvValSet.sel_vals_addrs. apply elem_of_list_fmap. exists (gdel v). split; [reflexivity|exact Hs].
Qed.

(* block 1 under these conditions leaves the delegatee ledger and the parameters as genesis made them *)
Lemma begin_block_dels_quiet s hd :
  h_evidence hd = [] → h_votes hd = [] → dels (work (begin_block s hd).1) = dels (work s).
Proof.
  intros He Hv. unfold begin_block. destruct (negb _); [reflexivity|]. cbv zeta. rewrite He, Hv. reflexivity.
Qed.

Lemma deliver_dels_other s t :
  t_type t ≠ TRX_STAKING → t_type t ≠ TRX_UNSTAKING → dels (work (deliver s t).1) = dels (work s).
Proof.
  intros N1 N2. destruct (deliver s t) as [s' r] eqn:E. cbn [fst].
  apply InvStake.deliver_frame in E as (_ & _ & _ & _ & _ & [[HD _]|(s2 & l & l' & _ & _ & _ & [HD _] & Hex & [HD' _])]);
    [exact HD|].
  apply stake_execute_inv in Hex as [(Hty & _)|[(Hty & _)|(_ & _ & [HDl _])]]; [contradiction|contradiction|]. congruence.
Qed.

Lemma delivers_dels_other txs : ∀ s,
  Forall (λ t, t_type t ≠ TRX_STAKING ∧ t_type t ≠ TRX_UNSTAKING) txs →
  dels (work (InvValSet.delivers s txs)) = dels (work s).
Proof.
  induction txs as [|t txs IH]; intros s H; [reflexivity|]. apply Forall_cons in H as [[N1 N2] H].
  unfold InvValSet.delivers. cbn [foldl]. fold (InvValSet.delivers (deliver s t).1 txs).
  rewrite IH by exact H. apply deliver_dels_other; assumption.
Qed.

Lemma block1_quiet g hd txs s1 u :
  h_evidence hd = [] → h_votes hd = [] →
  Forall (λ t, t_type t ≠ TRX_STAKING ∧ t_type t ≠ TRX_UNSTAKING) txs →
  InvValSet.do_block (init_chain g) hd txs = Some (s1, u) →
  dels (work s1) = dels (work (init_chain g)) ∧ gparams s1 = gen_params g.
Proof.
  intros He Hv Ht Hd. unfold InvValSet.do_block in Hd.
  destruct ((begin_block (init_chain g) hd).2) as [r| |]; try discriminate. cbv zeta in Hd.
  set (sb := (begin_block (init_chain g) hd).1) in *. set (sd := InvValSet.delivers sb txs) in *.
  destruct ((end_block sd).2) as [ups| |] eqn:Ee; try discriminate. injection Hd as <- <-.
  destruct (InvValSet.begin_block_frame (init_chain g) hd) as (B1 & B2 & B3 & _). fold sb in B1, B2, B3.
  destruct (InvValSet.delivers_frame txs sb) as [(D1 & D2 & D3 & _) _]. fold sd in D1, D2, D3.
  destruct (InvValSet.end_block_keeps sd) as [_ E2].
  destruct (InvGov.end_block_params sd) as (G1 & G2 & G3).
  split.
  - cbn [commit work]. rewrite E2. unfold sd. rewrite delivers_dels_other by exact Ht.
    unfold sb. apply begin_block_dels_quiet; assumption.
  - cbn [commit gparams].
    assert (Hn : newparams (end_block sd).1 = None).
    { destruct G3 as [(Hn & _)|(k & p & o & newp & Hk & _)].
      - rewrite Hn, D3, B3. reflexivity.
      - exfalso. unfold base_of in Hk. rewrite D1, B1 in Hk.
        change (committed (init_chain g)) with (@nil ledgers) in Hk. cbn in Hk. rewrite lookup_empty in Hk. discriminate. }
    rewrite Hn. cbn [default]. rewrite G1, D2, B2. reflexivity.
Qed.

(* C10_holds with every hypothesis on the inputs *)
Theorem C10_closed_inputs g b1 b2 rest sf upss :
  params_ok (gen_params g) → Forall (λ v : addr * Z, 0 ≤ v.2 < two63) (gen_validators g) →
  opts_ok (InvValSet.ops_of (b1 :: b2 :: rest)) →
  NoDup (gen_validators g).*1 →
  Forall (λ v : addr * Z, min_power (gen_params g) ≤ v.2) (gen_validators g) →
  Z.of_nat (length (gen_validators g)) ≤ g_maxValidatorCnt (gen_params g) →
  h_evidence b1.1 = [] → h_votes b1.1 = [] →
  Forall (λ t, t_type t ≠ TRX_STAKING ∧ t_type t ≠ TRX_UNSTAKING) b1.2 →
  InvValSet.run_blocks (init_chain g) (b1 :: b2 :: rest) = Some (sf, upss) →
  fold_left ValSet.apply_updates upss (sort_addr (gen_validators g)) = sort_addr (lastvals sf).
Proof.
  intros Hg Hv Hopts Hnd Hmin Hcnt Hev Hvo Htx Hr.
  pose proof Hr as Hr'. cbn [InvValSet.run_blocks] in Hr'.
  destruct (InvValSet.do_block (init_chain g) b1.1 b1.2) as [[s1 u1]|] eqn:Ed1; [|discriminate].
  destruct (InvValSet.do_block s1 b2.1 b2.2) as [[s2 u2]|] eqn:Ed2; [|discriminate]. clear Hr'.
  assert (H12 : InvValSet.run_blocks (init_chain g) [b1; b2] = Some (s2, [u1; u2])).
  { cbn [InvValSet.run_blocks]. rewrite Ed1, Ed2. reflexivity. }
  apply (C10_closed g b1 b2 rest s2 [u1; u2] sf upss Hg Hv Hopts Hnd H12); [|exact Hr].
  pose proof (InvValSet.init_chain_boundary g) as Hb0.
  destruct (InvValSet.do_block_inv _ _ _ _ _ Hb0 Ed1) as (Hb1 & Hc1 & _).
  destruct (InvValSet.do_block_inv _ _ _ _ _ Hb1 Ed2) as (_ & _ & _ & Hlv2 & _).
  destruct (block1_quiet g b1.1 b1.2 s1 u1 Hev Hvo Htx Ed1) as [HD HG].
  destruct (InvValSet.base_of_boundary s1 Hb1) as [[Hn _]|[_ Hbase]].
  { rewrite Hc1 in Hn. destruct (committed (init_chain g)); discriminate. }
  intros a Ha. rewrite Hlv2, Hbase, HG, (sel_vals_dels _ _ _ HD). apply genesis_selected; assumption.
Qed.
Print Assumptions C10_closed_inputs.

Example C10_closed_inputs_example :
  params_ok (gen_params InvValSet.ex_genesis) ∧
  Forall (λ v : addr * Z, 0 ≤ v.2 < two63) (gen_validators InvValSet.ex_genesis) ∧
  opts_ok (InvValSet.ops_of InvValSet.good_blocks) ∧
  NoDup (gen_validators InvValSet.ex_genesis).*1 ∧
  Forall (λ v : addr * Z, min_power (gen_params InvValSet.ex_genesis) ≤ v.2) (gen_validators InvValSet.ex_genesis) ∧
  Z.of_nat (length (gen_validators InvValSet.ex_genesis)) ≤ g_maxValidatorCnt (gen_params InvValSet.ex_genesis) ∧
  fold_left ValSet.apply_updates (InvValSet.run_updates (init_chain InvValSet.ex_genesis) InvValSet.good_blocks)
            (sort_addr (gen_validators InvValSet.ex_genesis))
  = sort_addr (lastvals (InvValSet.run_state (init_chain InvValSet.ex_genesis) InvValSet.good_blocks)).
Proof.
  assert (Hmin : Forall (λ v : addr * Z, min_power (gen_params InvValSet.ex_genesis) ≤ v.2) (gen_validators InvValSet.ex_genesis)).
  { repeat apply Forall_cons_2; try apply Forall_nil_2; vm_compute; congruence. }
  assert (Hcnt : Z.of_nat (length (gen_validators InvValSet.ex_genesis)) ≤ g_maxValidatorCnt (gen_params InvValSet.ex_genesis))
    by (vm_compute; congruence).
  split; [exact ex_params_ok|]. split; [exact ex_powers_ok|]. split; [exact good_blocks_opts_ok|].
  split; [exact InvValSet.ex_genesis_nodup|]. split; [exact Hmin|]. split; [exact Hcnt|].
  assert (Hr := InvValSet.run_blocks_proj (init_chain InvValSet.ex_genesis) InvValSet.good_blocks eq_refl).
  apply (C10_closed_inputs InvValSet.ex_genesis _ _ _ _ _ ex_params_ok ex_powers_ok good_blocks_opts_ok
           InvValSet.ex_genesis_nodup Hmin Hcnt eq_refl eq_refl (Forall_nil_2 _) Hr).
Qed.
