(* Base.v — shared arithmetic and result types of the rigo-go model.
   uint256 and int64 are Z with the wrap-around written out, as the Go code has it
   (holiman/uint256 arithmetic is modulo 2^256; Go int64 arithmetic wraps). *)
From Coq Require Export ZArith List Bool Lia.
Export ListNotations.
Open Scope Z_scope.

Definition two256 : Z := 2 ^ 256.
Definition two255 : Z := 2 ^ 255.
Definition two64  : Z := 2 ^ 64.
Definition two63  : Z := 2 ^ 63.

Definition wrap256 (z : Z) : Z := z mod two256.
(* holiman uint256.Int.Sign(): 0 if zero, -1 if bit 255 set, else 1 *)
Definition sign256 (z : Z) : Z := if z =? 0 then 0 else if two255 <=? z then -1 else 1.
Definition add256 (a b : Z) : Z := wrap256 (a + b).
Definition sub256 (a b : Z) : Z := wrap256 (a - b).
Definition mul256 (a b : Z) : Z := wrap256 (a * b).

(* two's-complement int64 wrap *)
Definition wrap64 (z : Z) : Z := ((z + two63) mod two64) - two63.
Definition add64 (a b : Z) : Z := wrap64 (a + b).
Definition sub64 (a b : Z) : Z := wrap64 (a - b).
Definition mul64 (a b : Z) : Z := wrap64 (a * b).
(* Go integer division truncates toward zero *)
Definition div64 (a b : Z) : Z := wrap64 (Z.quot a b).
(* uint64(x) of an int64 *)
Definition u64_of_i64 (z : Z) : Z := z mod two64.
(* int64(x) of a uint64 *)
Definition i64_of_u64 (z : Z) : Z := wrap64 z.

Definition in256 (z : Z) : Prop := 0 <= z < two256.
Definition in64  (z : Z) : Prop := - two63 <= z < two63.

Lemma wrap256_small z : in256 z -> wrap256 z = z.
Proof. unfold in256, wrap256; intros; apply Z.mod_small; assumption. Qed.

Lemma wrap256_range z : in256 (wrap256 z).
Proof. unfold in256, wrap256, two256. apply Z.mod_pos_bound. reflexivity. Qed.

Lemma wrap64_small z : in64 z -> wrap64 z = z.
Proof.
  unfold in64, wrap64, two64, two63; intros H.
  rewrite Z.mod_small; lia.
Qed.

Lemma wrap64_range z : in64 (wrap64 z).
Proof.
  unfold in64, wrap64, two64, two63.
  pose proof (Z.mod_pos_bound (z + 2 ^ 63) (2 ^ 64) eq_refl). lia.
Qed.

(* Outcome of a model function: value, ABCI error code, or a Go panic at a named site *)
Inductive res (A : Type) : Type :=
| Ok (a : A)
| Err (code : Z)
| Panic (site : Z).
Arguments Ok {A} a.
Arguments Err {A} code.
Arguments Panic {A} site.

Definition res_bind {A B} (r : res A) (f : A -> res B) : res B :=
  match r with Ok a => f a | Err c => Err c | Panic s => Panic s end.

Fixpoint sumZ (l : list Z) : Z :=
  match l with [] => 0 | x :: r => x + sumZ r end.

Lemma sumZ_app a b : sumZ (a ++ b) = sumZ a + sumZ b.
Proof. induction a as [|x a IH]; simpl; lia. Qed.
