(* Signer.v — model of types/crypto/sfile_pv.go (SFilePV): the file-backed validator signer.
   Model only; proofs are in SignerProofs.v. *)
From Rigo Require Import Base.

(* step constants of sfile_pv.go; FactsCheck pins them to the source *)
Definition stepNone : Z := 0.
Definition stepPropose : Z := 1.
Definition stepPrevote : Z := 2.
Definition stepPrecommit : Z := 3.

(* What gets signed.  tmtypes.VoteSignBytes / ProposalSignBytes are a function of
   (chain id, type, height, round, block id / POL round, timestamp); the chain id is fixed per
   signer, type is determined by the step.  `content` stands for everything but the timestamp. *)
Record signbytes := { sb_h : Z; sb_r : Z; sb_step : Z; sb_content : Z; sb_ts : Z }.

Definition signbytes_eqb (a b : signbytes) : bool :=
  (sb_h a =? sb_h b) && (sb_r a =? sb_r b) && (sb_step a =? sb_step b)
  && (sb_content a =? sb_content b) && (sb_ts a =? sb_ts b).

(* checkVotesOnlyDifferByTimestamp / checkProposalsOnlyDifferByTimestamp *)
Definition only_differ_by_ts (last new : signbytes) : bool :=
  (sb_h last =? sb_h new) && (sb_r last =? sb_r new) && (sb_step last =? sb_step new)
  && (sb_content last =? sb_content new).

(* SFilePVLastSignState: Signature is determined by SignBytes (deterministic signing), so the
   state keeps the sign bytes only; `None` = nil SignBytes. *)
Record lss := { l_h : Z; l_r : Z; l_step : Z; l_sb : option signbytes }.

Definition lss0 : lss := {| l_h := 0; l_r := 0; l_step := stepNone; l_sb := None |}.

(* the signer process: volatile copy and the state file *)
Record pv := { vol : lss; dur : lss }.
Definition pv0 : pv := {| vol := lss0; dur := lss0 |}.

Inductive serr := EHeight | ERound | EStep | ENoSignBytes | EConflict.

(* CheckHRS: Some true = same HRS with stored sign bytes; Some false = strictly newer *)
Definition check_hrs (l : lss) (h r s : Z) : serr + bool :=
  if h <? l_h l then inl EHeight
  else if h =? l_h l then
    if r <? l_r l then inl ERound
    else if r =? l_r l then
      if s <? l_step l then inl EStep
      else if s =? l_step l then
        match l_sb l with Some _ => inr true | None => inl ENoSignBytes end
      else inr false
    else inr false
  else inr false.

Record request := { q_h : Z; q_r : Z; q_step : Z; q_content : Z; q_ts : Z }.

Definition req_sb (q : request) : signbytes :=
  {| sb_h := q_h q; sb_r := q_r q; sb_step := q_step q; sb_content := q_content q; sb_ts := q_ts q |}.

(* ghost classification of a response *)
Inductive resp :=
| RFresh (m : signbytes)      (* new signature over m, state saved first *)
| RReplay (m : signbytes)     (* stored signature (over m) handed out again *)
| RErr (e : serr).

(* signVote / signProposal.  `save_first` = true is the code: saveSigned (state + file) happens
   before the signature is assigned to the vote. *)
Definition sign (p : pv) (q : request) : pv * resp :=
  let l := vol p in
  match check_hrs l (q_h q) (q_r q) (q_step q) with
  | inl e => (p, RErr e)
  | inr true =>
      match l_sb l with
      | Some last =>
          if signbytes_eqb (req_sb q) last then (p, RReplay last)
          else if only_differ_by_ts last (req_sb q) then (p, RReplay last)
          else (p, RErr EConflict)
      | None => (p, RErr ENoSignBytes)
      end
  | inr false =>
      let l' := {| l_h := q_h q; l_r := q_r q; l_step := q_step q; l_sb := Some (req_sb q) |} in
      ({| vol := l'; dur := l' |}, RFresh (req_sb q))
  end.

Inductive sop :=
| SReq (q : request)          (* a signing request whose answer is released *)
| SReqLost (q : request)      (* process dies after saveSigned, before the answer leaves *)
| SReqFail (q : request)      (* the state file cannot be written while q is being signed: the signer stops
                                 (it panics) without releasing anything, and is started again from the file *)
| SReload.                    (* restart: LoadSFilePV reads the state file *)

(* observable output, as the harness sees it on the real signer *)
Inductive sout :=
| OSigned (ts : Z)            (* success; the signature verifies for the message with this timestamp *)
| OErr (e : serr)
| ONone.                      (* nothing observable (lost answer, reload) *)

Definition reload (p : pv) : pv := {| vol := dur p; dur := dur p |}.

Definition sstep (p : pv) (o : sop) : pv * sout * option (request * resp) :=
  match o with
  | SReq q =>
      let '(p', r) := sign p q in
      (p', match r with RFresh m => OSigned (sb_ts m) | RReplay m => OSigned (sb_ts m) | RErr e => OErr e end,
       Some (q, r))
  | SReqLost q =>
      let '(p', _) := sign p q in (reload p', ONone, None)
  | SReqFail _ => (reload p, ONone, None)
  | SReload => (reload p, ONone, None)
  end.

Fixpoint srun (p : pv) (ops : list sop) : list sout * list (request * resp) * pv :=
  match ops with
  | [] => ([], [], p)
  | o :: rest =>
      let '(p', out, ev) := sstep p o in
      let '(outs, evs, pf) := srun p' rest in
      (out :: outs, match ev with Some e => e :: evs | None => evs end, pf)
  end.

Definition souts (ops : list sop) : list sout := fst (fst (srun pv0 ops)).

(* ---- the property as a predicate over what is observable on either side ------------- *)
(* a released signature: HRS of the request, content of the request, timestamp it covers *)
Record released := { rl_h : Z; rl_r : Z; rl_step : Z; rl_content : Z; rl_ts : Z }.

Definition hrs_eqb (a b : released) : bool :=
  (rl_h a =? rl_h b) && (rl_r a =? rl_r b) && (rl_step a =? rl_step b).
Definition hrs_leb (a b : released) : bool :=
  (rl_h a <? rl_h b) || ((rl_h a =? rl_h b) && ((rl_r a <? rl_r b) ||
     ((rl_r a =? rl_r b) && (rl_step a <=? rl_step b)))).

(* pair requests with observed outputs *)
Fixpoint released_of (ops : list sop) (outs : list sout) : list released :=
  match ops, outs with
  | SReq q :: ops', OSigned ts :: outs' =>
      {| rl_h := q_h q; rl_r := q_r q; rl_step := q_step q; rl_content := q_content q; rl_ts := ts |}
        :: released_of ops' outs'
  | SReqFail q :: ops', OSigned ts :: outs' =>
      (* a signature that left the signer although its record could not be saved counts as released *)
      {| rl_h := q_h q; rl_r := q_r q; rl_step := q_step q; rl_content := q_content q; rl_ts := ts |}
        :: released_of ops' outs'
  | _ :: ops', _ :: outs' => released_of ops' outs'
  | _, _ => []
  end.

Definition same_msg (a b : released) : bool :=
  (rl_content a =? rl_content b) && (rl_ts a =? rl_ts b).

Fixpoint no_double_sign (l : list released) : bool :=
  match l with
  | [] => true
  | a :: rest => forallb (fun b => implb (hrs_eqb a b) (same_msg a b)) rest && no_double_sign rest
  end.

Fixpoint hrs_monotone (l : list released) : bool :=
  match l with
  | a :: ((b :: _) as rest) => hrs_leb a b && hrs_monotone rest
  | _ => true
  end.

Definition P_C20 (ops : list sop) (outs : list sout) : bool :=
  let rl := released_of ops outs in no_double_sign rl && hrs_monotone rl.

(* third clause of the property: asked again for the message it signed last (same height, round,
   step and content; any timestamp) the signer answers with the ORIGINAL signature, i.e. the one
   covering the original timestamp — not with a refusal and not with a new signature.  [last] is
   the latest released signature as long as nothing unobservable (a lost answer) may have moved the
   state since. *)
Definition rel_of (q : request) (ts : Z) : released :=
  {| rl_h := q_h q; rl_r := q_r q; rl_step := q_step q; rl_content := q_content q; rl_ts := ts |}.
Definition same_request (a : released) (q : request) : bool :=
  (rl_h a =? q_h q) && (rl_r a =? q_r q) && (rl_step a =? q_step q) && (rl_content a =? q_content q).
Fixpoint resign_ok (last : option released) (ops : list sop) (outs : list sout) : bool :=
  match ops, outs with
  | SReq q :: ops', o :: outs' =>
      let ok := match last with
                | Some a => if same_request a q then match o with OSigned t => t =? rl_ts a | _ => false end else true
                | None => true
                end in
      let last' := match o with OSigned t => Some (rel_of q t) | _ => last end in
      ok && resign_ok last' ops' outs'
  | SReqLost _ :: ops', _ :: outs' => resign_ok None ops' outs'
  | SReqFail _ :: ops', _ :: outs' => resign_ok None ops' outs'
  | SReload :: ops', _ :: outs' => resign_ok last ops' outs'
  | _, _ => true
  end.
Definition P_C20_resign (ops : list sop) (outs : list sout) : bool := resign_ok None ops outs.

(* ---- correspondence entry points --------------------------------------------------- *)
Definition serr_eqb (a b : serr) : bool :=
  match a, b with
  | EHeight, EHeight | ERound, ERound | EStep, EStep
  | ENoSignBytes, ENoSignBytes | EConflict, EConflict => true
  | _, _ => false
  end.
Definition sout_eqb (a b : sout) : bool :=
  match a, b with
  | OSigned x, OSigned y => x =? y
  | OErr x, OErr y => serr_eqb x y
  | ONone, ONone => true
  | _, _ => false
  end.

(* projection the property depends on: which requests were answered with a signature and for
   which timestamp; the error class of a refusal is compared only as a note *)
Definition sout_eqb_proj (a b : sout) : bool :=
  match a, b with
  | OSigned x, OSigned y => x =? y
  | OErr _, OErr _ => true
  | ONone, ONone => true
  | _, _ => false
  end.

Fixpoint first_diff (eqb : sout -> sout -> bool) (n : nat) (a b : list sout) : option nat :=
  match a, b with
  | [], [] => None
  | x :: a', y :: b' => if eqb x y then first_diff eqb (S n) a' b' else Some n
  | _, _ => Some n
  end.

(* per case: first differing position on the projection, on everything, and P_C20 evaluated on
   the implementation's outputs *)
Definition check_case (c : list sop * list sout) : option nat * option nat * bool :=
  (first_diff sout_eqb_proj 0 (souts (fst c)) (snd c),
   first_diff sout_eqb 0 (souts (fst c)) (snd c),
   P_C20 (fst c) (snd c) && P_C20_resign (fst c) (snd c)).

Fixpoint check_cases_from (i : nat) (cs : list (list sop * list sout))
  : list (nat * option nat * option nat * bool) :=
  match cs with
  | [] => []
  | c :: rest =>
      let '(d, ds, p) := check_case c in
      match d, ds, p with
      | None, None, true => check_cases_from (S i) rest
      | _, _, _ => (i, d, ds, p) :: check_cases_from (S i) rest
      end
  end.
Definition check_cases := check_cases_from 0.

(* constructor shorthand used by the generated case files *)
Definition mkq (h r s c t : Z) : request :=
  {| q_h := h; q_r := r; q_step := s; q_content := c; q_ts := t |}.
