(* InvGov.v — property C15: governance parameters change only through a validator's proposal,
   voted on by the validators recorded at submission, decided by two thirds of the recorded
   power, applied no earlier than the applying height, merged field-wise, and the active
   parameters equal the stored (queried) ones.  All statements are about the model of Spec.v. *)
From Rigo Require Import Base.
From stdpp Require Import gmap sorting.
From Rigo Require Import Spec SpecProps.
Local Open Scope Z_scope.

Local Opaque two256 two255 two64 two63.

(* ================================================================== 0. generic helpers *)

Lemma elem_of_sorted_items {A} (m : gmap N A) k x :
  (k, x) ∈ sorted_items m ↔ m !! k = Some x.
Proof.
  unfold sorted_items. rewrite merge_sort_Permutation. apply elem_of_map_to_list.
Qed.

(* the governance part of a ledger state *)
Definition gov_same (l l' : ledgers) : Prop :=
  props l' = props l ∧ fprops l' = fprops l ∧ lparams l' = lparams l.

Lemma gov_same_refl l : gov_same l l.
Proof. repeat split. Qed.
Lemma gov_same_trans l1 l2 l3 : gov_same l1 l2 → gov_same l2 l3 → gov_same l1 l3.
Proof. intros (A & B & C) (D & E & F). repeat split; congruence. Qed.

Lemma gov_same_set_acct l a x : gov_same l (set_acct l a x).
Proof. repeat split. Qed.
Lemma gov_same_set_dels l m : gov_same l (set_dels l m).
Proof. repeat split. Qed.
Lemma gov_same_set_frozen l m : gov_same l (set_frozen l m).
Proof. repeat split. Qed.
Lemma gov_same_set_rewards l m : gov_same l (set_rewards l m).
Proof. repeat split. Qed.

Lemma find_or_new_gov l a l' x : find_or_new l a = (l', x) → gov_same l l'.
Proof.
  unfold find_or_new. destruct (accts l !! a) as [y|] eqn:E; intros H; inversion H; subst.
  - apply gov_same_refl.
  - apply gov_same_set_acct.
Qed.

Lemma find_or_new_accts l a l' x b y :
  find_or_new l a = (l', x) → accts l !! b = Some y → accts l' !! b = Some y.
Proof.
  unfold find_or_new. destruct (accts l !! a) as [z|] eqn:E; intros H Hb; inversion H; subst; auto.
  simpl. destruct (decide (a = b)) as [->|Hne].
  - congruence.
  - rewrite lookup_insert_ne; auto.
Qed.

Lemma acct_reward_gov l a amt l' : acct_reward l a amt = Some l' → gov_same l l'.
Proof.
  unfold acct_reward. destruct (accts l !! a) as [x|]; simpl; [|discriminate].
  destruct (add_balance x amt) as [x'|]; simpl; [|discriminate].
  intros H; inversion H; subst. apply gov_same_set_acct.
Qed.

(* ================================================================== 1. executions that are not governance *)

Lemma stake_execute_gov s l t l' : stake_execute s l t = Ok l' → gov_same l l'.
Proof.
  unfold stake_execute. intros H.
  destruct (t_type t =? TRX_STAKING) eqn:E1.
  { destruct (match dels l !! t_to t with
              | Some d => Some d
              | None => if (t_from t =? t_to t)%N then Some (new_delegatee (t_from t)) else None end) as [d|];
      [|discriminate].
    destruct (accts l !! t_from t) as [sender|]; [|discriminate].
    destruct (sub_balance sender (t_amount t)) as [sender'|]; [|discriminate].
    inversion H; subst. repeat split. }
  destruct (t_type t =? TRX_UNSTAKING) eqn:E2.
  { destruct (dels l !! t_to t) as [d|]; [|discriminate].
    destruct (t_payload t) as [ | hs lok | | | | | ]; try discriminate.
    destruct (find_stake hs (d_stakes d)) as [s0|]; [|discriminate].
    destruct (negb (s_from s0 =? t_from t)%N); [discriminate|].
    destruct (if d_self (del_stake d hs) =? 0
              then let '(dx, ss) := del_all_stakes (del_stake d hs) in
                   (dx, freeze_all (<[s_hash s0:=with_refund (b_height (bctx s) + g_lazyRewardBlocks (gparams s)) s0]> (frozen l))
                          (b_height (bctx s) + g_lazyRewardBlocks (gparams s)) ss)
              else (del_stake d hs, <[s_hash s0:=with_refund (b_height (bctx s) + g_lazyRewardBlocks (gparams s)) s0]> (frozen l)))
      as [d2 fr2].
    destruct (d_total d2 =? 0); inversion H; subst; repeat split. }
  destruct (t_payload t) as [ | | req | | | | ]; try discriminate.
  destruct (rewards l !! t_from t) as [r|]; [|discriminate].
  destruct (r_height r >? b_height (bctx s)); [discriminate|].
  match type of H with context [acct_reward ?l1 ?a ?q] => destruct (acct_reward l1 a q) as [l2|] eqn:Er end;
    [|discriminate].
  inversion H; subst. apply acct_reward_gov in Er. destruct Er as (A & B & C). repeat split; assumption.
Qed.

Lemma acct_execute_gov l t l' : acct_execute l t = Ok l' → gov_same l l'.
Proof.
  unfold acct_execute. intros H.
  destruct (accts l !! t_from t) as [sender|]; [|discriminate].
  destruct (accts l !! t_to t) as [receiver|]; [|discriminate].
  destruct (t_type t =? TRX_TRANSFER).
  - destruct (sub_balance sender (t_amount t)) as [sender'|]; [|discriminate].
    destruct (add_balance (if (t_from t =? t_to t)%N then sender' else receiver) (t_amount t)) as [recv'|];
      [|discriminate].
    inversion H; subst. repeat split.
  - destruct (t_payload t); try discriminate. inversion H; subst. repeat split.
Qed.

Lemma evm_fold_gov (xs : list (addr * Z * Z)) l :
  gov_same l (foldl (λ l x, let '(a, bal, nonce) := x in
                  let old := default acct0 (accts l !! a) in
                  set_acct l a {| a_nonce := nonce; a_bal := bal; a_code := a_code old; a_name := a_name old; a_doc := a_doc old |})
                l xs).
Proof.
  revert l. induction xs as [|[[a bal] nonce] xs IH]; intros l; simpl.
  - apply gov_same_refl.
  - eapply gov_same_trans; [|apply IH]. apply gov_same_set_acct.
Qed.

Lemma evm_execute_gov l t l' g : evm_execute l t = Ok (l', g) → gov_same l l'.
Proof.
  unfold evm_execute. intros H.
  destruct (t_evm t) as [e|]; [|discriminate].
  destruct (negb (e_ok e)); [discriminate|].
  inversion H; subst. clear H.
  destruct (e_created e) as [c|].
  - eapply gov_same_trans; [apply evm_fold_gov|apply gov_same_set_acct].
  - apply evm_fold_gov.
Qed.

(* ================================================================== 2. governance execution *)

(* the proposal object execProposing stores *)
Definition new_proposal (vals : list (addr * Z)) (h : hash) (start period apply opttype : Z)
    (opts : list (N * option params)) : proposal :=
  {| p_hash := h; p_start := start; p_end := wrap64 (start + period); p_apply := apply;
     p_total := sumZ_with snd vals; p_majority := (sumZ_with snd vals * 2) `quot` 3;
     p_voters := list_to_map (map (λ v : addr * Z, (v.1, {| v_power := v.2; v_choice := -1 |})) vals);
     p_opttype := opttype;
     p_options := map (λ o : N * option params, {| o_id := o.1; o_params := o.2; o_votes := 0 |}) opts;
     p_major := None |}.

Definition is_gov (t : tx) : bool := (t_type t =? TRX_PROPOSAL) || (t_type t =? TRX_VOTING).

Lemma gov_execute_ext s s' l t : lastvals s' = lastvals s → gov_execute s' l t = gov_execute s l t.
Proof. intros H. unfold gov_execute. rewrite H. reflexivity. Qed.

Lemma gov_execute_proposal s l t l' :
  t_type t = TRX_PROPOSAL → gov_execute s l t = Ok l' →
  ∃ start period apply opttype opts pok,
    t_payload t = PProposal start period apply opttype opts pok ∧
    l' = set_props l (<[t_hash t := new_proposal (lastvals s) (t_hash t) start period apply opttype opts]> (props l)).
Proof.
  intros Ht. unfold gov_execute. rewrite Ht. simpl.
  destruct (t_payload t) as [ | | | start period apply opttype opts pok | | | ]; try discriminate.
  intros H; inversion H; subst. exists start, period, apply, opttype, opts, pok. split; reflexivity.
Qed.

Lemma gov_execute_voting s l t l' :
  t_type t ≠ TRX_PROPOSAL → gov_execute s l t = Ok l' →
  ∃ ph choice p p',
    t_payload t = PVoting ph choice ∧ props l !! ph = Some p ∧
    prop_vote p (t_from t) choice = Some p' ∧ l' = set_props l (<[ph := p']> (props l)).
Proof.
  intros Ht. unfold gov_execute. apply Z.eqb_neq in Ht. rewrite Ht.
  destruct (t_payload t) as [ | | | | ph choice | | ]; try discriminate.
  destruct (props l !! ph) as [p|] eqn:Ep; [|discriminate].
  destruct (prop_vote p (t_from t) choice) as [p'|] eqn:Ev; [|discriminate].
  intros H; inversion H; subst. exists ph, choice, p, p'. repeat split; auto.
Qed.

Lemma gov_execute_frame s l t l' :
  gov_execute s l t = Ok l' →
  accts l' = accts l ∧ fprops l' = fprops l ∧ lparams l' = lparams l.
Proof.
  intros H. destruct (decide (t_type t = TRX_PROPOSAL)) as [Ht|Ht].
  - destruct (gov_execute_proposal _ _ _ _ Ht H) as (?&?&?&?&?&?&_&->). repeat split.
  - destruct (gov_execute_voting _ _ _ _ Ht H) as (?&?&?&?&_&_&_&->). repeat split.
Qed.

(* what ValidateTrx of the governance controller reads from the state *)
Definition gov_view (s s1 : state) : Prop :=
  props (work s1) = props (work s) ∧ lastvals s1 = lastvals s ∧ gparams s1 = gparams s ∧
  b_height (bctx s1) = b_height (bctx s).

Lemma gov_validate_ext s s1 t : gov_view s s1 → gov_validate s1 t = gov_validate s t.
Proof.
  intros (A & B & C & D). unfold gov_validate, is_validator. rewrite A, B, C, D. reflexivity.
Qed.

(* ================================================================== 3. the structure of DeliverTx *)

Definition ctl_same (s s' : state) : Prop :=
  committed s' = committed s ∧ gparams s' = gparams s ∧ newparams s' = newparams s ∧
  alldels s' = alldels s ∧ lastvals s' = lastvals s ∧ b_height (bctx s') = b_height (bctx s) ∧
  b_proposer (bctx s') = b_proposer (bctx s) ∧ last_height s' = last_height s.

Lemma ctl_same_refl s : ctl_same s s.
Proof. repeat split. Qed.

Definition deliver_post (s : state) (t : tx) (s' : state) (r : res Z) : Prop :=
  ctl_same s s' ∧ fprops (work s') = fprops (work s) ∧ lparams (work s') = lparams (work s) ∧
  ( (props (work s') = props (work s) ∧ (∀ g, r = Ok g → is_gov t = false))
  ∨ (is_gov t = true ∧ ∃ sender l0 l',
       accts (work s) !! t_from t = Some sender ∧
       common_validation0 (gparams s) t = None ∧ common_validation1 sender t = None ∧
       gov_validate s t = None ∧ gov_same (work s) l0 ∧ accts l0 !! t_from t = Some sender ∧
       gov_execute s l0 t = Ok l' ∧ props (work s') = props l' ∧
       (r = Ok (t_gas t) ∨ (r = Err E_FUND ∧ sub_balance sender (fee_of t) = None)))).

Lemma deliver_inv s t s' r : deliver s t = (s', r) → deliver_post s t s' r.
Proof.
  intros Hd. unfold deliver in Hd.
  destruct (accts (work s) !! t_from t) as [sender|] eqn:Es.
  2:{ inversion Hd; subst. split; [apply ctl_same_refl|]. split; [reflexivity|]. split; [reflexivity|].
      left. split; [reflexivity|]. intros g Hg; discriminate. }
  cbv zeta in Hd.
  destruct (find_or_new _ (t_to t)) as [l0 receiver] eqn:Ef. simpl in Ef.
  pose proof (find_or_new_gov _ _ _ _ Ef) as Hg0.
  pose proof (find_or_new_accts _ _ _ _ _ _ Ef Es) as Hs0.
  set (s1 := with_work _ l0) in *.
  assert (Hc1 : ctl_same s s1) by (repeat split).
  assert (Hv1 : gov_view s s1) by (destruct Hg0 as (A & _); repeat split; exact A).
  assert (Hfail : ∀ e, deliver_post s t s1 (Err e)).
  { intros e. destruct Hg0 as (A & B & C). split; [exact Hc1|]. split; [exact B|]. split; [exact C|].
    left. split; [exact A|]. intros g Hg; discriminate. }
  assert (Hpanic : ∀ p, deliver_post s t s1 (Panic p)).
  { intros e. destruct Hg0 as (A & B & C). split; [exact Hc1|]. split; [exact B|]. split; [exact C|].
    left. split; [exact A|]. intros g Hg; discriminate. }
  destruct (common_validation0 (gparams s) t) as [e|] eqn:Ec0.
  { inversion Hd; subst. apply Hfail. }
  destruct (common_validation1 sender t) as [e|] eqn:Ec1.
  { inversion Hd; subst. apply Hfail. }
  fold (is_gov t) in Hd.
  destruct (is_gov t) eqn:Eg.
  - (* governance transaction *)
    assert (Hevm : (t_type t =? TRX_CONTRACT) || (t_type t =? TRX_TRANSFER) && a_code receiver = false).
    { unfold is_gov in Eg. apply orb_true_iff in Eg. destruct Eg as [E|E]; apply Z.eqb_eq in E; rewrite E; reflexivity. }
    rewrite Hevm in Hd.
    rewrite (gov_validate_ext _ _ _ Hv1) in Hd.
    destruct (gov_validate s t) as [e|] eqn:Egv.
    { inversion Hd; subst. apply Hfail. }
    set (s2 := with_lim s1 (lim s1)) in *.
    change (work s2) with l0 in Hd.
    rewrite (gov_execute_ext s s2 l0 t eq_refl) in Hd.
    destruct (gov_execute s l0 t) as [l'| e | p] eqn:Ege.
    2:{ inversion Hd; subst. apply Hfail. }
    2:{ inversion Hd; subst. apply Hpanic. }
    destruct (gov_execute_frame _ _ _ _ Ege) as (Ha & Hf & Hl).
    rewrite Ha, Hs0 in Hd.
    destruct Hg0 as (A & B & C).
    destruct (sub_balance sender (fee_of t)) as [snd''|] eqn:Esb; inversion Hd; subst; clear Hd.
    + split; [repeat split|]. split; [simpl; congruence|]. split; [simpl; congruence|].
      right. split; [exact Eg|]. exists sender, l0, l'. repeat split; auto.
    + split; [repeat split|]. split; [simpl; congruence|]. split; [simpl; congruence|].
      right. split; [exact Eg|]. exists sender, l0, l'. repeat split; auto.
  - (* any other transaction: the governance ledgers are not touched *)
    match type of Hd with context [match ?v with Ok _ => _ | Err _ => _ | Panic _ => _ end] =>
      destruct v as [lim'| e | p] end.
    2:{ inversion Hd; subst. apply Hfail. }
    2:{ inversion Hd; subst. apply Hpanic. }
    set (s2 := with_lim s1 lim') in *.
    change (work s2) with l0 in Hd.
    destruct Hg0 as (A & B & C).
    destruct ((t_type t =? TRX_CONTRACT) || (t_type t =? TRX_TRANSFER) && a_code receiver).
    + destruct (evm_execute l0 t) as [[l' gas] | e | p] eqn:Ee; inversion Hd; subst; clear Hd.
      * apply evm_execute_gov in Ee. destruct Ee as (A' & B' & C').
        split; [repeat split|]. simpl. split; [congruence|]. split; [congruence|]. left. split; [congruence|auto].
      * apply Hfail.
      * apply Hpanic.
    + match type of Hd with context [match ?v with Ok _ => _ | Err _ => _ | Panic _ => _ end] =>
        destruct v as [l'| e | p] eqn:Ex end.
      2:{ inversion Hd; subst. apply Hfail. }
      2:{ inversion Hd; subst. apply Hpanic. }
      assert (Hx : gov_same l0 l').
      { destruct ((t_type t =? TRX_TRANSFER) || (t_type t =? TRX_SETDOC)).
        - eapply acct_execute_gov; exact Ex.
        - eapply stake_execute_gov; exact Ex. }
      destruct Hx as (A' & B' & C').
      destruct (accts l' !! t_from t) as [snd'|].
      2:{ inversion Hd; subst. apply Hfail. }
      destruct (sub_balance snd' (fee_of t)) as [snd''|]; inversion Hd; subst; clear Hd.
      * split; [repeat split|]. simpl. split; [congruence|]. split; [congruence|]. left. split; [congruence|auto].
      * split; [repeat split|]. simpl. split; [congruence|]. split; [congruence|]. left. split; [congruence|].
        intros g Hg; discriminate.
Qed.

(* ================================================================== 4. folds with an error-propagating accumulator *)

Lemma foldl_res_inv {A B} (P : A → Prop) (f : res A → B → res A) (xs : list B) :
  (∀ acc x a', (∀ a, acc = Ok a → P a) → f acc x = Ok a' → P a') →
  ∀ acc, (∀ a, acc = Ok a → P a) → ∀ a', foldl f acc xs = Ok a' → P a'.
Proof.
  intros Hstep. induction xs as [|x xs IH]; intros acc Hacc a' Hf; simpl in Hf.
  - apply Hacc; exact Hf.
  - eapply IH; [|exact Hf]. intros a Ha. eapply Hstep; [exact Hacc|exact Ha].
Qed.

(* ================================================================== 5. BeginBlock *)

Lemma gov_punish_inner_frame (a : addr) (ratio : Z) (ts : list (hash * proposal)) l :
  let l' := foldl (λ l kp, match props l !! kp.1 with
                   | Some p => set_props l (<[kp.1 := (prop_punish p a ratio).1]> (props l))
                   | None => l end) l ts in
  fprops l' = fprops l ∧ lparams l' = lparams l.
Proof.
  revert l. induction ts as [|kp ts IH]; intros l; simpl.
  - split; reflexivity.
  - destruct (props l !! kp.1) as [p|].
    + destruct (IH (set_props l (<[kp.1:=(prop_punish p a ratio).1]> (props l)))) as (A & B).
      simpl in A, B. split; assumption.
    + apply IH.
Qed.

Lemma gov_punish_frame l ratio evi :
  fprops (gov_punish l ratio evi) = fprops l ∧ lparams (gov_punish l ratio evi) = lparams l.
Proof.
  unfold gov_punish. revert l. induction evi as [|a evi IH]; intros l; simpl.
  - split; reflexivity.
  - match goal with |- context [foldl _ (foldl ?f l ?ts) evi] =>
      destruct (IH (foldl f l ts)) as (A & B);
      destruct (gov_punish_inner_frame a ratio ts l) as (C & D) end.
    split; congruence.
Qed.

Lemma stake_punish_gov l ratio evi : gov_same l (stake_punish l ratio evi).
Proof.
  unfold stake_punish. revert l. induction evi as [|a evi IH]; intros l; simpl.
  - apply gov_same_refl.
  - destruct (dels l !! a) as [d|].
    + eapply gov_same_trans; [|apply IH]. apply gov_same_set_dels.
    + apply IH.
Qed.

Lemma process_votes_gov s l h votes l' iss :
  process_votes s l h votes = Ok (l', iss) → gov_same l l'.
Proof.
  unfold process_votes. destruct (ledgers_at s (hgt_of_power h)) as [old|]; [|discriminate].
  intros H.
  apply (foldl_res_inv (λ x : ledgers * Z, gov_same l x.1) _ _) with (a' := (l', iss)) in H; [exact H| |].
  - clear H. intros acc v [l2 i2] Hacc Hstep.
    destruct acc as [[l1 i1]| |]; try discriminate.
    specialize (Hacc _ eq_refl). simpl in Hacc. simpl.
    destruct v as [[a pw] signed]. destruct signed.
    + destruct (dels old !! a) as [d|].
      * destruct (negb (d_total d =? pw)).
        -- inversion Hstep; subst; exact Hacc.
        -- destruct (reward_to (gparams s) h (rewards l1) d) as [[rw is]| |]; try discriminate.
           inversion Hstep; subst. eapply gov_same_trans; [exact Hacc|apply gov_same_set_rewards].
      * inversion Hstep; subst; exact Hacc.
    + destruct (dels l1 !! a) as [d|].
      * destruct (count_in_window _ _ _) as [cnt m2].
        destruct (g_signedBlocksWindow (gparams s) - cnt <? g_minSignedBlocks (gparams s)).
        -- inversion Hstep; subst. eapply gov_same_trans; [exact Hacc|]. repeat split.
        -- inversion Hstep; subst. eapply gov_same_trans; [exact Hacc|]. repeat split.
      * inversion Hstep; subst; exact Hacc.
  - intros a Ha. inversion Ha; subst. apply gov_same_refl.
Qed.

Lemma begin_block_inv s hd s' r : begin_block s hd = (s', r) →
  committed s' = committed s ∧ gparams s' = gparams s ∧ newparams s' = newparams s ∧
  lastvals s' = lastvals s ∧
  fprops (work s') = fprops (work s) ∧ lparams (work s') = lparams (work s) ∧
  (s' = s ∨
   (h_height hd = last_height s + 1 ∧ b_height (bctx s') = h_height hd ∧
    props (work s') = props (gov_punish (work s) (g_slashRatio (gparams s)) (h_evidence hd)))).
Proof.
  unfold begin_block. intros H.
  destruct (negb (h_height hd =? last_height s + 1)) eqn:Eh.
  { inversion H; subst. repeat split; auto. }
  apply negb_false_iff, Z.eqb_eq in Eh.
  cbv zeta in H.
  set (l1 := gov_punish (work s) (g_slashRatio (gparams s)) (h_evidence hd)) in *.
  set (l2 := stake_punish l1 (g_slashRatio (gparams s)) (h_evidence hd)) in *.
  destruct (gov_punish_frame (work s) (g_slashRatio (gparams s)) (h_evidence hd)) as (F1 & F2).
  fold l1 in F1, F2.
  destruct (stake_punish_gov l1 (g_slashRatio (gparams s)) (h_evidence hd)) as (G1 & G2 & G3).
  fold l2 in G1, G2, G3.
  destruct (h_votes hd) as [|v votes].
  { inversion H; subst; simpl. repeat split; try congruence. right. repeat split; congruence. }
  destruct (process_votes _ l2 (h_height hd) (v :: votes)) as [[l3 issued]| e | p] eqn:Ep;
    inversion H; subst; simpl; clear H.
  - apply process_votes_gov in Ep. destruct Ep as (P1 & P2 & P3).
    repeat split; try congruence. right. repeat split; congruence.
  - repeat split; try congruence. right. repeat split; congruence.
  - repeat split; try congruence. right. repeat split; congruence.
Qed.

(* ================================================================== 6. EndBlock: freezeProposals *)

Lemma foldl_err {A B} (f : res A → B → res A) (xs : list B) :
  (∀ e x, f (Err e) x = Err e) → ∀ e, foldl f (Err e) xs = Err e.
Proof. intros Hf e. induction xs as [|x xs IH]; simpl; [reflexivity|]. rewrite Hf. exact IH. Qed.
Lemma foldl_panic {A B} (f : res A → B → res A) (xs : list B) :
  (∀ e x, f (Panic e) x = Panic e) → ∀ e, foldl f (Panic e) xs = Panic e.
Proof. intros Hf e. induction xs as [|x xs IH]; simpl; [reflexivity|]. rewrite Hf. exact IH. Qed.

Lemma NoDup_keys_sorted_items {A} (m : gmap N A) : NoDup (sorted_items m).*1.
Proof.
  unfold sorted_items. rewrite merge_sort_Permutation. apply NoDup_fst_map_to_list.
Qed.

Definition freeze_step (h : Z) (acc : res ledgers) (kp : hash * proposal) : res ledgers :=
  match acc with
  | Ok l =>
      let p := kp.2 in
      if p_end p <? h then
        match props l !! kp.1 with
        | None => Panic P_ENDBLOCK
        | Some _ =>
            let l1 := set_props l (delete kp.1 (props l)) in
            match update_major p with
            | Ok p' => match p_major p' with
                       | Some _ => Ok (set_fprops l1 (<[kp.1 := p']> (fprops l1)))
                       | None => Ok l1 end
            | Err e => Err e | Panic x => Panic x
            end
        end
      else Ok l
  | x => x end.

Lemma freeze_proposals_fold base l h :
  freeze_proposals base l h = foldl (freeze_step h) (Ok l) (sorted_items (props base)).
Proof. reflexivity. Qed.

(* everything but the two proposal ledgers *)
Definition nongov_same (l l' : ledgers) : Prop :=
  accts l' = accts l ∧ dels l' = dels l ∧ frozen l' = frozen l ∧ rewards l' = rewards l ∧ lparams l' = lparams l.

(* the effect of freezing on one proposal key [k] whose committed version is [p] *)
Definition frozen_at (h : Z) (l l' : ledgers) (k : hash) (p : proposal) : Prop :=
  if p_end p <? h then
    props l' !! k = None ∧ is_Some (props l !! k) ∧
    ∃ p', update_major p = Ok p' ∧
          fprops l' !! k = match p_major p' with Some _ => Some p' | None => fprops l !! k end
  else props l' !! k = props l !! k ∧ fprops l' !! k = fprops l !! k.

Lemma freeze_step_spec h l k0 p0 l1 :
  freeze_step h (Ok l) (k0, p0) = Ok l1 →
  nongov_same l l1 ∧
  (∀ k, k ≠ k0 → props l1 !! k = props l !! k ∧ fprops l1 !! k = fprops l !! k) ∧
  frozen_at h l l1 k0 p0.
Proof.
  unfold freeze_step, frozen_at. simpl. intros H.
  destruct (p_end p0 <? h) eqn:Eend.
  2:{ inversion H; subst. split; [repeat split|]. split; auto. }
  destruct (props l !! k0) as [q|] eqn:Ep; [|discriminate].
  destruct (update_major p0) as [p'| |] eqn:Eu; try discriminate.
  destruct (p_major p') as [o|] eqn:Em; inversion H; subst; clear H; simpl.
  - split; [repeat split|]. split.
    + intros k Hk. rewrite lookup_delete_ne, lookup_insert_ne by auto. auto.
    + rewrite lookup_delete, lookup_insert. split; [reflexivity|]. split; [eauto|].
      exists p'. rewrite Em. auto.
  - split; [repeat split|]. split.
    + intros k Hk. rewrite lookup_delete_ne by auto. auto.
    + rewrite lookup_delete. split; [reflexivity|]. split; [eauto|].
      exists p'. rewrite Em. auto.
Qed.

Lemma freeze_fold_spec h items : NoDup items.*1 →
  ∀ l l', foldl (freeze_step h) (Ok l) items = Ok l' →
  nongov_same l l' ∧
  (∀ k, k ∉ items.*1 → props l' !! k = props l !! k ∧ fprops l' !! k = fprops l !! k) ∧
  (∀ k p, (k, p) ∈ items → frozen_at h l l' k p).
Proof.
  induction items as [|[k0 p0] items IH]; intros Hnd l l' H.
  - simpl in H. inversion H; subst. split; [repeat split|]. split; [auto|]. intros k p Hin. inversion Hin.
  - change (foldl (freeze_step h) (freeze_step h (Ok l) (k0, p0)) items = Ok l') in H.
    simpl in Hnd. apply NoDup_cons in Hnd. destruct Hnd as (Hk0 & Hnd).
    destruct (freeze_step h (Ok l) (k0, p0)) as [l1|e|e] eqn:E1.
    2:{ rewrite foldl_err in H by reflexivity. discriminate. }
    2:{ rewrite foldl_panic in H by reflexivity. discriminate. }
    destruct (freeze_step_spec _ _ _ _ _ E1) as (N1 & O1 & F1).
    destruct (IH Hnd _ _ H) as (N2 & O2 & F2).
    split.
    { destruct N1 as (?&?&?&?&?), N2 as (?&?&?&?&?). repeat split; congruence. }
    split.
    + intros k Hk. simpl in Hk. apply not_elem_of_cons in Hk. destruct Hk as (Hne & Hk).
      destruct (O1 k Hne) as (A & B). destruct (O2 k Hk) as (C & D). split; congruence.
    + intros k p Hin. apply elem_of_cons in Hin. destruct Hin as [Heq|Hin].
      * inversion Heq; subst k p. destruct (O2 k0 Hk0) as (C & D).
        unfold frozen_at in *. destruct (p_end p0 <? h).
        -- destruct F1 as (A & B & p' & Hu & Hf). rewrite C, D. split; [exact A|]. split; [exact B|].
           exists p'. auto.
        -- destruct F1 as (A & B). split; congruence.
      * assert (Hne : k ≠ k0).
        { intros ->. apply Hk0. apply elem_of_list_fmap. exists (k0, p). auto. }
        destruct (O1 k Hne) as (A & B). specialize (F2 k p Hin).
        unfold frozen_at in *. rewrite A, B in F2. exact F2.
Qed.

(* G4, pointwise form: what freezeProposals does to every proposal key *)
Theorem freeze_proposals_spec base l h l' :
  freeze_proposals base l h = Ok l' →
  nongov_same l l' ∧
  ∀ k, match props base !! k with
       | Some p => frozen_at h l l' k p
       | None => props l' !! k = props l !! k ∧ fprops l' !! k = fprops l !! k
       end.
Proof.
  rewrite freeze_proposals_fold. intros H.
  destruct (freeze_fold_spec h _ (NoDup_keys_sorted_items (props base)) _ _ H) as (N & O & F).
  split; [exact N|]. intros k.
  destruct (props base !! k) as [p|] eqn:Ek.
  - apply F. apply elem_of_sorted_items. exact Ek.
  - apply O. intros Hin. apply elem_of_list_fmap in Hin. destruct Hin as ([k' p] & -> & Hin).
    apply elem_of_sorted_items in Hin. simpl in Ek. unfold hash in *. congruence.
Qed.

(* ================================================================== 7. EndBlock: applyProposals *)

Definition apply_step (s : state) (h : Z) (acc : res (ledgers * option params)) (kp : hash * proposal)
    : res (ledgers * option params) :=
  match acc with
  | Ok (l, np) =>
      let p := kp.2 in
      if p_apply p <=? h then
        match fprops l !! kp.1 with
        | None => Panic P_ENDBLOCK
        | Some _ =>
            let l1 := set_fprops l (delete kp.1 (fprops l)) in
            match p_major p with
            | Some o =>
                if p_opttype p =? PROPOSAL_GOVPARAMS then
                  match o_params o with
                  | Some newp => let m := merge_params (gparams s) newp in Ok (set_lparams l1 m, Some m)
                  | None => Panic P_ENDBLOCK
                  end
                else Ok (l1, np)
            | None => Ok (l1, np)
            end
        end
      else Ok (l, np)
  | x => x end.

Lemma apply_proposals_fold s base l h :
  apply_proposals s base l h = foldl (apply_step s h) (Ok (l, newparams s)) (sorted_items (fprops base)).
Proof. reflexivity. Qed.

(* the parameter document a frozen proposal carries: that of its major option, when the proposal
   is of the parameter-changing kind *)
Definition gov_payload (p : proposal) : option params :=
  match p_major p with
  | Some o => if p_opttype p =? PROPOSAL_GOVPARAMS then o_params o else None
  | None => None end.

Lemma gov_payload_Some p newp :
  gov_payload p = Some newp ↔
  ∃ o, p_major p = Some o ∧ p_opttype p = PROPOSAL_GOVPARAMS ∧ o_params o = Some newp.
Proof.
  unfold gov_payload. split.
  - destruct (p_major p) as [o|]; [|discriminate].
    destruct (p_opttype p =? PROPOSAL_GOVPARAMS) eqn:E; [|discriminate].
    apply Z.eqb_eq in E. intros H. exists o. auto.
  - intros (o & -> & -> & H). exact H.
Qed.

(* the document of the LAST due proposal, in key order: the one whose merge survives *)
Definition due_payloads (h : Z) (items : list (hash * proposal)) : list params :=
  omap (λ kp : hash * proposal, if p_apply kp.2 <=? h then gov_payload kp.2 else None) items.

Definition applied_at (h : Z) (l l' : ledgers) (k : hash) (p : proposal) : Prop :=
  if p_apply p <=? h then fprops l' !! k = None ∧ is_Some (fprops l !! k)
  else fprops l' !! k = fprops l !! k.

Definition fprops_frame (l l' : ledgers) : Prop :=
  accts l' = accts l ∧ dels l' = dels l ∧ frozen l' = frozen l ∧ rewards l' = rewards l ∧ props l' = props l.

Lemma due_payloads_cons h kp items :
  last (due_payloads h (kp :: items)) =
  match last (due_payloads h items) with
  | Some n => Some n
  | None => if p_apply kp.2 <=? h then gov_payload kp.2 else None end.
Proof.
  unfold due_payloads. simpl.
  destruct (if p_apply kp.2 <=? h then gov_payload kp.2 else None) as [n0|]; simpl.
  - rewrite last_cons. reflexivity.
  - destruct (last _); reflexivity.
Qed.

Lemma apply_step_spec s h l np k0 p0 l1 np1 :
  apply_step s h (Ok (l, np)) (k0, p0) = Ok (l1, np1) →
  fprops_frame l l1 ∧
  (∀ k, k ≠ k0 → fprops l1 !! k = fprops l !! k) ∧
  applied_at h l l1 k0 p0 ∧
  match (if p_apply p0 <=? h then gov_payload p0 else None) with
  | Some newp => np1 = Some (merge_params (gparams s) newp) ∧ lparams l1 = merge_params (gparams s) newp
  | None => np1 = np ∧ lparams l1 = lparams l
  end.
Proof.
  unfold apply_step, applied_at, gov_payload. simpl. intros H.
  destruct (p_apply p0 <=? h) eqn:Eap.
  2:{ inversion H; subst. split; [repeat split|]. split; auto. }
  destruct (fprops l !! k0) as [q|] eqn:Ep; [|discriminate].
  assert (Hd : ∀ k, k ≠ k0 → delete k0 (fprops l) !! k = fprops l !! k).
  { intros k Hk. apply lookup_delete_ne. auto. }
  destruct (p_major p0) as [o|] eqn:Em.
  - destruct (p_opttype p0 =? PROPOSAL_GOVPARAMS) eqn:Et.
    + destruct (o_params o) as [newp|] eqn:Eo; [|discriminate].
      inversion H; subst; clear H; simpl. split; [repeat split|]. split; [exact Hd|].
      rewrite lookup_delete. split; [split; eauto|]. split; reflexivity.
    + inversion H; subst; clear H; simpl. split; [repeat split|]. split; [exact Hd|].
      rewrite lookup_delete. split; [split; eauto|]. split; reflexivity.
  - inversion H; subst; clear H; simpl. split; [repeat split|]. split; [exact Hd|].
    rewrite lookup_delete. split; [split; eauto|]. split; reflexivity.
Qed.

Lemma apply_fold_spec s h items : NoDup items.*1 →
  ∀ l np l' np', foldl (apply_step s h) (Ok (l, np)) items = Ok (l', np') →
  fprops_frame l l' ∧
  (∀ k, k ∉ items.*1 → fprops l' !! k = fprops l !! k) ∧
  (∀ k p, (k, p) ∈ items → applied_at h l l' k p) ∧
  match last (due_payloads h items) with
  | Some newp => np' = Some (merge_params (gparams s) newp) ∧ lparams l' = merge_params (gparams s) newp
  | None => np' = np ∧ lparams l' = lparams l
  end.
Proof.
  induction items as [|[k0 p0] items IH]; intros Hnd l np l' np' H.
  - simpl in H. inversion H; subst. split; [repeat split|]. split; [auto|]. split.
    + intros k p Hin. inversion Hin.
    + simpl. auto.
  - change (foldl (apply_step s h) (apply_step s h (Ok (l, np)) (k0, p0)) items = Ok (l', np')) in H.
    simpl in Hnd. apply NoDup_cons in Hnd. destruct Hnd as (Hk0 & Hnd).
    destruct (apply_step s h (Ok (l, np)) (k0, p0)) as [[l1 np1]|e|e] eqn:E1.
    2:{ rewrite foldl_err in H by reflexivity. discriminate. }
    2:{ rewrite foldl_panic in H by reflexivity. discriminate. }
    destruct (apply_step_spec _ _ _ _ _ _ _ _ E1) as (N1 & O1 & F1 & P1).
    destruct (IH Hnd _ _ _ _ H) as (N2 & O2 & F2 & P2).
    split.
    { destruct N1 as (?&?&?&?&?), N2 as (?&?&?&?&?). repeat split; congruence. }
    split.
    { intros k Hk. simpl in Hk. apply not_elem_of_cons in Hk. destruct Hk as (Hne & Hk).
      rewrite (O2 k Hk). apply O1. exact Hne. }
    split.
    { intros k p Hin. apply elem_of_cons in Hin. destruct Hin as [Heq|Hin].
      - inversion Heq; subst k p. unfold applied_at in *. rewrite (O2 k0 Hk0). exact F1.
      - assert (Hne : k ≠ k0).
        { intros ->. apply Hk0. apply elem_of_list_fmap. exists (k0, p). auto. }
        specialize (F2 k p Hin). unfold applied_at in *. rewrite (O1 k Hne) in F2. exact F2. }
    rewrite due_payloads_cons. simpl.
    destruct (last (due_payloads h items)) as [n|].
    + exact P2.
    + destruct (if p_apply p0 <=? h then gov_payload p0 else None) as [n0|].
      * destruct P1 as (A & B), P2 as (C & D). split; congruence.
      * destruct P1 as (A & B), P2 as (C & D). split; congruence.
Qed.

(* G5, pointwise form *)
Theorem apply_proposals_spec s base l h l' np' :
  apply_proposals s base l h = Ok (l', np') →
  fprops_frame l l' ∧
  (∀ k, match fprops base !! k with
        | Some p => applied_at h l l' k p
        | None => fprops l' !! k = fprops l !! k end) ∧
  match last (due_payloads h (sorted_items (fprops base))) with
  | Some newp => np' = Some (merge_params (gparams s) newp) ∧ lparams l' = merge_params (gparams s) newp
  | None => np' = newparams s ∧ lparams l' = lparams l
  end.
Proof.
  rewrite apply_proposals_fold. intros H.
  destruct (apply_fold_spec s h _ (NoDup_keys_sorted_items (fprops base)) _ _ _ _ H) as (N & O & F & P).
  split; [exact N|]. split; [|exact P]. intros k.
  destruct (fprops base !! k) as [p|] eqn:Ek.
  - apply F. apply elem_of_sorted_items. exact Ek.
  - apply O. intros Hin. apply elem_of_list_fmap in Hin. destruct Hin as ([k' p] & -> & Hin).
    apply elem_of_sorted_items in Hin. simpl in Ek. unfold hash in *. congruence.
Qed.

(* where an applied parameter document comes from *)
Lemma due_payloads_elem h items newp :
  newp ∈ due_payloads h items →
  ∃ k p, (k, p) ∈ items ∧ p_apply p ≤ h ∧ gov_payload p = Some newp.
Proof.
  unfold due_payloads. intros Hin. apply elem_of_list_omap in Hin.
  destruct Hin as ([k p] & Hin & Hp). simpl in Hp.
  destruct (p_apply p <=? h) eqn:E; [|discriminate]. apply Z.leb_le in E.
  exists k, p. auto.
Qed.

(* ================================================================== 8. EndBlock and Commit as a whole *)

Lemma unfreeze_gov base l h l' : unfreeze base l h = Ok l' → gov_same l l'.
Proof.
  unfold unfreeze. intros H.
  apply (foldl_res_inv (λ x : ledgers, gov_same l x) _ _) in H; [exact H| |].
  - clear H. intros acc kp l2 Hacc Hstep.
    destruct acc as [l1| |]; try discriminate. specialize (Hacc _ eq_refl).
    destruct (s_refund kp.2 <=? h).
    + destruct (acct_reward l1 (s_from kp.2) (power_to_amount (s_power kp.2))) as [l3|] eqn:Er; [|discriminate].
      inversion Hstep; subst. apply acct_reward_gov in Er.
      eapply gov_same_trans; [exact Hacc|]. eapply gov_same_trans; [exact Er|]. apply gov_same_set_frozen.
    + inversion Hstep; subst. exact Hacc.
  - intros a Ha. inversion Ha; subst. apply gov_same_refl.
Qed.

Lemma end_block_inv s s' r : end_block s = (s', r) →
  committed s' = committed s ∧ gparams s' = gparams s ∧ bctx s' = bctx s ∧ last_height s' = last_height s ∧
  ((s' = s ∧ ∀ u, r ≠ Ok u) ∨
   ∃ l1 l2 np, freeze_proposals (base_of s) (work s) (b_height (bctx s)) = Ok l1 ∧
               apply_proposals s (base_of s) l1 (b_height (bctx s)) = Ok (l2, np) ∧
               gov_same l2 (work s') ∧ newparams s' = np).
Proof.
  unfold end_block. intros H.
  destruct (freeze_proposals (base_of s) (work s) (b_height (bctx s))) as [l1|e|e] eqn:Ef.
  2,3: inversion H; subst; repeat split; auto.
  destruct (apply_proposals s (base_of s) l1 (b_height (bctx s))) as [[l2 np]|e|e] eqn:Ea.
  2,3: inversion H; subst; repeat split; auto.
  match type of H with context [match ?x with Some l3 => _ | None => _ end] =>
    destruct x as [l3|] eqn:E3 end.
  2: inversion H; subst; repeat split; auto.
  assert (H3 : gov_same l2 l3).
  { destruct (b_proposer (bctx s)) as [pa|].
    - destruct (0 <? sign256 (b_feesum (bctx s))).
      + destruct (add_balance _ _) as [x|]; [|discriminate]. inversion E3; subst. apply gov_same_set_acct.
      + inversion E3; subst. apply gov_same_refl.
    - inversion E3; subst. apply gov_same_refl. }
  destruct (unfreeze (base_of s) l3 (b_height (bctx s))) as [l4|e|e] eqn:Eu.
  2,3: inversion H; subst; repeat split; auto.
  destruct (g_maxValidatorCnt (gparams s) <? 0).
  { inversion H; subst; repeat split; auto. }
  inversion H; subst; clear H; simpl. repeat split; auto.
  right. exists l1, l2, np. repeat split; auto.
  - apply unfreeze_gov in Eu. destruct H3 as (?&?&?), Eu as (?&?&?). congruence.
  - apply unfreeze_gov in Eu. destruct H3 as (?&?&?), Eu as (?&?&?). congruence.
  - apply unfreeze_gov in Eu. destruct H3 as (?&?&?), Eu as (?&?&?). congruence.
Qed.

(* ================================================================== 9. G1: where parameters can change *)

(* G1a: DeliverTx never touches the active parameters, the pending ones, the stored ones, or the
   frozen proposals. *)
Theorem deliver_params_unchanged s t :
  let s' := (deliver s t).1 in
  gparams s' = gparams s ∧ newparams s' = newparams s ∧
  lparams (work s') = lparams (work s) ∧ fprops (work s') = fprops (work s) ∧
  committed s' = committed s ∧ lastvals s' = lastvals s.
Proof.
  destruct (deliver s t) as [s' r] eqn:Hd. simpl.
  destruct (deliver_inv _ _ _ _ Hd) as ((C1 & C2 & C3 & C4 & C5 & C6 & C7 & C8) & F & L & _).
  repeat split; assumption.
Qed.

(* G1b: BeginBlock likewise (it only slashes voters of open proposals) *)
Theorem begin_block_params_unchanged s hd :
  let s' := (begin_block s hd).1 in
  gparams s' = gparams s ∧ newparams s' = newparams s ∧
  lparams (work s') = lparams (work s) ∧ fprops (work s') = fprops (work s) ∧
  committed s' = committed s ∧ lastvals s' = lastvals s.
Proof.
  destruct (begin_block s hd) as [s' r] eqn:Hb. simpl.
  destruct (begin_block_inv _ _ _ _ Hb) as (A & B & C & D & E & F & _). repeat split; assumption.
Qed.

(* G1c: EndBlock leaves the active parameters alone; pending parameters appear only as the merge of
   the ACTIVE parameters with the document of the major option of a frozen proposal of the
   committed frozen tree that is due (applying height reached) and of the parameter kind; the
   stored parameters of the working ledger are set to the same value. *)
Theorem end_block_params s :
  let s' := (end_block s).1 in
  gparams s' = gparams s ∧ committed s' = committed s ∧
  ((newparams s' = newparams s ∧ lparams (work s') = lparams (work s)) ∨
   ∃ k p o newp,
     fprops (base_of s) !! k = Some p ∧ p_apply p ≤ b_height (bctx s) ∧
     p_opttype p = PROPOSAL_GOVPARAMS ∧ p_major p = Some o ∧ o_params o = Some newp ∧
     newparams s' = Some (merge_params (gparams s) newp) ∧
     lparams (work s') = merge_params (gparams s) newp).
Proof.
  destruct (end_block s) as [s' r] eqn:He. simpl.
  destruct (end_block_inv _ _ _ He) as (A & B & C & D & [(-> & _)|(l1 & l2 & np & Hf & Ha & (G1 & G2 & G3) & Hn)]).
  { repeat split; auto. }
  split; [exact B|]. split; [exact A|].
  destruct (freeze_proposals_spec _ _ _ _ Hf) as ((_&_&_&_&Fl) & _).
  destruct (apply_proposals_spec _ _ _ _ _ _ Ha) as (_ & _ & P).
  destruct (last (due_payloads (b_height (bctx s)) (sorted_items (fprops (base_of s))))) as [newp|] eqn:El.
  - right. apply last_Some_elem_of, due_payloads_elem in El. destruct El as (k & p & Hin & Hap & Hp).
    apply elem_of_sorted_items in Hin. apply gov_payload_Some in Hp. destruct Hp as (o & Hm & Ht & Ho).
    destruct P as (P1 & P2). exists k, p, o, newp. repeat split; auto; congruence.
  - left. destruct P as (P1 & P2). split; congruence.
Qed.

(* G1d: Commit switches the pending parameters in *)
Theorem commit_params s :
  gparams (commit s) = default (gparams s) (newparams s) ∧ newparams (commit s) = None ∧
  work (commit s) = work s ∧ committed (commit s) = committed s ++ [work s].
Proof. repeat split. Qed.

(* ================================================================== 10. G6: active = stored parameters *)

(* between EndBlock and Commit the stored parameters of the working ledger are the pending ones;
   otherwise they are the active ones *)
Definition params_inv (s : state) : Prop :=
  match newparams s with
  | Some m => lparams (work s) = m
  | None => lparams (work s) = gparams s
  end.

(* the ledger version the governance query reads (the last committed one) carries the active
   parameters *)
Definition query_inv (s : state) : Prop := lparams (base_of s) = gparams s.

Lemma base_of_same s s' :
  committed s' = committed s → gparams s' = gparams s → base_of s' = base_of s.
Proof. intros A B. unfold base_of. rewrite A, B. reflexivity. Qed.

Lemma params_inv_step s o : params_inv s ∧ query_inv s → params_inv (sstep s o) ∧ query_inv (sstep s o).
Proof.
  intros (Hp & Hq). unfold params_inv, query_inv in *. destruct o as [hd|t| |]; simpl.
  - destruct (begin_block_params_unchanged s hd) as (A & B & C & D & E & F).
    rewrite (base_of_same _ _ E A), A, B, C. auto.
  - destruct (deliver_params_unchanged s t) as (A & B & C & D & E & F).
    rewrite (base_of_same _ _ E A), A, B, C. auto.
  - destruct (end_block_params s) as (A & E & [(B & C)|(k & p & o & newp & _ & _ & _ & _ & _ & B & C)]).
    + rewrite (base_of_same _ _ E A), A, B, C. auto.
    + rewrite (base_of_same _ _ E A), A, B, C. auto.
  - unfold base_of. simpl. rewrite last_snoc. simpl.
    destruct (newparams s) as [m|]; simpl; auto.
Qed.

Lemma init_chain_lparams g : lparams (work (init_chain g)) = gen_params g.
Proof.
  unfold init_chain. simpl.
  assert (H1 : ∀ (hs : list (addr * Z)) l,
    lparams (foldl (λ l h, set_acct l h.1 {| a_nonce := 0; a_bal := h.2; a_code := false; a_name := 0%N; a_doc := 0%N |}) l hs) = lparams l).
  { induction hs as [|x hs IH]; intros l; simpl; [reflexivity|]. rewrite IH. reflexivity. }
  assert (H2 : ∀ (vs : list (addr * Z)) l,
    lparams (foldl (λ l v, (find_or_new l v.1).1) l vs) = lparams l).
  { induction vs as [|x vs IH]; intros l; simpl; [reflexivity|]. rewrite IH.
    destruct (find_or_new l x.1) as [l' y] eqn:E. apply find_or_new_gov in E. destruct E as (_&_&E). exact E. }
  assert (H3 : ∀ (vs : list (addr * Z)) l,
    lparams (foldl (λ l v, set_dels l (<[v.1 := add_stake (new_delegatee v.1)
               {| s_from := v.1; s_to := v.1; s_hash := 0%N; s_start := 1; s_refund := 0; s_power := v.2 |}]> (dels l))) l vs) = lparams l).
  { induction vs as [|x vs IH]; intros l; simpl; [reflexivity|]. rewrite IH. reflexivity. }
  rewrite H3, H2, H1. reflexivity.
Qed.

(* G6: in every state of every run the active parameters are those of the last committed
   version of the parameter ledger (what the query path reads); the working version differs from
   them exactly between an EndBlock that applied a proposal and the following Commit, where it
   already holds the pending parameters. *)
Theorem active_params_are_stored g ops :
  let s := srun (init_chain g) ops in
  lparams (base_of s) = gparams s ∧
  match newparams s with
  | Some m => lparams (work s) = m
  | None => lparams (work s) = gparams s
  end.
Proof.
  simpl. unfold srun.
  assert (H : ∀ ops s, params_inv s ∧ query_inv s → params_inv (foldl sstep s ops) ∧ query_inv (foldl sstep s ops)).
  { induction ops0 as [|o ops0 IH]; intros s Hs; simpl; [exact Hs|]. apply IH. apply params_inv_step. exact Hs. }
  destruct (H ops (init_chain g)) as (A & B).
  - split.
    + unfold params_inv. simpl. apply init_chain_lparams.
    + reflexivity.
  - split; [exact B|exact A].
Qed.
Print Assumptions active_params_are_stored.

(* right after any Commit: working ledger = last committed version, and its parameters are the
   active ones *)
Corollary active_params_after_commit g ops :
  let s := srun (init_chain g) (ops ++ [SCommit]) in
  last (committed s) = Some (work s) ∧ lparams (work s) = gparams s ∧ newparams s = None.
Proof.
  simpl. unfold srun. rewrite foldl_app. simpl.
  pose proof (active_params_are_stored g (ops ++ [SCommit])) as H. simpl in H.
  unfold srun in H. rewrite foldl_app in H. simpl in H. destruct H as (_ & H).
  split; [apply last_snoc|]. split; [exact H|reflexivity].
Qed.

(* the combined statement of G1 for one step of a run *)
Theorem params_change_only_at_commit s o :
  gparams (sstep s o) ≠ gparams s → o = SCommit ∧ newparams s = Some (gparams (sstep s o)).
Proof.
  destruct o as [hd|t| |]; simpl; intros H.
  - destruct (begin_block_params_unchanged s hd) as (A & _). contradiction.
  - destruct (deliver_params_unchanged s t) as (A & _). contradiction.
  - destruct (end_block_params s) as (A & _). contradiction.
  - split; [reflexivity|]. destruct (newparams s) as [m|]; simpl in *; [reflexivity|contradiction].
Qed.

(* ================================================================== 11. sums over voter tables *)

Definition sum_map {A} (f : A → Z) (m : gmap addr A) : Z := map_fold (λ _ v acc, f v + acc) 0 m.

Lemma sum_map_empty {A} (f : A → Z) : sum_map f ∅ = 0.
Proof. unfold sum_map. apply map_fold_empty. Qed.

Lemma sum_map_insert {A} (f : A → Z) m k v :
  m !! k = None → sum_map f (<[k := v]> m) = f v + sum_map f m.
Proof.
  intros H. unfold sum_map. rewrite map_fold_insert_L; [reflexivity| |exact H].
  intros. lia.
Qed.

Lemma sum_map_delete {A} (f : A → Z) m k v :
  m !! k = Some v → sum_map f (delete k m) = sum_map f m - f v.
Proof.
  intros H. rewrite <- (insert_delete m k v H) at 2.
  rewrite sum_map_insert by apply lookup_delete. lia.
Qed.

Lemma sum_map_insert_some {A} (f : A → Z) m k v0 v :
  m !! k = Some v0 → sum_map f (<[k := v]> m) = sum_map f m + f v - f v0.
Proof.
  intros H. rewrite <- insert_delete_insert. rewrite sum_map_insert by apply lookup_delete.
  rewrite (sum_map_delete f m k v0 H). lia.
Qed.

Lemma sum_map_zero {A} (f : A → Z) (m : gmap addr A) :
  (∀ k v, m !! k = Some v → f v = 0) → sum_map f m = 0.
Proof.
  induction m as [|k v m Hk IH] using map_ind; intros H.
  - apply sum_map_empty.
  - rewrite sum_map_insert by exact Hk. rewrite IH.
    + rewrite (H k v); [reflexivity|apply lookup_insert].
    + intros k' v' Hk'. apply (H k'). rewrite lookup_insert_ne; [exact Hk'|]. intros ->. congruence.
Qed.

(* ================================================================== 12. the tally invariant *)

(* power of the recorded voters whose current choice is option [i] *)
Definition votes_for (vs : gmap addr voter) (i : Z) : Z :=
  sum_map (λ v, if v_choice v =? i then v_power v else 0) vs.
Definition total_power (vs : gmap addr voter) : Z := sum_map v_power vs.

Definition tally_ok (p : proposal) : Prop :=
  (∀ (i : nat) o, p_options p !! i = Some o → o_votes o = votes_for (p_voters p) (Z.of_nat i)) ∧
  map_Forall (λ _ v, v_choice v = -1 ∨ 0 ≤ v_choice v < Z.of_nat (length (p_options p))) (p_voters p).

Definition total_ok (p : proposal) : Prop := p_total p = total_power (p_voters p).
Definition maj_ok (p : proposal) : Prop := p_majority p = (p_total p * 2) `quot` 3.
Definition powers_ok (p : proposal) : Prop := map_Forall (λ _ v, 0 ≤ v_power v < two63) (p_voters p).

Lemma set_votes_same o : set_votes (o_votes o) o = o.
Proof. destruct o; reflexivity. Qed.

Lemma lookup_alter_votes (g : Z → Z) (opts : list voption) (c : Z) (i : nat) : 0 ≤ c →
  alter (λ o, set_votes (g (o_votes o)) o) (Z.to_nat c) opts !! i =
  (λ o, set_votes (if c =? Z.of_nat i then g (o_votes o) else o_votes o) o) <$> opts !! i.
Proof.
  intros Hc. destruct (decide (Z.to_nat c = i)) as [<-|Hne].
  - rewrite list_lookup_alter. rewrite Z2Nat.id by exact Hc. rewrite Z.eqb_refl. reflexivity.
  - rewrite list_lookup_alter_ne by exact Hne.
    assert (E : c =? Z.of_nat i = false) by (apply Z.eqb_neq; lia).
    rewrite E. destruct (opts !! i) as [o|]; simpl; [|reflexivity]. rewrite set_votes_same. reflexivity.
Qed.

Lemma cancel_vote_spec opts v o1 v1 : cancel_vote opts v = (o1, v1) →
  v_power v1 = v_power v ∧ v_choice v1 = (if 0 <=? v_choice v then -1 else v_choice v) ∧
  length o1 = length opts ∧
  ∀ i : nat, o1 !! i =
    (λ o, set_votes (o_votes o - (if v_choice v =? Z.of_nat i then v_power v else 0)) o) <$> opts !! i.
Proof.
  unfold cancel_vote. destruct (0 <=? v_choice v) eqn:E; intros H; inversion H; subst; clear H; simpl.
  - apply Z.leb_le in E. split; [reflexivity|]. split; [reflexivity|]. split; [apply alter_length|].
    intros i. pose proof (lookup_alter_votes (λ x, x - v_power v) opts (v_choice v) i E) as L.
    cbv beta in L. rewrite L. clear L.
    destruct (opts !! i) as [o|]; simpl; [|reflexivity].
    destruct (v_choice v =? Z.of_nat i); [reflexivity|]. f_equal. f_equal. lia.
  - apply Z.leb_gt in E. split; [reflexivity|]. split; [reflexivity|]. split; [reflexivity|].
    intros i. assert (E' : v_choice v1 =? Z.of_nat i = false) by (apply Z.eqb_neq; lia). rewrite E'.
    destruct (o1 !! i) as [o|]; simpl; [|reflexivity].
    replace (o_votes o - 0) with (o_votes o) by lia. rewrite set_votes_same. reflexivity.
Qed.

Lemma do_vote_spec opts v c o2 v2 : 0 ≤ c → do_vote opts v c = (o2, v2) →
  v2 = {| v_power := v_power v; v_choice := c |} ∧ length o2 = length opts ∧
  ∀ i : nat, o2 !! i =
    (λ o, set_votes (o_votes o + (if c =? Z.of_nat i then v_power v else 0)) o) <$> opts !! i.
Proof.
  unfold do_vote. intros Hc. assert (E : 0 <=? c = true) by (apply Z.leb_le; exact Hc). rewrite E.
  intros H; inversion H; subst; clear H. split; [reflexivity|]. split; [apply alter_length|].
  intros i. pose proof (lookup_alter_votes (λ x, x + v_power v) opts c i Hc) as L.
  cbv beta in L. rewrite L. clear L.
  destruct (opts !! i) as [o|]; simpl; [|reflexivity].
  destruct (c =? Z.of_nat i); [reflexivity|]. f_equal. f_equal. lia.
Qed.

(* explicit form of GovProposal.DoVote *)
Lemma prop_vote_spec p a c p' : 0 ≤ c → prop_vote p a c = Some p' →
  ∃ v, p_voters p !! a = Some v ∧
    p_voters p' = <[a := {| v_power := v_power v; v_choice := c |}]> (p_voters p) ∧
    length (p_options p') = length (p_options p) ∧
    (∀ i : nat, p_options p' !! i =
       (λ o, set_votes (o_votes o - (if v_choice v =? Z.of_nat i then v_power v else 0)
                                  + (if c =? Z.of_nat i then v_power v else 0)) o) <$> p_options p !! i) ∧
    p_hash p' = p_hash p ∧ p_start p' = p_start p ∧ p_end p' = p_end p ∧ p_apply p' = p_apply p ∧
    p_total p' = p_total p ∧ p_majority p' = p_majority p ∧ p_opttype p' = p_opttype p ∧
    p_major p' = p_major p.
Proof.
  intros Hc. unfold prop_vote. destruct (p_voters p !! a) as [v|] eqn:Ev; simpl; [|discriminate].
  destruct (cancel_vote (p_options p) v) as [o1 v1] eqn:E1.
  destruct (do_vote o1 v1 c) as [o2 v2] eqn:E2.
  intros H; inversion H; subst; clear H. simpl.
  destruct (cancel_vote_spec _ _ _ _ E1) as (A1 & A2 & A3 & A4).
  destruct (do_vote_spec _ _ _ _ _ Hc E2) as (B1 & B2 & B3).
  exists v. split; [reflexivity|]. split; [rewrite B1, A1; reflexivity|]. split; [congruence|].
  split; [|repeat split].
  intros i. rewrite B3, A4, A1. destruct (p_options p !! i) as [o|]; simpl; reflexivity.
Qed.

Lemma votes_for_insert_some vs a v0 v i : vs !! a = Some v0 →
  votes_for (<[a := v]> vs) i =
  votes_for vs i + (if v_choice v =? i then v_power v else 0) - (if v_choice v0 =? i then v_power v0 else 0).
Proof. intros H. unfold votes_for. rewrite (sum_map_insert_some _ _ _ _ _ H). reflexivity. Qed.

Lemma votes_for_delete vs a v0 i : vs !! a = Some v0 →
  votes_for (delete a vs) i = votes_for vs i - (if v_choice v0 =? i then v_power v0 else 0).
Proof. intros H. unfold votes_for. rewrite (sum_map_delete _ _ _ _ H). reflexivity. Qed.

(* G3: a (re-)vote keeps every option's tally equal to the power of the voters choosing it *)
Lemma prop_vote_tally p a c p' :
  0 ≤ c < Z.of_nat (length (p_options p)) → prop_vote p a c = Some p' → tally_ok p → tally_ok p'.
Proof.
  intros (Hc0 & Hc1) Hv (T1 & T2).
  destruct (prop_vote_spec _ _ _ _ Hc0 Hv) as (v & Ev & Hvs & Hlen & Hopt & _).
  split.
  - intros i o' Ho'. rewrite Hopt in Ho'.
    destruct (p_options p !! i) as [o|] eqn:Eo; simpl in Ho'; [|discriminate].
    inversion Ho'; subst o'; clear Ho'. simpl.
    rewrite Hvs, (votes_for_insert_some _ _ _ _ _ Ev). simpl.
    rewrite (T1 i o Eo). lia.
  - rewrite Hvs, Hlen. apply map_Forall_insert_2; [|exact T2]. simpl. right. lia.
Qed.

(* explicit form of GovProposal.DoPunish, for an arbitrary slashed amount [sl] *)
Definition slash_of (pw ratio : Z) : Z :=
  wrap64 ((((pw mod two64) * (ratio mod two64)) mod two256 / 100) mod two64).

Lemma prop_punish_none p a ratio : p_voters p !! a = None → prop_punish p a ratio = (p, 0).
Proof. intros H. unfold prop_punish. rewrite H. reflexivity. Qed.

Lemma prop_punish_spec p a ratio v : p_voters p !! a = Some v →
  let sl := slash_of (v_power v) ratio in
  let pw2 := v_power v - sl in
  let p' := (prop_punish p a ratio).1 in
  (prop_punish p a ratio).2 = sl ∧
  p_voters p' = (if pw2 <=? 0 then delete a (p_voters p)
                 else <[a := {| v_power := pw2; v_choice := v_choice v |}]> (p_voters p)) ∧
  length (p_options p') = length (p_options p) ∧
  (∀ i : nat, p_options p' !! i =
     (λ o, set_votes (o_votes o - (if v_choice v =? Z.of_nat i then v_power v else 0)
                                + (if (v_choice v =? Z.of_nat i) && negb (pw2 <=? 0) then pw2 else 0)) o)
       <$> p_options p !! i) ∧
  p_total p' = p_total p - sl ∧ p_majority p' = ((p_total p - sl) * 2) `quot` 3 ∧
  p_hash p' = p_hash p ∧ p_start p' = p_start p ∧ p_end p' = p_end p ∧ p_apply p' = p_apply p ∧
  p_opttype p' = p_opttype p ∧ p_major p' = p_major p.
Proof.
  intros Ev. unfold prop_punish. rewrite Ev.
  destruct (cancel_vote (p_options p) v) as [o1 v1] eqn:E1.
  destruct (cancel_vote_spec _ _ _ _ E1) as (A1 & A2 & A3 & A4).
  rewrite A1. fold (slash_of (v_power v) ratio). cbv zeta.
  set (sl := slash_of (v_power v) ratio). cbn [v_power v_choice].
  destruct (v_power v - sl <=? 0) eqn:Ele.
  { simpl. split; [reflexivity|]. split; [reflexivity|]. split; [exact A3|]. split; [|repeat split].
    intros i. rewrite A4. destruct (p_options p !! i) as [o|]; simpl; [|reflexivity].
    rewrite andb_false_r. f_equal. f_equal. lia. }
  destruct (0 <=? v_choice v) eqn:Ec.
  - apply Z.leb_le in Ec.
    destruct (do_vote o1 {| v_power := v_power v - sl; v_choice := v_choice v1 |} (v_choice v)) as [o' v'] eqn:E2.
    destruct (do_vote_spec _ _ _ _ _ Ec E2) as (B1 & B2 & B3). simpl in B1, B3.
    simpl. split; [reflexivity|]. split; [rewrite B1; reflexivity|]. split; [congruence|].
    split; [|repeat split].
    intros i. rewrite B3, A4. destruct (p_options p !! i) as [o|]; simpl; [|reflexivity].
    rewrite andb_true_r. reflexivity.
  - rewrite A2. simpl. split; [reflexivity|]. split; [reflexivity|]. split; [exact A3|].
    split; [|repeat split].
    apply Z.leb_gt in Ec.
    intros i. rewrite A4. destruct (p_options p !! i) as [o|]; simpl; [|reflexivity].
    assert (E' : v_choice v =? Z.of_nat i = false) by (apply Z.eqb_neq; lia). rewrite E'. simpl.
    f_equal. f_equal. lia.
Qed.

(* slashing a voter keeps the tally invariant — for ANY slash amount, hence without range
   hypotheses *)
Lemma prop_punish_tally p a ratio : tally_ok p → tally_ok (prop_punish p a ratio).1.
Proof.
  intros (T1 & T2). destruct (p_voters p !! a) as [v|] eqn:Ev.
  2:{ rewrite prop_punish_none by exact Ev. split; assumption. }
  destruct (prop_punish_spec p a ratio v Ev) as (_ & Hvs & Hlen & Hopt & _).
  cbv zeta in Hvs, Hlen, Hopt.
  set (p' := (prop_punish p a ratio).1) in *. set (pw2 := v_power v - slash_of (v_power v) ratio) in *.
  split.
  - intros i o' Ho'. rewrite Hopt in Ho'.
    destruct (p_options p !! i) as [o|] eqn:Eo; simpl in Ho'; [|discriminate].
    inversion Ho'; subst o'; clear Ho'. simpl. rewrite (T1 i o Eo), Hvs.
    destruct (pw2 <=? 0).
    + rewrite (votes_for_delete _ _ _ _ Ev). rewrite andb_false_r. lia.
    + rewrite (votes_for_insert_some _ _ _ _ _ Ev). simpl. rewrite andb_true_r. lia.
  - rewrite Hvs, Hlen. destruct (pw2 <=? 0).
    + apply map_Forall_delete. exact T2.
    + apply map_Forall_insert_2; [|exact T2]. simpl. exact (T2 a v Ev).
Qed.

(* ---- the slashed amount and the bookkeeping of total / majority power *)

Local Transparent two256 two64 two63.
Lemma slash_of_small pw ratio : 0 ≤ pw < two63 → 0 ≤ ratio ≤ 100 →
  slash_of pw ratio = (pw * ratio) / 100 ∧ 0 ≤ slash_of pw ratio ≤ pw.
Proof.
  intros Hp Hr. unfold slash_of, two63, two64, two256 in *.
  assert (Hx : 0 ≤ pw * ratio ≤ pw * 100).
  { split; [apply Z.mul_nonneg_nonneg; lia|apply Z.mul_le_mono_nonneg_l; lia]. }
  rewrite (Z.mod_small pw) by lia. rewrite (Z.mod_small ratio) by lia.
  rewrite (Z.mod_small (pw * ratio)) by lia.
  assert (Hq : 0 ≤ pw * ratio / 100 ≤ pw).
  { split; [apply Z.div_pos; lia|]. apply Z.div_le_upper_bound; lia. }
  rewrite (Z.mod_small (pw * ratio / 100)) by lia.
  rewrite wrap64_small by (unfold in64, two63; lia). split; [reflexivity|exact Hq].
Qed.

(* no int64 wrap in the voting window: the check "endVotingHeight < startVotingHeight" of
   ValidateTrx rejects every wrapped sum when the operands are int64 values and start >= 0 *)
Lemma wrap64_window start period : in64 start → in64 period → 0 ≤ start →
  start ≤ wrap64 (start + period) → wrap64 (start + period) = start + period ∧ 0 ≤ period.
Proof.
  unfold in64, wrap64, two63, two64. intros Hs Hp H0 H.
  assert (Hm := Z.mod_pos_bound (start + period + 2 ^ 63) (2 ^ 64) eq_refl).
  assert (Hd := Z.div_mod (start + period + 2 ^ 63) (2 ^ 64) ltac:(lia)).
  set (q := (start + period + 2 ^ 63) / 2 ^ 64) in *.
  set (r := (start + period + 2 ^ 63) mod 2 ^ 64) in *.
  assert (q = 0 ∨ q = 1 ∨ q = -1 ∨ q < -1 ∨ q > 1) as [Hq|[Hq|[Hq|[Hq|Hq]]]] by lia; try lia; nia.
Qed.
Local Opaque two256 two64 two63.

Lemma prop_punish_total p a ratio :
  0 ≤ ratio ≤ 100 → powers_ok p → total_ok p → maj_ok p →
  let p' := (prop_punish p a ratio).1 in total_ok p' ∧ maj_ok p' ∧ powers_ok p'.
Proof.
  intros Hr Hpw Ht Hm. simpl. destruct (p_voters p !! a) as [v|] eqn:Ev.
  2:{ rewrite prop_punish_none by exact Ev. auto. }
  destruct (prop_punish_spec p a ratio v Ev) as (_ & Hvs & _ & _ & Htot & Hmaj & _).
  cbv zeta in Hvs, Htot, Hmaj.
  destruct (slash_of_small (v_power v) ratio (Hpw a v Ev) Hr) as (_ & Hsl).
  unfold total_ok, maj_ok, powers_ok in *. rewrite Hvs, Htot, Hmaj.
  split; [|split; [reflexivity|]].
  - destruct (v_power v - slash_of (v_power v) ratio <=? 0) eqn:E.
    + apply Z.leb_le in E. unfold total_power. rewrite (sum_map_delete _ _ _ _ Ev), Ht.
      unfold total_power. lia.
    + unfold total_power. rewrite (sum_map_insert_some _ _ _ _ _ Ev), Ht. unfold total_power. simpl. lia.
  - destruct (v_power v - slash_of (v_power v) ratio <=? 0) eqn:E.
    + apply map_Forall_delete. exact Hpw.
    + apply Z.leb_gt in E. apply map_Forall_insert_2; [|exact Hpw]. simpl.
      pose proof (Hpw a v Ev) as Hv. simpl in Hv. lia.
Qed.

(* without the bound on the slashing ratio the recorded total is NOT the sum of the voters' powers
   any more: a ratio of 150 removes the voter but subtracts more than his power *)
Lemma prop_punish_total_refuted :
  ∃ p a ratio, powers_ok p ∧ total_ok p ∧ maj_ok p ∧ ¬ total_ok (prop_punish p a ratio).1.
Proof.
  exists {| p_hash := 1%N; p_start := 5; p_end := 10; p_apply := 20; p_total := 30; p_majority := 20;
            p_voters := {[ 1%N := {| v_power := 10; v_choice := -1 |}; 2%N := {| v_power := 20; v_choice := -1 |} ]};
            p_opttype := 0; p_options := [{| o_id := 1%N; o_params := None; o_votes := 0 |}]; p_major := None |},
         1%N, 150.
  split.
  { intros k v. simpl. intros H. apply lookup_insert_Some in H. destruct H as [(<- & <-)|(_ & H)].
    - Local Transparent two63. unfold two63. Local Opaque two63. simpl. lia.
    - apply lookup_singleton_Some in H. destruct H as (<- & <-).
      Local Transparent two63. unfold two63. Local Opaque two63. simpl. lia. }
  split; [vm_compute; reflexivity|]. split; [vm_compute; reflexivity|].
  vm_compute. discriminate.
Qed.

(* ================================================================== 13. G2: submission *)

Lemma new_proposal_voters_choice vals h st pe ap ot opts a v :
  p_voters (new_proposal vals h st pe ap ot opts) !! a = Some v →
  v_choice v = -1 ∧ (a, v_power v) ∈ vals.
Proof.
  simpl. intros H. apply elem_of_list_to_map_2 in H. apply elem_of_list_fmap in H.
  destruct H as ([b pw] & Heq & Hin). inversion Heq; subst. simpl. auto.
Qed.

Lemma new_proposal_voters_in vals h st pe ap ot opts a pw :
  NoDup vals.*1 → (a, pw) ∈ vals →
  p_voters (new_proposal vals h st pe ap ot opts) !! a = Some {| v_power := pw; v_choice := -1 |}.
Proof.
  simpl. intros Hnd Hin. apply elem_of_list_to_map_1.
  - rewrite <- list_fmap_compose. simpl.
    replace (fst ∘ (λ v : addr * Z, (v.1, {| v_power := v.2; v_choice := -1 |}))) with (@fst addr Z); [exact Hnd|].
    reflexivity.
  - apply elem_of_list_fmap. exists (a, pw). auto.
Qed.

Lemma new_proposal_tally vals h st pe ap ot opts :
  tally_ok (new_proposal vals h st pe ap ot opts).
Proof.
  split.
  - intros i o Ho. simpl in Ho. rewrite list_lookup_fmap in Ho.
    destruct (opts !! i) as [x|]; simpl in Ho; [|discriminate]. inversion Ho; subst; clear Ho. simpl.
    unfold votes_for. symmetry. apply sum_map_zero. intros k v Hk.
    change (p_voters (new_proposal vals h st pe ap ot opts) !! k = Some v) in Hk.
    apply new_proposal_voters_choice in Hk. destruct Hk as (-> & _).
    destruct (-1 =? Z.of_nat i) eqn:E; [apply Z.eqb_eq in E; lia|reflexivity].
  - intros k v Hk. apply new_proposal_voters_choice in Hk. left. apply Hk.
Qed.

Lemma new_proposal_total vals h st pe ap ot opts :
  NoDup vals.*1 → total_ok (new_proposal vals h st pe ap ot opts).
Proof.
  unfold total_ok, total_power. simpl. induction vals as [|[a pw] vals IH]; intros Hnd; simpl.
  - rewrite sum_map_empty. reflexivity.
  - simpl in Hnd. apply NoDup_cons in Hnd. destruct Hnd as (Ha & Hnd).
    rewrite sum_map_insert.
    + simpl. rewrite <- IH by exact Hnd. reflexivity.
    + apply not_elem_of_list_to_map_1. rewrite <- list_fmap_compose. exact Ha.
Qed.

Lemma new_proposal_powers vals h st pe ap ot opts :
  Forall (λ v : addr * Z, 0 ≤ v.2 < two63) vals → powers_ok (new_proposal vals h st pe ap ot opts).
Proof.
  intros Hf k v Hk. apply new_proposal_voters_choice in Hk. destruct Hk as (_ & Hin).
  rewrite Forall_forall in Hf. apply (Hf _ Hin).
Qed.

Lemma new_proposal_options vals h st pe ap ot opts :
  Forall (λ o, o_votes o = 0) (p_options (new_proposal vals h st pe ap ot opts)) ∧
  length (p_options (new_proposal vals h st pe ap ot opts)) = length opts.
Proof.
  simpl. split; [|apply map_length]. apply Forall_forall. intros o Ho.
  apply elem_of_list_fmap in Ho. destruct Ho as (x & -> & _). reflexivity.
Qed.

(* what ValidateTrx demands of a proposal transaction *)
Lemma gov_validate_proposal s t : t_type t = TRX_PROPOSAL → gov_validate s t = None →
  is_validator s (t_from t) = true ∧ props (work s) !! t_hash t = None ∧
  ∃ start period apply opttype opts pok,
    t_payload t = PProposal start period apply opttype opts pok ∧
    b_height (bctx s) < start ∧
    g_minVotingPeriodBlocks (gparams s) ≤ period ≤ g_maxVotingPeriodBlocks (gparams s) ∧
    (opttype = PROPOSAL_GOVPARAMS → pok = true) ∧
    start ≤ wrap64 (start + period) ∧
    wrap64 (wrap64 (start + period) + g_lazyApplyingBlocks (gparams s)) ≤ apply ∧
    wrap64 (start + period) ≤ apply ∧ opts ≠ [].
Proof.
  intros Ht. unfold gov_validate. rewrite Ht. simpl.
  destruct (negb (t_to t =? 0)%N); [discriminate|].
  destruct (is_validator s (t_from t)); simpl; [|discriminate].
  destruct (t_payload t) as [ | | | start period apply opttype opts pok | | | ]; try discriminate.
  destruct (props (work s) !! t_hash t) as [q|]; [discriminate|].
  destruct (start <=? b_height (bctx s)) eqn:E1; [discriminate|].
  destruct (g_maxVotingPeriodBlocks (gparams s) <? period) eqn:E2; [discriminate|].
  destruct (period <? g_minVotingPeriodBlocks (gparams s)) eqn:E3; [discriminate|]. simpl.
  destruct ((opttype =? PROPOSAL_GOVPARAMS) && negb pok) eqn:E4; [discriminate|].
  destruct (wrap64 (start + period) <? start) eqn:E5; [discriminate|].
  destruct (apply <? wrap64 (wrap64 (start + period) + g_lazyApplyingBlocks (gparams s))) eqn:E6; [discriminate|].
  destruct (apply <? wrap64 (start + period)) eqn:E7; [discriminate|]. simpl.
  destruct opts as [|o opts]; [discriminate|]. intros _.
  split; [reflexivity|]. split; [reflexivity|].
  exists start, period, apply, opttype, (o :: opts), pok.
  apply Z.leb_gt in E1. apply Z.ltb_ge in E2, E3, E5, E6, E7.
  repeat split; try lia; try discriminate.
  intros ->. simpl in E4. destruct pok; [reflexivity|discriminate].
Qed.

(* G2.  A delivered proposal transaction comes from a current validator, has a fresh hash, and
   stores exactly [new_proposal (lastvals s) ...]: the voter table is the validator set of the
   moment with its powers and no choice, total = sum of those powers, majority =
   floor(2*total/3), no votes, no major option; the voting window starts after the current
   height and lasts between the configured bounds; nothing else in the proposal ledger changes. *)
Theorem proposal_submission s t s' gas :
  deliver s t = (s', Ok gas) → t_type t = TRX_PROPOSAL →
  is_validator s (t_from t) = true ∧ props (work s) !! t_hash t = None ∧
  ∃ start period apply opttype opts pok,
    t_payload t = PProposal start period apply opttype opts pok ∧
    let p := new_proposal (lastvals s) (t_hash t) start period apply opttype opts in
    props (work s') = <[t_hash t := p]> (props (work s)) ∧
    b_height (bctx s) < p_start p ∧
    g_minVotingPeriodBlocks (gparams s) ≤ period ≤ g_maxVotingPeriodBlocks (gparams s) ∧
    p_start p ≤ p_end p ∧ p_end p = wrap64 (start + period) ∧
    wrap64 (p_end p + g_lazyApplyingBlocks (gparams s)) ≤ p_apply p ∧ p_end p ≤ p_apply p ∧
    opts ≠ [] ∧ (opttype = PROPOSAL_GOVPARAMS → pok = true) ∧
    p_total p = sumZ_with snd (lastvals s) ∧ p_majority p = (p_total p * 2) `quot` 3 ∧
    p_major p = None ∧ Forall (λ o, o_votes o = 0) (p_options p) ∧ tally_ok p ∧
    (∀ a v, p_voters p !! a = Some v → v_choice v = -1 ∧ (a, v_power v) ∈ lastvals s).
Proof.
  intros Hd Ht.
  destruct (deliver_inv _ _ _ _ Hd) as (_ & _ & _ & [(_ & Hn)|(Hg & sender & l0 & l' & Hs & Hc0 & Hc1 & Hgv & Hg0 & Hs0 & Hge & Hp & _)]).
  { specialize (Hn gas eq_refl). unfold is_gov in Hn. rewrite Ht in Hn. discriminate. }
  destruct (gov_validate_proposal _ _ Ht Hgv) as (Hval & Hfresh & start & period & apply & opttype & opts & pok & Hpl & V1 & V2 & V3 & V4 & V5 & V6 & V7).
  destruct (gov_execute_proposal _ _ _ _ Ht Hge) as (start' & period' & apply' & opttype' & opts' & pok' & Hpl' & ->).
  rewrite Hpl in Hpl'. inversion Hpl'; subst start' period' apply' opttype' opts' pok'. clear Hpl'.
  split; [exact Hval|]. split; [exact Hfresh|].
  exists start, period, apply, opttype, opts, pok. split; [exact Hpl|].
  destruct Hg0 as (G1 & _). simpl in Hp. rewrite G1 in Hp. cbv zeta.
  split; [exact Hp|]. simpl p_start. simpl p_end. simpl p_apply. simpl p_total. simpl p_majority. simpl p_major.
  repeat split; auto; try lia.
  - apply new_proposal_options.
  - apply (new_proposal_tally (lastvals s) (t_hash t) start period apply opttype opts).
  - apply (new_proposal_tally (lastvals s) (t_hash t) start period apply opttype opts).
  - eapply new_proposal_voters_choice; eassumption.
  - eapply new_proposal_voters_choice; eassumption.
Qed.
Print Assumptions proposal_submission.

(* G2, no int64 wrap: for int64 payload fields and a non-negative height the window end is the
   plain sum, and the applying height respects the lazy-applying delay whenever that sum is an
   int64 too *)
Corollary proposal_submission_nowrap s t s' gas start period apply opttype opts pok :
  deliver s t = (s', Ok gas) → t_type t = TRX_PROPOSAL →
  t_payload t = PProposal start period apply opttype opts pok →
  in64 start → in64 period → 0 ≤ b_height (bctx s) →
  let p := new_proposal (lastvals s) (t_hash t) start period apply opttype opts in
  p_end p = start + period ∧ 0 ≤ period ∧ start + period < two63 ∧
  (in64 (start + period + g_lazyApplyingBlocks (gparams s)) →
   p_end p + g_lazyApplyingBlocks (gparams s) ≤ p_apply p).
Proof.
  intros Hd Ht Hpl Hs Hp Hh.
  destruct (proposal_submission _ _ _ _ Hd Ht) as (_ & _ & st & pe & ap & ot & os & pk & Hpl' & H).
  rewrite Hpl in Hpl'. inversion Hpl'; subst st pe ap ot os pk. clear Hpl'.
  cbv zeta in H. destruct H as (_ & H1 & _ & H3 & _ & H5 & _). simpl in H1, H3, H5. simpl.
  destruct (wrap64_window start period Hs Hp ltac:(lia) H3) as (W1 & W2).
  split; [exact W1|]. split; [exact W2|]. split.
  - pose proof (wrap64_range (start + period)) as R. rewrite W1 in R. destruct R. assumption.
  - intros Hl. rewrite W1 in *. rewrite wrap64_small in H5 by exact Hl. exact H5.
Qed.

(* G2: no other kind of transaction creates or alters a proposal *)
Theorem only_gov_tx_touch_proposals s t :
  t_type t ≠ TRX_PROPOSAL → t_type t ≠ TRX_VOTING → props (work (deliver s t).1) = props (work s).
Proof.
  intros H1 H2. destruct (deliver s t) as [s' r] eqn:Hd. simpl.
  destruct (deliver_inv _ _ _ _ Hd) as (_ & _ & _ & [(Hp & _)|(Hg & _)]); [exact Hp|].
  unfold is_gov in Hg. apply orb_true_iff in Hg. destruct Hg as [E|E]; apply Z.eqb_eq in E; contradiction.
Qed.

(* ================================================================== 14. G3: voting *)

Lemma gov_validate_voting s t : t_type t = TRX_VOTING → gov_validate s t = None →
  ∃ ph choice p v,
    t_payload t = PVoting ph choice ∧ props (work s) !! ph = Some p ∧
    p_voters p !! t_from t = Some v ∧ 0 ≤ choice < Z.of_nat (length (p_options p)) ∧
    p_start p ≤ b_height (bctx s) ≤ p_end p.
Proof.
  intros Ht. unfold gov_validate. rewrite Ht. simpl.
  destruct (negb (t_to t =? 0)%N); [discriminate|].
  destruct (t_payload t) as [ | | | | ph choice | | ]; try discriminate.
  destruct (props (work s) !! ph) as [p|] eqn:Ep; [|discriminate].
  destruct (p_voters p !! t_from t) as [v|] eqn:Ev; [|discriminate].
  destruct (choice <? 0) eqn:E1; [discriminate|].
  destruct (Z.of_nat (length (p_options p)) <=? choice) eqn:E2; [discriminate|]. simpl.
  destruct (p_end p <? b_height (bctx s)) eqn:E3; [discriminate|].
  destruct (b_height (bctx s) <? p_start p) eqn:E4; [discriminate|]. intros _.
  exists ph, choice, p, v. apply Z.ltb_ge in E1, E3, E4. apply Z.leb_gt in E2.
  repeat split; auto; lia.
Qed.

(* G3.  A delivered vote is cast by an address of the proposal's recorded voter table, for an
   existing option, inside the voting window; afterwards that voter's entry carries the new
   choice with the RECORDED power (the previous choice is cancelled first: the latest vote
   replaces the earlier one), every other voter entry and every other proposal is unchanged, the
   header of the proposal is unchanged, and the tally invariant is kept. *)
Theorem voting s t s' gas :
  deliver s t = (s', Ok gas) → t_type t = TRX_VOTING →
  ∃ ph choice p v p',
    t_payload t = PVoting ph choice ∧ props (work s) !! ph = Some p ∧
    p_voters p !! t_from t = Some v ∧ 0 ≤ choice < Z.of_nat (length (p_options p)) ∧
    p_start p ≤ b_height (bctx s) ≤ p_end p ∧
    props (work s') = <[ph := p']> (props (work s)) ∧
    p_voters p' = <[t_from t := {| v_power := v_power v; v_choice := choice |}]> (p_voters p) ∧
    length (p_options p') = length (p_options p) ∧
    (∀ i : nat, p_options p' !! i =
       (λ o, set_votes (o_votes o - (if v_choice v =? Z.of_nat i then v_power v else 0)
                                  + (if choice =? Z.of_nat i then v_power v else 0)) o) <$> p_options p !! i) ∧
    p_hash p' = p_hash p ∧ p_start p' = p_start p ∧ p_end p' = p_end p ∧ p_apply p' = p_apply p ∧
    p_total p' = p_total p ∧ p_majority p' = p_majority p ∧ p_opttype p' = p_opttype p ∧
    p_major p' = p_major p ∧
    (tally_ok p → tally_ok p').
Proof.
  intros Hd Ht.
  assert (Hnp : t_type t ≠ TRX_PROPOSAL) by (rewrite Ht; discriminate).
  destruct (deliver_inv _ _ _ _ Hd) as (_ & _ & _ & [(_ & Hn)|(Hg & sender & l0 & l' & Hs & Hc0 & Hc1 & Hgv & Hg0 & Hs0 & Hge & Hp & _)]).
  { specialize (Hn gas eq_refl). unfold is_gov in Hn. rewrite Ht in Hn. discriminate. }
  destruct (gov_validate_voting _ _ Ht Hgv) as (ph & choice & p & v & Hpl & Hpp & Hv & Hc & Hw).
  destruct (gov_execute_voting _ _ _ _ Hnp Hge) as (ph' & choice' & p0 & p' & Hpl' & Hpp' & Hvote & ->).
  rewrite Hpl in Hpl'. inversion Hpl'; subst ph' choice'. clear Hpl'.
  destruct Hg0 as (G1 & _). rewrite G1 in Hpp'. simpl in Hp. rewrite G1 in Hp.
  assert (p0 = p) by congruence. subst p0.
  destruct (prop_vote_spec _ _ _ _ (proj1 Hc) Hvote) as (v' & Hv' & R).
  assert (v' = v) by congruence. subst v'.
  exists ph, choice, p, v, p'.
  split; [exact Hpl|]. split; [exact Hpp|]. split; [exact Hv|]. split; [exact Hc|]. split; [exact Hw|].
  split; [exact Hp|].
  destruct R as (R1 & R2 & R3 & R4 & R5 & R6 & R7 & R8 & R9 & R10 & R11).
  split; [exact R1|]. split; [exact R2|]. split; [exact R3|]. split; [exact R4|]. split; [exact R5|].
  split; [exact R6|]. split; [exact R7|]. split; [exact R8|]. split; [exact R9|]. split; [exact R10|].
  split; [exact R11|].
  intros Htal. eapply prop_vote_tally; eassumption.
Qed.
Print Assumptions voting.

(* a vote never creates a proposal and touches no proposal but the one voted on *)
Corollary voting_other_proposals s t s' gas ph choice k :
  deliver s t = (s', Ok gas) → t_type t = TRX_VOTING → t_payload t = PVoting ph choice → k ≠ ph →
  props (work s') !! k = props (work s) !! k.
Proof.
  intros Hd Ht Hpl Hk.
  destruct (voting _ _ _ _ Hd Ht) as (ph' & c' & p & v & p' & Hpl' & _ & _ & _ & _ & Hp & _).
  rewrite Hpl in Hpl'. inversion Hpl'; subst. rewrite Hp. apply lookup_insert_ne. auto.
Qed.

(* G3, failed votes.  INTENDED: a failed governance transaction changes no proposal.  As written
   this is false of the model without range hypotheses: postRunTrx can fail to collect the fee
   AFTER the vote was counted (see [failed_vote_refuted] below).  It holds when the gas price is
   in the range of [params_ok] and the transaction fields are in their machine ranges. *)
Local Transparent two256 two255 two64 two63.
Lemma fee_collectable g sender t :
  params_ok g → tx_wf t →
  common_validation0 g t = None → common_validation1 sender t = None →
  sub_balance sender (fee_of t) ≠ None.
Proof.
  intros (Hgp & _) (Ham & Hpr & Hgas & _).
  unfold common_validation0, common_validation1, sub_balance.
  destruct (negb (t_from_ok t)); [discriminate|]. destruct (negb (t_to_ok t)); [discriminate|].
  destruct (sign256 (t_amount t) <? 0) eqn:E1; [discriminate|].
  destruct (maxInt64 <? t_gas t) eqn:E2; [discriminate|].
  destruct (sign256 (t_price t) <? 0) eqn:E3; [discriminate|].
  destruct (t_price t =? g_gasPrice g) eqn:E4; simpl; [|discriminate].
  destruct (fee_of t <? mul256 (g_minTrxGas g) (g_gasPrice g)); [discriminate|].
  destruct (negb (t_sigok t)); [discriminate|]. intros _.
  destruct (a_bal sender <? add256 (fee_of t) (t_amount t)) eqn:E5; [discriminate|].
  destruct (negb (a_nonce sender =? t_nonce t)); [discriminate|]. intros _.
  apply Z.eqb_eq in E4. apply Z.ltb_ge in E2, E5. unfold maxInt64 in E2.
  assert (Hfee : fee_of t = t_price t * t_gas t ∧ 0 ≤ t_price t * t_gas t < 2 ^ 255).
  { unfold fee_of, mul256, wrap256, two256.
    assert (0 ≤ t_price t * t_gas t ≤ (2 ^ 192 - 1) * 9223372036854775807).
    { split; [apply Z.mul_nonneg_nonneg; lia|]. apply Z.mul_le_mono_nonneg; lia. }
    split; [apply Z.mod_small; lia|lia]. }
  destruct Hfee as (Hf & Hfr).
  assert (Hamt : t_amount t < 2 ^ 255).
  { unfold sign256, two255 in E1. destruct (t_amount t =? 0) eqn:Ez; [apply Z.eqb_eq in Ez; lia|].
    destruct (2 ^ 255 <=? t_amount t) eqn:Eh; [discriminate|]. apply Z.leb_gt in Eh. exact Eh. }
  assert (Hs : sign256 (fee_of t) <? 0 = false).
  { unfold sign256, two255. destruct (fee_of t =? 0); [reflexivity|].
    destruct (2 ^ 255 <=? fee_of t) eqn:Eh; [apply Z.leb_le in Eh; lia|reflexivity]. }
  rewrite Hs.
  assert (Hadd : add256 (fee_of t) (t_amount t) = fee_of t + t_amount t).
  { unfold add256, wrap256, two256. apply Z.mod_small. unfold two256 in Ham. lia. }
  rewrite Hadd in E5.
  destruct (a_bal sender <? fee_of t) eqn:E6; [apply Z.ltb_lt in E6; lia|]. discriminate.
Qed.
Local Opaque two256 two255 two64 two63.

Theorem failed_tx_changes_no_proposal s t s' e :
  params_ok (gparams s) → tx_wf t →
  deliver s t = (s', Err e) → props (work s') = props (work s).
Proof.
  intros Hg Hw Hd.
  destruct (deliver_inv _ _ _ _ Hd) as (_ & _ & _ & [(Hp & _)|(_ & sender & l0 & l' & Hs & Hc0 & Hc1 & _ & _ & _ & _ & _ & [Hr|(_ & Hsb)])]).
  - exact Hp.
  - discriminate.
  - exfalso. eapply fee_collectable; eassumption.
Qed.
Print Assumptions failed_tx_changes_no_proposal.

(* ================================================================== 15. G4: the sort of updateMajorOption *)

Definition desc (l : list voption) : Prop := StronglySorted (λ a b, o_votes b ≤ o_votes a) l.

Lemma insert_opt_perm x l : insert_opt x l ≡ₚ x :: l.
Proof.
  induction l as [|y r IH]; simpl; [reflexivity|].
  destruct (o_votes y <? o_votes x); [reflexivity|]. rewrite IH. apply Permutation_swap.
Qed.

Lemma insert_opt_desc x l : desc l → desc (insert_opt x l).
Proof.
  unfold desc. induction l as [|y r IH]; intros H; simpl.
  - constructor; constructor.
  - inversion H as [|? ? Hr Hf]; subst. destruct (o_votes y <? o_votes x) eqn:E.
    + apply Z.ltb_lt in E. constructor; [exact H|]. constructor; [lia|].
      eapply Forall_impl; [exact Hf|]. intros z Hz; simpl in *; lia.
    + apply Z.ltb_ge in E. constructor; [apply IH; exact Hr|].
      apply Forall_forall. intros z Hz. rewrite insert_opt_perm in Hz.
      apply elem_of_cons in Hz. destruct Hz as [->|Hz]; [lia|].
      rewrite Forall_forall in Hf. apply Hf. exact Hz.
Qed.

Lemma filter_votes_none v (l : list voption) :
  Forall (λ o, o_votes o ≠ v) l → filter (λ o, o_votes o = v) l = [].
Proof.
  induction l as [|y r IH]; intros H; [reflexivity|].
  apply Forall_cons in H. destruct H as (Hy & Hr).
  rewrite filter_cons_False by exact Hy. apply IH. exact Hr.
Qed.

(* stability of one insertion: the new element goes behind all elements with the same votes *)
Lemma insert_opt_filter v x l : desc l →
  filter (λ o, o_votes o = v) (insert_opt x l) =
  filter (λ o, o_votes o = v) l ++ (if decide (o_votes x = v) then [x] else []).
Proof.
  unfold desc. induction l as [|y r IH]; intros H; simpl.
  - rewrite filter_cons, filter_nil. reflexivity.
  - inversion H as [|? ? Hr Hf]; subst. destruct (o_votes y <? o_votes x) eqn:E.
    + apply Z.ltb_lt in E. destruct (decide (o_votes x = v)) as [Hx|Hx].
      * rewrite (filter_cons_True _ x) by exact Hx.
        rewrite (filter_votes_none v (y :: r)); [reflexivity|].
        constructor; [lia|]. eapply Forall_impl; [exact Hf|]. intros z Hz; simpl in *; lia.
      * rewrite (filter_cons_False _ x) by exact Hx. rewrite app_nil_r. reflexivity.
    + rewrite !(filter_cons _ y). destruct (decide (o_votes y = v)).
      * rewrite (IH Hr). reflexivity.
      * apply IH. exact Hr.
Qed.

Lemma sort_acc_spec l : ∀ acc, desc acc →
  desc (foldl (λ acc x, insert_opt x acc) acc l) ∧
  foldl (λ acc x, insert_opt x acc) acc l ≡ₚ acc ++ l ∧
  ∀ v, filter (λ o, o_votes o = v) (foldl (λ acc x, insert_opt x acc) acc l) =
       filter (λ o, o_votes o = v) acc ++ filter (λ o, o_votes o = v) l.
Proof.
  induction l as [|x l IH]; intros acc H; simpl.
  - rewrite app_nil_r. split; [exact H|]. split; [reflexivity|]. intros v. rewrite filter_nil, app_nil_r. reflexivity.
  - destruct (IH (insert_opt x acc) (insert_opt_desc x acc H)) as (A & B & C).
    split; [exact A|]. split.
    + rewrite B, insert_opt_perm. apply Permutation_middle.
    + intros v. rewrite C, (insert_opt_filter v x acc H), (filter_cons _ x).
      destruct (decide (o_votes x = v)); rewrite <- app_assoc; reflexivity.
Qed.

(* G4: sort_opts is a stable sort by votes, descending *)
Theorem sort_opts_spec l :
  desc (sort_opts l) ∧ sort_opts l ≡ₚ l ∧
  ∀ v, filter (λ o, o_votes o = v) (sort_opts l) = filter (λ o, o_votes o = v) l.
Proof.
  unfold sort_opts. destruct (sort_acc_spec l [] ltac:(constructor)) as (A & B & C).
  split; [exact A|]. split; [exact B|]. intros v. rewrite C. reflexivity.
Qed.

(* the first option after sorting is a maximal-vote option, the earliest among equals *)
Theorem sort_opts_head l o r : sort_opts l = o :: r →
  o ∈ l ∧ (∀ o', o' ∈ l → o_votes o' ≤ o_votes o) ∧
  ∃ l1 l2, l = l1 ++ o :: l2 ∧ Forall (λ z, o_votes z < o_votes o) l1.
Proof.
  intros Hs. destruct (sort_opts_spec l) as (A & B & C). rewrite Hs in A, B. specialize (C (o_votes o)).
  rewrite Hs in C. unfold desc in A. inversion A as [|? ? Hr Hf]; subst.
  assert (Hmax : ∀ o', o' ∈ l → o_votes o' ≤ o_votes o).
  { intros o' Ho'. rewrite <- B in Ho'. apply elem_of_cons in Ho'. destruct Ho' as [->|Ho']; [lia|].
    rewrite Forall_forall in Hf. apply Hf. exact Ho'. }
  split; [rewrite <- B; apply elem_of_list_here|]. split; [exact Hmax|].
  rewrite filter_cons_True in C by reflexivity.
  assert (Hh : head (filter (λ o0 : voption, o_votes o0 = o_votes o) l) = Some o) by (rewrite <- C; reflexivity).
  apply head_filter_Some in Hh. destruct Hh as (l1 & l2 & -> & Hl1).
  exists l1, l2. split; [reflexivity|].
  apply Forall_forall. intros z Hz. rewrite Forall_forall in Hl1. specialize (Hl1 z Hz). simpl in Hl1.
  assert (o_votes z ≤ o_votes o) by (apply Hmax; apply elem_of_app; left; exact Hz). lia.
Qed.

(* explicit form of updateMajorOption *)
Lemma update_major_spec p p' : update_major p = Ok p' →
  ∃ o r, sort_opts (p_options p) = o :: r ∧ p_options p' = o :: r ∧
    p_major p' = (if p_majority p <=? o_votes o then Some o else p_major p) ∧
    p_hash p' = p_hash p ∧ p_start p' = p_start p ∧ p_end p' = p_end p ∧ p_apply p' = p_apply p ∧
    p_total p' = p_total p ∧ p_majority p' = p_majority p ∧ p_voters p' = p_voters p ∧
    p_opttype p' = p_opttype p.
Proof.
  unfold update_major. destruct (sort_opts (p_options p)) as [|o r] eqn:Es; [discriminate|].
  intros H; inversion H; subst; clear H. simpl. exists o, r. repeat split.
Qed.

(* what a frozen proposal certifies: its major option is an option of the proposal, no option has
   more votes, it holds at least the majority power = floor(2*total/3), and its votes are the summed
   recorded power of the recorded voters who chose it *)
Definition frozen_ok (p : proposal) : Prop :=
  ∃ o, p_major p = Some o ∧ o ∈ p_options p ∧ (∀ o', o' ∈ p_options p → o_votes o' ≤ o_votes o) ∧
       p_majority p ≤ o_votes o ∧ p_majority p = (p_total p * 2) `quot` 3 ∧
       ∃ i : Z, o_votes o = votes_for (p_voters p) i.

(* the invariant of an open (not yet frozen) proposal that needs no range hypothesis *)
Definition open_ok (p : proposal) : Prop := tally_ok p ∧ maj_ok p ∧ p_major p = None.

Lemma update_major_frozen p p' :
  open_ok p → update_major p = Ok p' →
  match p_major p' with
  | Some o => frozen_ok p' ∧ p_majority p ≤ o_votes o ∧
              ∃ l1 l2, p_options p = l1 ++ o :: l2 ∧ Forall (λ z, o_votes z < o_votes o) l1 ∧
                       Forall (λ z, o_votes z ≤ o_votes o) l2
  | None => ∀ o, o ∈ p_options p → o_votes o < p_majority p
  end.
Proof.
  intros ((T1 & T2) & Hm & Hnone) Hu.
  destruct (update_major_spec _ _ Hu) as (o & r & Hs & Hopts & Hmaj & _ & _ & _ & _ & Htot & Hmj & Hvs & _).
  destruct (sort_opts_head _ _ _ Hs) as (Hin & Hmax & l1 & l2 & Hl & Hl1).
  rewrite Hnone in Hmaj. rewrite Hmaj.
  destruct (p_majority p <=? o_votes o) eqn:E.
  - apply Z.leb_le in E. split; [|split; [exact E|]].
    + exists o. split; [exact Hmaj|]. rewrite Hopts, Hmj, Htot, Hvs.
      destruct (sort_opts_spec (p_options p)) as (_ & B & _). rewrite Hs in B.
      split; [apply elem_of_list_here|]. split; [intros o' Ho'; apply Hmax; rewrite <- B; exact Ho'|].
      split; [exact E|]. split; [exact Hm|].
      apply elem_of_list_lookup in Hin. destruct Hin as (i & Hi). exists (Z.of_nat i). apply T1. exact Hi.
    + exists l1, l2. split; [exact Hl|]. split; [exact Hl1|].
      apply Forall_forall. intros z Hz. apply Hmax. rewrite Hl. apply elem_of_app. right.
      apply elem_of_cons. right. exact Hz.
  - apply Z.leb_gt in E. intros o' Ho'. specialize (Hmax o' Ho'). lia.
Qed.

(* ================================================================== 16. invariants of the proposal ledgers over runs *)

Lemma new_proposal_open vals h st pe ap ot opts : open_ok (new_proposal vals h st pe ap ot opts).
Proof. split; [apply new_proposal_tally|]. split; reflexivity. Qed.

Lemma prop_punish_open p a ratio : open_ok p → open_ok (prop_punish p a ratio).1.
Proof.
  intros (T & M & N). split; [apply prop_punish_tally; exact T|].
  destruct (p_voters p !! a) as [v|] eqn:Ev.
  2:{ rewrite prop_punish_none by exact Ev. split; assumption. }
  destruct (prop_punish_spec p a ratio v Ev) as (_ & _ & _ & _ & Htot & Hmaj & _ & _ & _ & _ & _ & Hmj).
  cbv zeta in Htot, Hmaj, Hmj. unfold maj_ok. rewrite Htot, Hmaj, Hmj. split; [reflexivity|exact N].
Qed.

Lemma gov_punish_forall (P : proposal → Prop) l ratio evi :
  (∀ p a, P p → P (prop_punish p a ratio).1) →
  map_Forall (λ _ p, P p) (props l) → map_Forall (λ _ p, P p) (props (gov_punish l ratio evi)).
Proof.
  intros HP. unfold gov_punish. revert l. induction evi as [|a evi IH]; intros l Hl; simpl; [exact Hl|].
  apply IH. clear IH.
  generalize (List.filter (λ kp : hash * proposal, match p_voters kp.2 !! a with Some _ => true | None => false end)
                (sorted_items (props l))).
  intros ts. revert l Hl. induction ts as [|kp ts IH]; intros l Hl; simpl; [exact Hl|].
  apply IH. destruct (props l !! kp.1) as [p|] eqn:Ep; [|exact Hl].
  simpl. apply map_Forall_insert_2; [|exact Hl]. apply HP. exact (Hl _ _ Ep).
Qed.

Lemma deliver_open_ok s t :
  map_Forall (λ _ p, open_ok p) (props (work s)) →
  map_Forall (λ _ p, open_ok p) (props (work (deliver s t).1)).
Proof.
  intros H. destruct (deliver s t) as [s' r] eqn:Hd. simpl.
  destruct (deliver_inv _ _ _ _ Hd) as (_ & _ & _ & [(Hp & _)|(Hg & sender & l0 & l' & Hs & Hc0 & Hc1 & Hgv & (G1 & _) & Hs0 & Hge & Hp & _)]).
  { rewrite Hp. exact H. }
  rewrite Hp. destruct (decide (t_type t = TRX_PROPOSAL)) as [Ht|Ht].
  - destruct (gov_execute_proposal _ _ _ _ Ht Hge) as (st & pe & ap & ot & os & pk & _ & ->). simpl.
    apply map_Forall_insert_2; [apply new_proposal_open|]. rewrite G1. exact H.
  - assert (Htv : t_type t = TRX_VOTING).
    { unfold is_gov in Hg. apply orb_true_iff in Hg. destruct Hg as [E|E]; apply Z.eqb_eq in E; [contradiction|exact E]. }
    destruct (gov_validate_voting _ _ Htv Hgv) as (ph & choice & p & v & Hpl & Hpp & Hv & Hc & _).
    destruct (gov_execute_voting _ _ _ _ Ht Hge) as (ph' & choice' & p0 & p' & Hpl' & Hpp' & Hvote & ->).
    rewrite Hpl in Hpl'. inversion Hpl'; subst ph' choice'. clear Hpl'.
    rewrite G1 in Hpp'. assert (p0 = p) by congruence. subst p0. simpl. rewrite G1.
    apply map_Forall_insert_2; [|exact H].
    destruct (H _ _ Hpp) as (T & M & N).
    destruct (prop_vote_spec _ _ _ _ (proj1 Hc) Hvote) as (_ & _ & _ & _ & _ & _ & _ & _ & _ & R9 & R10 & _ & R12).
    split; [eapply prop_vote_tally; eassumption|]. unfold maj_ok. rewrite R9, R10, R12. split; assumption.
Qed.

Definition gov_ledger_ok (l : ledgers) : Prop :=
  map_Forall (λ _ p, open_ok p) (props l) ∧ map_Forall (λ _ p, frozen_ok p) (fprops l).
Definition gov_inv (s : state) : Prop := gov_ledger_ok (work s) ∧ gov_ledger_ok (base_of s).

Lemma end_block_gov_inv s : gov_inv s → gov_inv (end_block s).1.
Proof.
  intros ((Wo & Wf) & (Bo & Bf)). destruct (end_block s) as [s' r] eqn:He. simpl.
  destruct (end_block_inv _ _ _ He) as (A & B & C & D & [(-> & _)|(l1 & l2 & np & Hf & Ha & (G1 & G2 & G3) & Hn)]).
  { split; split; assumption. }
  unfold gov_inv. rewrite (base_of_same _ _ A B). split; [|split; assumption].
  destruct (freeze_proposals_spec _ _ _ _ Hf) as (_ & Fz).
  destruct (apply_proposals_spec _ _ _ _ _ _ Ha) as ((_&_&_&_&Ap) & Az & _).
  split.
  - intros k p Hk. rewrite G1, Ap in Hk. specialize (Fz k).
    destruct (props (base_of s) !! k) as [q|].
    + unfold frozen_at in Fz. destruct (p_end q <? b_height (bctx s)).
      * destruct Fz as (Fz & _). unfold hash in *. congruence.
      * destruct Fz as (Fz & _). apply (Wo k). unfold hash in *. congruence.
    + destruct Fz as (Fz & _). apply (Wo k). unfold hash in *. congruence.
  - intros k q Hk. rewrite G2 in Hk.
    assert (Hk1 : fprops l1 !! k = Some q).
    { specialize (Az k). destruct (fprops (base_of s) !! k) as [q0|].
      - unfold applied_at in Az. destruct (p_apply q0 <=? b_height (bctx s)).
        + destruct Az as (Az & _). unfold hash in *. congruence.
        + unfold hash in *. congruence.
      - unfold hash in *. congruence. }
    specialize (Fz k). destruct (props (base_of s) !! k) as [p|] eqn:Ep.
    + unfold frozen_at in Fz. destruct (p_end p <? b_height (bctx s)).
      * destruct Fz as (_ & _ & p' & Hu & Hfp).
        pose proof (update_major_frozen p p' (Bo _ _ Ep) Hu) as Hfr.
        destruct (p_major p') as [o|].
        -- destruct Hfr as (Hfr & _). assert (q = p') by (unfold hash in *; congruence). subst q. exact Hfr.
        -- apply (Wf k). unfold hash in *. congruence.
      * destruct Fz as (_ & Fz). apply (Wf k). unfold hash in *. congruence.
    + destruct Fz as (_ & Fz). apply (Wf k). unfold hash in *. congruence.
Qed.

Lemma gov_inv_step s o : gov_inv s → gov_inv (sstep s o).
Proof.
  intros Hs. destruct o as [hd|t| |]; simpl.
  - destruct Hs as ((Wo & Wf) & Hb).
    destruct (begin_block s hd) as [s' r] eqn:Hbb. simpl.
    destruct (begin_block_inv _ _ _ _ Hbb) as (A & B & C & D & E & F & [->|(_ & _ & Hp)]).
    { split; [split|]; assumption. }
    unfold gov_inv. rewrite (base_of_same _ _ A B). split; [|exact Hb]. split.
    + rewrite Hp. apply (gov_punish_forall open_ok); [|exact Wo]. intros p a. apply prop_punish_open.
    + rewrite E. exact Wf.
  - destruct Hs as ((Wo & Wf) & Hb).
    destruct (deliver_params_unchanged s t) as (A & _ & _ & D & E & _).
    unfold gov_inv. rewrite (base_of_same _ _ E A). split; [|exact Hb]. split.
    + apply deliver_open_ok. exact Wo.
    + rewrite D. exact Wf.
  - apply end_block_gov_inv. exact Hs.
  - destruct Hs as (Hw & _). unfold gov_inv, base_of. simpl. rewrite last_snoc. simpl. split; exact Hw.
Qed.

Lemma init_chain_props g : props (work (init_chain g)) = ∅ ∧ fprops (work (init_chain g)) = ∅.
Proof.
  unfold init_chain. simpl.
  assert (H1 : ∀ (hs : list (addr * Z)) l,
    gov_same l (foldl (λ l h, set_acct l h.1 {| a_nonce := 0; a_bal := h.2; a_code := false; a_name := 0%N; a_doc := 0%N |}) l hs)).
  { induction hs as [|x hs IH]; intros l; simpl; [apply gov_same_refl|].
    eapply gov_same_trans; [|apply IH]. apply gov_same_set_acct. }
  assert (H2 : ∀ (vs : list (addr * Z)) l,
    gov_same l (foldl (λ l v, (find_or_new l v.1).1) l vs)).
  { induction vs as [|x vs IH]; intros l; simpl; [apply gov_same_refl|].
    eapply gov_same_trans; [|apply IH].
    destruct (find_or_new l x.1) as [l' y] eqn:E. apply find_or_new_gov in E. exact E. }
  assert (H3 : ∀ (vs : list (addr * Z)) l,
    gov_same l (foldl (λ l v, set_dels l (<[v.1 := add_stake (new_delegatee v.1)
               {| s_from := v.1; s_to := v.1; s_hash := 0%N; s_start := 1; s_refund := 0; s_power := v.2 |}]> (dels l))) l vs)).
  { induction vs as [|x vs IH]; intros l; simpl; [apply gov_same_refl|].
    eapply gov_same_trans; [|apply IH]. apply gov_same_set_dels. }
  match goal with |- props ?l = _ ∧ _ =>
    assert (H : gov_same (empty_ledgers (gen_params g)) l) end.
  { eapply gov_same_trans; [apply H1|]. eapply gov_same_trans; [apply H2|]. apply H3. }
  destruct H as (A & B & _). rewrite A, B. split; reflexivity.
Qed.

(* G3/G4 over runs: in every state of every run, every open proposal of the working and of the
   last committed ledger satisfies the tally invariant (option votes = recorded power of the
   voters currently choosing it), has majority = floor(2*total/3) and no major option; every
   frozen proposal certifies a two-thirds decision. *)
Theorem proposals_invariant g ops :
  let s := srun (init_chain g) ops in
  (∀ k p, props (work s) !! k = Some p → tally_ok p ∧ maj_ok p ∧ p_major p = None) ∧
  (∀ k p, props (base_of s) !! k = Some p → tally_ok p ∧ maj_ok p ∧ p_major p = None) ∧
  (∀ k p, fprops (work s) !! k = Some p → frozen_ok p) ∧
  (∀ k p, fprops (base_of s) !! k = Some p → frozen_ok p).
Proof.
  simpl. unfold srun.
  assert (H : ∀ ops s, gov_inv s → gov_inv (foldl sstep s ops)).
  { induction ops0 as [|o ops0 IH]; intros s Hs; simpl; [exact Hs|]. apply IH. apply gov_inv_step. exact Hs. }
  destruct (H ops (init_chain g)) as ((A & B) & (C & D)).
  - destruct (init_chain_props g) as (P1 & P2).
    split.
    + split; [rewrite P1|rewrite P2]; apply map_Forall_empty.
    + unfold base_of. change (committed (init_chain g)) with (@nil ledgers). simpl.
      split; apply map_Forall_empty.
  - split; [intros k p Hk; exact (A k p Hk)|].
    split; [intros k p Hk; exact (C k p Hk)|].
    split; [intros k p Hk; exact (B k p Hk)|intros k p Hk; exact (D k p Hk)].
Qed.
Print Assumptions proposals_invariant.

(* ================================================================== 17. G4 and G5 at the level of EndBlock *)

(* G4: EndBlock freezes exactly the proposals of the COMMITTED proposal tree whose voting window
   ended before this height; each leaves the open ledger and enters the frozen ledger iff the
   first option in (stable) votes-descending order of the COMMITTED version holds at least its
   majority power; otherwise it is dropped.  (The frozen entry can only be missing from the
   resulting state if the same key is ALSO in the committed frozen tree and due for applying.) *)
Theorem end_block_freeze s s' ups : end_block s = (s', Ok ups) →
  ∀ k, match props (base_of s) !! k with
       | Some p =>
           if p_end p <? b_height (bctx s) then
             props (work s') !! k = None ∧ is_Some (props (work s) !! k) ∧
             ∃ p', update_major p = Ok p' ∧
               (fprops (base_of s) !! k = None →
                fprops (work s') !! k = match p_major p' with Some _ => Some p' | None => fprops (work s) !! k end)
           else props (work s') !! k = props (work s) !! k
       | None => props (work s') !! k = props (work s) !! k
       end.
Proof.
  intros He k.
  destruct (end_block_inv _ _ _ He) as (A & B & C & D & [(_ & Hn)|(l1 & l2 & np & Hf & Ha & (G1 & G2 & G3) & Hn)]).
  { exfalso. exact (Hn ups eq_refl). }
  destruct (freeze_proposals_spec _ _ _ _ Hf) as (_ & Fz). specialize (Fz k).
  destruct (apply_proposals_spec _ _ _ _ _ _ Ha) as ((_&_&_&_&Ap) & Az & _). specialize (Az k).
  rewrite G1, G2, Ap.
  destruct (props (base_of s) !! k) as [p|].
  - unfold frozen_at in Fz. destruct (p_end p <? b_height (bctx s)).
    + destruct Fz as (F1 & F2 & p' & Hu & F3). split; [exact F1|]. split; [exact F2|].
      exists p'. split; [exact Hu|]. intros Hnone. unfold hash in *. rewrite Hnone in Az. cbv iota in Az. exact (eq_trans Az F3).
    + apply Fz.
  - apply Fz.
Qed.

(* G4 corollary: a proposal that enters the frozen ledger was decided by two thirds (rounded
   down) of its recorded power, counted on the committed version of the proposal *)
Corollary frozen_has_two_thirds g ops k p :
  let s := srun (init_chain g) ops in
  fprops (work s) !! k = Some p →
  ∃ o, p_major p = Some o ∧ o ∈ p_options p ∧ (∀ o', o' ∈ p_options p → o_votes o' ≤ o_votes o) ∧
       (p_total p * 2) `quot` 3 ≤ o_votes o ∧ ∃ i : Z, o_votes o = votes_for (p_voters p) i.
Proof.
  simpl. intros Hk. destruct (proposals_invariant g ops) as (_ & _ & H & _).
  destruct (H k p Hk) as (o & H1 & H2 & H3 & H4 & H5 & H6).
  exists o. rewrite <- H5. auto.
Qed.

(* G5: a due frozen proposal leaves the frozen ledger at EndBlock, and not before its applying
   height; the pending parameters are exactly the merge of the ACTIVE parameters with the document
   of the LAST due parameter proposal in key order *)
Theorem end_block_apply s s' ups : end_block s = (s', Ok ups) →
  (∀ k p, fprops (base_of s) !! k = Some p → p_apply p ≤ b_height (bctx s) → fprops (work s') !! k = None) ∧
  (∀ k p, fprops (base_of s) !! k = Some p → b_height (bctx s) < p_apply p → props (base_of s) !! k = None →
          fprops (work s') !! k = fprops (work s) !! k) ∧
  newparams s' = match last (due_payloads (b_height (bctx s)) (sorted_items (fprops (base_of s)))) with
                 | Some newp => Some (merge_params (gparams s) newp)
                 | None => newparams s end.
Proof.
  intros He.
  destruct (end_block_inv _ _ _ He) as (A & B & C & D & [(_ & Hn)|(l1 & l2 & np & Hf & Ha & (G1 & G2 & G3) & Hn)]).
  { exfalso. exact (Hn ups eq_refl). }
  destruct (freeze_proposals_spec _ _ _ _ Hf) as (_ & Fz).
  destruct (apply_proposals_spec _ _ _ _ _ _ Ha) as (_ & Az & P).
  split; [|split].
  - intros k p Hk Hap. specialize (Az k). unfold hash in *. rewrite Hk in Az. unfold applied_at in Az.
    apply Z.leb_le in Hap. rewrite Hap in Az. rewrite G2. apply Az.
  - intros k p Hk Hap Hnp. specialize (Az k). unfold hash in *. rewrite Hk in Az. unfold applied_at in Az.
    apply Z.leb_gt in Hap. rewrite Hap in Az. rewrite G2. specialize (Fz k). rewrite Hnp in Fz.
    exact (eq_trans Az (proj2 Fz)).
  - rewrite Hn. destruct (last _) as [newp|]; apply P.
Qed.

(* G5: MergeGovParams, field by field *)
Definition param_fields : list (params → Z) :=
  [g_version; g_maxValidatorCnt; g_minValidatorStake; g_minDelegatorStake; g_rewardPerPower;
   g_lazyRewardBlocks; g_lazyApplyingBlocks; g_gasPrice; g_minTrxGas; g_maxTrxGas; g_maxBlockGas;
   g_minVotingPeriodBlocks; g_maxVotingPeriodBlocks; g_minSelfStakeRatio; g_maxUpdatableStakeRatio;
   g_maxIndividualStakeRatio; g_slashRatio; g_signedBlocksWindow; g_minSignedBlocks].

Theorem merge_params_fields old new :
  Forall (λ f : params → Z, f (merge_params old new) = if f new =? 0 then f old else f new) param_fields.
Proof. repeat constructor. Qed.

(* the list names every field: two parameter sets agreeing on it are equal *)
Lemma param_fields_complete a b : Forall (λ f : params → Z, f a = f b) param_fields → a = b.
Proof.
  intros H. unfold param_fields in H. repeat (apply Forall_cons in H; destruct H as (? & H)).
  destruct a, b; simpl in *; subst; reflexivity.
Qed.

Corollary merge_params_unset_keeps old new (f : params → Z) :
  f ∈ param_fields → f new = 0 → f (merge_params old new) = f old.
Proof.
  intros Hin H0. pose proof (merge_params_fields old new) as H. rewrite Forall_forall in H.
  rewrite (H f Hin), H0. reflexivity.
Qed.

Corollary merge_params_set_takes old new (f : params → Z) :
  f ∈ param_fields → f new ≠ 0 → f (merge_params old new) = f new.
Proof.
  intros Hin H0. pose proof (merge_params_fields old new) as H. rewrite Forall_forall in H.
  rewrite (H f Hin). apply Z.eqb_neq in H0. rewrite H0. reflexivity.
Qed.

(* G5, the documented peculiarity: two parameter proposals applied in one block are both merged
   against the OLD in-memory parameters; the one with the larger hash wins wholesale, the fields
   only the first one set are lost. *)
Global Instance key_le_total {A} : Total (@key_le A).
Proof. intros x y. unfold key_le. lia. Qed.

Lemma sorted_items_two {A} (k1 k2 : N) (x1 x2 : A) : (k1 < k2)%N →
  sorted_items (<[k1 := x1]> {[k2 := x2]}) = [(k1, x1); (k2, x2)].
Proof.
  intros Hlt. unfold sorted_items.
  set (m := <[k1 := x1]> {[k2 := x2]} : gmap N A).
  assert (Hp : merge_sort key_le (map_to_list m) ≡ₚ [(k1, x1); (k2, x2)]).
  { rewrite merge_sort_Permutation. unfold m. rewrite map_to_list_insert.
    - rewrite map_to_list_singleton. reflexivity.
    - apply lookup_singleton_ne. lia. }
  pose proof (Sorted_merge_sort key_le (map_to_list m)) as Hs.
  symmetry in Hp. apply Permutation_length_2_inv in Hp. destruct Hp as [Hp|Hp]; [exact Hp|].
  rewrite Hp in Hs. inversion Hs as [|? ? _ Hh]; subst. inversion Hh as [|? ? Hle]; subst.
  unfold key_le in Hle. simpl in Hle. lia.
Qed.

Theorem apply_two_lost_update s base l h k1 k2 p1 p2 n1 n2 l' np' :
  (k1 < k2)%N → fprops base = <[k1 := p1]> {[k2 := p2]} →
  p_apply p1 ≤ h → p_apply p2 ≤ h → gov_payload p1 = Some n1 → gov_payload p2 = Some n2 →
  apply_proposals s base l h = Ok (l', np') →
  np' = Some (merge_params (gparams s) n2) ∧ lparams l' = merge_params (gparams s) n2 ∧
  ∀ f : params → Z, f ∈ param_fields → f n2 = 0 → f (lparams l') = f (gparams s).
Proof.
  intros Hlt Hb H1 H2 G1 G2 Ha.
  destruct (apply_proposals_spec _ _ _ _ _ _ Ha) as (_ & _ & P).
  rewrite Hb in P. unfold hash in *. rewrite (sorted_items_two k1 k2 p1 p2 Hlt) in P.
  unfold due_payloads in P. simpl in P. apply Z.leb_le in H1, H2. rewrite H1, H2, G1, G2 in P. simpl in P.
  destruct P as (P1 & P2). split; [exact P1|]. split; [exact P2|].
  intros f Hf H0. rewrite P2. apply merge_params_unset_keeps; assumption.
Qed.
Print Assumptions apply_two_lost_update.

(* ================================================================== 18. examples: the hypotheses are satisfiable *)

Definition ex_params : params := {|
  g_version := 1; g_maxValidatorCnt := 10; g_minValidatorStake := 1000000000000000000; g_minDelegatorStake := 0;
  g_rewardPerPower := 1; g_lazyRewardBlocks := 2; g_lazyApplyingBlocks := 1; g_gasPrice := 10;
  g_minTrxGas := 1; g_maxTrxGas := 1000000; g_maxBlockGas := 10000000; g_minVotingPeriodBlocks := 1;
  g_maxVotingPeriodBlocks := 100; g_minSelfStakeRatio := 0; g_maxUpdatableStakeRatio := 100;
  g_maxIndividualStakeRatio := 100; g_slashRatio := 50; g_signedBlocksWindow := 10000; g_minSignedBlocks := 0 |}.
Definition zero_params : params := {|
  g_version := 0; g_maxValidatorCnt := 0; g_minValidatorStake := 0; g_minDelegatorStake := 0;
  g_rewardPerPower := 0; g_lazyRewardBlocks := 0; g_lazyApplyingBlocks := 0; g_gasPrice := 0;
  g_minTrxGas := 0; g_maxTrxGas := 0; g_maxBlockGas := 0; g_minVotingPeriodBlocks := 0;
  g_maxVotingPeriodBlocks := 0; g_minSelfStakeRatio := 0; g_maxUpdatableStakeRatio := 0;
  g_maxIndividualStakeRatio := 0; g_slashRatio := 0; g_signedBlocksWindow := 0; g_minSignedBlocks := 0 |}.
(* a document that only sets the reward per power (to 7) / only the gas price (to 20) *)
Definition ex_doc_reward : params := {|
  g_version := 0; g_maxValidatorCnt := 0; g_minValidatorStake := 0; g_minDelegatorStake := 0;
  g_rewardPerPower := 7; g_lazyRewardBlocks := 0; g_lazyApplyingBlocks := 0; g_gasPrice := 0;
  g_minTrxGas := 0; g_maxTrxGas := 0; g_maxBlockGas := 0; g_minVotingPeriodBlocks := 0;
  g_maxVotingPeriodBlocks := 0; g_minSelfStakeRatio := 0; g_maxUpdatableStakeRatio := 0;
  g_maxIndividualStakeRatio := 0; g_slashRatio := 0; g_signedBlocksWindow := 0; g_minSignedBlocks := 0 |}.
Definition ex_doc_price : params := {|
  g_version := 0; g_maxValidatorCnt := 0; g_minValidatorStake := 0; g_minDelegatorStake := 0;
  g_rewardPerPower := 0; g_lazyRewardBlocks := 0; g_lazyApplyingBlocks := 0; g_gasPrice := 20;
  g_minTrxGas := 0; g_maxTrxGas := 0; g_maxBlockGas := 0; g_minVotingPeriodBlocks := 0;
  g_maxVotingPeriodBlocks := 0; g_minSelfStakeRatio := 0; g_maxUpdatableStakeRatio := 0;
  g_maxIndividualStakeRatio := 0; g_slashRatio := 0; g_signedBlocksWindow := 0; g_minSignedBlocks := 0 |}.

Definition ex_genesis (p : params) (bal : Z) : genesis := {|
  gen_params := p;
  gen_holders := [(1%N, bal); (2%N, bal); (3%N, bal)];
  gen_validators := [(1%N, 10); (2%N, 20); (3%N, 30)] |}.

Definition ex_hdr (h : Z) : header := {| h_height := h; h_proposer := Some 1%N; h_votes := []; h_evidence := [] |}.
Definition ex_block (h : Z) (txs : list tx) : list sop := SBegin (ex_hdr h) :: map SDeliver txs ++ [SEnd; SCommit].

Definition ex_tx (ty : Z) (from : addr) (nonce : Z) (pl : payload) (h : hash) (price gas : Z) : tx := {|
  t_type := ty; t_from := from; t_to := 0%N; t_from_ok := true; t_to_ok := true; t_amount := 0;
  t_price := price; t_gas := gas; t_nonce := nonce; t_payload := pl; t_hash := h; t_sigok := true; t_evm := None |}.

(* proposal 100 (by validator 1): option 0 = reward 7, option 1 = nothing; voting 4..6, applying at 8 *)
Definition ex_proposal_tx : tx :=
  ex_tx TRX_PROPOSAL 1%N 0
    (PProposal 4 2 8 PROPOSAL_GOVPARAMS [(1%N, Some ex_doc_reward); (2%N, Some zero_params)] true) 100%N 10 5.
(* proposal 101 (by validator 2): option 0 = gas price 20 *)
Definition ex_proposal_tx2 : tx :=
  ex_tx TRX_PROPOSAL 2%N 0
    (PProposal 4 2 8 PROPOSAL_GOVPARAMS [(3%N, Some ex_doc_price)] true) 101%N 10 5.
Definition ex_vote_tx (ph : hash) (from : addr) (nonce choice : Z) (h : hash) : tx :=
  ex_tx TRX_VOTING from nonce (PVoting ph choice) h 10 5.

Definition ex_g := ex_genesis ex_params 1000000.
(* blocks 1,2 (validators become known), block 3 up to the proposal *)
Definition ex_ops3 : list sop := ex_block 1 [] ++ ex_block 2 [] ++ [SBegin (ex_hdr 3)].
(* ... proposal delivered and committed, block 4 begun *)
Definition ex_ops4 : list sop := ex_ops3 ++ [SDeliver ex_proposal_tx; SEnd; SCommit; SBegin (ex_hdr 4)].
(* validator 3 votes for option 1, validator 2 for option 0, validator 3 changes to option 0;
   blocks 5, 6 empty; block 7 (window over) up to EndBlock: frozen; block 8 up to EndBlock: applied *)
Definition ex_ops7 : list sop :=
  ex_ops4 ++ [SDeliver (ex_vote_tx 100%N 3%N 0 1 201%N); SDeliver (ex_vote_tx 100%N 2%N 0 0 202%N);
              SDeliver (ex_vote_tx 100%N 3%N 1 0 203%N); SEnd; SCommit]
          ++ ex_block 5 [] ++ ex_block 6 [] ++ [SBegin (ex_hdr 7)].
Definition ex_ops8 : list sop := ex_ops7 ++ [SEnd; SCommit; SBegin (ex_hdr 8)].

Example proposal_submission_ex :
  ∃ s' gas, deliver (srun (init_chain ex_g) ex_ops3) ex_proposal_tx = (s', Ok gas) ∧
            t_type ex_proposal_tx = TRX_PROPOSAL ∧
            lastvals (srun (init_chain ex_g) ex_ops3) = [(3%N, 30); (2%N, 20); (1%N, 10)].
Proof. eexists _, _. split; [vm_compute; reflexivity|]. split; [reflexivity|vm_compute; reflexivity]. Qed.

Example voting_ex :
  ∃ s' gas, deliver (srun (init_chain ex_g) ex_ops4) (ex_vote_tx 100%N 3%N 0 1 201%N) = (s', Ok gas) ∧
            t_type (ex_vote_tx 100%N 3%N 0 1 201%N) = TRX_VOTING.
Proof. eexists _, _. split; [vm_compute; reflexivity|reflexivity]. Qed.

(* the re-vote of validator 3 moved its 30 units from option 1 to option 0; at EndBlock of block 7
   the proposal is frozen with option 0 (50 of 60 units, majority 40) as major option *)
Example freeze_ex :
  let s := srun (init_chain ex_g) ex_ops7 in
  ∃ ups, (end_block s).2 = Ok ups ∧
  (λ p : proposal, (o_id <$> p_major p, o_votes <$> p_options p, p_majority p, p_total p)) <$>
     fprops (work (end_block s).1) !! 100%N = Some (Some 1%N, [50; 0], 40, 60) ∧
  props (work (end_block s).1) !! 100%N = None ∧
  is_Some (props (work s) !! 100%N).
Proof.
  eexists. split; [vm_compute; reflexivity|]. split; [vm_compute; reflexivity|].
  split; [vm_compute; reflexivity|]. vm_compute. eexists; reflexivity.
Qed.

(* at EndBlock of block 8 (the applying height) the parameters become pending, at Commit active;
   only the field the option set has changed *)
Example apply_ex :
  let s := srun (init_chain ex_g) ex_ops8 in
  let s1 := (end_block s).1 in
  gparams s = ex_params ∧ newparams s = None ∧
  newparams s1 = Some (merge_params ex_params ex_doc_reward) ∧ gparams s1 = ex_params ∧
  lparams (work s1) = merge_params ex_params ex_doc_reward ∧
  gparams (commit s1) = merge_params ex_params ex_doc_reward ∧
  g_rewardPerPower (gparams (commit s1)) = 7 ∧ g_gasPrice (gparams (commit s1)) = 10 ∧
  fprops (work s1) !! 100%N = None.
Proof. vm_compute. repeat split; reflexivity. Qed.

(* the lost update on a concrete run: proposals 100 (reward := 7) and 101 (gas price := 20) are
   both decided and both applied at height 8; afterwards the gas price is 20 but the reward is
   still 1 *)
Definition ex_ops_two : list sop :=
  ex_ops3 ++ [SDeliver ex_proposal_tx; SDeliver ex_proposal_tx2; SEnd; SCommit]
  ++ ex_block 4 [ex_vote_tx 100%N 3%N 0 0 201%N; ex_vote_tx 100%N 2%N 1 0 202%N;
                 ex_vote_tx 101%N 3%N 1 0 203%N; ex_vote_tx 101%N 2%N 2 0 204%N]
  ++ ex_block 5 [] ++ ex_block 6 [] ++ ex_block 7 [] ++ ex_block 8 [].

Example lost_update_ex :
  let s7 := srun (init_chain ex_g) (ex_ops3 ++ [SDeliver ex_proposal_tx; SDeliver ex_proposal_tx2; SEnd; SCommit]
              ++ ex_block 4 [ex_vote_tx 100%N 3%N 0 0 201%N; ex_vote_tx 100%N 2%N 1 0 202%N;
                             ex_vote_tx 101%N 3%N 1 0 203%N; ex_vote_tx 101%N 2%N 2 0 204%N]
              ++ ex_block 5 [] ++ ex_block 6 [] ++ ex_block 7 []) in
  let s := srun (init_chain ex_g) ex_ops_two in
  (gov_payload <$> fprops (work s7) !! 100%N) = Some (Some ex_doc_reward) ∧
  (gov_payload <$> fprops (work s7) !! 101%N) = Some (Some ex_doc_price) ∧
  g_gasPrice (gparams s) = 20 ∧ g_rewardPerPower (gparams s) = 1 ∧ lparams (work s) = gparams s.
Proof. vm_compute. repeat split; reflexivity. Qed.

(* G3, refutation of the unconditional "a failed vote changes nothing": with a gas price of 2^193
   (outside [params_ok]) a vote whose fee is 2^255 passes validation (the balance covers it), is
   counted, and then the fee collection fails because uint256 amounts with bit 255 set are
   refused; DeliverTx answers with an error but the vote stays counted. *)
Definition bad_params : params := {|
  g_version := 1; g_maxValidatorCnt := 10; g_minValidatorStake := 1000000000000000000; g_minDelegatorStake := 0;
  g_rewardPerPower := 1; g_lazyRewardBlocks := 2; g_lazyApplyingBlocks := 1; g_gasPrice := 2 ^ 193;
  g_minTrxGas := 1; g_maxTrxGas := 1000000; g_maxBlockGas := 10000000; g_minVotingPeriodBlocks := 1;
  g_maxVotingPeriodBlocks := 100; g_minSelfStakeRatio := 0; g_maxUpdatableStakeRatio := 100;
  g_maxIndividualStakeRatio := 100; g_slashRatio := 50; g_signedBlocksWindow := 10000; g_minSignedBlocks := 0 |}.
Definition bad_g := ex_genesis bad_params (2 ^ 255 + 2 ^ 200).
Definition bad_proposal_tx : tx :=
  ex_tx TRX_PROPOSAL 1%N 0
    (PProposal 4 2 8 PROPOSAL_GOVPARAMS [(1%N, Some ex_doc_reward); (2%N, Some zero_params)] true) 100%N (2 ^ 193) 1.
Definition bad_vote_tx : tx := ex_tx TRX_VOTING 3%N 0 (PVoting 100%N 0) 201%N (2 ^ 193) (2 ^ 62).
Definition bad_ops : list sop :=
  ex_block 1 [] ++ ex_block 2 [] ++ ex_block 3 [bad_proposal_tx] ++ [SBegin (ex_hdr 4)].

Theorem failed_vote_refuted :
  ∃ g ops t s' e, let s := srun (init_chain g) ops in
    tx_wf t ∧ deliver s t = (s', Err e) ∧ props (work s') ≠ props (work s).
Proof.
  exists bad_g, bad_ops, bad_vote_tx. eexists _, _. cbv zeta.
  split.
  { Local Transparent two256 two64. unfold tx_wf, two256, two64. Local Opaque two256 two64.
    simpl. lia. }
  split; [vm_compute; reflexivity|].
  intros H.
  match type of H with ?a = ?b => assert (H1 : (λ p : proposal, map o_votes (p_options p)) <$> a !! 100%N =
                                       (λ p : proposal, map o_votes (p_options p)) <$> b !! 100%N)
      by (rewrite H; reflexivity) end.
  vm_compute in H1. discriminate H1.
Qed.
Print Assumptions failed_vote_refuted.

(* ================================================================== 19. the recorded validator set has distinct addresses *)

(* a generic walk through DeliverTx for predicates on the working ledgers *)
Lemma deliver_preserves (P : ledgers → Prop) :
  (∀ l a x, P l → P (set_acct l a x)) →
  (∀ s l t l', P l → gov_execute s l t = Ok l' → P l') →
  (∀ l t l', P l → acct_execute l t = Ok l' → P l') →
  (∀ s l t l', P l → stake_execute s l t = Ok l' → P l') →
  (∀ l t l' g, P l → evm_execute l t = Ok (l', g) → P l') →
  ∀ s t, P (work s) → P (work (deliver s t).1).
Proof.
  intros Hacct Hgov Hacc Hstake Hevm s t HP.
  destruct (deliver s t) as [s' r] eqn:Hd. simpl. unfold deliver in Hd.
  destruct (accts (work s) !! t_from t) as [sender|] eqn:Es.
  2:{ inversion Hd; subst. exact HP. }
  cbv zeta in Hd.
  destruct (find_or_new _ (t_to t)) as [l0 receiver] eqn:Ef. simpl in Ef.
  assert (HP0 : P l0).
  { unfold find_or_new in Ef. destruct (accts (work s) !! t_to t); inversion Ef; subst; auto. }
  set (s1 := with_work _ l0) in *.
  destruct (common_validation0 (gparams s) t) as [e|].
  { inversion Hd; subst. exact HP0. }
  destruct (common_validation1 sender t) as [e|].
  { inversion Hd; subst. exact HP0. }
  match type of Hd with context [match ?v with Ok _ => _ | Err _ => _ | Panic _ => _ end] =>
    destruct v as [lim'| e | p] end.
  2,3: inversion Hd; subst; exact HP0.
  set (s2 := with_lim s1 lim') in *. change (work s2) with l0 in Hd.
  destruct ((t_type t =? TRX_CONTRACT) || (t_type t =? TRX_TRANSFER) && a_code receiver).
  - destruct (evm_execute l0 t) as [[l' gas] | e | p] eqn:Ee; inversion Hd; subst; clear Hd; simpl.
    + eapply Hevm; eassumption.
    + exact HP0.
    + exact HP0.
  - match type of Hd with context [match ?v with Ok _ => _ | Err _ => _ | Panic _ => _ end] =>
      destruct v as [l'| e | p] eqn:Ex end.
    2,3: inversion Hd; subst; exact HP0.
    assert (HP' : P l').
    { destruct ((t_type t =? TRX_PROPOSAL) || (t_type t =? TRX_VOTING)).
      - eapply Hgov; eassumption.
      - destruct ((t_type t =? TRX_TRANSFER) || (t_type t =? TRX_SETDOC)).
        + eapply Hacc; eassumption.
        + eapply Hstake; eassumption. }
    destruct (accts l' !! t_from t) as [snd'|].
    2:{ inversion Hd; subst. exact HP0. }
    destruct (sub_balance snd' (fee_of t)) as [snd''|]; inversion Hd; subst; clear Hd; simpl.
    + apply Hacct. exact HP'.
    + exact HP'.
Qed.

Definition dels_keyed (l : ledgers) : Prop := ∀ a d, dels l !! a = Some d → d_addr d = a.

Lemma dels_keyed_same l l' : dels l' = dels l → dels_keyed l → dels_keyed l'.
Proof. unfold dels_keyed. intros ->. auto. Qed.

Lemma dels_keyed_insert l a d : dels_keyed l → d_addr d = a → dels_keyed (set_dels l (<[a := d]> (dels l))).
Proof.
  intros H Hd b x. simpl. intros Hb. apply lookup_insert_Some in Hb.
  destruct Hb as [(<- & <-)|(_ & Hb)]; [exact Hd|apply H; exact Hb].
Qed.

Lemma dels_keyed_delete l a : dels_keyed l → dels_keyed (set_dels l (delete a (dels l))).
Proof.
  intros H b x. simpl. intros Hb. apply lookup_delete_Some in Hb. apply H. apply Hb.
Qed.

Lemma del_stake_addr d h : d_addr (del_stake d h) = d_addr d.
Proof. unfold del_stake. destruct (find_stake h (d_stakes d)); reflexivity. Qed.

Lemma stake_execute_dels_keyed s l t l' : dels_keyed l → stake_execute s l t = Ok l' → dels_keyed l'.
Proof.
  unfold stake_execute. intros HK H.
  destruct (t_type t =? TRX_STAKING) eqn:E1.
  { destruct (dels l !! t_to t) as [d0|] eqn:Ed.
    - destruct (accts l !! t_from t) as [sender|]; [|discriminate].
      destruct (sub_balance sender (t_amount t)) as [sender'|]; [|discriminate].
      inversion H; subst. apply (dels_keyed_insert (set_acct l (t_from t) sender')); [exact HK|].
      simpl. apply HK. exact Ed.
    - destruct (t_from t =? t_to t)%N eqn:Eft; [|discriminate]. apply N.eqb_eq in Eft.
      destruct (accts l !! t_from t) as [sender|]; [|discriminate].
      destruct (sub_balance sender (t_amount t)) as [sender'|]; [|discriminate].
      inversion H; subst. apply (dels_keyed_insert (set_acct l (t_from t) sender')); [exact HK|].
      simpl. exact Eft. }
  destruct (t_type t =? TRX_UNSTAKING) eqn:E2.
  { destruct (dels l !! t_to t) as [d|] eqn:Ed; [|discriminate].
    destruct (t_payload t) as [ | hs lok | | | | | ]; try discriminate.
    destruct (find_stake hs (d_stakes d)) as [s0|]; [|discriminate].
    destruct (negb (s_from s0 =? t_from t)%N); [discriminate|].
    pose proof (HK _ _ Ed) as Hda.
    destruct (d_self (del_stake d hs) =? 0).
    - simpl in H. destruct (d_total (del_stake d hs) - sum_power (d_stakes (del_stake d hs)) =? 0);
        inversion H; subst.
      + apply (dels_keyed_delete (set_frozen l _)). exact HK.
      + apply (dels_keyed_insert (set_frozen l _)); [exact HK|]. simpl. rewrite del_stake_addr. exact Hda.
    - destruct (d_total (del_stake d hs) =? 0); inversion H; subst.
      + apply (dels_keyed_delete (set_frozen l _)). exact HK.
      + apply (dels_keyed_insert (set_frozen l _)); [exact HK|]. rewrite del_stake_addr. exact Hda. }
  destruct (t_payload t) as [ | | req | | | | ]; try discriminate.
  destruct (rewards l !! t_from t) as [r|]; [|discriminate].
  destruct (r_height r >? b_height (bctx s)); [discriminate|].
  match type of H with context [acct_reward ?l1 ?a ?q] => destruct (acct_reward l1 a q) as [l2|] eqn:Er end;
    [|discriminate].
  inversion H; subst. unfold acct_reward in Er.
  destruct (accts _ !! t_from t) as [x|]; simpl in Er; [|discriminate].
  destruct (add_balance x req) as [x'|]; simpl in Er; [|discriminate].
  inversion Er; subst. exact HK.
Qed.

Lemma deliver_dels_keyed s t : dels_keyed (work s) → dels_keyed (work (deliver s t).1).
Proof.
  apply (deliver_preserves dels_keyed).
  - intros l a x H. exact H.
  - intros s0 l t0 l' H He.
    destruct (decide (t_type t0 = TRX_PROPOSAL)) as [Ht|Ht].
    + destruct (gov_execute_proposal _ _ _ _ Ht He) as (?&?&?&?&?&?&_&->). exact H.
    + destruct (gov_execute_voting _ _ _ _ Ht He) as (?&?&?&?&_&_&_&->). exact H.
  - intros l t0 l' H He. unfold acct_execute in He.
    destruct (accts l !! t_from t0) as [sender|]; [|discriminate].
    destruct (accts l !! t_to t0) as [receiver|]; [|discriminate].
    destruct (t_type t0 =? TRX_TRANSFER).
    + destruct (sub_balance sender (t_amount t0)) as [sender'|]; [|discriminate].
      destruct (add_balance _ (t_amount t0)) as [recv'|]; [|discriminate].
      inversion He; subst. exact H.
    + destruct (t_payload t0); try discriminate. inversion He; subst. exact H.
  - intros s0 l t0 l' H He. eapply stake_execute_dels_keyed; eassumption.
  - intros l t0 l' g H He. unfold evm_execute in He.
    destruct (t_evm t0) as [e|]; [|discriminate]. destruct (negb (e_ok e)); [discriminate|].
    inversion He; subst. clear He.
    assert (Hf : ∀ (xs : list (addr * Z * Z)) l, dels_keyed l → dels_keyed (foldl (λ l x, let '(a, bal, nonce) := x in
                  let old := default acct0 (accts l !! a) in
                  set_acct l a {| a_nonce := nonce; a_bal := bal; a_code := a_code old; a_name := a_name old; a_doc := a_doc old |})
                l xs)).
    { induction xs as [|[[a bal] nonce] xs IH]; intros l1 H1; simpl; [exact H1|]. apply IH. exact H1. }
    destruct (e_created e); [|apply Hf; exact H].
    apply (Hf (e_accts e) l H).
Qed.

Lemma gov_punish_dels l ratio evi : dels (gov_punish l ratio evi) = dels l.
Proof.
  unfold gov_punish. revert l. induction evi as [|a evi IH]; intros l; simpl; [reflexivity|].
  rewrite IH. clear IH.
  generalize (List.filter (λ kp : hash * proposal, match p_voters kp.2 !! a with Some _ => true | None => false end)
                (sorted_items (props l))).
  intros ts. revert l. induction ts as [|kp ts IH]; intros l; simpl; [reflexivity|].
  rewrite IH. destruct (props l !! kp.1); reflexivity.
Qed.

Lemma stake_punish_dels_keyed l ratio evi : dels_keyed l → dels_keyed (stake_punish l ratio evi).
Proof.
  unfold stake_punish. revert l. induction evi as [|a evi IH]; intros l H; simpl; [exact H|].
  apply IH. destruct (dels l !! a) as [d|] eqn:Ed; [|exact H].
  apply dels_keyed_insert; [exact H|]. simpl. apply H. exact Ed.
Qed.

Lemma process_votes_dels_keyed s l h votes l' iss :
  dels_keyed l → process_votes s l h votes = Ok (l', iss) → dels_keyed l'.
Proof.
  intros HK. unfold process_votes. destruct (ledgers_at s (hgt_of_power h)) as [old|]; [|discriminate].
  intros H.
  apply (foldl_res_inv (λ x : ledgers * Z, dels_keyed x.1) _ _) with (a' := (l', iss)) in H; [exact H| |].
  - clear H. intros acc v [l2 i2] Hacc Hstep.
    destruct acc as [[l1 i1]| |]; try discriminate.
    specialize (Hacc _ eq_refl). simpl in Hacc. simpl.
    destruct v as [[a pw] signed]. destruct signed.
    + destruct (dels old !! a) as [d|].
      * destruct (negb (d_total d =? pw)).
        -- inversion Hstep; subst; exact Hacc.
        -- destruct (reward_to (gparams s) h (rewards l1) d) as [[rw is]| |]; try discriminate.
           inversion Hstep; subst. exact Hacc.
      * inversion Hstep; subst; exact Hacc.
    + destruct (dels l1 !! a) as [d|] eqn:Ed.
      * destruct (count_in_window _ _ _) as [cnt m2].
        destruct (g_signedBlocksWindow (gparams s) - cnt <? g_minSignedBlocks (gparams s)).
        -- inversion Hstep; subst.
           simpl. intros b x Hb. simpl in Hb. apply lookup_delete_Some in Hb. destruct Hb as (Hne & Hb).
           rewrite lookup_insert_ne in Hb by exact Hne. apply Hacc. exact Hb.
        -- inversion Hstep; subst. apply dels_keyed_insert; [exact Hacc|]. simpl. apply Hacc. exact Ed.
      * inversion Hstep; subst; exact Hacc.
  - intros a Ha. inversion Ha; subst. exact HK.
Qed.

Lemma NoDup_fmap_List_filter {A B} (f : A → B) (P : A → bool) (l : list A) :
  NoDup (f <$> l) → NoDup (f <$> List.filter P l).
Proof.
  induction l as [|x r IH]; intros H; simpl; [constructor|].
  simpl in H. apply NoDup_cons in H. destruct H as (Hx & Hr).
  destruct (P x); [|apply IH; exact Hr].
  simpl. apply NoDup_cons. split; [|apply IH; exact Hr].
  intros Hin. apply Hx. apply elem_of_list_fmap in Hin. destruct Hin as (y & -> & Hy).
  apply elem_of_list_fmap. exists y. split; [reflexivity|].
  apply elem_of_list_In. apply elem_of_list_In in Hy. apply filter_In in Hy. apply Hy.
Qed.

Lemma NoDup_take {A} (l : list A) n : NoDup l → NoDup (take n l).
Proof. intros H. rewrite <- (take_drop n l) in H. apply NoDup_app in H. apply H. Qed.

Lemma keyed_items_addrs (m : gmap addr delegatee) :
  (∀ a d, m !! a = Some d → d_addr d = a) →
  d_addr <$> (snd <$> sorted_items m) = fst <$> sorted_items m.
Proof.
  intros H.
  assert (Hall : Forall (λ kd : addr * delegatee, d_addr kd.2 = kd.1) (sorted_items m)).
  { apply Forall_forall. intros [k d] Hin. apply elem_of_sorted_items in Hin. simpl. apply H. exact Hin. }
  induction Hall as [|[k d] r Hk _ IH]; [reflexivity|]. simpl in Hk.
  change (d_addr d :: (d_addr <$> r.*2) = k :: r.*1). rewrite Hk. f_equal. exact IH.
Qed.

Definition vals_inv (s : state) : Prop :=
  dels_keyed (work s) ∧ dels_keyed (base_of s) ∧ NoDup (d_addr <$> alldels s) ∧ NoDup (lastvals s).*1.

Lemma begin_block_vals_inv s hd : vals_inv s → vals_inv (begin_block s hd).1.
Proof.
  intros (Kw & Kb & Na & Nl). unfold begin_block.
  destruct (negb (h_height hd =? last_height s + 1)); [repeat split; assumption|].
  cbv zeta.
  set (l1 := gov_punish (work s) (g_slashRatio (gparams s)) (h_evidence hd)).
  set (l2 := stake_punish l1 (g_slashRatio (gparams s)) (h_evidence hd)).
  assert (K2 : dels_keyed l2).
  { apply stake_punish_dels_keyed. apply (dels_keyed_same (work s)); [apply gov_punish_dels|exact Kw]. }
  assert (Nall : NoDup (d_addr <$> sort_power (List.filter (λ d, min_power (gparams s) <=? d_self d)
                                     (snd <$> sorted_items (dels (base_of s)))))).
  { unfold sort_power. rewrite merge_sort_Permutation. apply NoDup_fmap_List_filter.
    rewrite (keyed_items_addrs _ Kb). apply NoDup_keys_sorted_items. }
  destruct (h_votes hd) as [|v votes]; simpl.
  { repeat split; assumption. }
  destruct (process_votes _ l2 (h_height hd) (v :: votes)) as [[l3 issued]| e | p] eqn:Ep; simpl.
  - split; [|repeat split; assumption]. eapply process_votes_dels_keyed; [exact K2|exact Ep].
  - repeat split; assumption.
  - repeat split; assumption.
Qed.

Lemma unfreeze_dels base l h l' : unfreeze base l h = Ok l' → dels l' = dels l.
Proof.
  unfold unfreeze. intros H.
  apply (foldl_res_inv (λ x : ledgers, dels x = dels l) _ _) in H; [exact H| |].
  - clear H. intros acc kp l2 Hacc Hstep.
    destruct acc as [l1| |]; try discriminate. specialize (Hacc _ eq_refl).
    destruct (s_refund kp.2 <=? h).
    + destruct (acct_reward l1 (s_from kp.2) (power_to_amount (s_power kp.2))) as [l3|] eqn:Er; [|discriminate].
      inversion Hstep; subst. simpl. unfold acct_reward in Er.
      destruct (accts l1 !! s_from kp.2) as [x|]; simpl in Er; [|discriminate].
      destruct (add_balance x _) as [x'|]; simpl in Er; [|discriminate].
      inversion Er; subst. exact Hacc.
    + inversion Hstep; subst. exact Hacc.
  - intros a Ha. inversion Ha; subst. reflexivity.
Qed.

Lemma end_block_vals_inv s : vals_inv s → vals_inv (end_block s).1.
Proof.
  intros (Kw & Kb & Na & Nl). unfold end_block.
  destruct (freeze_proposals (base_of s) (work s) (b_height (bctx s))) as [l1|e|e] eqn:Ef;
    [|repeat split; assumption..].
  destruct (apply_proposals s (base_of s) l1 (b_height (bctx s))) as [[l2 np]|e|e] eqn:Ea;
    [|repeat split; assumption..].
  destruct (freeze_proposals_spec _ _ _ _ Ef) as ((_ & D1 & _) & _).
  destruct (apply_proposals_spec _ _ _ _ _ _ Ea) as ((_ & D2 & _) & _).
  match goal with |- context [match ?x with Some l3 => _ | None => _ end] =>
    destruct x as [l3|] eqn:E3 end; [|repeat split; assumption].
  assert (D3 : dels l3 = dels l2).
  { destruct (b_proposer (bctx s)) as [pa|].
    - destruct (0 <? sign256 (b_feesum (bctx s))).
      + destruct (add_balance _ _) as [x|]; [|discriminate]. inversion E3; subst. reflexivity.
      + inversion E3; subst. reflexivity.
    - inversion E3; subst. reflexivity. }
  destruct (unfreeze (base_of s) l3 (b_height (bctx s))) as [l4|e|e] eqn:Eu; [|repeat split; assumption..].
  apply unfreeze_dels in Eu.
  destruct (g_maxValidatorCnt (gparams s) <? 0); [repeat split; assumption|].
  simpl. split; [|split; [exact Kb|split; [exact Na|]]].
  - apply (dels_keyed_same (work s)); [|exact Kw]. simpl. rewrite Eu, D3, D2, D1. reflexivity.
  - simpl. rewrite <- list_fmap_compose.
    change (fst ∘ (λ d : delegatee, (d_addr d, d_total d))) with d_addr.
    rewrite fmap_take. apply NoDup_take. exact Na.
Qed.

Lemma init_chain_dels_keyed g : dels_keyed (work (init_chain g)).
Proof.
  unfold init_chain. simpl.
  set (l2 := foldl (λ l v, (find_or_new l v.1).1) _ (gen_validators g)).
  assert (H2 : dels l2 = ∅).
  { unfold l2.
    assert (Ha : ∀ (hs : list (addr * Z)) l, dels (foldl (λ l h, set_acct l h.1 {| a_nonce := 0; a_bal := h.2; a_code := false; a_name := 0%N; a_doc := 0%N |}) l hs) = dels l).
    { induction hs as [|x hs IH]; intros l; simpl; [reflexivity|]. rewrite IH. reflexivity. }
    assert (Hb : ∀ (vs : list (addr * Z)) l, dels (foldl (λ l v, (find_or_new l v.1).1) l vs) = dels l).
    { induction vs as [|x vs IH]; intros l; simpl; [reflexivity|]. rewrite IH.
      unfold find_or_new. destruct (accts l !! x.1); reflexivity. }
    rewrite Hb, Ha. reflexivity. }
  assert (H3 : ∀ (vs : list (addr * Z)) l, dels_keyed l →
    dels_keyed (foldl (λ l v, set_dels l (<[v.1 := add_stake (new_delegatee v.1)
               {| s_from := v.1; s_to := v.1; s_hash := 0%N; s_start := 1; s_refund := 0; s_power := v.2 |}]> (dels l))) l vs)).
  { induction vs as [|x vs IH]; intros l H; simpl; [exact H|]. apply IH.
    apply dels_keyed_insert; [exact H|reflexivity]. }
  apply H3. intros a d. rewrite H2. intros Hx. rewrite lookup_empty in Hx. discriminate.
Qed.

(* in every state of every run the recorded validator set has pairwise distinct addresses *)
Theorem lastvals_nodup g ops : NoDup (lastvals (srun (init_chain g) ops)).*1.
Proof.
  unfold srun.
  assert (H : ∀ ops s, vals_inv s → vals_inv (foldl sstep s ops)).
  { induction ops0 as [|o ops0 IH]; intros s Hs; simpl; [exact Hs|]. apply IH.
    destruct o as [hd|t| |]; simpl.
    - apply begin_block_vals_inv. exact Hs.
    - destruct Hs as (Kw & Kb & Na & Nl).
      destruct (deliver s t) as [s' r] eqn:Hd.
      destruct (deliver_inv _ _ _ _ Hd) as ((C1 & C2 & C3 & C4 & C5 & _) & _). simpl.
      split; [|split; [|split]].
      + pose proof (deliver_dels_keyed s t Kw) as K. rewrite Hd in K. exact K.
      + rewrite (base_of_same _ _ C1 C2). exact Kb.
      + rewrite C4. exact Na.
      + rewrite C5. exact Nl.
    - apply end_block_vals_inv. exact Hs.
    - destruct Hs as (Kw & Kb & Na & Nl). split; [exact Kw|]. split; [|split; assumption].
      unfold base_of. simpl. rewrite last_snoc. exact Kw. }
  destruct (H ops (init_chain g)) as (_ & _ & _ & N); [|exact N].
  split; [apply init_chain_dels_keyed|]. split.
  - unfold base_of. change (committed (init_chain g)) with (@nil ledgers). simpl.
    intros a d Hx. simpl in Hx. rewrite lookup_empty in Hx. discriminate.
  - split; constructor.
Qed.
Print Assumptions lastvals_nodup.

(* G2 over runs: the voter table of a submitted proposal is exactly the current validator set with
   its powers, and the recorded total voting power is the sum of the recorded voters' powers *)
Theorem proposal_submission_voters g ops t s' gas :
  let s := srun (init_chain g) ops in
  deliver s t = (s', Ok gas) → t_type t = TRX_PROPOSAL →
  ∃ p, props (work s') !! t_hash t = Some p ∧
       (∀ a v, p_voters p !! a = Some v ↔ v_choice v = -1 ∧ (a, v_power v) ∈ lastvals s) ∧
       total_ok p ∧ maj_ok p ∧ tally_ok p ∧ p_major p = None.
Proof.
  simpl. intros Hd Ht.
  destruct (proposal_submission _ _ _ _ Hd Ht) as (_ & _ & st & pe & ap & ot & os & pk & Hpl & H).
  cbv zeta in H. destruct H as (Hp & _).
  pose proof (lastvals_nodup g ops) as Hnd.
  exists (new_proposal (lastvals (srun (init_chain g) ops)) (t_hash t) st pe ap ot os).
  split; [rewrite Hp; apply lookup_insert|].
  split; [|split; [apply new_proposal_total; exact Hnd|split; [reflexivity|split; [apply new_proposal_tally|reflexivity]]]].
  intros a v. split.
  - intros Hv. eapply new_proposal_voters_choice. exact Hv.
  - intros (Hc & Hin). destruct v as [pw c]. simpl in Hc, Hin. subst c.
    apply new_proposal_voters_in; assumption.
Qed.
Print Assumptions proposal_submission_voters.

(* ================================================================== 20. C15 end to end *)

(* pending parameters always stem from a frozen proposal that certifies a two-thirds decision *)
Definition pending_inv (s : state) : Prop :=
  ∀ m, newparams s = Some m →
  ∃ p o newp, frozen_ok p ∧ p_major p = Some o ∧ p_opttype p = PROPOSAL_GOVPARAMS ∧
              o_params o = Some newp ∧ m = merge_params (gparams s) newp.

Lemma pending_inv_step s o : gov_inv s → pending_inv s → pending_inv (sstep s o).
Proof.
  intros Hg Hp. destruct o as [hd|t| |]; simpl.
  - destruct (begin_block_params_unchanged s hd) as (A & B & _). unfold pending_inv. rewrite A, B. exact Hp.
  - destruct (deliver_params_unchanged s t) as (A & B & _). unfold pending_inv. rewrite A, B. exact Hp.
  - destruct (end_block_params s) as (A & _ & [(B & _)|(k & p & o & newp & Hk & _ & Ht & Hm & Ho & B & _)]).
    + unfold pending_inv. rewrite A, B. exact Hp.
    + intros m Hmm. rewrite B in Hmm. inversion Hmm; subst m. exists p, o, newp.
      destruct Hg as (_ & (_ & Bf)). rewrite A. repeat split; auto. exact (Bf k p Hk).
  - intros m Hm. simpl in Hm. discriminate.
Qed.

(* C15, end to end.  Whenever a Commit changes the active governance parameters, the new
   parameters are the field-wise merge of the old ones with the parameter document of the major
   option [o] of a frozen proposal [p]; [o] is an option of [p], no option of [p] has more votes,
   its votes are at least floor(2 * total / 3) of the proposal's recorded total power, and they are
   the summed recorded power of recorded voters (tally of the committed version at freezing). *)
Theorem c15_parameter_change g ops :
  let s := srun (init_chain g) ops in
  gparams (commit s) ≠ gparams s →
  ∃ p o newp,
    p_major p = Some o ∧ p_opttype p = PROPOSAL_GOVPARAMS ∧ o_params o = Some newp ∧
    gparams (commit s) = merge_params (gparams s) newp ∧
    o ∈ p_options p ∧ (∀ o', o' ∈ p_options p → o_votes o' ≤ o_votes o) ∧
    (p_total p * 2) `quot` 3 ≤ o_votes o ∧ (∃ i : Z, o_votes o = votes_for (p_voters p) i) ∧
    lparams (work s) = gparams (commit s).
Proof.
  simpl. unfold srun.
  assert (H : ∀ ops s, gov_inv s ∧ pending_inv s → gov_inv (foldl sstep s ops) ∧ pending_inv (foldl sstep s ops)).
  { induction ops0 as [|o ops0 IH]; intros s Hs; simpl; [exact Hs|]. apply IH. destruct Hs as (Hg & Hp).
    split; [apply gov_inv_step; exact Hg|apply pending_inv_step; assumption]. }
  destruct (H ops (init_chain g)) as (_ & Hp).
  { split.
    - destruct (init_chain_props g) as (P1 & P2). split.
      + split; [rewrite P1|rewrite P2]; apply map_Forall_empty.
      + unfold base_of. change (committed (init_chain g)) with (@nil ledgers). simpl.
        split; apply map_Forall_empty.
    - intros m Hm. discriminate Hm. }
  intros Hne.
  pose proof (active_params_are_stored g ops) as (_ & Hst). simpl in Hst. unfold srun in Hst.
  set (s := foldl sstep (init_chain g) ops) in *. clearbody s.
  destruct (newparams s) as [m|] eqn:En.
  2:{ exfalso. apply Hne. reflexivity. }
  destruct (Hp m En) as (p & o & newp & (o' & F1 & F2 & F3 & F4 & F5 & F6) & Hm & Ht & Ho & Hmm).
  assert (o' = o) by congruence. subst o'.
  exists p, o, newp. simpl. rewrite <- F5.
  repeat split; auto.
Qed.
Print Assumptions c15_parameter_change.

Print Assumptions deliver_params_unchanged.
Print Assumptions begin_block_params_unchanged.
Print Assumptions end_block_params.
Print Assumptions params_change_only_at_commit.
Print Assumptions only_gov_tx_touch_proposals.
Print Assumptions prop_vote_tally.
Print Assumptions prop_punish_tally.
Print Assumptions prop_punish_total.
Print Assumptions prop_punish_total_refuted.
Print Assumptions freeze_proposals_spec.
Print Assumptions apply_proposals_spec.
Print Assumptions sort_opts_spec.
Print Assumptions sort_opts_head.
Print Assumptions end_block_freeze.
Print Assumptions frozen_has_two_thirds.
Print Assumptions end_block_apply.
Print Assumptions merge_params_fields.
Print Assumptions proposal_submission_nowrap.
