(* InvGov.v — property C15: governance parameters change only through a validator's proposal,
   voted on by the validators recorded at submission, decided by two thirds of the recorded
   power, applied no earlier than the applying height, merged field-wise, and the active
   parameters equal the stored (queried) ones.  All statements are about the model of Spec.v. *)
From Rigo Require Import Base.
From stdpp Require Import gmap sorting.
From Rigo Require Import Spec SpecProps.
Local Open Scope Z_scope.

Local Opaque two256 two255 two64 two63.

(* ================================================================== 0. generic helpers *)

Lemma elem_of_sorted_items {A} (m : gmap N A) k x :
  (k, x) ∈ sorted_items m ↔ m !! k = Some x.
Proof.
  unfold sorted_items. rewrite merge_sort_Permutation. apply elem_of_map_to_list.
Qed.

(* the governance part of a ledger state *)
Definition gov_same (l l' : ledgers) : Prop :=
  props l' = props l ∧ fprops l' = fprops l ∧ lparams l' = lparams l.

Lemma gov_same_refl l : gov_same l l.
Proof. repeat split. Qed.
Lemma gov_same_trans l1 l2 l3 : gov_same l1 l2 → gov_same l2 l3 → gov_same l1 l3.
Proof. intros (A & B & C) (D & E & F). repeat split; congruence. Qed.

Lemma gov_same_set_acct l a x : gov_same l (set_acct l a x).
Proof. repeat split. Qed.
Lemma gov_same_set_dels l m : gov_same l (set_dels l m).
Proof. repeat split. Qed.
Lemma gov_same_set_frozen l m : gov_same l (set_frozen l m).
Proof. repeat split. Qed.
Lemma gov_same_set_rewards l m : gov_same l (set_rewards l m).
Proof. repeat split. Qed.

Lemma find_or_new_gov l a l' x : find_or_new l a = (l', x) → gov_same l l'.
Proof.
  unfold find_or_new. destruct (accts l !! a) as [y|] eqn:E; intros H; inversion H; subst.
  - apply gov_same_refl.
  - apply gov_same_set_acct.
Qed.

Lemma find_or_new_accts l a l' x b y :
  find_or_new l a = (l', x) → accts l !! b = Some y → accts l' !! b = Some y.
Proof.
  unfold find_or_new. destruct (accts l !! a) as [z|] eqn:E; intros H Hb; inversion H; subst; auto.
  simpl. destruct (decide (a = b)) as [->|Hne].
  - congruence.
  - rewrite lookup_insert_ne; auto.
Qed.

Lemma acct_reward_gov l a amt l' : acct_reward l a amt = Some l' → gov_same l l'.
Proof.
  unfold acct_reward. destruct (accts l !! a) as [x|]; simpl; [|discriminate].
  destruct (add_balance x amt) as [x'|]; simpl; [|discriminate].
  intros H; inversion H; subst. apply gov_same_set_acct.
Qed.

(* ================================================================== 1. executions that are not governance *)

Lemma stake_execute_gov s l t l' : stake_execute s l t = Ok l' → gov_same l l'.
Proof.
  unfold stake_execute. intros H.
  destruct (t_type t =? TRX_STAKING) eqn:E1.
  { destruct (match dels l !! t_to t with
              | Some d => Some d
              | None => if (t_from t =? t_to t)%N then Some (new_delegatee (t_from t)) else None end) as [d|];
      [|discriminate].
    destruct (accts l !! t_from t) as [sender|]; [|discriminate].
    destruct (sub_balance sender (t_amount t)) as [sender'|]; [|discriminate].
    inversion H; subst. repeat split. }
  destruct (t_type t =? TRX_UNSTAKING) eqn:E2.
  { destruct (dels l !! t_to t) as [d|]; [|discriminate].
    destruct (t_payload t) as [ | hs lok | | | | | ]; try discriminate.
    destruct (find_stake hs (d_stakes d)) as [s0|]; [|discriminate].
    destruct (negb (s_from s0 =? t_from t)%N); [discriminate|].
    destruct (if d_self (del_stake d hs) =? 0
              then let '(dx, ss) := del_all_stakes (del_stake d hs) in
                   (dx, freeze_all (<[s_hash s0:=with_refund (b_height (bctx s) + g_lazyRewardBlocks (gparams s)) s0]> (frozen l))
                          (b_height (bctx s) + g_lazyRewardBlocks (gparams s)) ss)
              else (del_stake d hs, <[s_hash s0:=with_refund (b_height (bctx s) + g_lazyRewardBlocks (gparams s)) s0]> (frozen l)))
      as [d2 fr2].
    destruct (d_total d2 =? 0); inversion H; subst; repeat split. }
  destruct (t_payload t) as [ | | req | | | | ]; try discriminate.
  destruct (rewards l !! t_from t) as [r|]; [|discriminate].
  destruct (r_height r >? b_height (bctx s)); [discriminate|].
  match type of H with context [acct_reward ?l1 ?a ?q] => destruct (acct_reward l1 a q) as [l2|] eqn:Er end;
    [|discriminate].
  inversion H; subst. apply acct_reward_gov in Er. destruct Er as (A & B & C). repeat split; assumption.
Qed.

Lemma acct_execute_gov l t l' : acct_execute l t = Ok l' → gov_same l l'.
Proof.
  unfold acct_execute. intros H.
  destruct (accts l !! t_from t) as [sender|]; [|discriminate].
  destruct (accts l !! t_to t) as [receiver|]; [|discriminate].
  destruct (t_type t =? TRX_TRANSFER).
  - destruct (sub_balance sender (t_amount t)) as [sender'|]; [|discriminate].
    destruct (add_balance (if (t_from t =? t_to t)%N then sender' else receiver) (t_amount t)) as [recv'|];
      [|discriminate].
    inversion H; subst. repeat split.
  - destruct (t_payload t); try discriminate. inversion H; subst. repeat split.
Qed.

Lemma evm_fold_gov (xs : list (addr * Z * Z)) l :
  gov_same l (foldl (λ l x, let '(a, bal, nonce) := x in
                  let old := default acct0 (accts l !! a) in
                  set_acct l a {| a_nonce := nonce; a_bal := bal; a_code := a_code old; a_name := a_name old; a_doc := a_doc old |})
                l xs).
Proof.
  revert l. induction xs as [|[[a bal] nonce] xs IH]; intros l; simpl.
  - apply gov_same_refl.
  - eapply gov_same_trans; [|apply IH]. apply gov_same_set_acct.
Qed.

Lemma evm_execute_gov l t l' g : evm_execute l t = Ok (l', g) → gov_same l l'.
Proof.
  unfold evm_execute. intros H.
  destruct (t_evm t) as [e|]; [|discriminate].
  destruct (negb (e_ok e)); [discriminate|].
  inversion H; subst. clear H.
  destruct (e_created e) as [c|].
  - eapply gov_same_trans; [apply evm_fold_gov|apply gov_same_set_acct].
  - apply evm_fold_gov.
Qed.

(* ================================================================== 2. governance execution *)

(* the proposal object execProposing stores *)
Definition new_proposal (vals : list (addr * Z)) (h : hash) (start period apply opttype : Z)
    (opts : list (N * option params)) : proposal :=
  {| p_hash := h; p_start := start; p_end := wrap64 (start + period); p_apply := apply;
     p_total := sumZ_with snd vals; p_majority := (sumZ_with snd vals * 2) `quot` 3;
     p_voters := list_to_map (map (λ v : addr * Z, (v.1, {| v_power := v.2; v_choice := -1 |})) vals);
     p_opttype := opttype;
     p_options := map (λ o : N * option params, {| o_id := o.1; o_params := o.2; o_votes := 0 |}) opts;
     p_major := None |}.

Definition is_gov (t : tx) : bool := (t_type t =? TRX_PROPOSAL) || (t_type t =? TRX_VOTING).

Lemma gov_execute_ext s s' l t : lastvals s' = lastvals s → gov_execute s' l t = gov_execute s l t.
Proof. intros H. unfold gov_execute. rewrite H. reflexivity. Qed.

Lemma gov_execute_proposal s l t l' :
  t_type t = TRX_PROPOSAL → gov_execute s l t = Ok l' →
  ∃ start period apply opttype opts pok,
    t_payload t = PProposal start period apply opttype opts pok ∧
    l' = set_props l (<[t_hash t := new_proposal (lastvals s) (t_hash t) start period apply opttype opts]> (props l)).
Proof.
  intros Ht. unfold gov_execute. rewrite Ht. simpl.
  destruct (t_payload t) as [ | | | start period apply opttype opts pok | | | ]; try discriminate.
  intros H; inversion H; subst. exists start, period, apply, opttype, opts, pok. split; reflexivity.
Qed.

Lemma gov_execute_voting s l t l' :
  t_type t ≠ TRX_PROPOSAL → gov_execute s l t = Ok l' →
  ∃ ph choice p p',
    t_payload t = PVoting ph choice ∧ props l !! ph = Some p ∧
    prop_vote p (t_from t) choice = Some p' ∧ l' = set_props l (<[ph := p']> (props l)).
Proof.
  intros Ht. unfold gov_execute. apply Z.eqb_neq in Ht. rewrite Ht.
  destruct (t_payload t) as [ | | | | ph choice | | ]; try discriminate.
  destruct (props l !! ph) as [p|] eqn:Ep; [|discriminate].
  destruct (prop_vote p (t_from t) choice) as [p'|] eqn:Ev; [|discriminate].
  intros H; inversion H; subst. exists ph, choice, p, p'. repeat split; auto.
Qed.

Lemma gov_execute_frame s l t l' :
  gov_execute s l t = Ok l' →
  accts l' = accts l ∧ fprops l' = fprops l ∧ lparams l' = lparams l.
Proof.
  intros H. destruct (decide (t_type t = TRX_PROPOSAL)) as [Ht|Ht].
  - destruct (gov_execute_proposal _ _ _ _ Ht H) as (?&?&?&?&?&?&_&->). repeat split.
  - destruct (gov_execute_voting _ _ _ _ Ht H) as (?&?&?&?&_&_&_&->). repeat split.
Qed.

(* what ValidateTrx of the governance controller reads from the state *)
Definition gov_view (s s1 : state) : Prop :=
  props (work s1) = props (work s) ∧ lastvals s1 = lastvals s ∧ gparams s1 = gparams s ∧
  b_height (bctx s1) = b_height (bctx s).

Lemma gov_validate_ext s s1 t : gov_view s s1 → gov_validate s1 t = gov_validate s t.
Proof.
  intros (A & B & C & D). unfold gov_validate, is_validator. rewrite A, B, C, D. reflexivity.
Qed.
