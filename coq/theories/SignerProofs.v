(* SignerProofs.v — C20: the model signer never double-signs, over every sequence of requests,
   lost answers (crash after the state was saved) and reloads. *)
From Rigo Require Import Base Signer.

Local Ltac bool_to_prop :=
  repeat match goal with
  | H : _ && _ = true |- _ => apply andb_true_iff in H; destruct H
  | H : _ || _ = true |- _ => apply orb_true_iff in H
  | H : (_ =? _) = true |- _ => apply Z.eqb_eq in H
  | H : (_ <? _) = true |- _ => apply Z.ltb_lt in H
  | H : (_ <=? _) = true |- _ => apply Z.leb_le in H
  | H : (_ =? _) = false |- _ => apply Z.eqb_neq in H
  | H : (_ <? _) = false |- _ => apply Z.ltb_ge in H
  end.

(* lexicographic order on (height, round, step), as Props over Z so that lia decides it *)
Definition t_lt (h1 r1 s1 h2 r2 s2 : Z) : Prop :=
  h1 < h2 \/ (h1 = h2 /\ (r1 < r2 \/ (r1 = r2 /\ s1 < s2))).
Definition t_eq (h1 r1 s1 h2 r2 s2 : Z) : Prop := h1 = h2 /\ r1 = r2 /\ s1 = s2.
Definition t_le (h1 r1 s1 h2 r2 s2 : Z) : Prop :=
  t_lt h1 r1 s1 h2 r2 s2 \/ t_eq h1 r1 s1 h2 r2 s2.

Lemma hrs_leb_iff a b :
  hrs_leb a b = true <-> t_le (rl_h a) (rl_r a) (rl_step a) (rl_h b) (rl_r b) (rl_step b).
Proof.
  unfold hrs_leb, t_le, t_lt, t_eq.
  rewrite !orb_true_iff, !andb_true_iff, !orb_true_iff, !andb_true_iff,
          !Z.ltb_lt, !Z.eqb_eq, Z.leb_le. lia.
Qed.

Lemma hrs_eqb_iff a b :
  hrs_eqb a b = true <-> t_eq (rl_h a) (rl_r a) (rl_step a) (rl_h b) (rl_r b) (rl_step b).
Proof.
  unfold hrs_eqb, t_eq. rewrite !andb_true_iff, !Z.eqb_eq. tauto.
Qed.

Lemma same_msg_iff a b :
  same_msg a b = true <-> rl_content a = rl_content b /\ rl_ts a = rl_ts b.
Proof. unfold same_msg. rewrite andb_true_iff, !Z.eqb_eq. tauto. Qed.

(* what check_hrs decides, as Props *)
Lemma check_hrs_fresh l h r s :
  check_hrs l h r s = inr false -> t_lt (l_h l) (l_r l) (l_step l) h r s.
Proof.
  unfold check_hrs, t_lt; intros H.
  destruct (h <? l_h l) eqn:E1; [discriminate|].
  destruct (h =? l_h l) eqn:E2; bool_to_prop; [|lia].
  destruct (r <? l_r l) eqn:E3; [discriminate|].
  destruct (r =? l_r l) eqn:E4; bool_to_prop; [|lia].
  destruct (s <? l_step l) eqn:E5; [discriminate|].
  destruct (s =? l_step l) eqn:E6; bool_to_prop; [|lia].
  destruct (l_sb l); discriminate.
Qed.

Lemma check_hrs_same l h r s :
  check_hrs l h r s = inr true ->
  t_eq (l_h l) (l_r l) (l_step l) h r s /\ exists m, l_sb l = Some m.
Proof.
  unfold check_hrs, t_eq; intros H.
  destruct (h <? l_h l) eqn:E1; [discriminate|].
  destruct (h =? l_h l) eqn:E2; bool_to_prop; [|discriminate].
  destruct (r <? l_r l) eqn:E3; [discriminate|].
  destruct (r =? l_r l) eqn:E4; bool_to_prop; [|discriminate].
  destruct (s <? l_step l) eqn:E5; [discriminate|].
  destruct (s =? l_step l) eqn:E6; bool_to_prop; [|discriminate].
  destruct (l_sb l) as [m|]; [|discriminate].
  split; [lia | eauto].
Qed.

(* released signatures of a run that starts in state p *)
Definition rel_from (p : pv) (ops : list sop) : list released :=
  released_of ops (fst (fst (srun p ops))).

(* e is at or after the state's HRS; if at it, it carries the stored message *)
Definition after (l : lss) (e : released) : Prop :=
  t_le (l_h l) (l_r l) (l_step l) (rl_h e) (rl_r e) (rl_step e) /\
  (t_eq (l_h l) (l_r l) (l_step l) (rl_h e) (rl_r e) (rl_step e) ->
   exists m, l_sb l = Some m /\ rl_content e = sb_content m /\ rl_ts e = sb_ts m).

Definition wf_sb (l : lss) : Prop :=
  forall m, l_sb l = Some m -> sb_h m = l_h l /\ sb_r m = l_r l /\ sb_step m = l_step l.

Lemma reload_id p : vol p = dur p -> reload p = p.
Proof. destruct p as [v d]; unfold reload; simpl; intros ->; reflexivity. Qed.

Lemma sign_sync p q : vol p = dur p -> vol (fst (sign p q)) = dur (fst (sign p q)).
Proof.
  intros Hs. unfold sign.
  destruct (check_hrs (vol p) (q_h q) (q_r q) (q_step q)) as [e|[|]]; simpl; auto.
  destruct (l_sb (vol p)) as [last|]; simpl; auto.
  destruct (signbytes_eqb (req_sb q) last); simpl; auto.
  destruct (only_differ_by_ts last (req_sb q)); simpl; auto.
Qed.

Lemma sign_wf p q : wf_sb (vol p) -> wf_sb (vol (fst (sign p q))).
Proof.
  intros Hw. unfold sign.
  destruct (check_hrs (vol p) (q_h q) (q_r q) (q_step q)) as [e|[|]]; simpl; auto.
  - destruct (l_sb (vol p)) as [last|]; simpl; auto.
    destruct (signbytes_eqb (req_sb q) last); simpl; auto.
    destruct (only_differ_by_ts last (req_sb q)); simpl; auto.
  - intros m Hm; simpl in Hm; injection Hm as <-; simpl; auto.
Qed.

(* the state only moves forward *)
Lemma sign_forward p q :
  let l := vol p in let l' := vol (fst (sign p q)) in
  l' = l \/ t_lt (l_h l) (l_r l) (l_step l) (l_h l') (l_r l') (l_step l').
Proof.
  unfold sign.
  destruct (check_hrs (vol p) (q_h q) (q_r q) (q_step q)) as [e|[|]] eqn:Hc; simpl; auto.
  - destruct (l_sb (vol p)) as [last|]; simpl; auto.
    destruct (signbytes_eqb (req_sb q) last); simpl; auto.
    destruct (only_differ_by_ts last (req_sb q)); simpl; auto.
  - right. apply check_hrs_fresh in Hc. exact Hc.
Qed.

Lemma after_weaken l l' e :
  t_lt (l_h l) (l_r l) (l_step l) (l_h l') (l_r l') (l_step l') -> after l' e -> after l e.
Proof.
  unfold after, t_le, t_lt, t_eq; intros Hlt [Hle Heq]; split; [lia|].
  intros Hc; exfalso; lia.
Qed.

Lemma rel_from_cons_req p q ops :
  rel_from p (SReq q :: ops) =
  match snd (sign p q) with
  | RFresh m | RReplay m =>
      {| rl_h := q_h q; rl_r := q_r q; rl_step := q_step q; rl_content := q_content q; rl_ts := sb_ts m |}
        :: rel_from (fst (sign p q)) ops
  | RErr _ => rel_from (fst (sign p q)) ops
  end.
Proof.
  unfold rel_from; simpl. destruct (sign p q) as [p' r]; simpl.
  destruct (srun p' ops) as [[outs evs] pf]; simpl.
  destruct r; reflexivity.
Qed.

Lemma rel_from_cons_lost p q ops :
  rel_from p (SReqLost q :: ops) = rel_from (reload (fst (sign p q))) ops.
Proof.
  unfold rel_from; simpl. destruct (sign p q) as [p' r]; simpl.
  destruct (srun (reload p') ops) as [[outs evs] pf]; reflexivity.
Qed.

Lemma rel_from_cons_fail p q ops :
  rel_from p (SReqFail q :: ops) = rel_from (reload p) ops.
Proof.
  unfold rel_from; simpl.
  destruct (srun (reload p) ops) as [[outs evs] pf]; reflexivity.
Qed.

Lemma rel_from_cons_reload p ops :
  rel_from p (SReload :: ops) = rel_from (reload p) ops.
Proof.
  unfold rel_from; simpl.
  destruct (srun (reload p) ops) as [[outs evs] pf]; reflexivity.
Qed.

(* head element that is at the state's HRS with the stored message, in front of a list of
   elements all `after` the state: the list stays free of double signs and monotone *)
Lemma cons_ok l e rest :
  (forall x, In x rest -> after l x) ->
  t_eq (l_h l) (l_r l) (l_step l) (rl_h e) (rl_r e) (rl_step e) ->
  (exists m, l_sb l = Some m /\ rl_content e = sb_content m /\ rl_ts e = sb_ts m) ->
  no_double_sign rest = true -> hrs_monotone rest = true ->
  no_double_sign (e :: rest) = true /\ hrs_monotone (e :: rest) = true.
Proof.
  intros Haft Heq (m & Hm & Hc & Ht) Hnd Hmono; split.
  - simpl. apply andb_true_iff; split; [|exact Hnd].
    apply forallb_forall; intros b Hb.
    destruct (hrs_eqb e b) eqn:Eeb; simpl; [|reflexivity].
    apply hrs_eqb_iff in Eeb. apply same_msg_iff.
    destruct (Haft b Hb) as [_ Hsame].
    destruct Hsame as (m' & Hm' & Hc' & Ht').
    { unfold t_eq in *; lia. }
    rewrite Hm in Hm'; injection Hm' as <-. split; congruence.
  - destruct rest as [|b rest']; [reflexivity|].
    change (hrs_leb e b && hrs_monotone (b :: rest') = true).
    apply andb_true_iff; split; [|exact Hmono].
    apply hrs_leb_iff. destruct (Haft b (or_introl eq_refl)) as [Hle _].
    unfold t_le, t_lt, t_eq in *; lia.
Qed.

(* replay case of a released request, shared by the two ways a request can match *)
Lemma replay_ok p q ops m0 :
  t_eq (l_h (vol p)) (l_r (vol p)) (l_step (vol p)) (q_h q) (q_r q) (q_step q) ->
  l_sb (vol p) = Some m0 -> q_content q = sb_content m0 ->
  no_double_sign (rel_from p ops) = true -> hrs_monotone (rel_from p ops) = true ->
  (forall e, In e (rel_from p ops) -> after (vol p) e) ->
  let e0 := {| rl_h := q_h q; rl_r := q_r q; rl_step := q_step q;
               rl_content := q_content q; rl_ts := sb_ts m0 |} in
  no_double_sign (e0 :: rel_from p ops) = true /\ hrs_monotone (e0 :: rel_from p ops) = true /\
  (forall e, In e (e0 :: rel_from p ops) -> after (vol p) e).
Proof.
  intros Heq Hm0 Hcont Hnd Hmono Haft e0.
  assert (Hex : exists m, l_sb (vol p) = Some m /\ rl_content e0 = sb_content m /\ rl_ts e0 = sb_ts m)
    by (exists m0; simpl; auto).
  destruct (cons_ok (vol p) e0 (rel_from p ops) Haft Heq Hex Hnd Hmono) as [A B].
  split; [exact A|]. split; [exact B|].
  intros e [<-|Hin]; [|apply Haft; exact Hin].
  split; [unfold t_le; right; exact Heq | intros _; exact Hex].
Qed.

Lemma main_inv ops : forall p,
  vol p = dur p -> wf_sb (vol p) ->
  no_double_sign (rel_from p ops) = true /\ hrs_monotone (rel_from p ops) = true /\
  (forall e, In e (rel_from p ops) -> after (vol p) e).
Proof.
  induction ops as [|o ops IH]; intros p Hsync Hwf.
  - unfold rel_from; simpl. split; [reflexivity|]. split; [reflexivity|]. intros e [].
  - destruct o as [q|q|q|].
    + (* SReq *)
      rewrite rel_from_cons_req.
      pose proof (sign_sync p q Hsync) as Hsync'.
      pose proof (sign_wf p q Hwf) as Hwf'.
      destruct (IH _ Hsync' Hwf') as (Hnd & Hmono & Haft).
      unfold sign in *.
      destruct (check_hrs (vol p) (q_h q) (q_r q) (q_step q)) as [er|[|]] eqn:Hc.
      * simpl in *. auto.
      * apply check_hrs_same in Hc. destruct Hc as [Heq [m0 Hm0]].
        rewrite Hm0 in *.
        destruct (signbytes_eqb (req_sb q) m0) eqn:Eeq; simpl in *.
        { unfold signbytes_eqb in Eeq; simpl in Eeq; bool_to_prop.
          apply replay_ok; auto. }
        destruct (only_differ_by_ts m0 (req_sb q)) eqn:Eod; simpl in *.
        { unfold only_differ_by_ts in Eod; simpl in Eod; bool_to_prop.
          apply replay_ok; auto. }
        auto.
      * (* fresh *)
        simpl in *. apply check_hrs_fresh in Hc.
        set (l' := {| l_h := q_h q; l_r := q_r q; l_step := q_step q; l_sb := Some (req_sb q) |}) in *.
        set (e0 := {| rl_h := q_h q; rl_r := q_r q; rl_step := q_step q;
                      rl_content := q_content q; rl_ts := q_ts q |}).
        assert (Heq : t_eq (l_h l') (l_r l') (l_step l') (rl_h e0) (rl_r e0) (rl_step e0))
          by (unfold t_eq; simpl; auto).
        assert (Hex : exists m, l_sb l' = Some m /\ rl_content e0 = sb_content m /\ rl_ts e0 = sb_ts m)
          by (exists (req_sb q); simpl; auto).
        destruct (cons_ok l' e0 _ Haft Heq Hex Hnd Hmono) as [A B].
        split; [exact A|]. split; [exact B|].
        intros e [<-|Hin].
        -- split; [unfold t_le; left; exact Hc|].
           intros Hc'. exfalso. simpl in Hc'. unfold t_lt, t_eq in *; lia.
        -- destruct (Haft e Hin) as [Hle _]. simpl in Hle.
           split; [unfold t_le, t_lt, t_eq in *; lia|].
           intros Hc'. exfalso. unfold t_le, t_lt, t_eq in *; lia.
    + (* SReqLost *)
      rewrite rel_from_cons_lost.
      pose proof (sign_sync p q Hsync) as Hsync'.
      pose proof (sign_wf p q Hwf) as Hwf'.
      rewrite (reload_id _ Hsync').
      destruct (IH _ Hsync' Hwf') as (Hnd & Hmono & Haft).
      split; [exact Hnd|]. split; [exact Hmono|].
      intros e Hin.
      destruct (sign_forward p q) as [Heq|Hlt].
      * rewrite <- Heq. apply Haft; assumption.
      * apply (after_weaken _ _ _ Hlt). apply Haft; assumption.
    + (* SReqFail *)
      rewrite rel_from_cons_fail, (reload_id _ Hsync). apply IH; assumption.
    + (* SReload *)
      rewrite rel_from_cons_reload, (reload_id _ Hsync). apply IH; assumption.
Qed.

Theorem signer_never_double_signs : forall ops, P_C20 ops (souts ops) = true.
Proof.
  intros ops. unfold P_C20, souts.
  assert (Hw : wf_sb (vol pv0)) by (intros m Hm; discriminate).
  destruct (main_inv ops pv0 eq_refl Hw) as (A & B & _).
  unfold rel_from in A, B. rewrite A, B. reflexivity.
Qed.

(* durable = volatile after every operation: the record is on disk before an answer leaves *)
Theorem signer_state_durable : forall ops, let p := snd (srun pv0 ops) in vol p = dur p.
Proof.
  intros ops. cbv zeta.
  assert (G : forall ops p, vol p = dur p -> vol (snd (srun p ops)) = dur (snd (srun p ops))).
  { clear ops. induction ops as [|o ops IH]; intros p Hs; simpl; auto.
    destruct o as [q|q|q|]; simpl.
    - pose proof (sign_sync p q Hs) as Hs'. destruct (sign p q) as [p' r]; simpl in *.
      specialize (IH p' Hs'). destruct (srun p' ops) as [[a b] c]; simpl in *; exact IH.
    - pose proof (sign_sync p q Hs) as Hs'. destruct (sign p q) as [p' r]; simpl in *.
      assert (Hr : vol (reload p') = dur (reload p')) by reflexivity.
      specialize (IH _ Hr). destruct (srun (reload p') ops) as [[a b] c]; simpl in *; exact IH.
    - assert (Hr : vol (reload p) = dur (reload p)) by reflexivity.
      specialize (IH _ Hr). destruct (srun (reload p) ops) as [[a b] c]; simpl in *; exact IH.
    - assert (Hr : vol (reload p) = dur (reload p)) by reflexivity.
      specialize (IH _ Hr). destruct (srun (reload p) ops) as [[a b] c]; simpl in *; exact IH. }
  apply G; reflexivity.
Qed.

(* a repeated request (same HRS and content, any timestamp) right after a successful one gets
   the original signature, i.e. the original timestamp *)
Theorem signer_replays_original : forall p q q' m,
  snd (sign p q) = RFresh m \/ snd (sign p q) = RReplay m ->
  wf_sb (vol p) ->
  q_h q' = q_h q -> q_r q' = q_r q -> q_step q' = q_step q -> q_content q' = q_content q ->
  snd (sign (fst (sign p q)) q') = RReplay m.
Proof.
  intros p q q' m Hres Hwf Hh Hr Hs Hc.
  assert (Hst : l_sb (vol (fst (sign p q))) = Some m /\
                l_h (vol (fst (sign p q))) = q_h q /\ l_r (vol (fst (sign p q))) = q_r q /\
                l_step (vol (fst (sign p q))) = q_step q /\ sb_content m = q_content q /\
                sb_h m = q_h q /\ sb_r m = q_r q /\ sb_step m = q_step q).
  { unfold sign in *.
    destruct (check_hrs (vol p) (q_h q) (q_r q) (q_step q)) as [e|[|]] eqn:Hchk; simpl in *.
    - destruct Hres; discriminate.
    - apply check_hrs_same in Hchk. destruct Hchk as [Heq [m0 Hm0]]. rewrite Hm0 in *.
      destruct (Hwf m0 Hm0) as (W1 & W2 & W3).
      destruct (signbytes_eqb (req_sb q) m0) eqn:E1; simpl in *.
      + destruct Hres as [Hres|Hres]; [discriminate|]. injection Hres as <-.
        unfold signbytes_eqb in E1; simpl in E1; bool_to_prop. unfold t_eq in Heq. repeat split; auto; lia.
      + destruct (only_differ_by_ts m0 (req_sb q)) eqn:E2; simpl in *.
        * destruct Hres as [Hres|Hres]; [discriminate|]. injection Hres as <-.
          unfold only_differ_by_ts in E2; simpl in E2; bool_to_prop. unfold t_eq in Heq. repeat split; auto; lia.
        * destruct Hres; discriminate.
    - destruct Hres as [Hres|Hres]; [|discriminate]. injection Hres as <-. simpl. repeat split; auto. }
  destruct Hst as (Hsb & Lh & Lr & Ls & Mc & Mh & Mr & Ms).
  unfold sign at 1.
  assert (Hchk : check_hrs (vol (fst (sign p q))) (q_h q') (q_r q') (q_step q') = inr true).
  { unfold check_hrs. rewrite Lh, Lr, Ls, Hh, Hr, Hs, Hsb.
    rewrite !Z.ltb_irrefl, !Z.eqb_refl. reflexivity. }
  rewrite Hchk, Hsb.
  destruct (signbytes_eqb (req_sb q') m); [reflexivity|].
  assert (Hod : only_differ_by_ts m (req_sb q') = true).
  { unfold only_differ_by_ts; simpl. rewrite Mh, Mr, Ms, Mc, Hh, Hr, Hs, Hc, !Z.eqb_refl. reflexivity. }
  rewrite Hod. reflexivity.
Qed.

(* non-vacuity: a concrete run with a fresh signature, a timestamp-only repeat, a conflict,
   a regression, a lost answer and a reload *)
Example signer_example :
  souts [ SReq {| q_h := 5; q_r := 0; q_step := 2; q_content := 7; q_ts := 100 |};
          SReq {| q_h := 5; q_r := 0; q_step := 2; q_content := 7; q_ts := 200 |};
          SReq {| q_h := 5; q_r := 0; q_step := 2; q_content := 8; q_ts := 200 |};
          SReq {| q_h := 4; q_r := 9; q_step := 3; q_content := 7; q_ts := 300 |};
          SReqLost {| q_h := 5; q_r := 0; q_step := 3; q_content := 9; q_ts := 400 |};
          SReload;
          SReq {| q_h := 5; q_r := 0; q_step := 3; q_content := 1; q_ts := 500 |};
          SReq {| q_h := 5; q_r := 0; q_step := 3; q_content := 9; q_ts := 600 |} ]
  = [ OSigned 100; OSigned 100; OErr EConflict; OErr EHeight; ONone; ONone; OErr EConflict; OSigned 400 ].
Proof. vm_compute. reflexivity. Qed.

(* ---- the third clause: a repeated request is answered with the original signature ---- *)
Definition resign_inv (p : pv) (last : option released) : Prop :=
  match last with
  | None => True
  | Some a =>
      l_h (vol p) = rl_h a /\ l_r (vol p) = rl_r a /\ l_step (vol p) = rl_step a /\
      exists m, l_sb (vol p) = Some m /\ sb_h m = rl_h a /\ sb_r m = rl_r a /\ sb_step m = rl_step a /\
                sb_content m = rl_content a /\ sb_ts m = rl_ts a
  end.

Lemma same_request_iff a q :
  same_request a q = true <-> rl_h a = q_h q /\ rl_r a = q_r q /\ rl_step a = q_step q /\ rl_content a = q_content q.
Proof.
  unfold same_request. rewrite !andb_true_iff, !Z.eqb_eq. tauto.
Qed.

Lemma resign_main ops : forall p last,
  vol p = dur p -> resign_inv p last -> resign_ok last ops (fst (fst (srun p ops))) = true.
Proof.
  induction ops as [|o ops IH]; intros p last Hs Hi; [reflexivity|].
  cbn [srun]. destruct (sstep p o) as [[p' out] ev] eqn:Est.
  destruct (srun p' ops) as [[outs evs] pf] eqn:Er. cbn [fst].
  assert (Houts : outs = fst (fst (srun p' ops))) by (rewrite Er; reflexivity).
  destruct o as [q|q|q|]; cbn [sstep] in Est.
  - (* SReq *)
    destruct (sign p q) as [p1 r] eqn:Esg. inversion Est; subst p' out ev; clear Est.
    cbn [resign_ok]. apply andb_true_iff. 
    pose proof (sign_sync p q Hs) as Hs1. rewrite Esg in Hs1. cbn [fst] in Hs1.
    unfold sign in Esg.
    destruct (check_hrs (vol p) (q_h q) (q_r q) (q_step q)) as [e|[|]] eqn:Ech.
    + (* refused by the HRS check *)
      inversion Esg; subst p1 r; clear Esg. split.
      * destruct last as [a|]; [|reflexivity]. destruct (same_request a q) eqn:Esr; [|reflexivity]. exfalso.
        apply same_request_iff in Esr as (E1 & E2 & E3 & _). destruct Hi as (H1 & H2 & H3 & m & Hm & _).
        unfold check_hrs in Ech. rewrite H1, H2, H3, E1, E2, E3, Hm in Ech.
        rewrite !Z.ltb_irrefl, !Z.eqb_refl in Ech. discriminate.
      * rewrite Houts. apply IH; assumption.
    + (* same HRS as the stored one *)
      destruct (check_hrs_same _ _ _ _ Ech) as ((T1 & T2 & T3) & m0 & Hm0).
      rewrite Hm0 in Esg.
      assert (Hrep : forall a, last = Some a -> same_request a q = true ->
                only_differ_by_ts m0 (req_sb q) = true /\ sb_ts m0 = rl_ts a).
      { intros a -> Esr. apply same_request_iff in Esr as (E1 & E2 & E3 & E4).
        destruct Hi as (H1 & H2 & H3 & m & Hm & M1 & M2 & M3 & M4 & M5).
        rewrite Hm0 in Hm. inversion Hm; subst m. split; [|exact M5].
        unfold only_differ_by_ts, req_sb. cbn. rewrite M1, M2, M3, M4, E1, E2, E3, E4, !Z.eqb_refl. reflexivity. }
      destruct (signbytes_eqb (req_sb q) m0) eqn:Eeq.
      * inversion Esg; subst p1 r; clear Esg. split.
        -- destruct last as [a|]; [|reflexivity]. destruct (same_request a q) eqn:Esr; [|reflexivity].
           destruct (Hrep a eq_refl Esr) as (_ & Hts). apply Z.eqb_eq. exact Hts.
        -- rewrite Houts. apply IH; [exact Hs|].
           unfold signbytes_eqb, req_sb in Eeq. cbn in Eeq. bool_to_prop.
           cbn. repeat split; try lia. exists m0. repeat split; try assumption; lia.
      * destruct (only_differ_by_ts m0 (req_sb q)) eqn:Eod.
        -- inversion Esg; subst p1 r; clear Esg. split.
           ++ destruct last as [a|]; [|reflexivity]. destruct (same_request a q) eqn:Esr; [|reflexivity].
              destruct (Hrep a eq_refl Esr) as (_ & Hts). apply Z.eqb_eq. exact Hts.
           ++ rewrite Houts. apply IH; [exact Hs|].
              unfold only_differ_by_ts, req_sb in Eod. cbn in Eod. bool_to_prop.
              cbn. repeat split; try lia. exists m0. repeat split; try assumption; lia.
        -- inversion Esg; subst p1 r; clear Esg. split.
           ++ destruct last as [a|]; [|reflexivity]. destruct (same_request a q) eqn:Esr; [|reflexivity].
              destruct (Hrep a eq_refl Esr) as (Hod & _). congruence.
           ++ rewrite Houts. apply IH; assumption.
    + (* strictly newer: a fresh signature *)
      inversion Esg; subst p1 r; clear Esg. split.
      * destruct last as [a|]; [|reflexivity]. destruct (same_request a q) eqn:Esr; [|reflexivity]. exfalso.
        apply same_request_iff in Esr as (E1 & E2 & E3 & _). destruct Hi as (H1 & H2 & H3 & _).
        pose proof (check_hrs_fresh _ _ _ _ Ech) as T. unfold t_lt in T. lia.
      * rewrite Houts. apply IH; [reflexivity|].
        cbn. repeat split. exists (req_sb q). cbn. repeat split.
  - (* SReqLost *)
    destruct (sign p q) as [p1 r] eqn:Esg. inversion Est; subst p' out ev; clear Est.
    cbn [resign_ok]. rewrite Houts. apply IH; [reflexivity|exact I].
  - (* SReqFail *)
    inversion Est; subst p' out ev; clear Est.
    cbn [resign_ok]. rewrite Houts. apply IH; [reflexivity|exact I].
  - (* SReload *)
    inversion Est; subst p' out ev; clear Est.
    cbn [resign_ok]. rewrite Houts. rewrite (reload_id p Hs). apply IH; assumption.
Qed.

Theorem signer_resigns_original : forall ops, P_C20_resign ops (souts ops) = true.
Proof.
  intros ops. unfold P_C20_resign, souts. apply resign_main; [reflexivity|exact I].
Qed.
