(* Rlp.v — RLP encoding exactly as go-ethereum v1.10.23 rlp/encode.go emits it,
   with injectivity and prefix-freeness.

   Bytes are Coq.Init.Byte.byte, so "every byte < 256" holds by construction.
   Lengths are unbounded nat in the model.  go-ethereum stores sizes in uint64 and
   (rlp/encbuffer.go puthead / putint) writes at most 8 length bytes, so the header
   byte 0xb7+lenlen / 0xf7+lenlen never exceeds 0xbf / 0xff.  In the model that is the
   explicit hypothesis [item_ok a] : the encoding of [a] is shorter than 2^64 bytes
   (a Go slice can not be longer than 2^63-1 anyway). *)
From Coq Require Import List NArith ZArith Lia Bool.
From Coq Require Import Strings.Byte.
From Coq Require Import ZifyN ZifyNat ZifyBool.
Import ListNotations.
Local Open Scope N_scope.

#[local] Ltac Zify.zify_post_hook ::= Z.div_mod_to_equations.

(* ------------------------------------------------------------------ *)
(** * Bytes *)

Definition byte : Set := Coq.Init.Byte.byte.

Definition b2n (b : byte) : N := Byte.to_N b.
Definition n2b (n : N) : byte :=
  match Byte.of_N (n mod 256) with Some b => b | None => x00 end.

Arguments b2n : simpl never.
Arguments n2b : simpl never.

Lemma b2n_lt (b : byte) : b2n b < 256.
Proof. unfold b2n. pose proof (Byte.to_N_bounded b) as Hb. lia. Qed.

Lemma b2n_n2b_mod (n : N) : b2n (n2b n) = n mod 256.
Proof.
  unfold b2n, n2b.
  destruct (Byte.of_N (n mod 256)) as [b|] eqn:E.
  - apply Byte.to_of_N in E. exact E.
  - apply Byte.of_N_None_iff in E.
    pose proof (N.mod_upper_bound n 256) as Hm. lia.
Qed.

Lemma b2n_n2b (n : N) : n < 256 -> b2n (n2b n) = n.
Proof. intros Hn. rewrite b2n_n2b_mod. apply N.mod_small. exact Hn. Qed.

Lemma n2b_b2n (b : byte) : n2b (b2n b) = b.
Proof.
  unfold n2b, b2n.
  pose proof (Byte.to_N_bounded b) as Hb.
  rewrite N.mod_small by lia.
  rewrite Byte.of_to_N. reflexivity.
Qed.

Lemma b2n_inj (a b : byte) : b2n a = b2n b -> a = b.
Proof. intros H. rewrite <- (n2b_b2n a), <- (n2b_b2n b), H. reflexivity. Qed.

Lemma n2b_inj (a b : N) : a < 256 -> b < 256 -> n2b a = n2b b -> a = b.
Proof.
  intros Ha Hb H. apply (f_equal b2n) in H.
  rewrite !b2n_n2b in H by assumption. exact H.
Qed.

(* ------------------------------------------------------------------ *)
(** * List helpers *)

Lemma app_inj_len {A} (l1 l2 r1 r2 : list A) :
  length l1 = length l2 -> l1 ++ r1 = l2 ++ r2 -> l1 = l2 /\ r1 = r2.
Proof.
  revert l2. induction l1 as [|x l1 IH]; intros [|y l2] Hlen Heq; cbn in *;
    try discriminate.
  - split; [reflexivity | exact Heq].
  - injection Heq as Hxy Heq. injection Hlen as Hlen.
    destruct (IH l2 Hlen Heq) as [H1 H2]. subst. split; reflexivity.
Qed.

(* ------------------------------------------------------------------ *)
(** * Big-endian minimal byte strings (uint64 / uint256 / length fields) *)

(* little-endian digits base 256, no trailing zero; [fuel] = number of bits of n *)
Fixpoint le_aux (fuel : nat) (n : N) : list byte :=
  match fuel with
  | O => []
  | S f => if n =? 0 then [] else n2b (n mod 256) :: le_aux f (n / 256)
  end.

Definition le_bytes (n : N) : list byte := le_aux (N.to_nat (N.size n)) n.

(* big-endian, minimal: 0 -> [] ; this is uint256.Int.Bytes(), big.Int.Bytes()
   and the byte string go-ethereum's rlp writes for an unsigned integer. *)
Definition be_bytes (n : N) : list byte := rev (le_bytes n).

Fixpoint le_val (l : list byte) : N :=
  match l with [] => 0 | b :: r => b2n b + 256 * le_val r end.

Definition be_val (l : list byte) : N := le_val (rev l).

Lemma le_aux_val (fuel : nat) :
  forall n, n < 2 ^ N.of_nat fuel -> le_val (le_aux fuel n) = n.
Proof.
  induction fuel as [|f IH]; intros n Hn.
  - cbn in Hn. cbn [le_aux le_val]. lia.
  - cbn [le_aux]. destruct (N.eqb_spec n 0) as [Hz|Hz].
    + cbn [le_val]. lia.
    + cbn [le_val]. rewrite b2n_n2b_mod.
      rewrite Nat2N.inj_succ, N.pow_succ_r' in Hn.
      rewrite IH.
      * rewrite N.mod_mod by lia.
        pose proof (N.div_mod n 256) as Hdm. lia.
      * remember (2 ^ N.of_nat f) as p eqn:Hp. clear Hp IH. lia.
Qed.

Lemma le_val_le_bytes (n : N) : le_val (le_bytes n) = n.
Proof.
  unfold le_bytes. apply le_aux_val.
  rewrite N2Nat.id. apply N.size_gt.
Qed.

Lemma be_val_be_bytes (n : N) : be_val (be_bytes n) = n.
Proof. unfold be_val, be_bytes. rewrite rev_involutive. apply le_val_le_bytes. Qed.

Theorem be_bytes_inj (a b : N) : be_bytes a = be_bytes b -> a = b.
Proof.
  intros H. rewrite <- (be_val_be_bytes a), <- (be_val_be_bytes b), H. reflexivity.
Qed.

Lemma be_bytes_nil (n : N) : be_bytes n = [] -> n = 0.
Proof. intros H. rewrite <- (be_val_be_bytes n), H. reflexivity. Qed.

Lemma be_bytes_0 : be_bytes 0 = [].
Proof. reflexivity. Qed.

Lemma le_aux_len (fuel : nat) :
  forall n k, n < 256 ^ N.of_nat k -> (length (le_aux fuel n) <= k)%nat.
Proof.
  induction fuel as [|f IH]; intros n k Hn.
  - cbn [le_aux length]. lia.
  - cbn [le_aux]. destruct (N.eqb_spec n 0) as [Hz|Hz].
    + cbn [length]. lia.
    + destruct k as [|k].
      * cbn in Hn. lia.
      * cbn [length]. apply le_n_S. apply IH.
        rewrite Nat2N.inj_succ, N.pow_succ_r' in Hn.
        remember (256 ^ N.of_nat k) as p eqn:Hp. clear Hp IH. lia.
Qed.

Lemma be_bytes_len (n : N) (k : nat) :
  n < 256 ^ N.of_nat k -> (length (be_bytes n) <= k)%nat.
Proof.
  intros Hn. unfold be_bytes, le_bytes. rewrite rev_length.
  apply le_aux_len. exact Hn.
Qed.

Definition two64N : N := 18446744073709551616.
Lemma two64N_eq : two64N = 2 ^ 64.
Proof. vm_compute. reflexivity. Qed.
Lemma two64N_eq' : two64N = 256 ^ N.of_nat 8.
Proof. vm_compute. reflexivity. Qed.
Global Opaque two64N.

Lemma be_bytes_len8 (n : N) : n < two64N -> (length (be_bytes n) <= 8)%nat.
Proof. intros Hn. apply be_bytes_len. rewrite <- two64N_eq'. exact Hn. Qed.

Lemma be_bytes_len_pos (n : N) : n <> 0 -> (1 <= length (be_bytes n))%nat.
Proof.
  intros Hn. destruct (be_bytes n) as [|x r] eqn:E.
  - apply be_bytes_nil in E. contradiction.
  - cbn [length]. lia.
Qed.

(* minimality: no leading zero byte *)
Lemma le_aux_last_nz (fuel : nat) :
  forall n, n < 2 ^ N.of_nat fuel -> forall d, n <> 0 -> b2n (last (le_aux fuel n) d) <> 0.
Proof.
  induction fuel as [|f IH]; intros n Hn d Hnz.
  - cbn in Hn. lia.
  - cbn [le_aux]. destruct (N.eqb_spec n 0) as [Hz|Hz]; [contradiction|].
    rewrite Nat2N.inj_succ, N.pow_succ_r' in Hn.
    assert (Hq : n / 256 < 2 ^ N.of_nat f).
    { remember (2 ^ N.of_nat f) as p eqn:Hp. clear Hp IH. lia. }
    destruct (N.eq_dec (n / 256) 0) as [Hq0|Hq0].
    + rewrite Hq0. destruct f as [|f']; cbn [le_aux N.eqb last];
        rewrite b2n_n2b_mod, N.mod_mod by lia; lia.
    + specialize (IH (n / 256) Hq d Hq0).
      destruct (le_aux f (n / 256)) as [|y r] eqn:E.
      * exfalso. apply Hq0. rewrite <- (le_aux_val f (n / 256) Hq), E. reflexivity.
      * cbn [last]. exact IH.
Qed.

Lemma be_bytes_head_nz (n : N) (d : byte) : n <> 0 -> b2n (hd d (be_bytes n)) <> 0.
Proof.
  intros Hn. unfold be_bytes.
  assert (Hl : b2n (last (le_bytes n) d) <> 0).
  { unfold le_bytes. apply le_aux_last_nz; [|exact Hn].
    rewrite N2Nat.id. apply N.size_gt. }
  revert Hl. generalize (le_bytes n) as l. intros l.
  destruct l as [|x l] using rev_ind.
  - cbn. tauto.
  - rewrite rev_unit, last_last. cbn [hd]. tauto.
Qed.

(* ------------------------------------------------------------------ *)
(** * RLP items and the encoder *)

Inductive item : Type :=
| Str (bs : list byte)
| Lst (l : list item).

Section item_ind'.
  Variable P : item -> Prop.
  Hypothesis HStr : forall bs, P (Str bs).
  Hypothesis HLst : forall l, Forall P l -> P (Lst l).
  Fixpoint item_ind' (i : item) : P i :=
    match i with
    | Str bs => HStr bs
    | Lst l =>
        HLst l ((fix go (l : list item) : Forall P l :=
                   match l with
                   | [] => Forall_nil P
                   | x :: r => Forall_cons x (item_ind' x) (go r)
                   end) l)
    end.
End item_ind'.

(* header for a payload of [len] bytes; off = 0x80 for strings, 0xc0 for lists
   (rlp/encbuffer.go: encodeStringHeader / puthead) *)
Definition enc_len (off : N) (len : nat) : list byte :=
  let n := N.of_nat len in
  if n <? 56 then [n2b (off + n)]
  else let lb := be_bytes n in n2b (off + 55 + N.of_nat (length lb)) :: lb.

(* a single byte below 0x80 is its own encoding *)
Definition single_small (bs : list byte) : bool :=
  match bs with
  | [b] => b2n b <? 128
  | _ => false
  end.

Fixpoint rlp_encode (i : item) : list byte :=
  match i with
  | Str bs => if single_small bs then bs else enc_len 128 (length bs) ++ bs
  | Lst l =>
      let body := flat_map rlp_encode l in
      enc_len 192 (length body) ++ body
  end.

Definition rlp_body (l : list item) : list byte := flat_map rlp_encode l.

Lemma rlp_encode_Lst (l : list item) :
  rlp_encode (Lst l) = enc_len 192 (length (rlp_body l)) ++ rlp_body l.
Proof. reflexivity. Qed.

Lemma rlp_encode_Str (bs : list byte) :
  rlp_encode (Str bs) = if single_small bs then bs else enc_len 128 (length bs) ++ bs.
Proof. reflexivity. Qed.

Lemma rlp_body_cons (x : item) (l : list item) :
  rlp_body (x :: l) = rlp_encode x ++ rlp_body l.
Proof. reflexivity. Qed.

Lemma rlp_body_nil : rlp_body [] = [].
Proof. reflexivity. Qed.

(* the size hypothesis *)
Definition item_ok (i : item) : Prop := N.of_nat (length (rlp_encode i)) < two64N.

Lemma single_small_spec (bs : list byte) :
  single_small bs = true -> exists b, bs = [b] /\ b2n b < 128.
Proof.
  destruct bs as [|b [|c r]]; cbn [single_small]; try discriminate.
  intros H. exists b. split; [reflexivity|]. apply N.ltb_lt. exact H.
Qed.

(* ------------------------------------------------------------------ *)
(** * Header facts *)

Lemma enc_len_head (off : N) (len : nat) :
  off + 63 < 256 -> N.of_nat len < two64N ->
  exists h t, enc_len off len = h :: t /\ off <= b2n h /\ b2n h <= off + 63.
Proof.
  intros Hoff Hlen. unfold enc_len.
  destruct (N.ltb_spec (N.of_nat len) 56) as [Hs|Hs].
  - eexists _, _. split; [reflexivity|]. rewrite b2n_n2b by lia. lia.
  - eexists _, _. split; [reflexivity|].
    pose proof (be_bytes_len8 _ Hlen) as H8.
    rewrite b2n_n2b by lia. lia.
Qed.

Lemma enc_len_length_le (off : N) (len : nat) : (1 <= length (enc_len off len))%nat.
Proof.
  unfold enc_len. destruct (N.of_nat len <? 56); cbn [length]; lia.
Qed.

Lemma enc_len_inj (off : N) (l1 l2 : nat) (r1 r2 : list byte) :
  off + 63 < 256 -> N.of_nat l1 < two64N -> N.of_nat l2 < two64N ->
  enc_len off l1 ++ r1 = enc_len off l2 ++ r2 -> l1 = l2 /\ r1 = r2.
Proof.
  intros Hoff H1 H2 Heq. unfold enc_len in Heq.
  pose proof (be_bytes_len8 _ H1) as H81.
  pose proof (be_bytes_len8 _ H2) as H82.
  destruct (N.ltb_spec (N.of_nat l1) 56) as [Hs1|Hs1];
    destruct (N.ltb_spec (N.of_nat l2) 56) as [Hs2|Hs2];
    cbn [app] in Heq; injection Heq as Hh Ht.
  - apply n2b_inj in Hh; [|lia|lia]. split; [lia|exact Ht].
  - pose proof (be_bytes_len_pos (N.of_nat l2) ltac:(lia)) as Hp.
    apply n2b_inj in Hh; [|lia|lia]. lia.
  - pose proof (be_bytes_len_pos (N.of_nat l1) ltac:(lia)) as Hp.
    apply n2b_inj in Hh; [|lia|lia]. lia.
  - apply n2b_inj in Hh; [|lia|lia].
    assert (Hll : length (be_bytes (N.of_nat l1)) = length (be_bytes (N.of_nat l2))) by lia.
    destruct (app_inj_len _ _ _ _ Hll Ht) as [Hb Hr].
    apply be_bytes_inj in Hb. split; [lia|exact Hr].
Qed.

Lemma rlp_encode_nonempty (i : item) : rlp_encode i <> [].
Proof.
  destruct i as [bs|l].
  - rewrite rlp_encode_Str. destruct (single_small bs) eqn:E.
    + apply single_small_spec in E. destruct E as [b [-> _]]. discriminate.
    + pose proof (enc_len_length_le 128 (length bs)) as Hl.
      destruct (enc_len 128 (length bs)); cbn in *; [lia|discriminate].
  - rewrite rlp_encode_Lst.
    pose proof (enc_len_length_le 192 (length (rlp_body l))) as Hl.
    destruct (enc_len 192 (length (rlp_body l))); cbn in *; [lia|discriminate].
Qed.

Lemma item_ok_Str (bs : list byte) : item_ok (Str bs) -> N.of_nat (length bs) < two64N.
Proof.
  unfold item_ok. rewrite rlp_encode_Str.
  destruct (single_small bs); [tauto|]. rewrite app_length. lia.
Qed.

Lemma item_ok_Lst_body (l : list item) :
  item_ok (Lst l) -> N.of_nat (length (rlp_body l)) < two64N.
Proof. unfold item_ok. rewrite rlp_encode_Lst, app_length. lia. Qed.

Lemma body_ok_Forall (l : list item) :
  N.of_nat (length (rlp_body l)) < two64N -> Forall item_ok l.
Proof.
  induction l as [|x l IH]; intros H.
  - constructor.
  - rewrite rlp_body_cons, app_length in H. constructor.
    + unfold item_ok. lia.
    + apply IH. lia.
Qed.

Lemma item_ok_Lst (l : list item) : item_ok (Lst l) -> Forall item_ok l.
Proof. intros H. apply body_ok_Forall, item_ok_Lst_body, H. Qed.

(* first byte: strings start below 0xc0, lists at or above 0xc0 *)
Lemma rlp_head_Str (bs : list byte) :
  item_ok (Str bs) -> exists h t, rlp_encode (Str bs) = h :: t /\ b2n h < 192.
Proof.
  intros Hok. pose proof (item_ok_Str _ Hok) as Hl. rewrite rlp_encode_Str.
  destruct (single_small bs) eqn:E.
  - apply single_small_spec in E. destruct E as [b [-> Hb]].
    exists b, []. split; [reflexivity|lia].
  - destruct (enc_len_head 128 (length bs) ltac:(lia) Hl) as [h [t [He [_ Hh]]]].
    rewrite He. exists h, (t ++ bs). split; [reflexivity|lia].
Qed.

Lemma rlp_head_Lst (l : list item) :
  item_ok (Lst l) -> exists h t, rlp_encode (Lst l) = h :: t /\ 192 <= b2n h.
Proof.
  intros Hok. pose proof (item_ok_Lst_body _ Hok) as Hl. rewrite rlp_encode_Lst.
  destruct (enc_len_head 192 (length (rlp_body l)) ltac:(lia) Hl) as [h [t [He [Hh _]]]].
  rewrite He. exists h, (t ++ rlp_body l). split; [reflexivity|exact Hh].
Qed.

(* ------------------------------------------------------------------ *)
(** * Prefix-freeness and injectivity *)

Definition prefix_free_at (a : item) : Prop :=
  forall b r1 r2, item_ok a -> item_ok b ->
    rlp_encode a ++ r1 = rlp_encode b ++ r2 -> a = b /\ r1 = r2.

Lemma rlp_body_inj (l1 : list item) :
  Forall prefix_free_at l1 ->
  forall l2, Forall item_ok l1 -> Forall item_ok l2 ->
    rlp_body l1 = rlp_body l2 -> l1 = l2.
Proof.
  induction 1 as [|x l1 Hx Hl1 IH]; intros l2 Hok1 Hok2 Heq.
  - destruct l2 as [|y l2]; [reflexivity|].
    rewrite rlp_body_nil, rlp_body_cons in Heq.
    pose proof (rlp_encode_nonempty y) as Hne.
    destruct (rlp_encode y); [contradiction|discriminate].
  - destruct l2 as [|y l2].
    + rewrite rlp_body_nil, rlp_body_cons in Heq.
      pose proof (rlp_encode_nonempty x) as Hne.
      destruct (rlp_encode x); [contradiction|discriminate].
    + rewrite !rlp_body_cons in Heq.
      inversion Hok1 as [|? ? Hokx Hokl1]; subst.
      inversion Hok2 as [|? ? Hoky Hokl2]; subst.
      destruct (Hx y _ _ Hokx Hoky Heq) as [Hxy Hrest]. subst y.
      f_equal. apply IH; assumption.
Qed.

Theorem rlp_prefix_free (a : item) :
  forall b r1 r2, item_ok a -> item_ok b ->
    rlp_encode a ++ r1 = rlp_encode b ++ r2 -> a = b /\ r1 = r2.
Proof.
  change (prefix_free_at a).
  induction a as [bs1|l1 IHl] using item_ind'; intros b r1 r2 Hoka Hokb Heq.
  - destruct b as [bs2|l2].
    + (* Str / Str *)
      pose proof (item_ok_Str _ Hoka) as Hl1.
      pose proof (item_ok_Str _ Hokb) as Hl2.
      rewrite !rlp_encode_Str in Heq.
      destruct (single_small bs1) eqn:E1; destruct (single_small bs2) eqn:E2.
      * apply single_small_spec in E1. destruct E1 as [b1 [-> Hb1]].
        apply single_small_spec in E2. destruct E2 as [b2 [-> Hb2]].
        cbn [app] in Heq. injection Heq as Hb Hr. subst. split; reflexivity.
      * exfalso.
        apply single_small_spec in E1. destruct E1 as [b1 [-> Hb1]].
        destruct (enc_len_head 128 (length bs2) ltac:(lia) Hl2) as [h [t [He [Hh _]]]].
        rewrite He in Heq. cbn [app] in Heq. injection Heq as Hb _. subst. lia.
      * exfalso.
        apply single_small_spec in E2. destruct E2 as [b2 [-> Hb2]].
        destruct (enc_len_head 128 (length bs1) ltac:(lia) Hl1) as [h [t [He [Hh _]]]].
        rewrite He in Heq. cbn [app] in Heq. injection Heq as Hb _. subst. lia.
      * rewrite <- !app_assoc in Heq.
        destruct (enc_len_inj 128 _ _ _ _ ltac:(lia) Hl1 Hl2 Heq) as [Hlen Hrest].
        destruct (app_inj_len _ _ _ _ Hlen Hrest) as [Hbs Hr]. subst.
        split; reflexivity.
    + (* Str / Lst : first bytes differ *)
      exfalso.
      destruct (rlp_head_Str _ Hoka) as [h1 [t1 [He1 Hh1]]].
      destruct (rlp_head_Lst _ Hokb) as [h2 [t2 [He2 Hh2]]].
      rewrite He1, He2 in Heq. cbn [app] in Heq. injection Heq as Hh _. subst. lia.
  - destruct b as [bs2|l2].
    + exfalso.
      destruct (rlp_head_Lst _ Hoka) as [h1 [t1 [He1 Hh1]]].
      destruct (rlp_head_Str _ Hokb) as [h2 [t2 [He2 Hh2]]].
      rewrite He1, He2 in Heq. cbn [app] in Heq. injection Heq as Hh _. subst. lia.
    + (* Lst / Lst *)
      pose proof (item_ok_Lst_body _ Hoka) as Hb1.
      pose proof (item_ok_Lst_body _ Hokb) as Hb2.
      rewrite !rlp_encode_Lst, <- !app_assoc in Heq.
      destruct (enc_len_inj 192 _ _ _ _ ltac:(lia) Hb1 Hb2 Heq) as [Hlen Hrest].
      destruct (app_inj_len _ _ _ _ Hlen Hrest) as [Hbody Hr].
      split; [|exact Hr]. f_equal.
      apply (rlp_body_inj l1 IHl l2); [apply item_ok_Lst, Hoka|apply item_ok_Lst, Hokb|exact Hbody].
Qed.

Theorem rlp_encode_inj (a b : item) :
  item_ok a -> item_ok b -> rlp_encode a = rlp_encode b -> a = b.
Proof.
  intros Ha Hb Heq.
  destruct (rlp_prefix_free a b [] [] Ha Hb) as [H _]; [|exact H].
  rewrite !app_nil_r. exact Heq.
Qed.

(* no encoding is a proper prefix of another *)
Corollary rlp_no_proper_prefix (a b : item) (r : list byte) :
  item_ok a -> item_ok b -> rlp_encode a ++ r = rlp_encode b -> r = [].
Proof.
  intros Ha Hb Heq.
  destruct (rlp_prefix_free a b r [] Ha Hb) as [_ H]; [|exact H].
  rewrite app_nil_r. exact Heq.
Qed.

(* ------------------------------------------------------------------ *)
(** * Examples : hypotheses are satisfiable, encoder computes the textbook vectors *)

Definition bytesN (l : list N) : list byte := map n2b l.
Definition Nbytes (l : list byte) : list N := map b2n l.

Lemma Nbytes_inj (a b : list byte) : Nbytes a = Nbytes b -> a = b.
Proof.
  revert b. induction a as [|x a IH]; intros [|y b] H; cbn in H; try discriminate.
  - reflexivity.
  - injection H as Hxy Hab. apply b2n_inj in Hxy. subst. f_equal. apply IH, Hab.
Qed.

(* "dog" -> 83 'd' 'o' 'g' *)
Example rlp_dog : Nbytes (rlp_encode (Str (bytesN [100;111;103]))) = [131;100;111;103].
Proof. vm_compute. reflexivity. Qed.

(* ["cat","dog"] -> c8 83 cat 83 dog *)
Example rlp_cat_dog :
  Nbytes (rlp_encode (Lst [Str (bytesN [99;97;116]); Str (bytesN [100;111;103])]))
  = [200;131;99;97;116;131;100;111;103].
Proof. vm_compute. reflexivity. Qed.

(* empty string 0x80, empty list 0xc0, 0 as integer 0x80, 15 -> 0x0f, 1024 -> 82 04 00 *)
Example rlp_misc :
  Nbytes (rlp_encode (Str [])) = [128] /\
  Nbytes (rlp_encode (Lst [])) = [192] /\
  Nbytes (rlp_encode (Str (be_bytes 0))) = [128] /\
  Nbytes (rlp_encode (Str (be_bytes 15))) = [15] /\
  Nbytes (rlp_encode (Str (be_bytes 128))) = [129;128] /\
  Nbytes (rlp_encode (Str (be_bytes 1024))) = [130;4;0].
Proof. vm_compute. repeat split; reflexivity. Qed.

(* the set theoretical representation of three  [ [], [[]], [ [], [[]] ] ] *)
Example rlp_three :
  Nbytes (rlp_encode (Lst [Lst []; Lst [Lst []]; Lst [Lst []; Lst [Lst []]]]))
  = [199;192;193;192;195;192;193;192].
Proof. vm_compute. reflexivity. Qed.

(* a 56-byte string takes the long form b8 38 ... *)
Example rlp_long :
  firstn 3 (Nbytes (rlp_encode (Str (repeat (n2b 97) 56)))) = [184;56;97] /\
  firstn 4 (Nbytes (rlp_encode (Str (repeat (n2b 97) 1024)))) = [185;4;0;97].
Proof. vm_compute. split; reflexivity. Qed.

Example item_ok_example :
  item_ok (Lst [Str (bytesN [99;97;116]); Lst [Str (repeat (n2b 97) 300)]; Str (be_bytes (2^255))]).
Proof. unfold item_ok. rewrite two64N_eq. vm_compute. reflexivity. Qed.

Example be_bytes_examples :
  Nbytes (be_bytes 0) = [] /\ Nbytes (be_bytes 255) = [255] /\
  Nbytes (be_bytes 256) = [1;0] /\ Nbytes (be_bytes (2^64 - 1)) = repeat 255 8 /\
  length (be_bytes (2^256 - 1)) = 32%nat.
Proof. vm_compute. repeat split; reflexivity. Qed.

Print Assumptions be_bytes_inj.
Print Assumptions be_bytes_head_nz.
Print Assumptions rlp_prefix_free.
Print Assumptions rlp_encode_inj.
Print Assumptions rlp_no_proper_prefix.
