(* PredicatesSound.v — the projection comparator of the per-property checks is sound: when
   [first_diff_in codes] reports nothing, model and implementation agree, as Coq values, on every
   component whose code is in [codes], at every position of the observation lists. *)
From Rigo Require Import Base.
From stdpp Require Import gmap sorting.
From Rigo Require Import Spec SpecProps AppRun AppRunSound Predicates.
Local Open Scope Z_scope.

Definition obs_agree_on (codes : list Z) (m i : aobs) : Prop :=
  match m, i with
  | OInit, OInit => True
  | OBegin a, OBegin b => In 10 codes → res_agree a b
  | ODeliver a, ODeliver b => In 11 codes → res_agree a b
  | OEnd a, OEnd b => In 12 codes → res_agree a b
  | OCommit a, OCommit b =>
      (In 1 codes → sn_accts a = sn_accts b) ∧ (In 2 codes → sn_dels a = sn_dels b) ∧
      (In 3 codes → sn_frozen a = sn_frozen b) ∧ (In 4 codes → sn_rewards a = sn_rewards b) ∧
      (In 5 codes → sn_props a = sn_props b) ∧ (In 6 codes → sn_params a = sn_params b) ∧
      (In 7 codes → sn_total_power a = sn_total_power b)
  | _, _ => False
  end.

Definition keep (codes : list Z) (d : Z) : bool := existsb (Z.eqb d) codes || (d =? 99).

Lemma filter_nil_all {A} (f : A → bool) l : List.filter f l = [] → ∀ x, In x l → f x = false.
Proof.
  induction l as [|y l IH]; intros H x Hx; [destruct Hx|]. cbn in H.
  destruct (f y) eqn:E; [discriminate|]. destruct Hx as [->|Hx]; [exact E|apply IH; assumption].
Qed.

Lemma keep_false_notin codes d : keep codes d = false → ¬ In d codes.
Proof.
  unfold keep. intros H Hin. apply orb_false_iff in H as [H _].
  assert (existsb (Z.eqb d) codes = true) as E.
  { apply existsb_exists. exists d. split; [exact Hin|apply Z.eqb_refl]. }
  congruence.
Qed.

(* a component whose comparison failed contributes its code; if the code is kept, the filter is not empty *)
Lemma component {A} (e : A → A → bool) (x y : A) (code : Z) (L : list Z) codes :
  sound e →
  (∀ d, In d L → keep codes d = false) →
  (e x y = false → In code L) →
  In code codes → x = y.
Proof.
  intros He H HL Hin. destruct (e x y) eqn:E; [apply He; exact E|].
  exfalso. apply (keep_false_notin codes code); [|exact Hin]. apply H. apply HL. reflexivity.
Qed.

Ltac code_in := let E := fresh in intros E; rewrite E; rewrite ?in_app_iff; cbn; tauto.

Theorem obs_diff_codes_sound codes m i :
  List.filter (keep codes) (obs_diff_codes m i) = [] → obs_agree_on codes m i.
Proof.
  intros H. pose proof (filter_nil_all _ _ H) as Hall. clear H.
  destruct m as [|a|a|a|a], i as [|b|b|b|b]; cbn [obs_diff_codes obs_agree_on] in *;
    try exact I;
    try (exfalso; specialize (Hall 99 (or_introl eq_refl)); unfold keep in Hall; cbn in Hall;
         rewrite orb_true_r in Hall; discriminate).
  - intros Hin. destruct (res_class Z.eqb a b) eqn:E; [exact (res_class_sound _ _ _ Zeqb_sound E)|].
    exfalso. apply (keep_false_notin codes 10); [apply Hall; left; reflexivity|exact Hin].
  - intros Hin. destruct (res_class Z.eqb a b) eqn:E; [exact (res_class_sound _ _ _ Zeqb_sound E)|].
    exfalso. apply (keep_false_notin codes 11); [apply Hall; left; reflexivity|exact Hin].
  - intros Hin. destruct (res_class (eqb_list (eqb_pair N.eqb Z.eqb)) a b) eqn:E;
      [exact (res_class_sound _ _ _ (eqb_list_sound _ (eqb_pair_sound _ _ Neqb_sound Zeqb_sound)) E)|].
    exfalso. apply (keep_false_notin codes 12); [apply Hall; left; reflexivity|exact Hin].
  - repeat split; intros Hin.
    + apply (component (eqb_list (eqb_pair N.eqb eqb_acct_view)) _ _ 1 _ codes
               (eqb_list_sound _ (eqb_pair_sound _ _ Neqb_sound eqb_acct_view_sound)) Hall); [code_in|exact Hin].
    + apply (component (eqb_list (eqb_pair N.eqb (eqb_opt eqb_del_view))) _ _ 2 _ codes
               (eqb_list_sound _ (eqb_pair_sound _ _ Neqb_sound (eqb_opt_sound _ eqb_del_view_sound))) Hall); [code_in|exact Hin].
    + apply (component (eqb_list eqb_stake_view) _ _ 3 _ codes (eqb_list_sound _ eqb_stake_view_sound) Hall); [code_in|exact Hin].
    + apply (component (eqb_list (eqb_pair N.eqb (eqb_opt eqb_reward_view))) _ _ 4 _ codes
               (eqb_list_sound _ (eqb_pair_sound _ _ Neqb_sound (eqb_opt_sound _ eqb_reward_view_sound))) Hall); [code_in|exact Hin].
    + apply (component (eqb_list (eqb_pair N.eqb (eqb_opt eqb_prop_view))) _ _ 5 _ codes
               (eqb_list_sound _ (eqb_pair_sound _ _ Neqb_sound (eqb_opt_sound _ eqb_prop_view_sound))) Hall); [code_in|exact Hin].
    + apply (component eqb_params _ _ 6 _ codes eqb_params_sound Hall); [code_in|exact Hin].
    + apply (component Z.eqb _ _ 7 _ codes Zeqb_sound Hall); [code_in|exact Hin].
Qed.

Theorem first_diff_in_sound codes : ∀ m i n,
  first_diff_in codes n m i = None → Forall2 (obs_agree_on codes) m i.
Proof.
  induction m as [|x m IH]; intros [|y i] n H; cbn [first_diff_in] in H; try discriminate; [constructor|].
  change (λ d : Z, existsb (Z.eqb d) codes || (d =? 99)) with (keep codes) in H.
  destruct (List.filter (keep codes) (obs_diff_codes x y)) eqn:E; [|discriminate].
  constructor; [apply obs_diff_codes_sound; exact E|exact (IH _ _ H)].
Qed.

(* the verdict of a per-property check on one case: nothing reported means the model's observations
   agree with the implementation's on the property's projection *)
Theorem check_prop_sound codes P c :
  (check_prop codes P c).1.1 = None → Forall2 (obs_agree_on codes) (model_obs c) (c_obs c).
Proof. unfold check_prop. cbn. apply first_diff_in_sound. Qed.
