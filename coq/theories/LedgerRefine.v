(* LedgerRefine.v — the executable ledger model (Ledger.v) refines the abstract versioned
   store (LedgerSpec.v): property C18. *)
From stdpp Require Import gmap sorting.
From Rigo Require Import Ledger LedgerSpec.

(** * Lists of removed keys *)
Fixpoint cnt (k : N) (l : list N) : nat :=
  match l with
  | [] => 0
  | x :: r => (if decide (x = k) then 1 else 0) + cnt k r
  end.

Lemma cnt_app k l1 l2 : cnt k (l1 ++ l2) = cnt k l1 + cnt k l2.
Proof. induction l1 as [|x l1 IH]; simpl; [done|]. rewrite IH. lia. Qed.

Lemma cnt_0_iff k l : cnt k l = 0 ↔ k ∉ l.
Proof.
  induction l as [|x l IH]; simpl.
  - split; [intros _; apply not_elem_of_nil|done].
  - rewrite not_elem_of_cons. destruct (decide (x = k)) as [->|Hne]; simpl.
    + split; [lia|]. intros [Hk _]. by destruct Hk.
    + rewrite IH. split; [intros Hk; split; [congruence|done]|by intros [_ Hk]].
Qed.

Lemma cnt_pos_iff k l : cnt k l ≠ 0 ↔ k ∈ l.
Proof.
  rewrite cnt_0_iff. split; [|by intros Hk Hn].
  intros Hn. destruct (decide (k ∈ l)) as [Hk|Hk]; [done|by destruct Hn].
Qed.

Lemma cnt_remove_first_eq k l : cnt k (remove_first k l) = pred (cnt k l).
Proof.
  induction l as [|x l IH]; simpl; [done|].
  destruct (decide (x = k)) as [->|Hne]; simpl; [done|].
  rewrite decide_False by done. simpl. done.
Qed.

Lemma cnt_remove_first_ne k k' l : k ≠ k' → cnt k' (remove_first k l) = cnt k' l.
Proof.
  intros Hne. induction l as [|x l IH]; simpl; [done|].
  destruct (decide (x = k)) as [->|Hxk]; simpl.
  - rewrite decide_False by done. done.
  - rewrite IH. done.
Qed.

Lemma elem_of_remove_first k k' l : k' ∈ remove_first k l → k' ∈ l.
Proof.
  induction l as [|x l IH]; simpl; [done|].
  destruct (decide (x = k)) as [->|Hxk].
  - intros Hk. by right.
  - rewrite !elem_of_cons. intros [->|Hk]; [by left|right; by apply IH].
Qed.

(** * Sorting *)
Global Instance key_ge_trans : Transitive key_ge.
Proof. intros a b c Hab Hbc. unfold key_ge in *. lia. Qed.
Global Instance key_ge_total : Total key_ge.
Proof. intros a b. unfold key_ge. lia. Qed.
Global Instance key_ge_antisymm : AntiSymm (=) key_ge.
Proof. intros a b Hab Hba. unfold key_ge in *. lia. Qed.

Lemma sort_desc_perm l1 l2 : l1 ≡ₚ l2 → sort_desc l1 = sort_desc l2.
Proof.
  intros Hp. unfold sort_desc.
  apply (StronglySorted_unique key_ge).
  - apply StronglySorted_merge_sort; apply _.
  - apply StronglySorted_merge_sort; apply _.
  - rewrite !merge_sort_Permutation. done.
Qed.

Lemma elem_of_sort_desc k l : k ∈ sort_desc l ↔ k ∈ l.
Proof. unfold sort_desc. by rewrite merge_sort_Permutation. Qed.

Section refine.
Context {V : Type}.
Implicit Types (m : mem V) (o : overlay V) (T : gmap N V) (k : N) (c : fledger V) (s : sstate V).

(** * Overlay entries *)
Lemma ent_of_insert o k e k' :
  ent_of (<[k:=e]> o) k' = if decide (k = k') then e else ent_of o k'.
Proof.
  unfold ent_of. destruct (decide (k = k')) as [->|Hne].
  - by rewrite lookup_insert.
  - by rewrite lookup_insert_ne.
Qed.

Lemma ent_of_empty k : ent_of (∅ : overlay V) k = ent0.
Proof. unfold ent_of. by rewrite lookup_empty. Qed.

(** * The invariant relating one memItems to one overlay over the saved tree [T] *)
(** the object in updatedItems is the object in gotItems *)
Definition alias_inv m : Prop := ∀ k v, upd m !! k = Some v → got m !! k = Some v.
(** a cached value that is not a pending write is the committed value, and its key is
    not among the removed keys *)
Definition clean_inv m T : Prop :=
  ∀ k v, got m !! k = Some v → upd m !! k = None → k ∉ removed m ∧ T !! k = Some v.

Definition Rov m o T : Prop :=
  (∀ k, upd m !! k = written (ent_of o k)) ∧
  (∀ k, cnt k (removed m) = ndel (ent_of o k)) ∧
  alias_inv m ∧
  clean_inv m T.

Lemma Rov_empty T : Rov mem_empty ∅ T.
Proof.
  split; [|split; [|split]].
  - intros k. rewrite ent_of_empty. simpl. by rewrite lookup_empty.
  - intros k. by rewrite ent_of_empty.
  - intros k v Hk. simpl in Hk. by rewrite lookup_empty in Hk.
  - intros k v Hk. simpl in Hk. by rewrite lookup_empty in Hk.
Qed.

Lemma is_removed_key_true m k : is_removed_key m k = true ↔ k ∈ removed m.
Proof. unfold is_removed_key. by rewrite bool_decide_eq_true. Qed.
Lemma is_removed_key_false m k : is_removed_key m k = false ↔ k ∉ removed m.
Proof. unfold is_removed_key. by rewrite bool_decide_eq_false. Qed.

(** get / getFinality (repaired) returns the overlay view; the read-through keeps the invariant *)
Lemma mem_get_sim m o T k :
  Rov m o T →
  (mem_get T k m).2 = view o T k ∧ Rov (mem_get T k m).1 o T ∧
  ((mem_get T k m).2 = None → (mem_get T k m).1 = m).
Proof.
  intros (Hu & Hr & Ha & Hc). unfold mem_get, view.
  destruct (got m !! k) as [v|] eqn:Hg.
  - simpl. split; [|split; [done|done]].
    rewrite <-Hu. destruct (upd m !! k) as [w|] eqn:Hw.
    + apply Ha in Hw. congruence.
    + destruct (Hc k v Hg Hw) as [Hnr HT].
      apply cnt_0_iff in Hnr. rewrite Hr in Hnr. rewrite Hnr. done.
  - assert (upd m !! k = None) as Hw.
    { destruct (upd m !! k) as [w|] eqn:Hw; [|done]. apply Ha in Hw. congruence. }
    rewrite <-Hu, Hw.
    destruct (is_removed_key m k) eqn:Hrm.
    + simpl. apply is_removed_key_true, cnt_pos_iff in Hrm. rewrite Hr in Hrm.
      destruct (ndel (ent_of o k)); [done|]. done.
    + apply is_removed_key_false in Hrm. pose proof Hrm as Hrm'.
      apply cnt_0_iff in Hrm'. rewrite Hr in Hrm'. rewrite Hrm'.
      unfold tree_read. destruct (T !! k) as [v|] eqn:HT; simpl; [|done].
      split; [done|]. split; [|done].
      split; [done|split; [done|split]].
      * intros k' v' Hk'. simpl in *. destruct (decide (k = k')) as [<-|Hne].
        -- congruence.
        -- rewrite lookup_insert_ne by done. by apply Ha.
      * intros k' v' Hk' Hw'. simpl in *. destruct (decide (k = k')) as [<-|Hne].
        -- rewrite lookup_insert in Hk'. by simplify_eq.
        -- rewrite lookup_insert_ne in Hk' by done. by apply Hc.
Qed.

Lemma mem_set_sim m o T k v : Rov m o T → Rov (mem_set k v m) (o_set k v o) T.
Proof.
  intros (Hu & Hr & Ha & Hc). unfold mem_set, o_set; simpl.
  split; [|split; [|split]]; simpl.
  - intros k'. rewrite ent_of_insert. destruct (decide (k = k')) as [<-|Hne].
    + by rewrite lookup_insert.
    + rewrite lookup_insert_ne by done. apply Hu.
  - intros k'. rewrite ent_of_insert. destruct (decide (k = k')) as [<-|Hne]; simpl; apply Hr.
  - intros k' v'; simpl. destruct (decide (k = k')) as [<-|Hne].
    + by rewrite !lookup_insert.
    + rewrite !lookup_insert_ne by done. apply Ha.
  - intros k' v'; simpl. destruct (decide (k = k')) as [<-|Hne].
    + by rewrite !lookup_insert.
    + rewrite !lookup_insert_ne by done. apply Hc.
Qed.

Lemma mem_cancel_set_sim m o T k : Rov m o T → Rov (mem_cancel_set k m) (o_cancel_set k o) T.
Proof.
  intros (Hu & Hr & Ha & Hc). unfold mem_cancel_set, o_cancel_set; simpl.
  split; [|split; [|split]]; simpl.
  - intros k'. rewrite ent_of_insert. destruct (decide (k = k')) as [<-|Hne].
    + by rewrite lookup_delete.
    + rewrite lookup_delete_ne by done. apply Hu.
  - intros k'. rewrite ent_of_insert. destruct (decide (k = k')) as [<-|Hne]; simpl; apply Hr.
  - intros k' v'; simpl. destruct (decide (k = k')) as [<-|Hne].
    + by rewrite !lookup_delete.
    + rewrite !lookup_delete_ne by done. apply Ha.
  - intros k' v'; simpl. destruct (decide (k = k')) as [<-|Hne].
    + by rewrite !lookup_delete.
    + rewrite !lookup_delete_ne by done. apply Hc.
Qed.

Lemma del_removed_key_sim m o T k : Rov m o T → Rov (del_removed_key k m) (o_cancel_del k o) T.
Proof.
  intros (Hu & Hr & Ha & Hc). unfold del_removed_key, o_cancel_del; simpl.
  split; [|split; [|split]]; simpl.
  - intros k'. rewrite ent_of_insert. destruct (decide (k = k')) as [<-|Hne]; simpl; apply Hu.
  - intros k'. rewrite ent_of_insert. destruct (decide (k = k')) as [<-|Hne]; simpl.
    + by rewrite cnt_remove_first_eq, Hr.
    + by rewrite cnt_remove_first_ne, Hr.
  - done.
  - intros k' v' Hg Hw; simpl. destruct (Hc k' v' Hg Hw) as [Hnr HT].
    split; [|done]. intros Hin. by apply elem_of_remove_first in Hin.
Qed.

(** del / DelFinality's second half *)
Lemma mem_del_sim m o T k :
  Rov m o T →
  (mem_del mem_get T k m).2 = (o_del T k o).2 ∧
  Rov (mem_del mem_get T k m).1 (o_del T k o).1 T.
Proof.
  intros HR. destruct (mem_get_sim m o T k HR) as (Hv & HR1 & Hnone).
  unfold mem_del, o_del. destruct (mem_get T k m) as [m1 r] eqn:Hget. simpl in *.
  rewrite <-Hv. destruct r as [v|]; simpl; [|split; [done|by rewrite Hnone]].
  split; [done|].
  destruct HR1 as (Hu & Hr & Ha & Hc).
  split; [|split; [|split]]; simpl.
  - intros k'. rewrite ent_of_insert. destruct (decide (k = k')) as [<-|Hne]; simpl.
    + by rewrite lookup_delete.
    + rewrite lookup_delete_ne by done. apply Hu.
  - intros k'. rewrite ent_of_insert, cnt_app; simpl.
    destruct (decide (k = k')) as [<-|Hne]; simpl.
    + rewrite Hr. lia.
    + rewrite Hr. lia.
  - intros k' v'; simpl. destruct (decide (k = k')) as [<-|Hne].
    + by rewrite !lookup_delete.
    + rewrite !lookup_delete_ne by done. apply Ha.
  - intros k' v'; simpl. destruct (decide (k = k')) as [<-|Hne].
    + by rewrite !lookup_delete.
    + rewrite !lookup_delete_ne by done. intros Hg Hw.
      destruct (Hc k' v' Hg Hw) as [Hnr HT]. split; [|done].
      rewrite elem_of_app, elem_of_list_singleton. intros [Hin|Heq]; [done|congruence].
Qed.

End refine.
