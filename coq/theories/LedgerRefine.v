(* LedgerRefine.v — the executable ledger model (Ledger.v) refines the abstract versioned
   store (LedgerSpec.v): property C18. *)
From stdpp Require Import gmap sorting.
From Rigo Require Import Ledger LedgerSpec.

(** * Lists of removed keys *)
Fixpoint cnt (k : N) (l : list N) : nat :=
  match l with
  | [] => 0
  | x :: r => (if decide (x = k) then 1 else 0) + cnt k r
  end.

Lemma cnt_app k l1 l2 : cnt k (l1 ++ l2) = cnt k l1 + cnt k l2.
Proof. induction l1 as [|x l1 IH]; simpl; [done|]. rewrite IH. lia. Qed.

Lemma cnt_0_iff k l : cnt k l = 0 ↔ k ∉ l.
Proof.
  induction l as [|x l IH]; simpl.
  - split; [intros _; apply not_elem_of_nil|done].
  - rewrite not_elem_of_cons. destruct (decide (x = k)) as [->|Hne]; simpl.
    + split; [lia|]. intros [Hk _]. by destruct Hk.
    + rewrite IH. split; [intros Hk; split; [congruence|done]|by intros [_ Hk]].
Qed.

Lemma cnt_pos_iff k l : cnt k l ≠ 0 ↔ k ∈ l.
Proof.
  rewrite cnt_0_iff. split; [|by intros Hk Hn].
  intros Hn. destruct (decide (k ∈ l)) as [Hk|Hk]; [done|by destruct Hn].
Qed.

Lemma cnt_remove_first_eq k l : cnt k (remove_first k l) = pred (cnt k l).
Proof.
  induction l as [|x l IH]; simpl; [done|].
  destruct (decide (x = k)) as [->|Hne]; simpl; [done|].
  rewrite decide_False by done. simpl. done.
Qed.

Lemma cnt_remove_first_ne k k' l : k ≠ k' → cnt k' (remove_first k l) = cnt k' l.
Proof.
  intros Hne. induction l as [|x l IH]; simpl; [done|].
  destruct (decide (x = k)) as [->|Hxk]; simpl.
  - rewrite decide_False by done. done.
  - rewrite IH. done.
Qed.

Lemma elem_of_remove_first k k' l : k' ∈ remove_first k l → k' ∈ l.
Proof.
  induction l as [|x l IH]; simpl; [done|].
  destruct (decide (x = k)) as [->|Hxk].
  - intros Hk. by right.
  - rewrite !elem_of_cons. intros [->|Hk]; [by left|right; by apply IH].
Qed.

(** * Sorting *)
Global Instance key_ge_trans : Transitive key_ge.
Proof. intros a b c Hab Hbc. unfold key_ge in *. lia. Qed.
Global Instance key_ge_total : Total key_ge.
Proof. intros a b. unfold key_ge. lia. Qed.
Global Instance key_ge_antisymm : AntiSymm (=) key_ge.
Proof. intros a b Hab Hba. unfold key_ge in *. lia. Qed.

Lemma sort_desc_perm l1 l2 : l1 ≡ₚ l2 → sort_desc l1 = sort_desc l2.
Proof.
  intros Hp. unfold sort_desc.
  apply (StronglySorted_unique key_ge).
  - apply StronglySorted_merge_sort; apply _.
  - apply StronglySorted_merge_sort; apply _.
  - rewrite !merge_sort_Permutation. done.
Qed.

Lemma elem_of_sort_desc k l : k ∈ sort_desc l ↔ k ∈ l.
Proof. unfold sort_desc. by rewrite merge_sort_Permutation. Qed.

Section refine.
Context {V : Type}.
Implicit Types (m : mem V) (o : overlay V) (T : gmap N V) (k : N) (c : fledger V) (s : sstate V).

(** * Overlay entries *)
Lemma ent_of_insert o k e k' :
  ent_of (<[k:=e]> o) k' = if decide (k = k') then e else ent_of o k'.
Proof.
  unfold ent_of. destruct (decide (k = k')) as [->|Hne].
  - by rewrite lookup_insert.
  - by rewrite lookup_insert_ne.
Qed.

Lemma ent_of_empty k : ent_of (∅ : overlay V) k = ent0.
Proof. unfold ent_of. by rewrite lookup_empty. Qed.

(** * The invariant relating one memItems to one overlay over the saved tree [T] *)
(** the object in updatedItems is the object in gotItems *)
Definition alias_inv m : Prop := ∀ k v, upd m !! k = Some v → got m !! k = Some v.
(** a cached value that is not a pending write is the committed value, and its key is
    not among the removed keys *)
Definition clean_inv m T : Prop :=
  ∀ k v, got m !! k = Some v → upd m !! k = None → k ∉ removed m ∧ T !! k = Some v.

Definition Rov m o T : Prop :=
  (∀ k, upd m !! k = written (ent_of o k)) ∧
  (∀ k, cnt k (removed m) = ndel (ent_of o k)) ∧
  alias_inv m ∧
  clean_inv m T.

Lemma Rov_empty T : Rov mem_empty ∅ T.
Proof.
  split; [|split; [|split]].
  - intros k. rewrite ent_of_empty. simpl. by rewrite lookup_empty.
  - intros k. by rewrite ent_of_empty.
  - intros k v Hk. simpl in Hk. by rewrite lookup_empty in Hk.
  - intros k v Hk. simpl in Hk. by rewrite lookup_empty in Hk.
Qed.

Lemma is_removed_key_true m k : is_removed_key m k = true ↔ k ∈ removed m.
Proof. unfold is_removed_key. by rewrite bool_decide_eq_true. Qed.
Lemma is_removed_key_false m k : is_removed_key m k = false ↔ k ∉ removed m.
Proof. unfold is_removed_key. by rewrite bool_decide_eq_false. Qed.

(** get / getFinality (repaired) returns the overlay view; the read-through keeps the invariant *)
Lemma mem_get_sim m o T k :
  Rov m o T →
  (mem_get T k m).2 = view o T k ∧ Rov (mem_get T k m).1 o T ∧
  ((mem_get T k m).2 = None → (mem_get T k m).1 = m).
Proof.
  intros (Hu & Hr & Ha & Hc). unfold mem_get, view.
  destruct (got m !! k) as [v|] eqn:Hg.
  - simpl. split; [|split; [done|done]].
    rewrite <-Hu. destruct (upd m !! k) as [w|] eqn:Hw.
    + apply Ha in Hw. congruence.
    + destruct (Hc k v Hg Hw) as [Hnr HT].
      apply cnt_0_iff in Hnr. rewrite Hr in Hnr. rewrite Hnr. done.
  - assert (upd m !! k = None) as Hw.
    { destruct (upd m !! k) as [w|] eqn:Hw; [|done]. apply Ha in Hw. congruence. }
    rewrite <-Hu, Hw.
    destruct (is_removed_key m k) eqn:Hrm.
    + simpl. apply is_removed_key_true, cnt_pos_iff in Hrm. rewrite Hr in Hrm.
      destruct (ndel (ent_of o k)); [done|]. done.
    + apply is_removed_key_false in Hrm. pose proof Hrm as Hrm'.
      apply cnt_0_iff in Hrm'. rewrite Hr in Hrm'. rewrite Hrm'.
      unfold tree_read. destruct (T !! k) as [v|] eqn:HT; simpl; [|done].
      split; [done|]. split; [|done].
      split; [done|split; [done|split]].
      * intros k' v' Hk'. simpl in *. destruct (decide (k = k')) as [<-|Hne].
        -- congruence.
        -- rewrite lookup_insert_ne by done. by apply Ha.
      * intros k' v' Hk' Hw'. simpl in *. destruct (decide (k = k')) as [<-|Hne].
        -- rewrite lookup_insert in Hk'. by simplify_eq.
        -- rewrite lookup_insert_ne in Hk' by done. by apply Hc.
Qed.

Lemma mem_set_sim m o T k v : Rov m o T → Rov (mem_set k v m) (o_set k v o) T.
Proof.
  intros (Hu & Hr & Ha & Hc). unfold mem_set, o_set; simpl.
  split; [|split; [|split]]; simpl.
  - intros k'. rewrite ent_of_insert. destruct (decide (k = k')) as [<-|Hne].
    + by rewrite lookup_insert.
    + rewrite lookup_insert_ne by done. apply Hu.
  - intros k'. rewrite ent_of_insert. destruct (decide (k = k')) as [<-|Hne]; simpl; apply Hr.
  - intros k' v'; simpl. destruct (decide (k = k')) as [<-|Hne].
    + by rewrite !lookup_insert.
    + rewrite !lookup_insert_ne by done. apply Ha.
  - intros k' v'; simpl. destruct (decide (k = k')) as [<-|Hne].
    + by rewrite !lookup_insert.
    + rewrite !lookup_insert_ne by done. apply Hc.
Qed.

Lemma mem_cancel_set_sim m o T k : Rov m o T → Rov (mem_cancel_set k m) (o_cancel_set k o) T.
Proof.
  intros (Hu & Hr & Ha & Hc). unfold mem_cancel_set, o_cancel_set; simpl.
  split; [|split; [|split]]; simpl.
  - intros k'. rewrite ent_of_insert. destruct (decide (k = k')) as [<-|Hne].
    + by rewrite lookup_delete.
    + rewrite lookup_delete_ne by done. apply Hu.
  - intros k'. rewrite ent_of_insert. destruct (decide (k = k')) as [<-|Hne]; simpl; apply Hr.
  - intros k' v'; simpl. destruct (decide (k = k')) as [<-|Hne].
    + by rewrite !lookup_delete.
    + rewrite !lookup_delete_ne by done. apply Ha.
  - intros k' v'; simpl. destruct (decide (k = k')) as [<-|Hne].
    + by rewrite !lookup_delete.
    + rewrite !lookup_delete_ne by done. apply Hc.
Qed.

Lemma del_removed_key_sim m o T k : Rov m o T → Rov (del_removed_key k m) (o_cancel_del k o) T.
Proof.
  intros (Hu & Hr & Ha & Hc). unfold del_removed_key, o_cancel_del; simpl.
  split; [|split; [|split]]; simpl.
  - intros k'. rewrite ent_of_insert. destruct (decide (k = k')) as [<-|Hne]; simpl; apply Hu.
  - intros k'. rewrite ent_of_insert. destruct (decide (k = k')) as [<-|Hne]; simpl.
    + by rewrite cnt_remove_first_eq, Hr.
    + by rewrite cnt_remove_first_ne, Hr.
  - done.
  - intros k' v' Hg Hw; simpl. destruct (Hc k' v' Hg Hw) as [Hnr HT].
    split; [|done]. intros Hin. by apply elem_of_remove_first in Hin.
Qed.

(** del / DelFinality's second half *)
Lemma mem_del_sim m o T k :
  Rov m o T →
  (mem_del mem_get T k m).2 = (o_del T k o).2 ∧
  Rov (mem_del mem_get T k m).1 (o_del T k o).1 T.
Proof.
  intros HR. destruct (mem_get_sim m o T k HR) as (Hv & HR1 & Hnone).
  unfold mem_del, o_del. destruct (mem_get T k m) as [m1 r] eqn:Hget. simpl in *.
  rewrite <-Hv. destruct r as [v|]; simpl; [|split; [done|by rewrite Hnone]].
  split; [done|].
  destruct HR1 as (Hu & Hr & Ha & Hc).
  split; [|split; [|split]]; simpl.
  - intros k'. rewrite ent_of_insert. destruct (decide (k = k')) as [<-|Hne]; simpl.
    + by rewrite lookup_delete.
    + rewrite lookup_delete_ne by done. apply Hu.
  - intros k'. rewrite ent_of_insert, cnt_app; simpl.
    destruct (decide (k = k')) as [<-|Hne]; simpl.
    + rewrite Hr. lia.
    + rewrite Hr. lia.
  - intros k' v'; simpl. destruct (decide (k = k')) as [<-|Hne].
    + by rewrite !lookup_delete.
    + rewrite !lookup_delete_ne by done. apply Ha.
  - intros k' v'; simpl. destruct (decide (k = k')) as [<-|Hne].
    + by rewrite !lookup_delete.
    + rewrite !lookup_delete_ne by done. intros Hg Hw.
      destruct (Hc k' v' Hg Hw) as [Hnr HT]. split; [|done].
      rewrite elem_of_app, elem_of_list_singleton. intros [Hin|Heq]; [done|congruence].
Qed.

(** * Commit *)
Lemma foldl_removes (u : gmap N V) T rem k :
  foldl (apply_treeop u) T (map (pair false) rem) !! k
  = if decide (k ∈ rem) then None else T !! k.
Proof.
  revert T. induction rem as [|x rem IH]; intros T.
  - destruct (decide (k ∈ [])) as [Hin|_]; [by apply elem_of_nil in Hin|done].
  - assert (foldl (apply_treeop u) T (map (pair false) (x :: rem))
            = foldl (apply_treeop u) (delete x T) (map (pair false) rem)) as -> by done.
    rewrite IH.
    destruct (decide (k ∈ rem)) as [Hin|Hnin], (decide (k ∈ x :: rem)) as [Hin'|Hnin'].
    + done.
    + destruct Hnin'. by right.
    + apply elem_of_cons in Hin' as [->|Hin']; [by rewrite lookup_delete|done].
    + apply not_elem_of_cons in Hnin' as [Hne _]. by rewrite lookup_delete_ne.
Qed.

Lemma foldl_sets (u : gmap N V) T ks k :
  (∀ k', k' ∈ ks → is_Some (u !! k')) →
  foldl (apply_treeop u) T (map (pair true) ks) !! k
  = if decide (k ∈ ks) then u !! k else T !! k.
Proof.
  revert T. induction ks as [|x ks IH]; intros T Hks.
  - destruct (decide (k ∈ [])) as [Hin|_]; [by apply elem_of_nil in Hin|done].
  - destruct (Hks x) as [v Hv]; [by left|].
    assert (foldl (apply_treeop u) T (map (pair true) (x :: ks))
            = foldl (apply_treeop u) (<[x:=v]> T) (map (pair true) ks)) as ->.
    { simpl. unfold apply_treeop at 2. simpl. by rewrite Hv. }
    rewrite IH; [|intros k' Hk'; apply Hks; by right].
    destruct (decide (k ∈ ks)) as [Hin|Hnin], (decide (k ∈ x :: ks)) as [Hin'|Hnin'].
    + done.
    + destruct Hnin'. by right.
    + apply elem_of_cons in Hin' as [->|Hin']; [by rewrite lookup_insert|done].
    + apply not_elem_of_cons in Hnin' as [Hne _]. by rewrite lookup_insert_ne.
Qed.

Lemma elem_of_upd_keys m k : k ∈ upd_keys m ↔ is_Some (upd m !! k).
Proof.
  unfold upd_keys. rewrite elem_of_list_fmap. split.
  - intros [[k' v] [-> Hin]]. apply elem_of_map_to_list in Hin. by exists v.
  - intros [v Hv]. exists (k, v). split; [done|]. by apply elem_of_map_to_list.
Qed.

(** The new tree in terms of the old tree and the consensus overlay's containers:
    a pending write wins, else a pending removal deletes, else the old value stays. *)
Lemma commit_tree_lookup c k :
  tree (commit c).1 !! k =
  match upd (fin c) !! k with
  | Some v => Some v
  | None => if decide (k ∈ removed (fin c)) then None else tree c !! k
  end.
Proof.
  unfold commit, commit_treeops; simpl. rewrite foldl_app.
  rewrite foldl_sets.
  - rewrite foldl_removes.
    destruct (decide (k ∈ sort_desc (upd_keys (fin c)))) as [Hin|Hnin].
    + apply elem_of_sort_desc, elem_of_upd_keys in Hin. destruct Hin as [v Hv]. by rewrite Hv.
    + rewrite elem_of_sort_desc, elem_of_upd_keys in Hnin.
      destruct (upd (fin c) !! k) as [v|] eqn:Hv; [|done]. destruct Hnin. by exists v.
  - intros k' Hk'. by apply elem_of_sort_desc, elem_of_upd_keys in Hk'.
Qed.

Lemma commit_tree_spec_lookup (o : overlay V) T k :
  commit_tree o T !! k = commit_key (o !! k) (T !! k).
Proof.
  unfold commit_tree. rewrite lookup_merge.
  destruct (o !! k), (T !! k); done.
Qed.

Lemma commit_hist c : hist (commit c).1 = hist c ++ [tree (commit c).1].
Proof. done. Qed.

(** * The simulation relation *)
Definition R c s : Prop :=
  hist c = committed s ∧
  tree c = default ∅ (last (hist c)) ∧
  Rov (chk c) (mp s) (tree c) ∧
  Rov (fin c) (cs s) (tree c).

Lemma R_empty : R fledger_empty sstate_empty.
Proof. split; [done|split; [done|split; apply Rov_empty]]. Qed.

Lemma R_latest c s : R c s → latest s = tree c.
Proof. intros (Hh & Ht & _). unfold latest. by rewrite <-Hh, Ht. Qed.

Lemma erase_out_of_read (r : option V) : erase_treeops (out_of_read r) = out_of_read r.
Proof. by destruct r. Qed.

Lemma erase_idemp (x : out V) : erase_treeops (erase_treeops x) = erase_treeops x.
Proof. by destruct x. Qed.

Lemma commit_sim c s :
  R c s →
  commit_tree (cs s) (tree c) = tree (commit c).1 ∧
  R (commit c).1 (SState (committed s ++ [commit_tree (cs s) (tree c)]) ∅ ∅).
Proof.
  intros (Hh & Ht & Hm & (Hu & Hr & Ha & Hc)).
  assert (commit_tree (cs s) (tree c) = tree (commit c).1) as HT.
  { apply map_eq. intros k. rewrite commit_tree_lookup, commit_tree_spec_lookup.
    specialize (Hu k). specialize (Hr k). unfold ent_of in Hu, Hr.
    destruct (cs s !! k) as [e|]; simpl in *.
    - rewrite Hu. destruct (written e) as [v|]; [done|].
      rewrite <-Hr. destruct (decide (k ∈ removed (fin c))) as [Hin|Hnin].
      + apply cnt_pos_iff in Hin. by destruct (cnt k (removed (fin c))).
      + apply cnt_0_iff in Hnin. by rewrite Hnin.
    - rewrite Hu. apply cnt_0_iff in Hr. by rewrite decide_False. }
  split; [done|].
  rewrite HT. split; [|split; [|split]].
  - rewrite commit_hist. simpl. by rewrite Hh.
  - rewrite commit_hist. by rewrite last_snoc.
  - apply Rov_empty.
  - split; [|split; [|split]].
    + intros k. rewrite ent_of_empty. simpl. by rewrite lookup_empty.
    + intros k. by rewrite ent_of_empty.
    + intros k v Hk. simpl in Hk. by rewrite lookup_empty in Hk.
    + intros k v Hg _. split; [apply not_elem_of_nil|].
      rewrite commit_tree_lookup. simpl in Hg.
      apply lookup_union_Some_raw in Hg as [Hg|[Hn Hg]].
      * by rewrite Hg.
      * rewrite Hn. destruct (Hc k v Hg Hn) as [Hnr Hv]. by rewrite decide_False.
Qed.

(** * One step *)
Lemma step_sim c s (o : op V) :
  R c s →
  erase_treeops (step c o).2 = (spec_step s o).2 ∧ R (step c o).1 (spec_step s o).1.
Proof.
  intros HR. pose proof (R_latest c s HR) as HT.
  pose proof HR as (Hh & Ht & Hm & Hf).
  unfold step, step_with, spec_step. rewrite HT.
  destruct o as [k v|k|k|k|k|k| |k v|k|k|k|k| | |n k|n| ].
  - (* SetM *) split; [done|]. split; [done|split; [done|split; [|done]]]. by apply mem_set_sim.
  - (* CancelSetM *) split; [done|]. split; [done|split; [done|split; [|done]]].
    by apply mem_cancel_set_sim.
  - (* GetM *)
    destruct (mem_get_sim (chk c) (mp s) (tree c) k Hm) as (Hv & HR1 & _).
    destruct (mem_get (tree c) k (chk c)) as [m1 r]. simpl in *.
    rewrite erase_out_of_read, Hv. split; [done|]. by split; [|split; [|split]].
  - (* DelM *)
    destruct (mem_del_sim (chk c) (mp s) (tree c) k Hm) as (Hv & HR1).
    destruct (mem_del mem_get (tree c) k (chk c)) as [m1 r].
    destruct (o_del (tree c) k (mp s)) as [o1 r']. simpl in *.
    rewrite erase_out_of_read, Hv. split; [done|]. by split; [|split; [|split]].
  - (* CancelDelM *) split; [done|]. split; [done|split; [done|split; [|done]]].
    by apply del_removed_key_sim.
  - (* Read *) simpl. by rewrite erase_out_of_read.
  - (* IterM *) done.
  - (* SetF *) split; [done|]. split; [done|split; [done|split; [done|]]]. by apply mem_set_sim.
  - (* CancelSetF *) split; [done|]. split; [done|split; [done|split; [done|]]].
    by apply mem_cancel_set_sim.
  - (* GetF *)
    destruct (mem_get_sim (fin c) (cs s) (tree c) k Hf) as (Hv & HR1 & _).
    destruct (mem_get (tree c) k (fin c)) as [m1 r]. simpl in *.
    rewrite erase_out_of_read, Hv. split; [done|]. by split; [|split; [|split]].
  - (* DelF *)
    destruct (mem_del_sim (chk c) (mp s) (tree c) k Hm) as (_ & HR1).
    destruct (mem_del_sim (fin c) (cs s) (tree c) k Hf) as (Hv & HR2).
    destruct (mem_del mem_get (tree c) k (chk c)) as [m1 r1].
    destruct (o_del (tree c) k (mp s)) as [o1 r1'].
    destruct (mem_del mem_get (tree c) k (fin c)) as [m2 r2].
    destruct (o_del (tree c) k (cs s)) as [o2 r2']. simpl in *.
    rewrite erase_out_of_read, Hv. split; [done|]. by split; [|split; [|split]].
  - (* CancelDelF *) split; [done|]. split; [done|split; [done|split; [done|]]].
    by apply del_removed_key_sim.
  - (* IterF *) done.
  - (* Commit *)
    destruct (commit_sim c s HR) as (_ & HR'). split; [|done].
    simpl. by rewrite Hh.
  - (* ReadAt *) simpl. rewrite Hh. split; [|done].
    destruct (tree_at (committed s) n); [|done]. by rewrite erase_out_of_read.
  - (* IterAt *) simpl. rewrite Hh. split; [|done]. by destruct (tree_at (committed s) n).
  - (* Reopen *) split; [done|]. simpl. split; [done|split; [done|split; apply Rov_empty]].
Qed.

(** the same in the form "let (c', oc) := step c o in let (s', os) := spec_step s o in ..." *)
Lemma step_sim_let c s (o : op V) :
  R c s →
  let '(c', oc) := step c o in
  let '(s', os) := spec_step s o in
  erase_treeops oc = os ∧ R c' s'.
Proof.
  intros HR. pose proof (step_sim c s o HR) as Hs.
  destruct (step c o) as [c' oc], (spec_step s o) as [s' os]. done.
Qed.

(** * Whole runs *)
Lemma run_sim ops : ∀ c s,
  R c s →
  outs (run_from step c ops).2 = (spec_run_from s ops).2 ∧
  R (run_from step c ops).1 (spec_run_from s ops).1.
Proof.
  induction ops as [|o ops IH]; intros c s HR; simpl; [done|].
  destruct (step_sim c s o HR) as (Ho & HR1).
  destruct (step c o) as [c1 x], (spec_step s o) as [s1 y]. simpl in *.
  destruct (IH c1 s1 HR1) as (Hos & HR2).
  destruct (run_from step c1 ops) as [c2 xs], (spec_run_from s1 ops) as [s2 ys]. simpl in *.
  split; [|done]. unfold outs in *. simpl. by rewrite Ho, Hos.
Qed.

Lemma spec_outs_erased ops : ∀ s, outs (spec_run_from s ops).2 = (spec_run_from s ops).2.
Proof.
  induction ops as [|o ops IH]; intros s; simpl; [done|].
  assert (erase_treeops (spec_step s o).2 = (spec_step s o).2) as He.
  { unfold spec_step. destruct o; simpl; try done; try apply erase_out_of_read;
      repeat match goal with
      | |- context [o_del ?a ?b ?d] => destruct (o_del a b d)
      | |- context [tree_at ?a ?b] => destruct (tree_at a b)
      end; simpl; try done; apply erase_out_of_read. }
  destruct (spec_step s o) as [s1 y]. specialize (IH s1).
  destruct (spec_run_from s1 ops) as [s2 ys]. simpl in *. unfold outs in *. simpl.
  by rewrite He, IH.
Qed.

(** MAIN THEOREM: on every finite sequence of operations the (repaired) ledger model and
    the abstract store produce the same observations. *)
Theorem ledger_refines (ops : list (op V)) : outs (run ops) = outs (spec_run ops).
Proof.
  unfold run, spec_run. rewrite spec_outs_erased.
  apply (run_sim ops fledger_empty sstate_empty R_empty).
Qed.

(** every reachable state is related to the spec state reached by the same operations *)
Lemma final_R (ops : list (op V)) : R (final ops) (spec_run_from sstate_empty ops).1.
Proof. apply (run_sim ops fledger_empty sstate_empty R_empty). Qed.

(** * Runs: append *)
Lemma run_from_app (stp : fledger V → op V → fledger V * out V) (ops1 : list (op V)) :
  ∀ c (ops2 : list (op V)),
  run_from stp c (ops1 ++ ops2) =
  ((run_from stp (run_from stp c ops1).1 ops2).1,
   (run_from stp c ops1).2 ++ (run_from stp (run_from stp c ops1).1 ops2).2).
Proof.
  induction ops1 as [|p ops1 IH]; intros c ops2; simpl.
  - by destruct (run_from stp c ops2).
  - destruct (stp c p) as [c1 x]. rewrite IH.
    destruct (run_from stp c1 ops1) as [c2 xs]. simpl.
    by destruct (run_from stp c2 ops2).
Qed.

Lemma final_app (ops1 ops2 : list (op V)) : final (ops1 ++ ops2) = (run_from step (final ops1) ops2).1.
Proof. unfold final. by rewrite run_from_app. Qed.

Lemma run_app (ops1 ops2 : list (op V)) : run (ops1 ++ ops2) = run ops1 ++ (run_from step (final ops1) ops2).2.
Proof. unfold run, final. by rewrite run_from_app. Qed.

Lemma run_snoc (ops : list (op V)) (p : op V) : run (ops ++ [p]) = run ops ++ [(step (final ops) p).2].
Proof. rewrite run_app. simpl. by destruct (step (final ops) p). Qed.

(** * Corollary 1: the mempool overlay is invisible to consensus reads and discarded by commit *)
Definition mempool_op (p : op V) : bool :=
  match p with
  | SetM _ _ | CancelSetM _ | GetM _ | DelM _ | CancelDelM _ => true
  | _ => false
  end.

(* the outputs at the positions of the non-mempool operations *)
Fixpoint cons_outs (ops : list (op V)) (xs : list (out V)) : list (out V) :=
  match ops, xs with
  | p :: ops', x :: xs' => if mempool_op p then cons_outs ops' xs' else x :: cons_outs ops' xs'
  | _, _ => []
  end.

Fixpoint drop_mempool_ops (ops : list (op V)) : list (op V) :=
  match ops with
  | [] => []
  | p :: ops' => if mempool_op p then drop_mempool_ops ops' else p :: drop_mempool_ops ops'
  end.

(* equal up to the mempool overlay *)
Definition cons_eq c c' : Prop := tree c = tree c' ∧ hist c = hist c' ∧ fin c = fin c'.

Lemma step_mempool_op c (p : op V) : mempool_op p = true → cons_eq (step c p).1 c.
Proof.
  unfold step, step_with. destruct p as [k v|k|k|k|k|k| |k v|k|k|k|k| | |n k|n| ]; try done; intros _.
  - by destruct (mem_get (tree c) k (chk c)).
  - by destruct (mem_del mem_get (tree c) k (chk c)).
Qed.

Lemma step_cons_eq c c' (p : op V) :
  mempool_op p = false → cons_eq c c' →
  (step c p).2 = (step c' p).2 ∧ cons_eq (step c p).1 (step c' p).1.
Proof.
  destruct c as [t h ch f], c' as [t' h' ch' f']. intros Hp (Ht & Hh & Hf). simpl in *. subst.
  unfold step, step_with.
  destruct p as [k v|k|k|k|k|k| |k v|k|k|k|k| | |n k|n| ]; try done; simpl.
  - by destruct (mem_get t' k f').
  - destruct (mem_del mem_get t' k ch), (mem_del mem_get t' k ch'). by destruct (mem_del mem_get t' k f').
Qed.

Lemma mempool_invisible_from (ops : list (op V)) : ∀ c c',
  cons_eq c c' →
  cons_outs ops (run_from step c ops).2 = (run_from step c' (drop_mempool_ops ops)).2.
Proof.
  induction ops as [|p ops IH]; intros c c' Hc; simpl; [done|].
  destruct (mempool_op p) eqn:Hp.
  - pose proof (step_mempool_op c p Hp) as (H1 & H2 & H3).
    destruct (step c p) as [c1 x]. simpl in *.
    specialize (IH c1 c').
    destruct (run_from step c1 ops) as [c2 xs]. simpl. rewrite ?Hp. apply IH.
    destruct Hc as (Hc1 & Hc2 & Hc3). split; [congruence|split; congruence].
  - destruct (step_cons_eq c c' p Hp Hc) as (Ho & Hc1). simpl.
    destruct (step c p) as [c1 x], (step c' p) as [c1' x']. simpl in *. subst x'.
    specialize (IH c1 c1' Hc1).
    destruct (run_from step c1 ops) as [c2 xs], (run_from step c1' (drop_mempool_ops ops)) as [c2' xs'].
    simpl in *. rewrite ?Hp. by rewrite IH.
Qed.

(** Deleting every mempool-overlay operation (Set, CancelSet, Get, Del, CancelDel) from a
    run changes no output of any other operation — in particular of no GetFinality,
    DelFinality, Commit, Read, iterate or historical read. *)
Theorem mempool_invisible (ops : list (op V)) :
  cons_outs ops (run ops) = run (drop_mempool_ops ops).
Proof. unfold run. by apply mempool_invisible_from. Qed.

Lemma mem_get_empty T k :
  mem_get T k mem_empty =
  match tree_read T k with
  | Some v => (set_got_item k v mem_empty, Some v)
  | None => (mem_empty, None)
  end.
Proof.
  unfold mem_get.
  assert (is_removed_key (mem_empty : mem V) k = false) as ->
    by apply is_removed_key_false, not_elem_of_nil.
  assert (got (mem_empty : mem V) !! k = None) as -> by apply lookup_empty.
  done.
Qed.

(** After a commit the mempool overlay is empty: a mempool read sees the committed value. *)
Theorem mempool_discarded_by_commit (ops : list (op V)) k :
  chk (final (ops ++ [Commit])) = mem_empty ∧
  run (ops ++ [Commit; GetM k]) = run (ops ++ [Commit; Read k]).
Proof.
  split.
  - rewrite final_app. done.
  - replace (ops ++ [Commit; GetM k]) with ((ops ++ [Commit]) ++ [GetM k]) by by rewrite <-app_assoc.
    replace (ops ++ [Commit; Read k]) with ((ops ++ [Commit]) ++ [Read k]) by by rewrite <-app_assoc.
    rewrite !run_snoc. f_equal. f_equal.
    assert (∀ c', chk c' = mem_empty → (step c' (GetM k)).2 = (step c' (Read k)).2) as Hgen.
    { intros c' Hc'. unfold step, step_with. rewrite Hc', mem_get_empty.
      by destruct (tree_read (tree c') k). }
    apply Hgen. by rewrite final_app.
Qed.

(** * Corollary 2: a commit persists exactly the consensus overlay's net effect as version+1 *)
Theorem commit_net_effect c :
  let c' := (step c Commit).1 in
  hist c' = hist c ++ [tree c'] ∧
  (∃ tops, (step c Commit).2 = OCommitted (N.of_nat (S (length (hist c)))) tops) ∧
  ∀ k, tree c' !! k =
       match upd (fin c) !! k with
       | Some v => Some v
       | None => if decide (k ∈ removed (fin c)) then None else tree c !! k
       end.
Proof.
  simpl. split; [done|]. split; [by eexists|]. intros k. apply commit_tree_lookup.
Qed.

Lemma tree_at_snoc_new (h : list (gmap N V)) T :
  tree_at (h ++ [T]) (Z.of_nat (S (length h))) = Some T.
Proof.
  unfold tree_at.
  destruct (decide (Z.of_nat (length (h ++ [T])) < Z.of_nat (S (length h)))%Z) as [Hlt|_].
  { rewrite app_length in Hlt. simpl in Hlt. lia. }
  destruct (decide (Z.of_nat (S (length h)) ≤ 0)%Z) as [Hle|_]; [lia|].
  replace (Z.to_nat (Z.of_nat (S (length h)) - 1)) with (length h) by lia.
  by rewrite list_lookup_middle.
Qed.

Lemma tree_at_prefix (h h' : list (gmap N V)) n :
  (1 ≤ n ≤ Z.of_nat (length h))%Z → tree_at (h ++ h') n = tree_at h n.
Proof.
  intros Hn. unfold tree_at.
  destruct (decide (Z.of_nat (length (h ++ h')) < n)%Z) as [Hlt|_].
  { rewrite app_length in Hlt. lia. }
  destruct (decide (Z.of_nat (length h) < n)%Z) as [Hlt|_]; [lia|].
  destruct (decide (n ≤ 0)%Z) as [Hle|_]; [lia|].
  apply lookup_app_l. lia.
Qed.

Lemma commit_key_view (o : overlay V) T k : commit_key (o !! k) (T !! k) = view o T k.
Proof. unfold view, ent_of. by destruct (o !! k). Qed.

(** In every reachable state: what version+1 holds for a key after Commit is exactly what
    GetFinality returned for that key just before the commit (and nothing of the mempool
    overlay: see [mempool_invisible]). *)
Theorem commit_persists_consensus_view (ops : list (op V)) k :
  let c := final ops in
  let c' := (step c Commit).1 in
  length (hist c') = S (length (hist c)) ∧
  (step c' (ReadAt (Z.of_nat (S (length (hist c)))) k)).2 = (step c (GetF k)).2.
Proof.
  intros c c'. pose proof (final_R ops) as HR. fold c in HR.
  set (s := (spec_run_from sstate_empty ops).1) in HR.
  destruct (commit_sim c s HR) as (HT & _).
  pose proof HR as (_ & _ & _ & Hf).
  destruct (mem_get_sim (fin c) (cs s) (tree c) k Hf) as (Hv & _ & _).
  split.
  - unfold c'. simpl. rewrite app_length. simpl. lia.
  - unfold c', step, step_with. simpl. rewrite tree_at_snoc_new.
    destruct (mem_get (tree c) k (fin c)) as [m1 r]. simpl in *. rewrite Hv.
    unfold tree_read. fold (tree (commit c).1). rewrite <-HT.
    by rewrite commit_tree_spec_lookup, commit_key_view.
Qed.

(** * Corollary 3: history is immutable *)
Lemma step_hist_grows c (p : op V) : ∃ h', hist (step c p).1 = hist c ++ h'.
Proof.
  unfold step, step_with.
  destruct p as [k v|k|k|k|k|k| |k v|k|k|k|k| | |n k|n| ]; simpl;
    try (exists []; by rewrite app_nil_r).
  - destruct (mem_get _ _ _). exists []. by rewrite app_nil_r.
  - destruct (mem_del _ _ _ _). exists []. by rewrite app_nil_r.
  - destruct (mem_get _ _ _). exists []. by rewrite app_nil_r.
  - destruct (mem_del _ _ _ _), (mem_del _ _ _ _). exists []. by rewrite app_nil_r.
  - by eexists.
Qed.

Lemma run_hist_grows (ops : list (op V)) : ∀ c, ∃ h', hist (run_from step c ops).1 = hist c ++ h'.
Proof.
  induction ops as [|p ops IH]; intros c; simpl.
  - exists []. by rewrite app_nil_r.
  - destruct (step_hist_grows c p) as [h1 H1].
    destruct (step c p) as [c1 x]. simpl in *.
    destruct (IH c1) as [h2 H2].
    destruct (run_from step c1 ops) as [c2 xs]. simpl in *.
    exists (h1 ++ h2). by rewrite H2, H1, app_assoc.
Qed.

Lemma step_ReadAt c n k :
  (step c (ReadAt n k)).2 =
  match tree_at (hist c) n with Some T => out_of_read (tree_read T k) | None => OErr end.
Proof. done. Qed.
Lemma step_IterAt c n :
  (step c (IterAt n)).2 =
  match tree_at (hist c) n with Some T => OItems (sorted_items T) | None => OErr end.
Proof. done. Qed.

(** Whatever operations [ops'] follow (further commits, reopen, ...), reading an existing
    version n gives what it gave when that version was the newest or any time in between. *)
Theorem history_immutable (ops ops' : list (op V)) n :
  (1 ≤ n ≤ Z.of_nat (length (hist (final ops))))%Z →
  (∀ k, (step (final (ops ++ ops')) (ReadAt n k)).2 = (step (final ops) (ReadAt n k)).2) ∧
  (step (final (ops ++ ops')) (IterAt n)).2 = (step (final ops) (IterAt n)).2.
Proof.
  intros Hn. rewrite final_app.
  destruct (run_hist_grows ops' (final ops)) as [h' Hh].
  split; [intros k|]; rewrite ?step_ReadAt, ?step_IterAt, Hh, tree_at_prefix by done; done.
Qed.

(** the same on traces *)
Theorem history_immutable_trace (ops ops' : list (op V)) n k :
  (1 ≤ n ≤ Z.of_nat (length (hist (final ops))))%Z →
  last (run (ops ++ ops' ++ [ReadAt n k])) = last (run (ops ++ [ReadAt n k])).
Proof.
  intros Hn. rewrite app_assoc, !run_snoc, !last_snoc.
  by destruct (history_immutable ops ops' n Hn) as [-> _].
Qed.

(** * Corollary 4: the tree operations of a commit do not depend on the order in which
    Go's map iteration delivers the keys of updatedItems *)
Theorem commit_treeops_order_irrelevant rem (l1 l2 : list N) :
  l1 ≡ₚ l2 → commit_treeops rem l1 = commit_treeops rem l2.
Proof. intros Hp. unfold commit_treeops. by rewrite (sort_desc_perm l1 l2 Hp). Qed.

Theorem commit_output_order_irrelevant c (iter_keys : list N) :
  iter_keys ≡ₚ upd_keys (fin c) →
  (step c Commit).2 =
    OCommitted (N.of_nat (S (length (hist c)))) (commit_treeops (removed (fin c)) iter_keys) ∧
  tree (step c Commit).1 =
    foldl (apply_treeop (upd (fin c))) (tree c) (commit_treeops (removed (fin c)) iter_keys).
Proof.
  intros Hp. simpl. by rewrite (commit_treeops_order_irrelevant _ _ _ Hp).
Qed.

(** * Mutation through aliased pointers (outside C18) *)
Definition xfinal (ops : list (xop V)) : fledger V := (xrun_from fledger_empty ops).1.

Lemma alias_empty : alias_inv (mem_empty : mem V).
Proof. intros k v Hk. simpl in Hk. by rewrite lookup_empty in Hk. Qed.

Lemma alias_set k v m : alias_inv m → alias_inv (mem_set k v m).
Proof.
  intros Ha k' v'. simpl. destruct (decide (k = k')) as [<-|Hne].
  - by rewrite !lookup_insert.
  - rewrite !lookup_insert_ne by done. apply Ha.
Qed.

Lemma alias_cancel_set k m : alias_inv m → alias_inv (mem_cancel_set k m).
Proof.
  intros Ha k' v'. simpl. destruct (decide (k = k')) as [<-|Hne].
  - by rewrite !lookup_delete.
  - rewrite !lookup_delete_ne by done. apply Ha.
Qed.

Lemma alias_get T k m : alias_inv m → alias_inv (mem_get T k m).1.
Proof.
  intros Ha. unfold mem_get. destruct (got m !! k) as [v|] eqn:Hg; [done|].
  destruct (is_removed_key m k); [done|]. destruct (tree_read T k) as [v|]; [|done].
  intros k' v' Hk'. simpl in *. destruct (decide (k = k')) as [<-|Hne].
  - apply Ha in Hk'. congruence.
  - rewrite lookup_insert_ne by done. by apply Ha.
Qed.

Lemma alias_del T k m : alias_inv m → alias_inv (mem_del mem_get T k m).1.
Proof.
  intros Ha. pose proof (alias_get T k m Ha) as Ha1. unfold mem_del.
  destruct (mem_get T k m) as [m1 [v|]]; simpl in *; [|done].
  intros k' v'. simpl. destruct (decide (k = k')) as [<-|Hne].
  - by rewrite !lookup_delete.
  - rewrite !lookup_delete_ne by done. apply Ha1.
Qed.

Lemma alias_refresh m : alias_inv (mem_refresh m).
Proof. intros k v Hk. simpl in Hk. by rewrite lookup_empty in Hk. Qed.

Lemma alias_mutate k f m : alias_inv m → alias_inv (mem_mutate_got k f m).
Proof.
  intros Ha k' v'. simpl. destruct (decide (k = k')) as [<-|Hne].
  - rewrite !lookup_alter. destruct (upd m !! k) as [w|] eqn:Hw; [|done].
    apply Ha in Hw. by rewrite Hw.
  - rewrite !lookup_alter_ne by done. apply Ha.
Qed.

Lemma alias_step c (p : op V) :
  alias_inv (chk c) → alias_inv (fin c) →
  alias_inv (chk (step c p).1) ∧ alias_inv (fin (step c p).1).
Proof.
  intros Hm Hf. unfold step, step_with.
  destruct p as [k v|k|k|k|k|k| |k v|k|k|k|k| | |n k|n| ]; simpl; try done.
  - split; [by apply alias_set|done].
  - split; [by apply alias_cancel_set|done].
  - pose proof (alias_get (tree c) k (chk c) Hm). by destruct (mem_get _ _ _).
  - pose proof (alias_del (tree c) k (chk c) Hm). by destruct (mem_del _ _ _ _).
  - split; [done|by apply alias_set].
  - split; [done|by apply alias_cancel_set].
  - pose proof (alias_get (tree c) k (fin c) Hf). by destruct (mem_get _ _ _).
  - pose proof (alias_del (tree c) k (chk c) Hm). pose proof (alias_del (tree c) k (fin c) Hf).
    by destruct (mem_del _ _ _ (chk c)), (mem_del _ _ _ (fin c)).
Qed.

Lemma alias_xstep c (p : xop V) :
  alias_inv (chk c) → alias_inv (fin c) →
  alias_inv (chk (xstep c p).1) ∧ alias_inv (fin (xstep c p).1).
Proof.
  intros Hm Hf. destruct p as [p|k f|k f]; simpl.
  - by apply alias_step.
  - split; [by apply alias_mutate|done].
  - split; [done|by apply alias_mutate].
Qed.

(** in every state reachable by ledger operations and in-place mutations, the object in
    updatedItems is the object in gotItems *)
Theorem alias_inv_reachable (ops : list (xop V)) :
  alias_inv (chk (xfinal ops)) ∧ alias_inv (fin (xfinal ops)).
Proof.
  unfold xfinal.
  assert (∀ c, alias_inv (chk c) → alias_inv (fin c) →
    alias_inv (chk (xrun_from c ops).1) ∧ alias_inv (fin (xrun_from c ops).1)) as Hgen.
  { induction ops as [|p ops IH]; intros c Hm Hf; simpl; [done|].
    destruct (alias_xstep c p Hm Hf) as (Hm1 & Hf1).
    destruct (xstep c p) as [c1 x]. simpl in *.
    specialize (IH c1 Hm1 Hf1). by destruct (xrun_from c1 ops). }
  apply Hgen; apply alias_empty.
Qed.

(** Set/SetFinality after an in-place mutation = a plain Set/SetFinality of the mutated value *)
Lemma set_after_mutate_gen k f x m : mem_set k x (mem_mutate_got k f m) = mem_set k x m.
Proof.
  unfold mem_set, mem_mutate_got, set_got_item, set_updated_item. simpl.
  f_equal; apply map_eq; intros k'; (destruct (decide (k = k')) as [<-|Hne];
    [by rewrite !lookup_insert|by rewrite !lookup_insert_ne, lookup_alter_ne by done]).
Qed.

Lemma set_after_mutate k f v m :
  got m !! k = Some v → mem_set k (f v) (mem_mutate_got k f m) = mem_set k (f v) m.
Proof. intros _. apply set_after_mutate_gen. Qed.

(** ... whereas WITHOUT the following Set the mutation of a clean cached object is visible
    to reads but never reaches the tree (it is not in updatedItems): *)
Lemma mutate_clean_not_committed k f m :
  upd m !! k = None → upd (mem_mutate_got k f m) !! k = None.
Proof. intros Hu. simpl. by rewrite lookup_alter, Hu. Qed.

End refine.

(** * The unrepaired code does NOT refine the specification *)
Theorem ledger_buggy_refuted :
  ∃ ops : list (op N), outs (run_buggy ops) ≠ outs (run_spec ops).
Proof.
  exists [SetF 1%N 10%N; Commit; DelF 1%N; SetF 1%N 11%N; GetF 1%N].
  vm_compute. intros Heq. discriminate Heq.
Qed.

(** * The premises are inhabited: a non-trivial run
    key 1 is written and committed (version 1), then within one commit interval deleted,
    re-created, deleted twice more (the second delete fails: NotFound) and re-created
    again; the mempool write of key 2 is seen by the mempool read only and is gone after
    the commit; two more commits and a reopen later, versions 1 and 2 still read as
    committed. *)
Open Scope N_scope.
Definition c18_example : list (op N) :=
  [SetF 1 10; SetM 2 7; GetM 2; GetF 2; Commit; GetM 2; GetF 1; DelF 1; GetF 1; SetF 1 11;
   GetF 1; DelF 1; DelF 1; SetF 1 12; SetF 3 30; Commit; DelF 3; Commit; Reopen;
   ReadAt 1 1; ReadAt 2 1; ReadAt 3 1; IterAt 2; ReadAt 0 3; ReadAt 4 1].

Example c18_example_run :
  run c18_example =
  [ONil; ONil; OVal 7; ONotFound; OCommitted 1 [(true, 1)]; ONotFound;
   OVal 10; OVal 10; ONotFound; ONil; OVal 11;
   OVal 11; ONotFound; ONil; ONil;
   OCommitted 2 [(false, 1); (false, 1); (true, 3); (true, 1)];
   OVal 30; OCommitted 3 [(false, 3)]; ONil;
   OVal 10; OVal 12; OVal 12; OItems [(1, 12); (3, 30)]; ONotFound; OErr].
Proof. vm_compute. reflexivity. Qed.

(* the premise of [history_immutable] holds for version 2 after the first 16 operations,
   with the remaining 9 (a commit, a reopen, ...) as [ops'] *)
Example c18_example_history_premise :
  (1 ≤ 2 ≤ Z.of_nat (length (hist (final (take 16 c18_example)))))%Z ∧
  c18_example = take 16 c18_example ++ drop 16 c18_example.
Proof.
  split; [|by rewrite take_drop].
  vm_compute. split; intros Hc; discriminate Hc.
Qed.
Close Scope N_scope.
