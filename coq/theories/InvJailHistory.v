(* InvJailHistory.v — property C14, downtime: the jailing decision recomputed from the block HEADERS.

   C14_run_jail_iff (InvSlashClosed) states the decision in terms of the miss marks the model keeps
   in the delegatee record ([d_marks]), which BeginBlock also trims.  The harness judges the node by
   a predicate that recomputes the decision from the headers alone: the heights a validator missed
   are { h-1 | the BeginBlock of height h reported it as a non-signer }, collected while it stays a
   delegatee.  This file is the link between the two.

     reported_misses a g ops       the list just described, for the run [ops] from [init_chain g]
     agree_run                     the invariant: marks ⊆ reported misses, and from the start of the
                                   last window on they coincide
     marks_window_agree            (1) inside the window of the next BeginBlock the marks ARE the
                                   reported misses (same list)
     jail_decision_from_headers    (2) [jailed] = the decision computed from reported misses ++ [h-1]
     C14_jail_iff_headers          (2) combined with C14_run_jail_iff
     jh_example_*                  (3) window 4, minimum 2, misses at 1 6 9 10: jailed at block 11
     window_growth_refuted         the claim is FALSE of the model when governance enlarges the window

   Hypotheses: genesis_ok g, opts_ok ops, blocks Idle 0 (ops ++ [SBegin hd]) (InvSlashClosed),
   [votes_from_2] (every header carries votes only from height 2 on, so every BeginBlock answers Ok:
   a BeginBlock that fails discards its marking), and [window_nonincr]: no operation of the run
   enlarges g_signedBlocksWindow ([window_const] implies it; [wconst_from] decides that one on a
   concrete run).  The last one is about the states of the run, not about the inputs alone, and it
   cannot be dropped: BeginBlock drops the marks below the window (when at least two lie there), and
   a later, larger window reaches back below that point — the model then counts fewer misses than
   the headers report.  A window that shrinks does no harm.  Duplicated non-signers in a header do
   no harm either (NoDup is needed only by C14_run_jail_iff). *)
From Coq Require Import ZifyBool ZifyNat ZifyN.
From Rigo Require Import Base.
From stdpp Require Import gmap sorting.
From Rigo Require Import Spec SpecProps.
From Rigo Require InvFail InvNonce InvReward InvGov InvPanic InvValSet.
From Rigo Require Import InvStake InvFee InvSupply InvReach InvClosed InvSlash InvSlashClosed.
Local Open Scope Z_scope.

Local Opaque two256 two255 two64 two63.

(* ================================================================== 1. lists *)
Lemma elem_of_Lfilter {A} (f : A → bool) (l : list A) x : x ∈ List.filter f l ↔ x ∈ l ∧ f x = true.
Proof. rewrite !elem_of_list_In. apply filter_In. Qed.

Lemma elem_of_mark m h x : Forall (λ y, y ≤ h) m → x ∈ mark m h ↔ x ∈ m ∨ x = h.
Proof.
  intros Hm. unfold mark. destruct (last m) as [l|] eqn:El.
  - destruct (h <=? l) eqn:E.
    + split; [auto|]. intros [H| ->]; [exact H|]. apply last_Some in El as [m' ->].
      apply Forall_app in Hm as [_ Hl]. apply Forall_cons in Hl as [Hl _].
      assert (l = h) as -> by lia. apply elem_of_app. right. left.
    + rewrite elem_of_app, elem_of_list_singleton. tauto.
  - rewrite elem_of_app, elem_of_list_singleton. tauto.
Qed.

Lemma mark_fresh m h : Forall (λ y, y < h) m → mark m h = m ++ [h].
Proof.
  intros Hm. unfold mark. destruct (last m) as [l|] eqn:El; [|reflexivity].
  apply last_Some in El as [m' ->]. apply Forall_app in Hm as [_ Hl]. apply Forall_cons in Hl as [Hl _].
  destruct (h <=? l) eqn:E; [lia|reflexivity].
Qed.

Lemma incr_filter (f : Z → bool) m : incr m → incr (List.filter f m).
Proof.
  induction m as [|x m IH]; intros Hs; [constructor|]. apply StronglySorted_inv in Hs as [Hs Hx].
  cbn [List.filter]. destruct (f x); [|apply IH, Hs]. constructor; [apply IH, Hs|].
  apply Forall_forall. intros y Hy. apply elem_of_Lfilter in Hy as [Hy _].
  rewrite Forall_forall in Hx. apply Hx, Hy.
Qed.

Lemma incr_ext l1 : ∀ l2, incr l1 → incr l2 → (∀ x, x ∈ l1 ↔ x ∈ l2) → l1 = l2.
Proof.
  induction l1 as [|x l1 IH]; intros l2 H1 H2 He.
  - destruct l2 as [|y l2]; [reflexivity|]. exfalso. apply (not_elem_of_nil y), He. left.
  - destruct l2 as [|y l2]; [exfalso; apply (not_elem_of_nil x), He; left|].
    apply StronglySorted_inv in H1 as [H1 Hx]. apply StronglySorted_inv in H2 as [H2 Hy].
    rewrite Forall_forall in Hx, Hy.
    assert (x = y) as ->.
    { pose proof (proj1 (He x) ltac:(left)) as A. pose proof (proj2 (He y) ltac:(left)) as B.
      apply elem_of_cons in A as [A|A]; [exact A|]. apply elem_of_cons in B as [B|B]; [congruence|].
      apply Hy in A. apply Hx in B. lia. }
    f_equal. apply IH; [exact H1|exact H2|]. intros z. split; intros Hz.
    + pose proof (proj1 (He z) ltac:(right; exact Hz)) as A. apply elem_of_cons in A as [->|A]; [|exact A].
      apply Hx in Hz. lia.
    + pose proof (proj2 (He z) ltac:(right; exact Hz)) as A. apply elem_of_cons in A as [->|A]; [|exact A].
      apply Hy in Hz. lia.
Qed.

(* ================================================================== 2. one jailing pass, seen from one address *)
Section one_pass.
  Variables (g : params) (h : Z) (a : addr).
  Hypothesis Hw : 0 ≤ g_signedBlocksWindow g.
  Hypothesis Hh : 1 ≤ h.

  (* the marks [m] follow the set [S]: nothing outside S, everything of S from the window start on *)
  Definition tracks (S m : list Z) : Prop :=
    Forall (λ x, x ≤ h - 1) m ∧ (∀ x, x ∈ m → x ∈ S) ∧ (∀ x, win_start g h ≤ x → x ∈ S → x ∈ m).
  Definition otracks (S : list Z) (o : option delegatee) : Prop :=
    match o with None => True | Some d => tracks S (d_marks d) end.

  Lemma marks_after_tracks S1 S2 d :
    tracks S1 (d_marks d) → (∀ x, x ∈ S1 → x ∈ S2) → (∀ x, x ∈ S2 → x ∈ S1 ∨ x = h - 1) → h - 1 ∈ S2 →
    tracks S2 (marks_after g h d).
  Proof.
    intros (T1 & T2 & T3) H12 H21 Hin.
    pose proof (λ x, elem_of_mark (d_marks d) (h - 1) x T1) as Hm.
    assert (Hs0 : win_start g h ≤ h - 1) by (unfold win_start; lia).
    unfold marks_after, missed_marks.
    destruct (2 <=? length _)%nat.
    - split; [|split].
      + apply Forall_forall. intros x Hx. apply elem_of_Lfilter in Hx as [Hx _]. apply Hm in Hx as [Hx| ->]; [|lia].
        rewrite Forall_forall in T1. apply T1, Hx.
      + intros x Hx. apply elem_of_Lfilter in Hx as [Hx _]. apply Hm in Hx as [Hx| ->]; [apply H12, T2, Hx|exact Hin].
      + intros x Hx HS. apply elem_of_Lfilter. split; [|unfold before_window; lia].
        apply Hm. apply H21 in HS as [HS|HS]; [left; apply T3; assumption|right; exact HS].
    - split; [|split].
      + apply Forall_forall. intros x Hx. apply Hm in Hx as [Hx| ->]; [|lia].
        rewrite Forall_forall in T1. apply T1, Hx.
      + intros x Hx. apply Hm in Hx as [Hx| ->]; [apply H12, T2, Hx|exact Hin].
      + intros x Hx HS. apply Hm. apply H21 in HS as [HS|HS]; [left; apply T3; assumption|right; exact HS].
  Qed.

  Lemma jail_step_tracks S1 S2 l :
    marks_incr l → otracks S1 (dels l !! a) →
    (∀ x, x ∈ S1 → x ∈ S2) → (∀ x, x ∈ S2 → x ∈ S1 ∨ x = h - 1) → h - 1 ∈ S2 →
    otracks S2 (dels (jail_step g h l a) !! a).
  Proof.
    intros Hm Ho H12 H21 Hin. destruct (dels l !! a) as [d|] eqn:Ed.
    - rewrite (jail_step_present g h l a d Ed (Hm a d Ed) Hw Hh).
      destruct (jailed g h d); cbn [dels set_dels set_frozen].
      + rewrite lookup_delete. exact I.
      + rewrite lookup_insert. cbn [otracks with_marks d_marks]. eapply marks_after_tracks; eassumption.
    - rewrite jail_step_absent by exact Ed. rewrite Ed. exact I.
  Qed.

  Notation pass := (foldl (λ l b, jail_step g h l b)).

  Lemma pass_other L : a ∉ L → ∀ l, dels (pass l L) !! a = dels l !! a.
  Proof.
    induction L as [|b L IH]; intros Hni l; [reflexivity|]. cbn [foldl].
    apply not_elem_of_cons in Hni as [Hne Hni]. rewrite IH by exact Hni.
    destruct (jail_step_frame g h l b) as (_ & _ & _ & _ & _ & F). apply F. exact Hne.
  Qed.

  Lemma pass_marks L : ∀ l, marks_incr l → marks_incr (pass l L).
  Proof. induction L as [|b L IH]; intros l H; [exact H|]. cbn [foldl]. apply IH, jail_step_marks, H. Qed.

  Lemma pass_touched S L : ∀ l, marks_incr l → otracks (S ++ [h - 1]) (dels l !! a) →
    otracks (S ++ [h - 1]) (dels (pass l L) !! a).
  Proof.
    induction L as [|b L IH]; intros l Hm Ho; [exact Ho|]. cbn [foldl].
    apply IH; [apply jail_step_marks, Hm|]. destruct (decide (b = a)) as [->|Hne].
    - apply (jail_step_tracks (S ++ [h - 1]) (S ++ [h - 1])); [exact Hm|exact Ho|auto|auto|].
      apply elem_of_app. right. left.
    - destruct (jail_step_frame g h l b) as (_ & _ & _ & _ & _ & F). rewrite F by congruence. exact Ho.
  Qed.

  Lemma pass_first S L : a ∈ L → ∀ l, marks_incr l → otracks S (dels l !! a) →
    otracks (S ++ [h - 1]) (dels (pass l L) !! a).
  Proof.
    induction L as [|b L IH]; intros Hin l Hm Ho; [inversion Hin|]. cbn [foldl].
    destruct (decide (b = a)) as [->|Hne].
    - apply pass_touched; [apply jail_step_marks, Hm|].
      apply (jail_step_tracks S (S ++ [h - 1])); [exact Hm|exact Ho| | |].
      + intros x Hx. apply elem_of_app. left. exact Hx.
      + intros x Hx. apply elem_of_app in Hx as [Hx|Hx]; [left; exact Hx|right]. apply elem_of_list_singleton in Hx. exact Hx.
      + apply elem_of_app. right. left.
    - apply elem_of_cons in Hin as [->|Hin]; [congruence|].
      apply IH; [exact Hin|apply jail_step_marks, Hm|].
      destruct (jail_step_frame g h l b) as (_ & _ & _ & _ & _ & F). rewrite F by congruence. exact Ho.
  Qed.
End one_pass.

(* ================================================================== 3. the misses the headers report *)
Definition is_del (s : state) (a : addr) : bool :=
  match dels (work s) !! a with Some _ => true | None => false end.

(* one operation: a BeginBlock of height h that lists [a] as a non-signer while [a] is a delegatee
   adds h-1; the collection starts afresh when [a] is not a delegatee afterwards *)
Definition rm_step (a : addr) (acc : state * list Z) (o : sop) : state * list Z :=
  let s' := sstep acc.1 o in
  let R1 := match o with
            | SBegin hd => if is_del acc.1 a && bool_decide (a ∈ nonsigners (h_votes hd))
                           then acc.2 ++ [h_height hd - 1] else acc.2
            | _ => acc.2 end in
  (s', if is_del s' a then R1 else []).
Definition rm_run (a : addr) (g : genesis) (ops : list sop) : state * list Z :=
  foldl (rm_step a) (init_chain g, []) ops.
Definition reported_misses (a : addr) (g : genesis) (ops : list sop) : list Z := (rm_run a g ops).2.

Lemma rm_fold_fst a ops : ∀ acc, (foldl (rm_step a) acc ops).1 = srun acc.1 ops.
Proof. induction ops as [|o ops IH]; intros acc; [reflexivity|]. cbn [foldl]. rewrite IH. reflexivity. Qed.

Lemma rm_run_fst a g ops : (rm_run a g ops).1 = srun (init_chain g) ops.
Proof. apply rm_fold_fst. Qed.

Lemma rm_run_snoc a g ops o : rm_run a g (ops ++ [o]) = rm_step a (rm_run a g ops) o.
Proof. unfold rm_run. rewrite foldl_app. reflexivity. Qed.

Lemma srun_snoc s ops o : srun s (ops ++ [o]) = sstep (srun s ops) o.
Proof. unfold srun. rewrite foldl_app. reflexivity. Qed.

(* the collected list is strictly increasing and lies below the height of the next block: a fact
   about the list of headers only *)
Lemma rm_step_cases a acc o :
  (rm_step a acc o).2 = [] ∨ (rm_step a acc o).2 = acc.2 ∨
  ∃ hd, o = SBegin hd ∧ (rm_step a acc o).2 = acc.2 ++ [h_height hd - 1].
Proof.
  unfold rm_step. cbn [snd]. destruct (is_del _ a); [|left; reflexivity].
  destruct o as [hd|t| |]; try (right; left; reflexivity).
  destruct (_ && _); [right; right; eauto|right; left; reflexivity].
Qed.

Definition ph_off (ph : InvPanic.phase) : Z := match ph with InvPanic.Idle => 0 | _ => 1 end.

Lemma rm_incr a ops : ∀ ph n acc hd,
  blocks ph n (ops ++ [SBegin hd]) → incr acc.2 → Forall (λ x, x < n + ph_off ph) acc.2 →
  incr (foldl (rm_step a) acc ops).2 ∧ Forall (λ x, x < h_height hd - 1) (foldl (rm_step a) acc ops).2.
Proof.
  induction ops as [|o ops IH]; intros ph n acc hd Hb Hi Hf.
  - cbn [foldl]. destruct ph; cbn [app blocks] in Hb; try contradiction. destruct Hb as [Hh _].
    split; [exact Hi|]. eapply Forall_impl; [exact Hf|]. cbn. intros x Hx. lia.
  - cbn [foldl].
    assert (G : ∀ ph' n', blocks ph' n' (ops ++ [SBegin hd]) →
                (∀ hd0, o = SBegin hd0 → h_height hd0 - 1 = n ∧ ph = InvPanic.Idle) →
                n + ph_off ph ≤ n' + ph_off ph' → (o ≠ SCommit → n' + ph_off ph' = n + 1) →
                incr (foldl (rm_step a) (rm_step a acc o) ops).2 ∧
                Forall (λ x, x < h_height hd - 1) (foldl (rm_step a) (rm_step a acc o) ops).2).
    { intros ph' n' Hb' Ho Hle Hnc. apply (IH ph' n' _ hd Hb').
      - destruct (rm_step_cases a acc o) as [->|[->|(hd0 & -> & ->)]]; [constructor|exact Hi|].
        destruct (Ho hd0 eq_refl) as [-> ->]. cbn in Hf. apply incr_snoc; [exact Hi|].
        eapply Forall_impl; [exact Hf|]. cbn. intros x Hx. lia.
      - destruct (rm_step_cases a acc o) as [->|[->|(hd0 & -> & ->)]]; [constructor| |].
        + eapply Forall_impl; [exact Hf|]. cbn. intros x Hx. lia.
        + destruct (Ho hd0 eq_refl) as [E ->]. cbn in Hf. apply Forall_app. split.
          * eapply Forall_impl; [exact Hf|]. cbn. intros x Hx. specialize (Hnc ltac:(discriminate)). lia.
          * constructor; [|constructor]. specialize (Hnc ltac:(discriminate)). lia. }
    destruct ph, o as [hd0|t| |]; cbn [app blocks] in Hb; try contradiction.
    + destruct Hb as [Hh0 Hb]. apply (G InvPanic.InBlock n Hb); cbn; [|lia|lia].
      intros hd1 [= <-]. split; [lia|reflexivity].
    + apply (G InvPanic.InBlock n Hb); cbn; [|lia|lia]. intros hd1 [=].
    + apply (G InvPanic.Ended n Hb); cbn; [|lia|lia]. intros hd1 [=].
    + apply (G InvPanic.Idle (n + 1) Hb); cbn; [|lia|congruence]. intros hd1 [=].
Qed.

(* ================================================================== 4. what the other operations do to the marks *)
(* a delegatee that stays keeps its marks; a new one starts without any *)
Definition marks_kept (l l' : ledgers) : Prop :=
  ∀ a d', dels l' !! a = Some d' →
    match dels l !! a with Some d => d_marks d' = d_marks d | None => d_marks d' = [] end.

Lemma marks_kept_dels l l' : dels l' = dels l → marks_kept l l'.
Proof. intros E a d' H. rewrite E in H. rewrite H. reflexivity. Qed.

Lemma marks_kept_pre l0 l l' : dels l0 = dels l → marks_kept l0 l' → marks_kept l l'.
Proof. intros E H a d' Hd. specialize (H a d' Hd). rewrite E in H. exact H. Qed.

Lemma marks_kept_post l l1 l' : dels l' = dels l1 → marks_kept l l1 → marks_kept l l'.
Proof. intros E H a d' Hd. rewrite E in Hd. exact (H a d' Hd). Qed.

Lemma stake_execute_kept s l t l' : stake_execute s l t = Ok l' → marks_kept l l'.
Proof.
  unfold stake_execute. intros H. cbv zeta in H.
  destruct (t_type t =? TRX_STAKING).
  - destruct (match dels l !! t_to t with Some d => Some d | None => _ end) as [d|] eqn:Ed; [|discriminate].
    destruct (accts l !! t_from t) as [sender|]; [|discriminate].
    destruct (sub_balance sender (t_amount t)) as [sender'|]; [|discriminate]. injection H as <-.
    intros b d' Hb. cbn [dels set_dels set_acct] in Hb.
    destruct (decide (b = t_to t)) as [->|Hne].
    + rewrite lookup_insert in Hb. injection Hb as <-. cbn [d_marks add_stake].
      destruct (dels l !! t_to t) as [d0|] eqn:E0.
      * injection Ed as <-. reflexivity.
      * destruct (t_from t =? t_to t)%N; [injection Ed as <-; reflexivity|discriminate].
    + rewrite lookup_insert_ne in Hb by congruence. rewrite Hb. reflexivity.
  - destruct (t_type t =? TRX_UNSTAKING).
    + destruct (dels l !! t_to t) as [d|] eqn:Ed; [|discriminate].
      destruct (t_payload t) as [|hs ok| | | | |]; try discriminate.
      destruct (find_stake hs (d_stakes d)) as [s0|]; [|discriminate].
      destruct (negb (s_from s0 =? t_from t)%N); [discriminate|].
      destruct (if d_self (del_stake d hs) =? 0 then _ else _) as [d2 fr2] eqn:E2.
      assert (Hd2 : d_marks d2 = d_marks d).
      { destruct (d_self (del_stake d hs) =? 0); injection E2 as <- _; simpl; apply del_stake_marks. }
      destruct (d_total d2 =? 0); injection H as <-; intros b d' Hb; cbn [dels set_dels set_frozen] in Hb.
      * apply lookup_delete_Some in Hb as [_ Hb]. rewrite Hb. reflexivity.
      * destruct (decide (b = t_to t)) as [->|Hne].
        -- rewrite lookup_insert in Hb. injection Hb as <-. rewrite Ed. exact Hd2.
        -- rewrite lookup_insert_ne in Hb by congruence. rewrite Hb. reflexivity.
    + destruct (t_payload t) as [| |req| | | |]; try discriminate.
      destruct (rewards l !! t_from t) as [r|]; [|discriminate].
      destruct (r_height r >? _); [discriminate|].
      destruct (acct_reward _ _ _) as [l2|] eqn:Ear; [|discriminate]. injection H as <-.
      unfold acct_reward in Ear. cbn [accts set_rewards] in Ear.
      destruct (accts l !! t_from t) as [x|]; [|discriminate]. cbn [mbind option_bind] in Ear.
      destruct (add_balance x req); [|discriminate]. injection Ear as <-. apply marks_kept_dels. reflexivity.
Qed.

Lemma deliver_kept s t : marks_kept (work s) (work (deliver s t).1).
Proof.
  pose proof (deliver_work_cases s t) as C. cbv zeta in C.
  pose proof (find_or_new_dels (work s) (t_to t)) as E0.
  destruct C as [->|[->|[(l' & g & Hx & ->)|(s2 & l' & _ & _ & Hx & Hw)]]].
  - apply marks_kept_dels; reflexivity.
  - apply marks_kept_dels, E0.
  - apply marks_kept_dels. rewrite (evm_execute_dels _ _ _ _ Hx). exact E0.
  - assert (Hl' : marks_kept (work s) l').
    { destruct Hx as [Hx|[Hx|Hx]].
      - apply marks_kept_dels. rewrite (gov_execute_dels _ _ _ _ Hx). exact E0.
      - apply marks_kept_dels. rewrite (acct_execute_dels _ _ _ Hx). exact E0.
      - eapply marks_kept_pre; [exact E0|]. eapply stake_execute_kept, Hx. }
    destruct Hw as [->|(x & ->)]; [exact Hl'|]. eapply marks_kept_post; [|exact Hl']. reflexivity.
Qed.

Lemma init_chain_no_marks g a d : dels (work (init_chain g)) !! a = Some d → d_marks d = [].
Proof.
  unfold init_chain. cbn [work]. revert a d.
  set (nomarks := λ l : ledgers, ∀ a d, dels l !! a = Some d → d_marks d = []).
  assert (H1 : ∀ hs l, dels (foldl (λ l (h : addr * Z), set_acct l h.1 {| a_nonce := 0; a_bal := h.2; a_code := false; a_name := 0%N; a_doc := 0%N |}) l hs) = dels l).
  { induction hs as [|x hs IH]; intros l; simpl; [reflexivity|]. rewrite IH. reflexivity. }
  assert (H2 : ∀ (vs : list (addr * Z)) l, dels (foldl (λ l v, (find_or_new l v.1).1) l vs) = dels l).
  { induction vs as [|x vs IH]; intros l; simpl; [reflexivity|]. rewrite IH. apply find_or_new_dels. }
  assert (H3 : ∀ (vs : list (addr * Z)) l, nomarks l → nomarks (foldl (λ l v, set_dels l (<[v.1 := add_stake (new_delegatee v.1)
               {| s_from := v.1; s_to := v.1; s_hash := 0%N; s_start := 1; s_refund := 0; s_power := v.2 |}]> (dels l))) l vs)).
  { induction vs as [|x vs IH]; intros l Hl; simpl; [exact Hl|]. apply IH. intros b d Hb. cbn [dels set_dels] in Hb.
    destruct (decide (b = x.1)) as [->|Hne].
    - rewrite lookup_insert in Hb. injection Hb as <-. reflexivity.
    - rewrite lookup_insert_ne in Hb by congruence. eapply Hl, Hb. }
  apply H3. intros a d Hd. rewrite H2, H1 in Hd. simpl in Hd. rewrite lookup_empty in Hd. discriminate.
Qed.

(* the two heights of the state, in every run whatsoever *)
Definition heights_ok (s : state) : Prop := last_height s ≤ b_height (bctx s) ≤ last_height s + 1.

Lemma heights_step s o : heights_ok s → heights_ok (sstep s o).
Proof.
  unfold heights_ok. intros H. destruct o as [hd|t| |]; cbn [sstep].
  - destruct (begin_block s hd) as [s' r] eqn:E. cbn [fst].
    destruct (begin_block_frame _ _ _ _ E) as [Hne Heq].
    destruct (Z.eq_dec (h_height hd) (last_height s + 1)) as [E1|E1].
    + destruct (Heq E1) as (_ & _ & _ & _ & L & B & _). rewrite L, B. cbn. lia.
    + destruct (Hne E1) as [-> _]. exact H.
  - destruct (deliver s t) as [s' r] eqn:E. cbn [fst].
    destruct (InvGov.deliver_inv _ _ _ _ E) as ((_ & _ & _ & _ & _ & B & _ & L) & _). rewrite B, L. exact H.
  - destruct (end_block s) as [s' r] eqn:E. cbn [fst].
    destruct (InvGov.end_block_inv _ _ _ E) as (_ & _ & B & L & _). rewrite B, L. exact H.
  - cbn. lia.
Qed.

Lemma heights_run g ops : heights_ok (srun (init_chain g) ops).
Proof.
  assert (H0 : heights_ok (init_chain g)) by (unfold heights_ok; cbn; lia).
  revert H0. unfold srun. generalize (init_chain g).
  induction ops as [|o ops IH]; intros s Hs; [exact Hs|]. cbn [foldl]. apply IH, heights_step, Hs.
Qed.

(* the punishment phase of BeginBlock keeps every delegatee and its marks *)
Lemma punished_marks s hd a :
  match dels (work s) !! a with
  | Some d => ∃ d2, dels (punished s hd) !! a = Some d2 ∧ d_marks d2 = d_marks d
  | None => dels (punished s hd) !! a = None
  end.
Proof.
  unfold punished.
  destruct (stake_punish_spec (gov_punish (work s) (g_slashRatio (gparams s)) (h_evidence hd))
              (g_slashRatio (gparams s)) (h_evidence hd)) as (H & _).
  rewrite H. rewrite gov_punish_eq. cbn [dels set_props].
  destruct (dels (work s) !! a) as [d|]; [|reflexivity]. cbn [fmap option_fmap option_map].
  eexists. split; [reflexivity|]. induction (times a (h_evidence hd)) as [|n IH]; [reflexivity|]. exact IH.
Qed.

Lemma punished_marks_incr g ops hd : marks_incr (punished (srun (init_chain g) ops) hd).
Proof.
  unfold punished. apply stake_punish_marks. eapply marks_incr_dels; [|apply (marks_incr_run g ops)].
  rewrite gov_punish_eq. reflexivity.
Qed.

(* ================================================================== 5. the invariant of the run *)
(* the start of the window of the last BeginBlock, for the window parameter now in force *)
Definition cutoff (s : state) : Z := Z.max 0 (b_height (bctx s) - 1 - g_signedBlocksWindow (gparams s)).

(* the marks of [a] and the list [R] collected from the headers: the marks are among R, and from
   the start of the last window on every element of R is a mark *)
Definition agree (s : state) (a : addr) (R : list Z) : Prop :=
  match dels (work s) !! a with
  | None => R = []
  | Some d => Forall (λ x, x ≤ last_height s) (d_marks d) ∧ (∀ x, x ∈ d_marks d → x ∈ R) ∧
              (∀ x, cutoff s ≤ x → x ∈ R → x ∈ d_marks d)
  end.

(* the window parameter in force never changes along the run *)
Definition window_const (g : genesis) (ops : list sop) : Prop :=
  ∀ pre post, ops = pre ++ post →
    g_signedBlocksWindow (gparams (srun (init_chain g) pre)) = g_signedBlocksWindow (gen_params g).
(* ... or at least never grows: no operation of the run enlarges it *)
Definition window_nonincr (g : genesis) (ops : list sop) : Prop :=
  ∀ pre o post, ops = pre ++ o :: post →
    g_signedBlocksWindow (gparams (sstep (srun (init_chain g) pre) o))
    ≤ g_signedBlocksWindow (gparams (srun (init_chain g) pre)).
Lemma window_const_nonincr g ops : window_const g ops → window_nonincr g ops.
Proof.
  intros H pre o post E. rewrite <- srun_snoc.
  rewrite (H (pre ++ [o]) post), (H pre (o :: post)); [lia|exact E|rewrite E, <- app_assoc; reflexivity].
Qed.
(* votes are carried only from height 2 on (consensus has no LastCommitInfo at height 1) *)
Definition votes_from_2 (ops : list sop) : Prop :=
  Forall (λ o, match o with SBegin hd => h_votes hd = [] ∨ 2 ≤ h_height hd | _ => True end) ops.

Lemma agree_quiet s s' a R :
  agree s a R → marks_kept (work s) (work s') → cutoff s ≤ cutoff s' →
  last_height s ≤ last_height s' → agree s' a (if is_del s' a then R else []).
Proof.
  unfold agree, is_del. intros H Hk Hb Hl.
  destruct (dels (work s') !! a) as [d'|] eqn:E'; [|reflexivity]. specialize (Hk a d' E').
  destruct (dels (work s) !! a) as [d|].
  - rewrite Hk. destruct H as (F & A & B). split; [|split].
    + eapply Forall_impl; [exact F|]. cbn. intros x Hx. lia.
    + exact A.
    + intros x Hx. apply B. lia.
  - subst R. rewrite Hk. split; [constructor|]. split; intros x Hx; [inversion Hx|]. intros Hx'. inversion Hx'.
Qed.

Theorem agree_run g ops a :
  params_ok (gen_params g) → opts_ok ops → blocks InvPanic.Idle 0 ops → votes_from_2 ops → window_nonincr g ops →
  agree (srun (init_chain g) ops) a (reported_misses a g ops).
Proof.
  intros Hg. induction ops as [|o ops IH] using rev_ind; intros Ho Hb Hv Hc.
  - unfold agree, reported_misses. cbn [rm_run foldl snd srun].
    destruct (dels (work (init_chain g)) !! a) as [d|] eqn:Ed; [|reflexivity].
    rewrite (init_chain_no_marks g a d Ed). split; [constructor|].
    split; intros x Hx; [inversion Hx|]. intros Hx'; inversion Hx'.
  - pose proof (blocks_prefix _ _ _ _ Hb) as Hb0. apply Forall_app in Hv as [Hv0 Hvo].
    apply Forall_cons in Hvo as [Hvo _]. pose proof Ho as Ho1. apply Forall_app in Ho1 as [Ho0 _].
    assert (Hc0 : window_nonincr g ops).
    { intros pre o' post E. apply (Hc pre o' (post ++ [o])). rewrite E, <- app_assoc. reflexivity. }
    specialize (IH Ho0 Hb0 Hv0 Hc0).
    pose proof (heights_run g ops) as Hhs. unfold heights_ok in Hhs.
    pose proof (params_ok_window _ (params_ok_reachable g ops Hg Ho0 ops (reflexivity _))) as Hwgp.
    pose proof (Hc ops o [] eq_refl) as HW.
    unfold reported_misses in *. rewrite rm_run_snoc, srun_snoc.
    pose proof (rm_run_fst a g ops) as Hfst.
    set (s := srun (init_chain g) ops) in *. destruct (rm_run a g ops) as [s_ R]. cbn [fst snd] in *. subst s_.
    unfold rm_step. cbn [fst snd].
    destruct o as [hd|t| |].
    + pose proof (blocks_height g ops hd Hb) as Hh. fold s in Hh.
      destruct (blocks_begin_ok g ops hd Hb Hvo) as (iss & Hans). fold s in Hans.
      pose proof (blocks_height_pos ops hd Hb) as Hh1.
      pose proof (begin_block_cases s hd Hh) as C. cbv zeta in C.
      destruct C as (_ & G & _ & _ & L & B & _ & _ & _ & _ & C). rewrite Hans in C. destruct C as [CD _].
      rewrite jail_votes_nonsigners in CD.
      pose proof (punished_marks s hd a) as PM. pose proof (punished_marks_incr g ops hd) as PI. fold s in PI.
      cbn [sstep]. unfold agree, is_del. rewrite CD.
      destruct (dels (foldl _ (punished s hd) (nonsigners (h_votes hd))) !! a) as [d'|] eqn:E'; [|reflexivity].
      destruct (jail_fold_marks_only _ _ _ _ _ _ E') as (d2 & Hd2 & _).
      unfold agree in IH.
      destruct (dels (work s) !! a) as [d|] eqn:Ed; [|congruence].
      destruct PM as (d2' & Hd2' & Hm2). rewrite Hd2 in Hd2'. injection Hd2' as <-.
      destruct IH as (F & A & Bc). cbn [andb].
      destruct (decide (a ∈ nonsigners (h_votes hd))) as [Hin|Hni].
      * rewrite bool_decide_eq_true_2 by exact Hin.
        pose proof (pass_first (gparams s) (h_height hd) a Hwgp Hh1 R _ Hin (punished s hd) PI) as PF.
        rewrite Hd2, E' in PF. cbn [otracks] in PF.
        assert (T : tracks (gparams s) (h_height hd) R (d_marks d2)).
        { rewrite Hm2. split; [|split].
          - eapply Forall_impl; [exact F|]. cbn. intros x Hx. lia.
          - exact A.
          - intros x Hx HR. apply Bc; [|exact HR]. unfold cutoff. unfold win_start in Hx. lia. }
        destruct (PF T) as (F' & A' & B').
        split; [|split].
        -- rewrite L. eapply Forall_impl; [exact F'|]. cbn. intros x Hx. lia.
        -- exact A'.
        -- intros x Hx. apply B'. unfold cutoff in Hx. rewrite B, G in Hx. cbn [b_height] in Hx. unfold win_start. lia.
      * rewrite bool_decide_eq_false_2 by exact Hni.
        rewrite pass_other in E' by exact Hni. rewrite Hd2 in E'. injection E' as <-. rewrite Hm2.
        split; [|split].
        -- rewrite L. exact F.
        -- exact A.
        -- intros x Hx. apply Bc. unfold cutoff in *. rewrite B, G in Hx. cbn [b_height] in Hx. lia.
    + apply (agree_quiet s); [exact IH|apply deliver_kept| |]; cbn [sstep];
        destruct (deliver s t) as [s' r] eqn:E; cbn [fst];
        destruct (InvGov.deliver_inv _ _ _ _ E) as ((_ & G & _ & _ & _ & B & _ & L) & _);
        [unfold cutoff; rewrite G, B|]; lia.
    + apply (agree_quiet s); [exact IH|apply marks_kept_dels, end_block_dels| |]; cbn [sstep];
        destruct (end_block s) as [s' r] eqn:E; cbn [fst];
        destruct (InvGov.end_block_inv _ _ _ E) as (_ & G & B & L & _);
        [unfold cutoff; rewrite G, B|]; lia.
    + apply (agree_quiet s); [exact IH|apply marks_kept_dels; reflexivity| |cbn; lia].
      cbn [sstep] in HW |- *. unfold cutoff. change (b_height (bctx (commit s))) with (b_height (bctx s)). lia.
Qed.
Print Assumptions agree_run.

(* ================================================================== 6. (1) marks and reported misses agree inside the window *)
Lemma genesis_window g : genesis_ok g → 0 ≤ g_signedBlocksWindow (gen_params g).
Proof. intros (H & _). apply params_ok_window, H. Qed.

(* In the state a BeginBlock of height h starts from, for every delegatee: the marks inside the
   window [max 0 (h-1-window), h-1] are exactly the reported misses inside it (the same list); with
   the miss of h-1 recorded on both sides likewise; no mark is ever outside the reported misses;
   the reported misses are strictly increasing and below h-1.  So trimming only ever removes marks
   that lie outside every later window — as long as the window parameter does not change. *)
Theorem marks_window_agree g ops hd a d :
  genesis_ok g → opts_ok ops → blocks InvPanic.Idle 0 (ops ++ [SBegin hd]) → votes_from_2 ops → window_nonincr g ops →
  let s := srun (init_chain g) ops in
  let h := h_height hd in
  let s0 := win_start (gparams s) h in
  let R := reported_misses a g ops in
  dels (work s) !! a = Some d →
  List.filter (in_window s0 (h - 1)) (d_marks d) = List.filter (in_window s0 (h - 1)) R ∧
  List.filter (in_window s0 (h - 1)) (missed_marks h d) = List.filter (in_window s0 (h - 1)) (R ++ [h - 1]) ∧
  (∀ x, x ∈ d_marks d → x ∈ R) ∧
  incr R ∧ Forall (λ x, x < h - 1) R.
Proof.
  intros Hg Ho Hb Hv Hc s h s0 R Ed.
  pose proof (agree_run g ops a (proj1 Hg) Ho (blocks_prefix _ _ _ _ Hb) Hv Hc) as HA. fold s R in HA.
  unfold agree in HA. rewrite Ed in HA. destruct HA as (F & A & B).
  destruct (rm_incr a ops InvPanic.Idle 0 (init_chain g, []) hd Hb) as [RI RB]; [constructor|constructor|].
  change (foldl (rm_step a) (init_chain g, []) ops).2 with R in RI, RB. fold h in RB.
  pose proof (blocks_height g ops hd Hb) as Hh. fold s h in Hh.
  pose proof (heights_run g ops) as Hhs. fold s in Hhs. unfold heights_ok in Hhs.
  pose proof (marks_incr_run g ops a d Ed) as MI.
  assert (E1 : List.filter (in_window s0 (h - 1)) (d_marks d) = List.filter (in_window s0 (h - 1)) R).
  { apply incr_ext; [apply incr_filter, MI|apply incr_filter, RI|]. intros x. rewrite !elem_of_Lfilter.
    split; intros [Hx Hi]; (split; [|exact Hi]).
    - apply A, Hx.
    - apply B; [|exact Hx]. unfold in_window in Hi. unfold cutoff. subst s0. unfold win_start in Hi. lia. }
  split; [exact E1|]. split; [|split; [exact A|split; [exact RI|exact RB]]].
  unfold missed_marks. rewrite mark_fresh.
  - rewrite !List.filter_app, E1. reflexivity.
  - apply Forall_forall. intros x Hx. apply A in Hx. rewrite Forall_forall in RB. apply RB, Hx.
Qed.
Print Assumptions marks_window_agree.

(* ================================================================== 7. (2) the decision from the headers *)
(* the decision the harness computes: the reported misses, the miss of h-1 added, restricted to the
   window; window − their number < minimum *)
Definition header_decision (gp : params) (h : Z) (R : list Z) : bool :=
  g_signedBlocksWindow gp
    - Z.of_nat (length (List.filter (in_window (win_start gp h) (h - 1)) (R ++ [h - 1])))
  <? g_minSignedBlocks gp.

(* h-1 is counted once: it is not among the reported misses *)
Lemma header_decision_count gp h R :
  0 ≤ g_signedBlocksWindow gp → 1 ≤ h →
  header_decision gp h R =
    (g_signedBlocksWindow gp - (Z.of_nat (length (List.filter (in_window (win_start gp h) (h - 1)) R)) + 1)
     <? g_minSignedBlocks gp).
Proof.
  intros Hw Hh. unfold header_decision. rewrite List.filter_app, app_length. cbn [List.filter].
  assert (E : in_window (win_start gp h) (h - 1) (h - 1) = true) by (unfold in_window, win_start; lia).
  rewrite E. cbn [length]. f_equal. lia.
Qed.

Theorem jail_decision_from_headers g ops hd a d :
  genesis_ok g → opts_ok ops → blocks InvPanic.Idle 0 (ops ++ [SBegin hd]) → votes_from_2 ops → window_nonincr g ops →
  let s := srun (init_chain g) ops in
  dels (work s) !! a = Some d →
  jailed (gparams s) (h_height hd) (after_evidence s hd a d)
  = header_decision (gparams s) (h_height hd) (reported_misses a g ops).
Proof.
  intros Hg Ho Hb Hv Hc s Ed.
  destruct (marks_window_agree g ops hd a d Hg Ho Hb Hv Hc Ed) as (_ & E2 & _). fold s in E2.
  unfold jailed, signed_in_window, missed_in_window, header_decision.
  change (missed_marks (h_height hd) (after_evidence s hd a d)) with (missed_marks (h_height hd) d).
  rewrite E2. reflexivity.
Qed.
Print Assumptions jail_decision_from_headers.

(* C14_run_jail_iff with the decision read off the headers: a delegatee leaves in the block of
   header [hd] iff [hd] reports it as a non-signer and the header decision is "jail" *)
Theorem C14_jail_iff_headers g pre hd :
  genesis_ok g → hashes_fresh pre → opts_ok pre → blocks InvPanic.Idle 0 (pre ++ [SBegin hd]) →
  NoDup (nonsigners (h_votes hd)) → votes_from_2 (pre ++ [SBegin hd]) → window_nonincr g pre →
  let s := srun (init_chain g) pre in
  ∀ a d, dels (work s) !! a = Some d →
    (dels (work (sstep s (SBegin hd))) !! a = None ↔
     a ∈ nonsigners (h_votes hd) ∧
     header_decision (gparams s) (h_height hd) (reported_misses a g pre) = true).
Proof.
  intros Hg Hh Ho Hb Hnd Hv Hc s a d Ed. subst s.
  apply Forall_app in Hv as [Hv0 Hvo]. apply Forall_cons in Hvo as [Hvo _].
  destruct (C14_run_jail_iff g pre hd Hg Hh Ho Hb Hnd Hvo) as [_ J].
  unfold jailing_exact in J. cbv zeta in J. destruct J as (_ & _ & _ & J4 & _).
  rewrite (J4 a d Ed). rewrite (jail_decision_from_headers g pre hd a d Hg Ho Hb Hv0 Hc Ed). reflexivity.
Qed.
Print Assumptions C14_jail_iff_headers.

(* ================================================================== 8. (3) a concrete run *)
(* [window_const] is decidable on a concrete run *)
Fixpoint wconst_from (w : Z) (s : state) (ops : list sop) : bool :=
  (g_signedBlocksWindow (gparams s) =? w) &&
  match ops with [] => true | o :: r => wconst_from w (sstep s o) r end.

Lemma wconst_from_ok w ops : ∀ s, wconst_from w s ops = true →
  ∀ pre post, ops = pre ++ post → g_signedBlocksWindow (gparams (srun s pre)) = w.
Proof.
  induction ops as [|o ops IH]; intros s H pre post E; cbn [wconst_from] in H; apply andb_true_iff in H as [H1 H2].
  - destruct pre; [|discriminate]. cbn. lia.
  - destruct pre as [|o' pre]; [cbn; lia|]. cbn [app] in E. injection E as <- E.
    change (srun s (o :: pre)) with (srun (sstep s o) pre). apply (IH _ H2 pre post E).
Qed.

Lemma window_const_check g ops :
  wconst_from (g_signedBlocksWindow (gen_params g)) (init_chain g) ops = true → window_const g ops.
Proof. intros H pre post E. apply (wconst_from_ok _ ops _ H pre post E). Qed.

(* one validator (11, power 100); signing window 4, at least 2 signed blocks required.  Ten empty
   blocks; the headers of blocks 2, 7 and 10 report 11 as a non-signer (misses at heights 1, 6, 9).
   Block 11 reports the miss of height 10. *)
Definition jh_params : params := {|
  g_version := 1; g_maxValidatorCnt := 21; g_minValidatorStake := 7 * amountPerPower;
  g_minDelegatorStake := 0; g_rewardPerPower := 1000; g_lazyRewardBlocks := 1; g_lazyApplyingBlocks := 1;
  g_gasPrice := 10; g_minTrxGas := 4000; g_maxTrxGas := 25000000; g_maxBlockGas := 100000000;
  g_minVotingPeriodBlocks := 1; g_maxVotingPeriodBlocks := 100; g_minSelfStakeRatio := 50;
  g_maxUpdatableStakeRatio := 30; g_maxIndividualStakeRatio := 10000000; g_slashRatio := 50;
  g_signedBlocksWindow := 4; g_minSignedBlocks := 2 |}.
Definition jh_genesis : genesis := {|
  gen_params := jh_params; gen_holders := [(11%N, 1000 * amountPerPower)]; gen_validators := [(11%N, 100)] |}.
Definition jh_hdr (h : Z) (signed : bool) : header :=
  {| h_height := h; h_proposer := Some 11%N;
     h_votes := if h =? 1 then [] else [(11%N, 100, signed)]; h_evidence := [] |}.
Definition jh_block (h : Z) (signed : bool) : list sop := [SBegin (jh_hdr h signed); SEnd; SCommit].
Definition jh_pre9 : list sop :=
  jh_block 1 true ++ jh_block 2 false ++ jh_block 3 true ++ jh_block 4 true ++ jh_block 5 true ++
  jh_block 6 true ++ jh_block 7 false ++ jh_block 8 true ++ jh_block 9 true.
Definition jh_pre : list sop := jh_pre9 ++ jh_block 10 false.
Definition jh_s9 : state := srun (init_chain jh_genesis) jh_pre9.
Definition jh_s : state := srun (init_chain jh_genesis) jh_pre.

Lemma jh_genesis_ok : genesis_ok jh_genesis.
Proof.
  split; [repeat split; vm_compute; congruence|]. split; [vm_compute; lia|]. split.
  - repeat apply Forall_cons_2; try apply Forall_nil_2; split; vm_compute; congruence.
  - repeat apply Forall_cons_2; try apply Forall_nil_2; split; vm_compute; congruence.
Qed.

Lemma jh_inputs sg :
  hashes_fresh jh_pre ∧ opts_ok jh_pre ∧ blocks InvPanic.Idle 0 (jh_pre ++ [SBegin (jh_hdr 11 sg)]) ∧
  NoDup (nonsigners (h_votes (jh_hdr 11 sg))) ∧ votes_from_2 (jh_pre ++ [SBegin (jh_hdr 11 sg)]) ∧
  window_const jh_genesis jh_pre.
Proof.
  split; [apply NoDup_singleton|]. split; [repeat constructor|]. split; [cbn; repeat split|].
  split; [destruct sg; cbn; [apply NoDup_nil_2|apply NoDup_singleton]|].
  split; [|apply window_const_check; vm_compute; reflexivity].
  unfold votes_from_2. cbn [jh_pre jh_pre9 jh_block app].
  repeat apply Forall_cons_2; try apply Forall_nil_2; try exact I;
    first [left; reflexivity|right; cbn; lia].
Qed.

(* the values: the reported misses before block 11 are 1, 6, 9 and so are the marks; with the miss
   of height 10 the window [6,10] holds three misses, 4 - 3 < 2: jailed at block 11.  One block
   earlier the window [5,9] held two, 4 - 2 = 2: not jailed — the decision flips exactly at the
   threshold; and had 11 signed block 10 it would have stayed. *)
Example jh_example_values :
  reported_misses 11%N jh_genesis jh_pre9 = [1; 6] ∧
  reported_misses 11%N jh_genesis jh_pre = [1; 6; 9] ∧
  (d_marks <$> dels (work jh_s9) !! 11%N) = Some [1; 6] ∧
  (d_marks <$> dels (work jh_s) !! 11%N) = Some [1; 6; 9] ∧
  header_decision (gparams jh_s9) 10 (reported_misses 11%N jh_genesis jh_pre9) = false ∧
  header_decision (gparams jh_s) 11 (reported_misses 11%N jh_genesis jh_pre) = true ∧
  is_Some (dels (work jh_s) !! 11%N) ∧
  dels (work (sstep jh_s (SBegin (jh_hdr 11 false)))) !! 11%N = None ∧
  is_Some (dels (work (sstep jh_s (SBegin (jh_hdr 11 true)))) !! 11%N) ∧
  reported_misses 11%N jh_genesis (jh_pre ++ [SBegin (jh_hdr 11 false)]) = [].
Proof.
  split; [vm_compute; reflexivity|]. split; [vm_compute; reflexivity|]. split; [vm_compute; reflexivity|].
  split; [vm_compute; reflexivity|]. split; [vm_compute; reflexivity|]. split; [vm_compute; reflexivity|].
  split; [vm_compute; eexists; reflexivity|]. split; [vm_compute; reflexivity|].
  split; [vm_compute; eexists; reflexivity|]. vm_compute; reflexivity.
Qed.

(* the theorems applied to this run *)
Example jh_example_applied :
  ∃ d, dels (work jh_s) !! 11%N = Some d ∧
  List.filter (in_window 6 10) (d_marks d) = List.filter (in_window 6 10) [1; 6; 9] ∧
  jailed (gparams jh_s) 11 (after_evidence jh_s (jh_hdr 11 false) 11%N d) = true ∧
  (dels (work (sstep jh_s (SBegin (jh_hdr 11 false)))) !! 11%N = None ↔
   11%N ∈ nonsigners (h_votes (jh_hdr 11 false)) ∧ header_decision (gparams jh_s) 11 [1; 6; 9] = true).
Proof.
  destruct (dels (work jh_s) !! 11%N) as [d|] eqn:Ed; [|vm_compute in Ed; discriminate].
  exists d. split; [reflexivity|].
  destruct (jh_inputs false) as (I1 & I2 & I3 & I4 & I5 & I6).
  assert (I5' : votes_from_2 jh_pre) by (apply Forall_app in I5 as [H _]; exact H).
  apply window_const_nonincr in I6.
  assert (ER : reported_misses 11%N jh_genesis jh_pre = [1; 6; 9]) by (vm_compute; reflexivity).
  assert (EW : win_start (gparams jh_s) 11 = 6) by (vm_compute; reflexivity).
  split; [|split].
  - destruct (marks_window_agree jh_genesis jh_pre (jh_hdr 11 false) 11%N d jh_genesis_ok I2 I3 I5' I6 Ed) as (H & _).
    fold jh_s in H. change (h_height (jh_hdr 11 false)) with 11 in H. rewrite EW, ER in H. exact H.
  - pose proof (jail_decision_from_headers jh_genesis jh_pre (jh_hdr 11 false) 11%N d jh_genesis_ok I2 I3 I5' I6 Ed) as JD.
    cbv zeta in JD. fold jh_s in JD. change (h_height (jh_hdr 11 false)) with 11 in JD.
    rewrite JD, ER. vm_compute. reflexivity.
  - rewrite <- ER. apply (C14_jail_iff_headers jh_genesis jh_pre (jh_hdr 11 false) jh_genesis_ok I1 I2 I3 I4 I5 I6 11%N d Ed).
Qed.
Print Assumptions jh_example_applied.

(* ================================================================== 9. the general claim is false: governance can enlarge the window *)
(* One validator (11), window 2, minimum 0.  Misses at heights 1, 2 (blocks 2, 3) and 5 (block 6):
   at block 6 the window is [3,5], two marks lie before it, the record is trimmed to [5].  A
   parameter proposal (submitted in block 3, voted in block 4, frozen at the end of block 7,
   applied at the end of block 8) sets the window to 100 and the minimum to 97.  At block 9 the
   window is [0,8]: the model counts the marks 5 and 8 (100 - 2 = 98, not below 97: stays), the
   headers report 1, 2, 5 and 8 (100 - 4 = 96 < 97: jail).  Every other hypothesis of the
   theorems above holds; only [window_const] fails. *)
Definition jr_params : params := {|
  g_version := 1; g_maxValidatorCnt := 21; g_minValidatorStake := 7 * amountPerPower;
  g_minDelegatorStake := 0; g_rewardPerPower := 1000; g_lazyRewardBlocks := 1; g_lazyApplyingBlocks := 1;
  g_gasPrice := 10; g_minTrxGas := 4000; g_maxTrxGas := 25000000; g_maxBlockGas := 100000000;
  g_minVotingPeriodBlocks := 1; g_maxVotingPeriodBlocks := 100; g_minSelfStakeRatio := 50;
  g_maxUpdatableStakeRatio := 30; g_maxIndividualStakeRatio := 10000000; g_slashRatio := 50;
  g_signedBlocksWindow := 2; g_minSignedBlocks := 0 |}.
Definition jr_doc : params := {|
  g_version := 0; g_maxValidatorCnt := 0; g_minValidatorStake := 0; g_minDelegatorStake := 0;
  g_rewardPerPower := 0; g_lazyRewardBlocks := 0; g_lazyApplyingBlocks := 0; g_gasPrice := 0;
  g_minTrxGas := 0; g_maxTrxGas := 0; g_maxBlockGas := 0; g_minVotingPeriodBlocks := 0;
  g_maxVotingPeriodBlocks := 0; g_minSelfStakeRatio := 0; g_maxUpdatableStakeRatio := 0;
  g_maxIndividualStakeRatio := 0; g_slashRatio := 0; g_signedBlocksWindow := 100; g_minSignedBlocks := 97 |}.
Definition jr_genesis : genesis := {|
  gen_params := jr_params; gen_holders := [(11%N, 1000 * amountPerPower)]; gen_validators := [(11%N, 100)] |}.
Definition jr_hdr (h : Z) (missed : bool) : header :=
  {| h_height := h; h_proposer := Some 11%N;
     h_votes := if missed then [(11%N, 100, false)] else []; h_evidence := [] |}.
Definition jr_prop_tx : tx :=
  demo_tx TRX_PROPOSAL 11%N 0%N 0 4000 0 (PProposal 4 2 8 PROPOSAL_GOVPARAMS [(1%N, Some jr_doc)] true) 55%N.
Definition jr_vote_tx : tx := demo_tx TRX_VOTING 11%N 0%N 0 4000 1 (PVoting 55%N 0) 56%N.
Definition jr_pre : list sop :=
  [SBegin (jr_hdr 1 false); SEnd; SCommit;
   SBegin (jr_hdr 2 true); SEnd; SCommit;
   SBegin (jr_hdr 3 true); SDeliver jr_prop_tx; SEnd; SCommit;
   SBegin (jr_hdr 4 false); SDeliver jr_vote_tx; SEnd; SCommit;
   SBegin (jr_hdr 5 false); SEnd; SCommit;
   SBegin (jr_hdr 6 true); SEnd; SCommit;
   SBegin (jr_hdr 7 false); SEnd; SCommit;
   SBegin (jr_hdr 8 false); SEnd; SCommit].
Definition jr_s := srun (init_chain jr_genesis) jr_pre.

Lemma jr_genesis_ok : genesis_ok jr_genesis.
Proof.
  split; [repeat split; vm_compute; congruence|]. split; [vm_compute; lia|]. split.
  - repeat apply Forall_cons_2; try apply Forall_nil_2; split; vm_compute; congruence.
  - repeat apply Forall_cons_2; try apply Forall_nil_2; split; vm_compute; congruence.
Qed.

Lemma jr_opts_ok : opts_ok jr_pre.
Proof.
  unfold opts_ok, jr_pre. repeat apply Forall_cons_2; try apply Forall_nil_2; try exact I.
  - intros _ _ o q Ho Hq. apply elem_of_list_singleton in Ho. subst o. injection Hq as <-.
    apply doc_fields_ok_doc_ok. unfold doc_fields_ok, unset_or. cbn.
    repeat split; first [left; reflexivity|right; lia].
  - intros H. vm_compute in H. discriminate H.
Qed.

Theorem window_growth_refuted :
  let g := jr_genesis in let ops := jr_pre in let hd := jr_hdr 9 true in let a := 11%N in
  let s := srun (init_chain g) ops in
  genesis_ok g ∧ hashes_fresh ops ∧ opts_ok ops ∧ blocks InvPanic.Idle 0 (ops ++ [SBegin hd]) ∧
  NoDup (nonsigners (h_votes hd)) ∧ votes_from_2 (ops ++ [SBegin hd]) ∧
  g_signedBlocksWindow (gen_params g) = 2 ∧ g_signedBlocksWindow (gparams s) = 100 ∧
  ¬ window_const g ops ∧ ¬ window_nonincr g ops ∧
  ∃ d, dels (work s) !! a = Some d ∧ d_marks d = [5] ∧ reported_misses a g ops = [1; 2; 5] ∧
       win_start (gparams s) 9 = 0 ∧
       List.filter (in_window 0 8) (d_marks d) ≠ List.filter (in_window 0 8) (reported_misses a g ops) ∧
       jailed (gparams s) 9 (after_evidence s hd a d) = false ∧
       header_decision (gparams s) 9 (reported_misses a g ops) = true ∧
       is_Some (dels (work (sstep s (SBegin hd))) !! a).
Proof.
  intros g ops hd a s.
  assert (HB : blocks InvPanic.Idle 0 (ops ++ [SBegin hd])) by (cbn; repeat split).
  assert (HV : votes_from_2 (ops ++ [SBegin hd])).
  { unfold votes_from_2, ops, jr_pre. cbn [app].
    repeat apply Forall_cons_2; try apply Forall_nil_2; try exact I; first [left; reflexivity|right; cbn; lia]. }
  split; [exact jr_genesis_ok|]. split; [apply NoDup_singleton|]. split; [exact jr_opts_ok|].
  split; [exact HB|]. split; [apply NoDup_singleton|]. split; [exact HV|].
  split; [reflexivity|]. split; [vm_compute; reflexivity|]. split.
  { intros H. specialize (H ops [] (eq_sym (app_nil_r ops))). vm_compute in H. discriminate H. }
  split.
  { (* otherwise marks_window_agree would apply *)
    intros H. apply Forall_app in HV as [HV _].
    destruct (dels (work s) !! a) as [d|] eqn:Ed; [|vm_compute in Ed; discriminate].
    destruct (marks_window_agree g ops hd a d jr_genesis_ok jr_opts_ok HB HV H Ed) as (E & _).
    assert (Em : d_marks <$> dels (work s) !! a = Some [5]) by (vm_compute; reflexivity).
    rewrite Ed in Em. injection Em as Em. rewrite Em in E. vm_compute in E. discriminate E. }
  eexists. split; [vm_compute; reflexivity|]. split; [reflexivity|]. split; [vm_compute; reflexivity|].
  split; [vm_compute; reflexivity|]. split; [vm_compute; intros H; discriminate H|].
  split; [vm_compute; reflexivity|]. split; [vm_compute; reflexivity|]. vm_compute. eexists. reflexivity.
Qed.
Print Assumptions window_growth_refuted.
