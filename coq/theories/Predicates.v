(* Predicates.v — the application-level properties as boolean predicates over observation traces
   (genesis, block headers, transactions, per-call answers and the projected state after every
   commit).  They mention observations only, never the model state, so the same function judges
   the model's trace and the implementation's trace.  Definitions only. *)
From Rigo Require Import Base.
From stdpp Require Import gmap sorting.
From Rigo Require Import Spec AppRun.
Local Open Scope Z_scope.

(* ------------------------------------------------------------------ block-structured view *)
Record blk := {
  k_hdr : header;
  k_issued : res Z;
  k_txs : list (tx * res Z);
  k_ups : res (list (addr * Z));
  k_snap : snapshot }.

Record parsed := { z_gen : option genesis; z_blocks : list blk }.

(* ops and observations are consumed in lock step; an incomplete trailing block is dropped *)
Fixpoint collect_txs (ops : list aop) (obs : list aobs) (acc : list (tx * res Z))
  : list (tx * res Z) * list aop * list aobs :=
  match ops, obs with
  | ADeliver t :: ops', ODeliver r :: obs' => collect_txs ops' obs' (acc ++ [(t, r)])
  | _, _ => (acc, ops, obs)
  end.

Fixpoint parse_blocks (fuel : nat) (ops : list aop) (obs : list aobs) : list blk :=
  match fuel with O => [] | S f =>
  match ops, obs with
  | ABegin h :: ops1, OBegin iss :: obs1 =>
      let '(txs, ops2, obs2) := collect_txs ops1 obs1 [] in
      match ops2, obs2 with
      | AEnd :: ACommit :: ops3, OEnd ups :: OCommit sn :: obs3 =>
          {| k_hdr := h; k_issued := iss; k_txs := txs; k_ups := ups; k_snap := sn |} :: parse_blocks f ops3 obs3
      | _, _ => []
      end
  | _, _ => []
  end end.

Definition parse (c : acase) : parsed :=
  match c_ops c, c_obs c with
  | AInit g :: ops, OInit :: obs => {| z_gen := Some g; z_blocks := parse_blocks (length ops) ops obs |}
  | _, _ => {| z_gen := None; z_blocks := [] |}
  end.

(* ------------------------------------------------------------------ lookups in a snapshot *)
Fixpoint assoc {A} (a : addr) (l : list (addr * A)) : option A :=
  match l with [] => None | (b, x) :: r => if (a =? b)%N then Some x else assoc a r end.

Definition acct0_view : acct_view := (0, 0, false, 0%N, 0%N).
Definition sn_acct (sn : snapshot) (a : addr) : acct_view := default acct0_view (assoc a (sn_accts sn)).
Definition av_nonce (v : acct_view) : Z := v.1.1.1.1.
Definition av_bal (v : acct_view) : Z := v.1.1.1.2.
Definition av_code (v : acct_view) : bool := v.1.1.2.
Definition sn_del (sn : snapshot) (a : addr) : option del_view := mjoin (assoc a (sn_dels sn)).
Definition dv_self (d : del_view) : Z := d.1.1.1.
Definition dv_total (d : del_view) : Z := d.1.1.2.
Definition dv_stakes (d : del_view) : list stake_view := d.1.2.
Definition sv_from (s : stake_view) : addr := s.1.1.1.1.1.
Definition sv_to (s : stake_view) : addr := s.1.1.1.1.2.
Definition sv_hash (s : stake_view) : hash := s.1.1.1.2.
Definition sv_start (s : stake_view) : Z := s.1.1.2.
Definition sv_refund (s : stake_view) : Z := s.1.2.
Definition sv_power (s : stake_view) : Z := s.2.
Definition sn_reward (sn : snapshot) (a : addr) : reward_view := default (0, 0, 0, 0, 0) (mjoin (assoc a (sn_rewards sn))).
Definition rv_cumulated (r : reward_view) : Z := r.1.2.

Definition all_dels (sn : snapshot) : list (addr * del_view) :=
  omap (λ x : addr * option del_view, match x.2 with Some d => Some (x.1, d) | None => None end) (sn_dels sn).
Definition bonded_views (sn : snapshot) : list stake_view := concat ((λ x : addr * del_view, dv_stakes x.2) <$> all_dels sn).

Definition sumZ (f : stake_view → Z) (l : list stake_view) : Z := foldr (λ s acc, f s + acc) 0 l.

(* the state "committed by block 0": what InitChain sets up *)
Definition genesis_snapshot (wa : list addr) (wh : list hash) (g : genesis) : snapshot :=
  snapshot_of wa wh (work (init_chain g)).

(* pairs (previous snapshot, block) *)
Fixpoint with_prev (prev : snapshot) (bs : list blk) : list (snapshot * blk) :=
  match bs with [] => [] | b :: r => (prev, b) :: with_prev (k_snap b) r end.

Definition succeeded (x : tx * res Z) : bool := match x.2 with Ok _ => true | _ => false end.
Definition gas_used (x : tx * res Z) : Z := match x.2 with Ok g => g | _ => 0 end.

Definition forall_blocks (c : acase) (f : snapshot → blk → bool) : bool :=
  match z_gen (parse c) with
  | None => true
  | Some g => forallb (λ pb : snapshot * blk, f pb.1 pb.2) (with_prev (genesis_snapshot (c_wa c) (c_wh c) g) (z_blocks (parse c)))
  end.

(* is the transaction executed natively (not through the EVM) *)
Definition native (prev_code : bool) (t : tx) : bool :=
  negb (t_type t =? TRX_CONTRACT) && negb ((t_type t =? TRX_TRANSFER) && prev_code).

(* ------------------------------------------------------------------ C03: only correctly signed transactions take effect *)
(* [t_sigok] is the harness's knowledge of how the bytes were produced: signed by From's key, for the
   node's chain id, and not altered afterwards (nor carrying another transaction's signature) *)
Definition P_C03 (c : acase) : bool :=
  forall_blocks c (λ _ b, forallb (λ x : tx * res Z, negb (succeeded x) || t_sigok x.1) (k_txs b)).

(* ------------------------------------------------------------------ C09: no call of a history panics *)
(* (the harness captures a Go panic of an ABCI call and records it as a Panic answer) *)
Definition P_C09 (c : acase) : bool :=
  forallb (λ o, match o with
                | OBegin (Panic _) | ODeliver (Panic _) | OEnd (Panic _) => false
                | _ => true end) (c_obs c).

(* ------------------------------------------------------------------ C04: nonces *)
(* within a block, the k-th successful transaction of a sender carries nonce = committed nonce + k,
   and the committed nonce moves by the number of successes; failed ones move nothing.  Accounts that
   hold code never send transactions: their nonce field is the EVM's creation counter (1 at creation,
   +1 per CREATE, 0 after self-destruction) and is not constrained here *)
Fixpoint nonce_walk (txs : list (tx * res Z)) (cur : gmap addr Z) (base : addr → Z) : bool * gmap addr Z :=
  match txs with
  | [] => (true, cur)
  | x :: r =>
      let a := t_from x.1 in
      let n := default (base a) (cur !! a) in
      if succeeded x then
        if t_nonce x.1 =? n then nonce_walk r (<[a := n + 1]> cur) base else (false, cur)
      else nonce_walk r cur base
  end.

Definition P_C04_block (wa : list addr) (prev : snapshot) (b : blk) : bool :=
  let '(ok, cur) := nonce_walk (k_txs b) ∅ (λ a, av_nonce (sn_acct prev a)) in
  ok && forallb (λ a, av_code (sn_acct prev a) || av_code (sn_acct (k_snap b) a) ||
                      (av_nonce (sn_acct (k_snap b) a) =? default (av_nonce (sn_acct prev a)) (cur !! a))) wa.
Definition P_C04 (c : acase) : bool := forall_blocks c (P_C04_block (c_wa c)).

(* ------------------------------------------------------------------ C16 / C12 / C02: balances *)
(* expected balance change of account a over one block, from the trace alone (native txs):
   own fees and outgoing amounts, incoming transfers, withdrawals, refunds of matured unbonding
   stakes (committed frozen set of the previous block), fees if a is the proposer *)
Definition tx_delta (a : addr) (price : Z) (x : tx * res Z) : Z :=
  if negb (succeeded x) then 0 else
  let t := x.1 in
  let out := if (t_from t =? a)%N then
               - gas_used x * price
               - (if (t_type t =? TRX_TRANSFER) || (t_type t =? TRX_STAKING) then t_amount t else 0)
               + (match t_payload t with PWithdraw req => if t_type t =? TRX_WITHDRAW then req else 0 | _ => 0 end)
             else 0 in
  let inc := if (t_to t =? a)%N && (t_type t =? TRX_TRANSFER) then t_amount t else 0 in
  out + inc.

Definition refunds (a : addr) (h : Z) (prev : snapshot) : Z :=
  sumZ (λ s, if (sv_from s =? a)%N && (sv_refund s <=? h) then sv_power s * amountPerPower else 0) (sn_frozen prev).

Definition block_fees (price : Z) (b : blk) : Z := foldr (λ x acc, (if succeeded x then gas_used x * price else 0) + acc) 0 (k_txs b).

(* a transfer goes through the EVM when its receiver holds code; the receiver may have been deployed
   earlier in the same block, so the code marker after the block counts too *)
Definition no_evm_txs (prev : snapshot) (b : blk) : bool :=
  forallb (λ x : tx * res Z, native (av_code (sn_acct prev (t_to x.1)) || av_code (sn_acct (k_snap b) (t_to x.1))) x.1) (k_txs b).

Definition P_bal_block (wa : list addr) (prev : snapshot) (b : blk) : bool :=
  let price := g_gasPrice (sn_params prev) in
  let h := h_height (k_hdr b) in
  negb (no_evm_txs prev b) ||
  forallb (λ a,
    av_bal (sn_acct (k_snap b) a) =?
      av_bal (sn_acct prev a) + foldr (λ x acc, tx_delta a price x + acc) 0 (k_txs b) + refunds a h prev
      + (match h_proposer (k_hdr b) with Some p => if (p =? a)%N then block_fees price b else 0 | None => 0 end)) wa.

(* admission rule and gas accounting of successful native transactions *)
Definition P_C16_block (wa : list addr) (prev : snapshot) (b : blk) : bool :=
  let g := sn_params prev in
  forallb (λ x : tx * res Z,
    negb (succeeded x) ||
    ((t_price x.1 =? g_gasPrice g) && (g_minTrxGas g * g_gasPrice g <=? t_gas x.1 * t_price x.1) &&
     (if native (av_code (sn_acct prev (t_to x.1)) || av_code (sn_acct (k_snap b) (t_to x.1))) x.1
      then gas_used x =? t_gas x.1 else gas_used x <=? t_gas x.1)))
    (k_txs b)
  && P_bal_block wa prev b.
Definition P_C16 (c : acase) : bool := forall_blocks c (P_C16_block (c_wa c)).

(* ------------------------------------------------------------------ C14 helper: expected slashing *)
Definition slash_stake (ratio : Z) (p : Z) : Z := let sl := (p * ratio) `quot` 100 in if sl <? 1 then p else sl.
(* power destroyed by the evidence of a block, computed on the previously committed delegatees;
   repeated evidence compounds *)
Fixpoint slash_powers (ratio : Z) (n : nat) (ps : list Z) : list Z :=
  match n with O => ps | S m =>
    slash_powers ratio m (omap (λ p, let sl := (p * ratio) `quot` 100 in if sl <? 1 then None else Some (p - sl)) ps) end.
Definition count_occ_addr (a : addr) (l : list addr) : nat := length (List.filter (λ b, (a =? b)%N) l).
Definition expected_slash (prev : snapshot) (b : blk) : Z :=
  let ratio := g_slashRatio (sn_params prev) in
  foldr (λ x acc,
    let n := count_occ_addr x.1 (h_evidence (k_hdr b)) in
    let ps := sv_power <$> dv_stakes x.2 in
    (foldr Z.add 0 ps - foldr Z.add 0 (slash_powers ratio n ps)) + acc) 0 (all_dels prev).

(* ------------------------------------------------------------------ C02: conservation *)
Definition snap_supply (wa : list addr) (sn : snapshot) : Z :=
  foldr (λ a acc, av_bal (sn_acct sn a) + acc) 0 wa
  + amountPerPower * (sumZ sv_power (bonded_views sn) + sumZ sv_power (sn_frozen sn)).

Definition withdrawn_in (b : blk) : Z :=
  foldr (λ x acc, (if succeeded x && (t_type x.1 =? TRX_WITHDRAW) then
                     match t_payload x.1 with PWithdraw req => req | _ => 0 end else 0) + acc) 0 (k_txs b).

Definition in_range256 (z : Z) : bool := (0 <=? z) && (z <? two256).

Definition P_C02_block (wa : list addr) (prev : snapshot) (b : blk) : bool :=
  let price := g_gasPrice (sn_params prev) in
  ((* blocks with contract executions are included: the histories watch every address their
      programs can pay and contain no program that destroys value *)
   (snap_supply wa (k_snap b) =?
      snap_supply wa prev + withdrawn_in b - amountPerPower * expected_slash prev b
      - (match h_proposer (k_hdr b) with Some _ => 0 | None => block_fees price b end)))
  && forallb (λ a, in_range256 (av_bal (sn_acct (k_snap b) a))) wa.
Definition P_C02 (c : acase) : bool := forall_blocks c (P_C02_block (c_wa c)).

(* ------------------------------------------------------------------ C11: stake bookkeeping *)
Fixpoint nodup_hashes (l : list hash) : bool :=
  match l with [] => true | h :: r => negb (existsb (N.eqb h) r) && nodup_hashes r end.

Definition del_view_ok (a : addr) (d : del_view) : bool :=
  (dv_total d =? sumZ sv_power (dv_stakes d)) &&
  (dv_self d =? sumZ (λ s, if (sv_from s =? a)%N then sv_power s else 0) (dv_stakes d)) &&
  forallb (λ s, (sv_to s =? a)%N) (dv_stakes d).

(* a stake is identified by its hash and owner: transaction-created stakes have unique hashes, the
   genesis stakes all carry hash 0 and differ in their owner *)
Definition find_view (h : hash) (l : list stake_view) : option stake_view := List.find (λ s, (sv_hash s =? h)%N) l.
Definition find_stake_view (s0 : stake_view) (l : list stake_view) : option stake_view :=
  List.find (λ s, (sv_hash s =? sv_hash s0)%N && (sv_from s =? sv_from s0)%N) l.
Fixpoint nodup_ids (l : list stake_view) : bool :=
  match l with [] => true | s :: r => negb (existsb (λ s', (sv_hash s' =? sv_hash s)%N && (sv_from s' =? sv_from s)%N) r) && nodup_ids r end.
Definition same_identity (a b : stake_view) : bool :=
  (sv_from a =? sv_from b)%N && (sv_to a =? sv_to b)%N && (sv_start a =? sv_start b).

(* every stake of the previous state is still recorded (bonded or unbonding, identity unchanged),
   or was refunded (matured), or belonged to a delegatee named in this block's evidence (slashing
   may forfeit it) *)
Definition stake_continuity (prev : snapshot) (b : blk) : bool :=
  let now := bonded_views (k_snap b) ++ sn_frozen (k_snap b) in
  (* a bonded stake is found again (bonded or unbonding) with the power the evidence of the block
     leaves it — slashing runs in BeginBlock, before anything can move the stake —, and it is in NO
     place only if that formula forfeits it (a stake "too small to be reduced"): a stake whose power
     was cut to 0 by a ratio of 100 is still a recorded stake *)
  forallb (λ s, let n := count_occ_addr (sv_to s) (h_evidence (k_hdr b)) in
                let expect := slash_powers (g_slashRatio (sn_params prev)) n [sv_power s] in
                match find_stake_view s now with
                | Some s' => same_identity s s' && match expect with [p] => sv_power s' =? p | _ => Nat.ltb 0 n end
                | None => match expect with [] => true | _ => false end
                end) (bonded_views prev)
  && forallb (λ s, if sv_refund s <=? h_height (k_hdr b)
                   then match find_stake_view s (sn_frozen (k_snap b)) with
                        | None => true
                        | Some s' => negb (sv_refund s' =? sv_refund s)   (* a different stake re-used the key *)
                        end
                   else match find_stake_view s (sn_frozen (k_snap b)) with
                        | Some s' => same_identity s s' && (sv_power s' =? sv_power s) && (sv_refund s' =? sv_refund s)
                        | None => false end) (sn_frozen prev).

Definition P_C11_block (prev : snapshot) (b : blk) : bool :=
  let sn := k_snap b in
  forallb (λ x : addr * del_view, del_view_ok x.1 x.2) (all_dels sn)
  && (sn_total_power sn =? foldr (λ x acc, dv_total x.2 + acc) 0 (all_dels sn))
  && nodup_ids (bonded_views sn ++ sn_frozen sn)
  && stake_continuity prev b.
Definition P_C11 (c : acase) : bool := forall_blocks c P_C11_block.
(* every staking transaction the block accepted is a recorded stake after the block — bonded, or
   unbonding if the same block released it again (nothing can refund or forfeit it inside the block
   that created it: slashing runs in BeginBlock, the refund scan reads the committed ledger) — with
   its sender, its delegatee and the power it paid for *)
Definition new_stakes_recorded (b : blk) : bool :=
  let now := bonded_views (k_snap b) ++ sn_frozen (k_snap b) in
  forallb (λ x : tx * res Z,
             if succeeded x && (t_type x.1 =? TRX_STAKING)
             then existsb (λ s, (sv_hash s =? t_hash x.1)%N && (sv_from s =? t_from x.1)%N && (sv_to s =? t_to x.1)%N
                                && (sv_power s * amountPerPower =? t_amount x.1)) now
             else true) (k_txs b).
Definition P_C11_full (c : acase) : bool := P_C11 c && forall_blocks c (λ _ b, new_stakes_recorded b).

(* ------------------------------------------------------------------ C12: unbonding *)
(* a stake that was bonded before and is not bonded after the block: either an unstaking
   transaction signed by its owner named it, or its delegatee disappeared / lost all own stake
   (forced release), or it was forfeited by slashing; a newly unbonding stake carries
   refund height = block height + unbonding period in force; matured stakes are gone and paid
   (the balance equation of P_bal_block) *)
Definition unstaked_by_owner (b : blk) (s : stake_view) : bool :=
  existsb (λ x : tx * res Z, succeeded x && (t_type x.1 =? TRX_UNSTAKING) && (t_from x.1 =? sv_from s)%N &&
             match t_payload x.1 with PUnstake h _ => (h =? sv_hash s)%N | _ => false end) (k_txs b).
Definition owner_left (b : blk) (s : stake_view) : bool :=
  (* the delegatee's own stake is gone after the block *)
  match sn_del (k_snap b) (sv_to s) with
  | None => true
  | Some d => negb (existsb (λ s', (sv_from s' =? sv_to s)%N && (sv_start s' <=? sv_start s)) (dv_stakes d))
  end.

Definition P_C12_block (wa : list addr) (prev : snapshot) (b : blk) : bool :=
  let h := h_height (k_hdr b) in
  let period := g_lazyRewardBlocks (sn_params prev) in
  forallb (λ s, match find_stake_view s (bonded_views (k_snap b)) with
                | Some _ => true
                | None =>
                    (unstaked_by_owner b s || owner_left b s || existsb (N.eqb (sv_to s)) (h_evidence (k_hdr b)))
                    (* and it is now unbonding (it cannot have matured already: the refund scan reads the
                       previously committed frozen set), unless slashing forfeited it *)
                    && (match find_stake_view s (sn_frozen (k_snap b)) with Some _ => true | None => false end
                        || existsb (N.eqb (sv_to s)) (h_evidence (k_hdr b)))
                end) (bonded_views prev)
  && forallb (λ s, match find_view (sv_hash s) (sn_frozen prev) with
                   | Some s0 => (sv_refund s0 =? sv_refund s) || (sv_refund s =? h + period)
                   | None => sv_refund s =? h + period
                   end) (sn_frozen (k_snap b))
  && forallb (λ s, negb (sv_refund s <=? h - 1) || negb (existsb (λ s0, (sv_hash s0 =? sv_hash s)%N && (sv_refund s0 =? sv_refund s)) (sn_frozen prev)))
             (sn_frozen (k_snap b))
  (* a stake enters the unbonding ledger only by LEAVING the bonded set in this block (a stake created and
     released inside one block never shows in the previous snapshot: then it must at least not be bonded now) *)
  && forallb (λ s, match find_view (sv_hash s) (sn_frozen prev) with
                   | Some _ => true
                   | None => match find_stake_view s (bonded_views (k_snap b)) with Some _ => false | None => true end
                   end) (sn_frozen (k_snap b))
  (* an unbonding stake is untouched until it matures: same owner, target, start, refund height and
     POWER (it is paid back in full: nothing, slashing of its former validator included, reaches it) *)
  && forallb (λ s0, (sv_refund s0 <=? h) ||
                    match find_view (sv_hash s0) (sn_frozen (k_snap b)) with
                    | Some s1 => negb ((sv_from s1 =? sv_from s0)%N && (sv_refund s1 =? sv_refund s0)) || eqb_stake_view s1 s0
                    | None => true   (* replaced under the same hash: the known genesis-hash collision, judged elsewhere *)
                    end) (sn_frozen prev)
  && P_bal_block wa prev b.
Definition P_C12 (c : acase) : bool := forall_blocks c (P_C12_block (c_wa c)).

(* ------------------------------------------------------------------ C13: rewards *)
Fixpoint nth_snapshot (gsn : snapshot) (bs : list blk) (n : Z) : option snapshot :=
  (* state committed by block n (n = 0: genesis) *)
  if n <=? 0 then Some gsn else
  match bs with [] => None | b :: r => if n =? 1 then Some (k_snap b) else nth_snapshot gsn r (n - 1) end.

Definition expected_reward (old prev : snapshot) (b : blk) (a : addr) : Z :=
  let rpp := g_rewardPerPower (sn_params prev) in
  foldr (λ v acc,
     let '(va, pw, signed) := v in
     (if signed : bool then
        match sn_del old va with
        | Some d => if dv_total d =? pw then sumZ (λ s, if (sv_from s =? a)%N then sv_power s * rpp else 0) (dv_stakes d) else 0
        | None => 0 end
      else 0) + acc) 0 (h_votes (k_hdr b)).

Definition withdrawn_by (a : addr) (b : blk) : Z :=
  foldr (λ x acc, (if succeeded x && (t_type x.1 =? TRX_WITHDRAW) && (t_from x.1 =? a)%N then
                     match t_payload x.1 with PWithdraw req => req | _ => 0 end else 0) + acc) 0 (k_txs b).

Definition P_C13 (c : acase) : bool :=
  match z_gen (parse c) with
  | None => true
  | Some g =>
    let gsn := genesis_snapshot (c_wa c) (c_wh c) g in
    let bs := z_blocks (parse c) in
    forallb (λ pb : snapshot * blk,
      let '(prev, b) := pb in
      let h := h_height (k_hdr b) in
      (* the delegatee ledger the issuance reads: version max(1, h-4) *)
      match nth_snapshot gsn bs (if h - 4 <=? 0 then 1 else h - 4) with
      | None => true
      | Some old =>
          let old := if h =? 1 then prev else old in
          (* consensus derived the voting powers from this very version: a signing validator that is
             recorded there must be recorded with the power it voted with (otherwise its stakes earn nothing) *)
          forallb (λ v : addr * Z * bool, negb v.2 || match sn_del old v.1.1 with Some d => dv_total d =? v.1.2 | None => true end)
                  (h_votes (k_hdr b)) &&
          forallb (λ a, rv_cumulated (sn_reward (k_snap b) a) =?
                        rv_cumulated (sn_reward prev a) + expected_reward old prev b a - withdrawn_by a b) (c_wa c)
          && match k_issued b with
             | Ok iss => iss =? foldr (λ a acc, expected_reward old prev b a + acc) 0 (c_wa c)
             | _ => false end
          && forallb (λ x : tx * res Z, negb (succeeded x && (t_type x.1 =? TRX_WITHDRAW)) ||
                        match t_payload x.1 with PWithdraw req => 0 <=? req | _ => false end) (k_txs b)
      end) (with_prev gsn bs)
  end.

(* ------------------------------------------------------------------ C14: slashing *)
(* on blocks carrying evidence whose named delegatees are not touched by any successful staking /
   unstaking transaction of the same block and were not jailed: every stake follows the formula;
   delegatees not named (and not touched by transactions / jailing) keep their stakes *)
Definition touched_by_tx (b : blk) (a : addr) : bool :=
  existsb (λ x : tx * res Z, succeeded x && ((t_type x.1 =? TRX_STAKING) || (t_type x.1 =? TRX_UNSTAKING)) && (t_to x.1 =? a)%N) (k_txs b).
Definition missed_vote (b : blk) (a : addr) : bool :=
  existsb (λ v : addr * Z * bool, (v.1.1 =? a)%N && negb v.2) (h_votes (k_hdr b)).

Definition P_C14_block (prev : snapshot) (b : blk) : bool :=
  let ratio := g_slashRatio (sn_params prev) in
  forallb (λ x : addr * del_view,
    let a := x.1 in
    if touched_by_tx b a || missed_vote b a then true else
    let n := count_occ_addr a (h_evidence (k_hdr b)) in
    let expect := slash_powers ratio n (sv_power <$> dv_stakes x.2) in
    match sn_del (k_snap b) a with
    | Some d => eqb_list Z.eqb (sv_power <$> dv_stakes d) expect
    | None => match expect with [] => true | _ => false end
    end) (all_dels prev).
(* downtime: a validator reported as not having signed, with no evidence against it and no staking
   transaction touching it in the block, loses ALL its stake to unbonding IFF, counting the block
   just missed, the blocks it signed inside the window fall below the minimum; otherwise its stakes
   are untouched.  (Stated from the recorded missed heights, independently of Spec.v's bookkeeping.) *)
Definition P_C14_jail_block (prev : snapshot) (b : blk) : bool :=
  let g := sn_params prev in
  let sh := h_height (k_hdr b) - 1 in
  let s0 := if sh - g_signedBlocksWindow g <? 0 then 0 else sh - g_signedBlocksWindow g in
  forallb (λ x : addr * del_view,
    let a := x.1 in
    if negb (missed_vote b a) || touched_by_tx b a || negb (Nat.eqb (count_occ_addr a (h_evidence (k_hdr b))) 0) then true else
    let marks := x.2.2 in
    let all := if existsb (Z.eqb sh) marks then marks else marks ++ [sh] in
    let missed := Z.of_nat (length (List.filter (λ m, (s0 <=? m) && (m <=? sh)) all)) in
    let jailed := g_signedBlocksWindow g - missed <? g_minSignedBlocks g in
    match sn_del (k_snap b) a with
    | None => jailed
    | Some d => negb jailed && eqb_list Z.eqb (sv_power <$> dv_stakes d) (sv_power <$> dv_stakes x.2)
    end) (all_dels prev).
(* the same decision from the HEADERS alone: the heights a validator missed are those the blocks
   reported (block h reports on h-1), collected while it stays a delegatee — independent of the
   miss records the node keeps (and trims) itself, which the clause above reads from the previous
   snapshot *)
Definition upd_miss (acc : list (addr * list Z)) (a : addr) (sh : Z) : list (addr * list Z) :=
  match assoc a acc with
  | Some l => (a, if existsb (Z.eqb sh) l then l else l ++ [sh]) :: List.filter (λ x : addr * list Z, negb (x.1 =? a)%N) acc
  | None => (a, [sh]) :: acc
  end.
(* [pw]: the window parameter of the previous block; [quiet]: no judgement up to this height.  When
   governance ENLARGES the window, heights the node has already trimmed from its record (it keeps
   only what a window can still need) would come back into view of the headers: for one new window
   length after such a change the decision is not judged from the headers. *)
Fixpoint C14_jail_walk (acc : list (addr * list Z)) (pw quiet : Z) (pbs : list (snapshot * blk)) : bool :=
  match pbs with
  | [] => true
  | (prev, b) :: r =>
      let g := sn_params prev in
      let h := h_height (k_hdr b) in
      let sh := h - 1 in
      let quiet' := if pw <? g_signedBlocksWindow g then h + g_signedBlocksWindow g else quiet in
      let s0 := if sh - g_signedBlocksWindow g <? 0 then 0 else sh - g_signedBlocksWindow g in
      let missers := List.filter (λ x : addr * del_view, missed_vote b x.1) (all_dels prev) in
      let acc1 := foldl (λ acc (x : addr * del_view), upd_miss acc x.1 sh) acc missers in
      let ok := (h <=? quiet') || forallb (λ x : addr * del_view,
          let a := x.1 in
          if touched_by_tx b a || negb (Nat.eqb (count_occ_addr a (h_evidence (k_hdr b))) 0) then true else
          let all := default [] (assoc a acc1) in
          let missed := Z.of_nat (length (List.filter (λ m, (s0 <=? m) && (m <=? sh)) all)) in
          let jailed := g_signedBlocksWindow g - missed <? g_minSignedBlocks g in
          match sn_del (k_snap b) a with None => jailed | Some _ => negb jailed end) missers in
      let acc2 := List.filter (λ x : addr * list Z, match sn_del (k_snap b) x.1 with Some _ => true | None => false end) acc1 in
      ok && C14_jail_walk acc2 (g_signedBlocksWindow g) quiet' r
  end.
Definition P_C14_jail_history (c : acase) : bool :=
  match z_gen (parse c) with
  | None => true
  | Some g => C14_jail_walk [] (g_signedBlocksWindow (gen_params g)) 0 (with_prev (genesis_snapshot (c_wa c) (c_wh c) g) (z_blocks (parse c)))
  end.
Definition P_C14_stake (c : acase) : bool :=
  forall_blocks c (λ prev b, P_C14_block prev b && P_C14_jail_block prev b) && P_C14_jail_history c.

(* ------------------------------------------------------------------ C10: validator updates *)
(* the powers the property speaks of are those of the STAKES: total bonded power = sum of the stakes
   bonded to the delegatee, own stake = sum of its owner's stakes (C11 says the recorded totals equal
   these sums; here the sums themselves are used, so a total that drifted from its stakes shows) *)
Definition dv_bonded (d : del_view) : Z := foldr (λ s acc, sv_power s + acc) 0 (dv_stakes d).
Definition dv_own (a : addr) (d : del_view) : Z := foldr (λ s acc, (if (sv_from s =? a)%N then sv_power s else 0) + acc) 0 (dv_stakes d).
Definition apply_ups (set : list (addr * Z)) (ups : list (addr * Z)) : option (list (addr * Z)) :=
  foldl (λ acc u, match acc with
     | None => None
     | Some set =>
         if u.2 <? 0 then None
         else if u.2 =? 0 then
           if existsb (λ v : addr * Z, (v.1 =? u.1)%N) set then Some (List.filter (λ v : addr * Z, negb (v.1 =? u.1)%N) set) else None
         else Some (sort_addr ((u.1, u.2) :: List.filter (λ v : addr * Z, negb (v.1 =? u.1)%N) set))
     end) (Some set) ups.

Definition dg_less (a b : addr * del_view) : bool :=
  if dv_bonded a.2 =? dv_bonded b.2 then
    if Nat.eqb (length (dv_stakes a.2)) (length (dv_stakes b.2)) then (b.1 <? a.1)%N
    else Nat.ltb (length (dv_stakes b.2)) (length (dv_stakes a.2))
  else dv_bonded b.2 <? dv_bonded a.2.
Fixpoint dg_insert (x : addr * del_view) (l : list (addr * del_view)) : list (addr * del_view) :=
  match l with [] => [x] | y :: r => if dg_less x y then x :: y :: r else y :: dg_insert x r end.
Definition dg_sort (l : list (addr * del_view)) : list (addr * del_view) := foldr dg_insert [] l.

(* the set the staking ledger prescribes after a block, from the state committed by the previous one *)
Definition expected_valset (prev : snapshot) : list (addr * Z) :=
  let g := sn_params prev in
  let elig := List.filter (λ x : addr * del_view, power_of (g_minValidatorStake g) <=? dv_own x.1 x.2) (all_dels prev) in
  sort_addr ((λ x : addr * del_view, (x.1, dv_bonded x.2)) <$> take (Z.to_nat (g_maxValidatorCnt g)) (dg_sort elig)).

Fixpoint nodup_addrs (l : list addr) : bool :=
  match l with [] => true | h :: r => negb (existsb (N.eqb h) r) && nodup_addrs r end.

Fixpoint C10_walk (set : list (addr * Z)) (pbs : list (snapshot * blk)) : bool :=
  match pbs with
  | [] => true
  | (prev, b) :: r =>
      match k_ups b with
      | Ok ups =>
          nodup_addrs (ups.*1) &&
          match apply_ups set ups with
          | None => false
          | Some set' =>
              (* block 1 is processed before anything is committed: nothing is announced *)
              (if h_height (k_hdr b) =? 1 then true else eqb_list (eqb_pair N.eqb Z.eqb) set' (expected_valset prev))
              && C10_walk set' r
          end
      | _ => false
      end
  end.

Definition P_C10 (c : acase) : bool :=
  match z_gen (parse c) with
  | None => true
  | Some g =>
      let gsn := genesis_snapshot (c_wa c) (c_wh c) g in
      C10_walk (sort_addr (gen_validators g)) (with_prev gsn (z_blocks (parse c)))
  end.

(* C12, "once released it carries no voting power": the power the consensus engine holds for a validator
   (the genesis set folded with every EndBlock's updates) is the power of the stakes BONDED to it — a
   released stake is not among them.  This is the mirror clause of C10, judged here on the traces C12
   looks at (quiet, under mempool traffic, restarted right after a release). *)
Definition P_C12_power (c : acase) : bool := P_C12 c && P_C10 c.

(* ------------------------------------------------------------------ C15: governance *)
Definition pv_frozen (p : prop_view) : bool := p.1.1.1.1.1.
Definition pv_hdr (p : prop_view) : Z * Z * Z * Z * Z := p.1.1.1.1.2.
Definition pv_voters (p : prop_view) : list (addr * Z * Z) := p.1.1.1.2.
Definition pv_opttype (p : prop_view) : Z := p.1.1.2.
Definition pv_options (p : prop_view) : list opt_view := p.1.2.
Definition pv_major (p : prop_view) : option N := p.2.
Definition pv_start (p : prop_view) : Z := (pv_hdr p).1.1.1.1.
Definition pv_end (p : prop_view) : Z := (pv_hdr p).1.1.1.2.
Definition pv_apply (p : prop_view) : Z := (pv_hdr p).1.1.2.
Definition pv_total (p : prop_view) : Z := (pv_hdr p).1.2.
Definition pv_majority (p : prop_view) : Z := (pv_hdr p).2.

(* votes of option i = power of the voters whose current choice is i (voting proposals keep the
   submitted option order; frozen ones are sorted, so the tally is checked on voting ones) *)
Definition tally_ok (p : prop_view) : bool :=
  pv_frozen p ||
  forallb (λ io : nat * opt_view,
     io.2.2 =? foldr (λ v acc, (if v.2 =? Z.of_nat io.1 then v.1.2 else 0) + acc) 0 (pv_voters p))
   (imap (λ i o, (i, o)) (pv_options p))
  && forallb (λ v : addr * Z * Z, (v.2 =? -1) || ((0 <=? v.2) && (v.2 <? Z.of_nat (length (pv_options p))))) (pv_voters p).

Definition sn_prop (sn : snapshot) (h : hash) : option prop_view := mjoin (assoc h (sn_props sn)).

(* C14, governance side: evidence against a validator shrinks its recorded weight in every open
   proposal by the slash percentage (once per evidence item; a weight that reaches 0 leaves the
   voter table), the proposal's total shrinks by the same amounts, and the votes it had given shrink
   with it: the tallies stay the sums of the recorded weights *)
Definition slash_once (ratio p : Z) : Z := p - (p * ratio) / 100.
Fixpoint slash_n (ratio : Z) (n : nat) (p : Z) : Z :=
  match n with O => p | S k => let q := slash_once ratio p in if q <=? 0 then 0 else slash_n ratio k q end.
Definition P_C14_gov_block (prev : snapshot) (b : blk) : bool :=
  match h_evidence (k_hdr b) with
  | [] => true
  | evi =>
    let ratio := g_slashRatio (sn_params prev) in
    forallb (λ hp : hash * option prop_view,
      match hp.2, sn_prop (k_snap b) hp.1 with
      | Some p0, Some p1 =>
          (* open = still inside its voting window: a proposal whose window closed with the previous block is
             frozen in this block from its previously committed version (InvGov), it is not "open" any more *)
          if pv_frozen p0 || (pv_end p0 <? h_height (k_hdr b)) then true else
          let lost := foldr (λ v acc, (v.1.2 - slash_n ratio (count_occ_addr v.1.1 evi) v.1.2) + acc) 0 (pv_voters p0) in
          forallb (λ v0 : addr * Z * Z,
             let expect := slash_n ratio (count_occ_addr v0.1.1 evi) v0.1.2 in
             match List.find (λ v1 : addr * Z * Z, (v1.1.1 =? v0.1.1)%N) (pv_voters p1) with
             | Some v1 => v1.1.2 =? expect
             | None => expect <=? 0
             end) (pv_voters p0)
          && (pv_total p1 =? pv_total p0 - lost)
          && tally_ok p1
      | _, _ => true
      end) (sn_props prev)
  end.
Definition P_C14 (c : acase) : bool := P_C14_stake c && forall_blocks c P_C14_gov_block.

(* the option documents as submitted, to know what a winning option asks for *)
Definition submitted_opts (bs : list blk) (ph : hash) : list (N * option params) :=
  foldr (λ b acc, foldr (λ x acc, if succeeded x && (t_type x.1 =? TRX_PROPOSAL) && (t_hash x.1 =? ph)%N
                                  then match t_payload x.1 with PProposal _ _ _ _ opts _ => opts | _ => acc end else acc) acc (k_txs b)) [] bs.

(* the choice the last successful voting transaction of [a] on proposal [ph] in block [b] asked for *)
Definition last_vote_in (b : blk) (ph : hash) (a : addr) : option Z :=
  foldl (λ acc x, if succeeded x && (t_type x.1 =? TRX_VOTING) && (t_from x.1 =? a)%N
                  then match t_payload x.1 with PVoting h c => if (h =? ph)%N then Some c else acc | _ => acc end
                  else acc) None (k_txs b).
(* a voter's recorded choice moves only by its own delivered votes: after a block it is the choice of
   its last successful voting transaction in that block, else what it was before (none, -1, in a
   proposal that is new) *)
Definition choices_follow_votes (prev : snapshot) (b : blk) : bool :=
  forallb (λ hp : hash * option prop_view,
    match hp.2 with
    | Some p1 =>
        if pv_frozen p1 then true else
        forallb (λ v1 : addr * Z * Z,
          let before := match sn_prop prev hp.1 with
                        | Some p0 => match List.find (λ v0 : addr * Z * Z, (v0.1.1 =? v1.1.1)%N) (pv_voters p0) with
                                     | Some v0 => v0.2 | None => -1 end
                        | None => -1 end in
          v1.2 =? default before (last_vote_in b hp.1 v1.1.1)) (pv_voters p1)
    | None => true
    end) (sn_props (k_snap b)).

Definition P_C15 (c : acase) : bool :=
  match z_gen (parse c) with
  | None => true
  | Some g =>
    let gsn := genesis_snapshot (c_wa c) (c_wh c) g in
    let bs := z_blocks (parse c) in
    forallb (λ pb : snapshot * blk,
      let '(prev, b) := pb in
      let h := h_height (k_hdr b) in
      let sn := k_snap b in
      (* tallies consistent *)
      forallb (λ hp : hash * option prop_view, match hp.2 with Some p => tally_ok p | None => true end) (sn_props sn)
      (* "the latest vote replacing earlier ones", and nothing but a vote: recorded choices follow the delivered votes *)
      && choices_follow_votes prev b
      (* a proposal frozen now was voting before, its window had closed, and its major option has the majority *)
      && forallb (λ hp : hash * option prop_view,
           match hp.2, sn_prop prev hp.1 with
           | Some p, Some p0 =>
               if pv_frozen p && negb (pv_frozen p0) then
                 (pv_end p0 <? h) &&
                 match pv_major p, pv_options p with
                 | Some mid, o :: _ => (o.1 =? mid)%N && (pv_majority p0 <=? o.2)
                                       && forallb (λ o', o'.2 <=? o.2) (pv_options p)
                 | _, _ => false end
               else true
           | Some p, None =>
               (* created in this block: by a successful proposal transaction of this block *)
               (* ... sent by one of the validators of that moment: the voter table records exactly them *)
               existsb (λ x : tx * res Z, succeeded x && (t_type x.1 =? TRX_PROPOSAL) && (t_hash x.1 =? hp.1)%N
                                          && existsb (λ v : addr * Z * Z, (v.1.1 =? t_from x.1)%N) (pv_voters p)) (k_txs b)
               && negb (pv_frozen p) && (h <? pv_start p) && (pv_majority p =? (pv_total p * 2) `quot` 3)
               && (pv_total p =? foldr (λ v acc, v.1.2 + acc) 0 (pv_voters p))
           | None, Some p0 =>
               (* left the ledgers: voting closed without majority, or applied at its applying height *)
               if pv_frozen p0 then pv_apply p0 <=? h
               else (pv_end p0 <? h)
           | None, None => true
           end) (sn_props sn)
      (* active parameters change only by applying a frozen governance proposal whose height has come *)
      && (let applied := List.filter (λ hp : hash * option prop_view,
                            match hp.2 with Some p0 => pv_frozen p0 && (pv_apply p0 <=? h) && (pv_opttype p0 =? PROPOSAL_GOVPARAMS) | None => false end)
                            (sn_props prev) in
          match applied with
          | [] => eqb_params (sn_params sn) (sn_params prev)
          | _ =>
              (* the new parameters are the merge of the old ones with one of the applied winning options *)
              existsb (λ hp : hash * option prop_view,
                 match hp.2 with
                 | Some p0 => match pv_major p0 with
                     | Some mid => existsb (λ o : N * option params,
                          (o.1 =? mid)%N && match o.2 with Some np => eqb_params (sn_params sn) (merge_params (sn_params prev) np) | None => false end)
                          (submitted_opts bs hp.1)
                     | None => false end
                 | None => false end) applied
          end)
      (* successful votes: inside the window, by a recorded voter *)
      && forallb (λ x : tx * res Z,
           negb (succeeded x && (t_type x.1 =? TRX_VOTING)) ||
           match t_payload x.1 with
           | PVoting ph choice =>
               match sn_prop sn ph, sn_prop prev ph with
               | Some p, _ | None, Some p =>
                   (pv_start p <=? h) && (h <=? pv_end p) && existsb (λ v : addr * Z * Z, (v.1.1 =? t_from x.1)%N) (pv_voters p)
                   && (0 <=? choice) && (choice <? Z.of_nat (length (pv_options p)))
               | None, None => false
               end
           | _ => false end) (k_txs b)
      ) (with_prev gsn bs)
  end.

(* ------------------------------------------------------------------ recognising known findings *)
(* two or more stakes carrying hash 0 (genesis stakes) are unbonding, or leave the bonded set, in
   one block: they collide in the frozen ledger, which is keyed by stake hash *)
Definition genesis_collision (c : acase) : bool :=
  negb (forall_blocks c (λ prev b,
    let leaving := List.filter (λ s, (sv_hash s =? 0)%N &&
                      match find_stake_view s (bonded_views (k_snap b)) with Some _ => false | None => true end) (bonded_views prev) in
    let unbonding := List.filter (λ s, (sv_hash s =? 0)%N) (sn_frozen prev) in
    Nat.ltb (length leaving + length unbonding) 2)).

(* a successful staking transaction to a genesis validator in block 1: the votes of blocks 2-4 carry
   genesis powers, but the earliest readable ledger version already contains that stake *)
Definition block1_staking (c : acase) : bool :=
  match z_blocks (parse c) with
  | b :: _ => existsb (λ x : tx * res Z, succeeded x && (t_type x.1 =? TRX_STAKING)) (k_txs b)
  | [] => false
  end.

(* a genesis validator withdraws its genesis stake in block 1: the node never diffs against the
   genesis validator set (its record of the last announced set is empty until block 2), so the
   removal is never announced *)
Definition block1_genesis_unstake (c : acase) : bool :=
  match z_blocks (parse c) with
  | b :: _ => existsb (λ x : tx * res Z, succeeded x && (t_type x.1 =? TRX_UNSTAKING) &&
                         match t_payload x.1 with PUnstake h _ => (h =? 0)%N | _ => false end) (k_txs b)
  | [] => false
  end.

Definition classify (c : acase) : list Z :=
  (if genesis_collision c then [1] else []) ++ (if block1_staking c then [2] else []) ++
  (if block1_genesis_unstake c then [3] else []).

(* ------------------------------------------------------------------ running a predicate set *)
Definition P_C12' (c : acase) : bool := P_C12 c.

(* per case: first difference among the given difference codes, and the predicate on the
   implementation's observations and on the model's *)
Definition obs_diff_codes (m i : aobs) : list Z :=
  match m, i with
  | OInit, OInit => []
  | OBegin a, OBegin b => if res_class Z.eqb a b then [] else [10]
  | ODeliver a, ODeliver b => if res_class Z.eqb a b then [] else [11]
  | OEnd a, OEnd b => if res_class (eqb_list (eqb_pair N.eqb Z.eqb)) a b then [] else [12]
  | OCommit a, OCommit b =>
      (if eqb_list (eqb_pair N.eqb eqb_acct_view) (sn_accts a) (sn_accts b) then [] else [1]) ++
      (if eqb_list (eqb_pair N.eqb (eqb_opt eqb_del_view)) (sn_dels a) (sn_dels b) then [] else [2]) ++
      (if eqb_list eqb_stake_view (sn_frozen a) (sn_frozen b) then [] else [3]) ++
      (if eqb_list (eqb_pair N.eqb (eqb_opt eqb_reward_view)) (sn_rewards a) (sn_rewards b) then [] else [4]) ++
      (if eqb_list (eqb_pair N.eqb (eqb_opt eqb_prop_view)) (sn_props a) (sn_props b) then [] else [5]) ++
      (if eqb_params (sn_params a) (sn_params b) then [] else [6]) ++
      (if sn_total_power a =? sn_total_power b then [] else [7])
  | _, _ => [99]
  end.

Fixpoint first_diff_in (codes : list Z) (n : nat) (m i : list aobs) : option (nat * Z) :=
  match m, i with
  | [], [] => None
  | x :: m', y :: i' =>
      match List.filter (λ d, existsb (Z.eqb d) codes || (d =? 99)) (obs_diff_codes x y) with
      | d :: _ => Some (n, d)
      | [] => first_diff_in codes (S n) m' i'
      end
  | _, _ => Some (n, 98)
  end.

Definition with_obs (c : acase) (obs : list aobs) : acase :=
  {| c_wa := c_wa c; c_wh := c_wh c; c_ops := c_ops c; c_obs := obs |}.

Definition check_prop (codes : list Z) (P : acase → bool) (c : acase) : option (nat * Z) * bool * bool :=
  let m := model_obs c in
  (first_diff_in codes 0 m (c_obs c), P c, P (with_obs c m)).

(* entries: (case, first difference of the projection, P on the implementation's trace, P on the
   model's trace, known-finding classifiers: genesis collision, block-1 staking) *)
Fixpoint check_props_from (codes : list Z) (P : acase → bool) (i : nat) (cs : list acase)
  : list (nat * option (nat * Z) * bool * bool * list Z) :=
  match cs with
  | [] => []
  | c :: r =>
      let '(d, pi, pm) := check_prop codes P c in
      match d, pi, pm with
      | None, true, true => check_props_from codes P (S i) r
      | _, _, _ => (i, d, pi, pm, classify c) :: check_props_from codes P (S i) r
      end
  end.
Definition check_props (codes : list Z) (P : acase → bool) := check_props_from codes P 0.
