(* LedgerSpec.v — the abstract specification of a versioned ledger store (property C18).
   DEFINITIONS ONLY.  Same [op]/[out] types as the model (Ledger.v), so traces compare
   with [=].

   State: the list of committed versions, and per overlay (mempool / consensus) one entry
   per key: how many deletes are pending ([ndel]) and the pending write ([written]).

   Deviations from the one-paragraph statement, each forced by the Go code:
   - pending deletes are COUNTED: memItems.removedKeys is a slice with duplicates,
     CancelDel withdraws one occurrence (delRemovedKey stops at the first match);
   - a pending write hides pending deletes of the same key for reads through the overlay
     (get: cache first — this is the repaired order), but at commit the delete is applied
     first and the write second, so the net effect is the write;
   - CancelSet of a key that was only read-through cached drops the cache entry; the next
     Get re-reads the tree.  Invisible here: the cache is not part of this state;
   - a consensus delete first performs a mempool delete of the same key and ignores its
     failure (DelFinality calls SimpleLedger.del), also when the consensus delete fails;
   - Read and both Iterate* look at the last committed version only, never at an overlay
     (SimpleLedger.read / IterateReadAllItems go to the tree);
   - reading version n <= 0 gives the latest version (iavl LazyLoadVersion), the empty
     store if there is none; n above the latest version is an error;
   - Commit reports [OCommitted version []]: the order of the tree operations is an
     implementation matter (see Ledger.outs). *)
From stdpp Require Import gmap.
From Rigo Require Import Ledger.

Section spec.
Context {V : Type}.

Record ent := Ent { ndel : nat; written : option V }.
Definition ent0 : ent := Ent 0 None.
Local Notation overlay := (gmap N ent) (only parsing).
Definition ent_of (o : overlay) (k : N) : ent := default ent0 (o !! k).

Record sstate := SState {
  committed : list (gmap N V);   (* committed !! (v-1) is version v *)
  mp : overlay;                  (* mempool overlay *)
  cs : overlay                   (* consensus overlay *)
}.
Definition sstate_empty : sstate := SState [] ∅ ∅.

Definition latest (s : sstate) : gmap N V := default ∅ (last (committed s)).

(* read through an overlay on top of the last commit *)
Definition view (o : overlay) (T : gmap N V) (k : N) : option V :=
  match written (ent_of o k) with
  | Some v => Some v
  | None => match ndel (ent_of o k) with O => T !! k | S _ => None end
  end.

Definition o_set (k : N) (v : V) (o : overlay) : overlay :=
  <[k := Ent (ndel (ent_of o k)) (Some v)]> o.
Definition o_cancel_set (k : N) (o : overlay) : overlay :=
  <[k := Ent (ndel (ent_of o k)) None]> o.
(* delete: the key must be visible, else NotFound and no change *)
Definition o_del (T : gmap N V) (k : N) (o : overlay) : overlay * option V :=
  match view o T k with
  | Some v => (<[k := Ent (S (ndel (ent_of o k))) None]> o, Some v)
  | None => (o, None)
  end.
Definition o_cancel_del (k : N) (o : overlay) : overlay :=
  <[k := Ent (pred (ndel (ent_of o k))) (written (ent_of o k))]> o.

(* net effect of an overlay entry on one key at commit: delete if ndel > 0, then write *)
Definition commit_key (e : option ent) (old : option V) : option V :=
  match e with
  | None => old
  | Some e =>
    match written e with
    | Some v => Some v
    | None => match ndel e with O => old | S _ => None end
    end
  end.
Definition commit_tree (o : overlay) (T : gmap N V) : gmap N V := merge commit_key o T.

Definition spec_step (s : sstate) (o : op V) : sstate * out V :=
  let T := latest s in
  match o with
  | SetM k v => (SState (committed s) (o_set k v (mp s)) (cs s), ONil)
  | CancelSetM k => (SState (committed s) (o_cancel_set k (mp s)) (cs s), ONil)
  | GetM k => (s, out_of_read (view (mp s) T k))
  | DelM k => let '(m, r) := o_del T k (mp s) in (SState (committed s) m (cs s), out_of_read r)
  | CancelDelM k => (SState (committed s) (o_cancel_del k (mp s)) (cs s), ONil)
  | Read k => (s, out_of_read (T !! k))
  | IterM => (s, OItems (sorted_items T))
  | SetF k v => (SState (committed s) (mp s) (o_set k v (cs s)), ONil)
  | CancelSetF k => (SState (committed s) (mp s) (o_cancel_set k (cs s)), ONil)
  | GetF k => (s, out_of_read (view (cs s) T k))
  | DelF k =>
    let '(m1, _) := o_del T k (mp s) in
    let '(m2, r) := o_del T k (cs s) in
    (SState (committed s) m1 m2, out_of_read r)
  | CancelDelF k => (SState (committed s) (mp s) (o_cancel_del k (cs s)), ONil)
  | IterF => (s, OItems (sorted_items T))
  | Commit =>
    (SState (committed s ++ [commit_tree (cs s) T]) ∅ ∅,
     OCommitted (N.of_nat (S (length (committed s)))) [])
  | ReadAt n k =>
    (s, match tree_at (committed s) n with Some T' => out_of_read (T' !! k) | None => OErr end)
  | IterAt n =>
    (s, match tree_at (committed s) n with Some T' => OItems (sorted_items T') | None => OErr end)
  | Reopen => (SState (committed s) ∅ ∅, ONil)
  end.

Fixpoint spec_run_from (s : sstate) (ops : list (op V)) : sstate * list (out V) :=
  match ops with
  | [] => (s, [])
  | o :: r =>
    let '(s1, x) := spec_step s o in let '(s2, xs) := spec_run_from s1 r in (s2, x :: xs)
  end.

Definition spec_run (ops : list (op V)) : list (out V) := (spec_run_from sstate_empty ops).2.
Definition run_spec := spec_run.
End spec.

Global Arguments ent : clear implicits.
Global Arguments sstate : clear implicits.
Notation overlay V := (gmap N (ent V)) (only parsing).
