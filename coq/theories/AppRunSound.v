(* AppRunSound.v — the comparator the correspondence check runs is sound: when it reports no
   difference between the model's and the implementation's observations, they ARE equal on the
   compared projection (as Coq values), so a divergence cannot hide behind the hand-written boolean
   equalities of AppRun.v. *)
From Rigo Require Import Base.
From stdpp Require Import gmap sorting.
From Rigo Require Import Spec SpecProps AppRun.
Local Open Scope Z_scope.

Definition sound {A} (e : A → A → bool) : Prop := ∀ x y, e x y = true → x = y.

Lemma Zeqb_sound : sound Z.eqb. Proof. intros x y H. apply Z.eqb_eq. exact H. Qed.
Lemma Neqb_sound : sound N.eqb. Proof. intros x y H. apply N.eqb_eq. exact H. Qed.
Lemma Booleqb_sound : sound Bool.eqb. Proof. intros x y H. apply Bool.eqb_prop. exact H. Qed.

Lemma eqb_list_sound {A} (e : A → A → bool) : sound e → sound (eqb_list e).
Proof.
  intros He a. induction a as [|x a IH]; intros [|y b] H; cbn [eqb_list] in H; try discriminate; [reflexivity|].
  apply andb_prop in H as [H1 H2]. f_equal; [apply He; exact H1|apply IH; exact H2].
Qed.

Lemma eqb_opt_sound {A} (e : A → A → bool) : sound e → sound (eqb_opt e).
Proof.
  intros He [x|] [y|] H; cbn in H; try discriminate; [|reflexivity]. f_equal. apply He. exact H.
Qed.

Lemma eqb_pair_sound {A B} (ea : A → A → bool) (eb : B → B → bool) : sound ea → sound eb → sound (eqb_pair ea eb).
Proof.
  intros Ha Hb [a1 b1] [a2 b2] H. unfold eqb_pair in H; cbn in H.
  apply andb_prop in H as [H1 H2]. f_equal; [apply Ha; exact H1|apply Hb; exact H2].
Qed.

Ltac split_ands :=
  repeat match goal with
  | H : _ && _ = true |- _ => apply andb_prop in H as [? ?]
  end.
Ltac use_eqs :=
  repeat match goal with
  | H : Z.eqb _ _ = true |- _ => apply Z.eqb_eq in H
  | H : N.eqb _ _ = true |- _ => apply N.eqb_eq in H
  | H : Bool.eqb _ _ = true |- _ => apply Bool.eqb_prop in H
  end.

Lemma eqb_acct_view_sound : sound eqb_acct_view.
Proof.
  intros [[[[n1 b1] c1] nm1] d1] [[[[n2 b2] c2] nm2] d2] H. cbn in H.
  split_ands. use_eqs. subst. reflexivity.
Qed.

Lemma eqb_stake_view_sound : sound eqb_stake_view.
Proof.
  intros [[[[[f1 t1] h1] s1] r1] p1] [[[[[f2 t2] h2] s2] r2] p2] H. cbn in H.
  split_ands. use_eqs. subst. reflexivity.
Qed.

Lemma eqb_del_view_sound : sound eqb_del_view.
Proof.
  intros [[[s1 t1] st1] m1] [[[s2 t2] st2] m2] H. cbn in H.
  split_ands. use_eqs. subst.
  match goal with X : eqb_list eqb_stake_view _ _ = true |- _ => apply (eqb_list_sound _ eqb_stake_view_sound) in X end.
  match goal with X : eqb_list Z.eqb _ _ = true |- _ => apply (eqb_list_sound _ Zeqb_sound) in X end.
  subst. reflexivity.
Qed.

Lemma eqb_reward_view_sound : sound eqb_reward_view.
Proof.
  intros [[[[i1 w1] s1] c1] h1] [[[[i2 w2] s2] c2] h2] H. cbn in H.
  split_ands. use_eqs. subst. reflexivity.
Qed.

Lemma eqb_voter_sound : sound (λ x y : addr * Z * Z, (x.1.1 =? y.1.1)%N && (x.1.2 =? y.1.2) && (x.2 =? y.2)).
Proof.
  intros [[a1 p1] c1] [[a2 p2] c2] H. cbn in H. split_ands. use_eqs. subst. reflexivity.
Qed.

Lemma eqb_prop_view_sound : sound eqb_prop_view.
Proof.
  intros [[[[[f1 [[[[s1 e1] a1] t1] m1]] v1] ot1] o1] mj1] [[[[[f2 [[[[s2 e2] a2] t2] m2]] v2] ot2] o2] mj2] H.
  cbn in H. split_ands. use_eqs. subst.
  match goal with X : eqb_list (λ x y : addr * Z * Z, _) _ _ = true |- _ => apply (eqb_list_sound _ eqb_voter_sound) in X end.
  match goal with X : eqb_list (eqb_pair N.eqb Z.eqb) _ _ = true |- _ =>
    apply (eqb_list_sound _ (eqb_pair_sound _ _ Neqb_sound Zeqb_sound)) in X end.
  match goal with X : eqb_opt N.eqb _ _ = true |- _ => apply (eqb_opt_sound _ Neqb_sound) in X end.
  subst. reflexivity.
Qed.

Lemma eqb_params_sound : sound eqb_params.
Proof.
  intros [] [] H. unfold eqb_params in H. cbn in H. split_ands. use_eqs. subst. reflexivity.
Qed.

(* the whole projected state *)
Theorem snap_diff_sound a b : snap_diff a b = 0 → a = b.
Proof.
  destruct a as [a1 d1 f1 r1 p1 g1 t1], b as [a2 d2 f2 r2 p2 g2 t2]. unfold snap_diff. cbn.
  destruct (eqb_list (eqb_pair N.eqb eqb_acct_view) a1 a2) eqn:Ea; cbn; [|discriminate].
  destruct (eqb_list (eqb_pair N.eqb (eqb_opt eqb_del_view)) d1 d2) eqn:Ed; cbn; [|discriminate].
  destruct (eqb_list eqb_stake_view f1 f2) eqn:Ef; cbn; [|discriminate].
  destruct (eqb_list (eqb_pair N.eqb (eqb_opt eqb_reward_view)) r1 r2) eqn:Er; cbn; [|discriminate].
  destruct (eqb_list (eqb_pair N.eqb (eqb_opt eqb_prop_view)) p1 p2) eqn:Ep; cbn; [|discriminate].
  destruct (eqb_params g1 g2) eqn:Eg; cbn; [|discriminate].
  destruct (t1 =? t2) eqn:Et; cbn; [|discriminate].
  intros _.
  apply (eqb_list_sound _ (eqb_pair_sound _ _ Neqb_sound eqb_acct_view_sound)) in Ea.
  apply (eqb_list_sound _ (eqb_pair_sound _ _ Neqb_sound (eqb_opt_sound _ eqb_del_view_sound))) in Ed.
  apply (eqb_list_sound _ eqb_stake_view_sound) in Ef.
  apply (eqb_list_sound _ (eqb_pair_sound _ _ Neqb_sound (eqb_opt_sound _ eqb_reward_view_sound))) in Er.
  apply (eqb_list_sound _ (eqb_pair_sound _ _ Neqb_sound (eqb_opt_sound _ eqb_prop_view_sound))) in Ep.
  apply eqb_params_sound in Eg. apply Z.eqb_eq in Et. subst. reflexivity.
Qed.

(* what "no difference" means per observation: equal, except that two failures (two panics) count
   as agreeing whatever their reason code — the reason is compared separately as a note *)
Definition res_agree {A} (a b : res A) : Prop :=
  match a, b with
  | Ok x, Ok y => x = y
  | Err _, Err _ => True
  | Panic _, Panic _ => True
  | _, _ => False
  end.
Definition obs_agree (m i : aobs) : Prop :=
  match m, i with
  | OInit, OInit => True
  | OBegin a, OBegin b => res_agree a b
  | ODeliver a, ODeliver b => res_agree a b
  | OEnd a, OEnd b => res_agree a b
  | OCommit a, OCommit b => a = b
  | _, _ => False
  end.

Lemma res_class_sound {A} (e : A → A → bool) a b : sound e → res_class e a b = true → res_agree a b.
Proof. intros He H. destruct a, b; cbn in *; try discriminate; try exact I. apply He. exact H. Qed.

Theorem obs_diff_sound m i : obs_diff false m i = 0 → obs_agree m i.
Proof.
  destruct m as [|a|a|a|a], i as [|b|b|b|b]; cbn; try discriminate; try (intros; exact I).
  - destruct (res_class Z.eqb a b) eqn:E; [|discriminate]. intros _. exact (res_class_sound _ _ _ Zeqb_sound E).
  - destruct (res_class Z.eqb a b) eqn:E; [|discriminate]. intros _. exact (res_class_sound _ _ _ Zeqb_sound E).
  - destruct (res_class (eqb_list (eqb_pair N.eqb Z.eqb)) a b) eqn:E; [|discriminate]. intros _.
    exact (res_class_sound _ _ _ (eqb_list_sound _ (eqb_pair_sound _ _ Neqb_sound Zeqb_sound)) E).
  - apply snap_diff_sound.
Qed.

(* the case-level verdict: no reported difference = the model's observation list agrees with the
   implementation's, position by position and in length *)
Theorem first_obs_diff_sound : ∀ m i n, first_obs_diff false n m i = None → Forall2 obs_agree m i.
Proof.
  induction m as [|x m IH]; intros [|y i] n H; cbn [first_obs_diff] in H; try discriminate; [constructor|].
  destruct (obs_diff false x y =? 0) eqn:E; [|discriminate].
  constructor; [apply obs_diff_sound; apply Z.eqb_eq; exact E|exact (IH _ _ H)].
Qed.

Theorem check_acase_sound c : (check_acase c).1 = None → Forall2 obs_agree (model_obs c) (c_obs c).
Proof. unfold check_acase. cbn. apply first_obs_diff_sound. Qed.
