(* Preimage.v — model of ctrlers/types/trx.go : Trx.EncodeRLP and PreImageToSignTrxRLP,
   and the injectivity facts behind property C03 ("only the key holder of the sender
   address can cause a transaction's effects"): the byte string that is signed
   determines the chain id and every execution-relevant field of the transaction.

   Go source modelled (rigo-go, /repo/ctrlers/types):
     trx.go          trxRPL, Trx.EncodeRLP, PreImageToSignTrxRLP
     trx_staking.go  TrxPayloadStaking (EncodeRLP writes nothing), TrxPayloadUnstaking
     trx_transfer.go TrxPayloadAssetTransfer (EncodeRLP writes nothing)
     trx_withdraw.go trx_contract.go trx_setdoc.go trx_voting.go trx_proposal.go *)
From Coq Require Import List NArith ZArith Lia Bool.
From Coq Require Import Strings.Byte.
From Coq Require Import ZifyN ZifyNat ZifyBool.
From Rigo Require Import Rlp.
Import ListNotations.
Local Open Scope N_scope.

#[local] Ltac Zify.zify_post_hook ::= Z.div_mod_to_equations.

(* ------------------------------------------------------------------ *)
(** * Go integer conversions *)

Definition int64_ok (z : Z) : Prop := (- 2 ^ 63 <= z < 2 ^ 63)%Z.
Definition int32_ok (z : Z) : Prop := (- 2 ^ 31 <= z < 2 ^ 31)%Z.

(* uint64(x) for x int64, and also uint64(x) for x int32 (sign extension, then the
   same bit pattern): the value modulo 2^64 *)
Definition u64_of_Z (z : Z) : N := Z.to_N (z mod 2 ^ 64).
(* uint32(x) for x int32 *)
Definition u32_of_Z (z : Z) : N := Z.to_N (z mod 2 ^ 32).

Arguments u64_of_Z : simpl never.
Arguments u32_of_Z : simpl never.

Lemma int32_int64 (z : Z) : int32_ok z -> int64_ok z.
Proof. unfold int32_ok, int64_ok. lia. Qed.

Lemma u64_of_Z_inj (a b : Z) : int64_ok a -> int64_ok b -> u64_of_Z a = u64_of_Z b -> a = b.
Proof. unfold int64_ok, u64_of_Z. intros Ha Hb H. lia. Qed.

Lemma u32_of_Z_inj (a b : Z) : int32_ok a -> int32_ok b -> u32_of_Z a = u32_of_Z b -> a = b.
Proof. unfold int32_ok, u32_of_Z. intros Ha Hb H. lia. Qed.

Lemma u64_of_Z_range (z : Z) : u64_of_Z z < 2 ^ 64.
Proof. unfold u64_of_Z. lia. Qed.

Lemma u32_of_Z_range (z : Z) : u32_of_Z z < 2 ^ 32.
Proof. unfold u32_of_Z. lia. Qed.

(* ------------------------------------------------------------------ *)
(** * Decoded transactions *)

(* ITrxPayload values.  [PNone] is the nil interface.  Strings (Go string) are their
   UTF-8 bytes. *)
Inductive payload : Type :=
| PNone
| PTransfer                                    (* &TrxPayloadAssetTransfer{} *)
| PStaking                                     (* &TrxPayloadStaking{} *)
| PUnstaking (txhash : list byte)
| PWithdraw (reqamt : N)                       (* *uint256.Int *)
| PContract (data : list byte)
| PSetDoc (name url : list byte)
| PVoting (txhash : list byte) (choice : Z)    (* int32 *)
| PProposal (message : list byte)
            (start_height period applying : Z) (* int64, all three *)
            (opttype : Z)                      (* int32 *)
            (options : list (list byte)).

Record trx : Type := MkTrx {
  t_version  : N;          (* uint32 *)
  t_time     : Z;          (* int64 *)
  t_nonce    : N;          (* uint64 *)
  t_from     : list byte;  (* types.Address = []byte, length NOT fixed by the encoder *)
  t_to       : list byte;
  t_amount   : N;          (* *uint256.Int *)
  t_gas      : N;          (* uint64 *)
  t_gasprice : N;          (* *uint256.Int *)
  t_type     : Z;          (* int32 *)
  t_payload  : payload
}.

Definition ustr (n : N) : item := Str (be_bytes n).

(* what rlp.EncodeToBytes(tx.Payload) produces; [None] = no bytes at all *)
Definition payload_item (p : payload) : option item :=
  match p with
  | PNone | PTransfer | PStaking => None
  | PUnstaking h => Some (Str h)
  | PWithdraw a => Some (ustr a)
  | PContract d => Some (Str d)
  | PSetDoc n u => Some (Lst [Str n; Str u])
  | PVoting h c => Some (Lst [Str h; ustr (u32_of_Z c)])
  | PProposal m s v a o opts =>
      Some (Lst [Str m; ustr (u64_of_Z s); ustr (u64_of_Z v); ustr (u64_of_Z a);
                 ustr (u32_of_Z o); Lst (map Str opts)])
  end.

Definition payload_bytes (p : payload) : list byte :=
  match payload_item p with None => [] | Some i => rlp_encode i end.

(* the eleven fields of trxRPL; Sig is nil while signing *)
Definition trx_fields (t : trx) : list item :=
  [ ustr (t_version t); ustr (u64_of_Z (t_time t)); ustr (t_nonce t);
    Str (t_from t); Str (t_to t); ustr (t_amount t); ustr (t_gas t);
    ustr (t_gasprice t); ustr (u64_of_Z (t_type t));
    Str (payload_bytes (t_payload t)); Str [] ].

Definition trx_item (t : trx) : item := Lst (trx_fields t).
Definition trx_rlp (t : trx) : list byte := rlp_encode (trx_item t).

(* ------------------------------------------------------------------ *)
(** * Well-formedness : the ranges of the Go types *)

Definition payload_wf (p : payload) : Prop :=
  match p with
  | PWithdraw a => a < 2 ^ 256
  | PVoting _ c => int32_ok c
  | PProposal _ s v a o _ => int64_ok s /\ int64_ok v /\ int64_ok a /\ int32_ok o
  | _ => True
  end.

(* The payload object is of the Go type that belongs to tx.Type.  The wire decoder
   (Trx.Decode -> fromProto, and also Trx.DecodeRLP) constructs the payload from
   tx.Type, so every transaction that reaches CheckTx/DeliverTx satisfies this;
   web3.NewTrx* set Type = payload.Type().  The empty-encoding payloads are allowed
   with any type: they put no bytes into the preimage.  See [payload_kind_needed]. *)
Definition payload_kind_ok (ty : Z) (p : payload) : Prop :=
  match p with
  | PNone | PTransfer | PStaking => True
  | PUnstaking _ => ty = 3%Z
  | PProposal _ _ _ _ _ _ => ty = 4%Z
  | PVoting _ _ => ty = 5%Z
  | PContract _ => ty = 6%Z
  | PSetDoc _ _ => ty = 7%Z
  | PWithdraw _ => ty = 8%Z
  end.

Record trx_wf (t : trx) : Prop := MkWf {
  wf_version  : t_version t < 2 ^ 32;
  wf_time     : int64_ok (t_time t);
  wf_nonce    : t_nonce t < 2 ^ 64;
  wf_amount   : t_amount t < 2 ^ 256;
  wf_gas      : t_gas t < 2 ^ 64;
  wf_gasprice : t_gasprice t < 2 ^ 256;
  wf_type     : int32_ok (t_type t);
  wf_payload  : payload_wf (t_payload t);
  wf_kind     : payload_kind_ok (t_type t) (t_payload t);
  (* the encoding fits a Go slice; this bounds every length in it *)
  wf_size     : N.of_nat (length (trx_rlp t)) < 2 ^ 64
}.

(* ------------------------------------------------------------------ *)
(** * The quotient : payload values that put identical bytes into the preimage

   nil, &TrxPayloadAssetTransfer{} and &TrxPayloadStaking{} all encode to zero bytes
   ([payload_quotient_needed] below), so the signature can not tell them apart.  No
   execution path reads anything from these objects (they have no fields; the
   executors only look at tx.Type), and the protobuf wire decoder always produces nil
   for TRX_TRANSFER and TRX_STAKING. *)

Definition payload_norm (p : payload) : payload :=
  match p with
  | PTransfer | PStaking => PNone
  | _ => p
  end.

Definition trx_norm (t : trx) : trx :=
  MkTrx (t_version t) (t_time t) (t_nonce t) (t_from t) (t_to t) (t_amount t)
        (t_gas t) (t_gasprice t) (t_type t) (payload_norm (t_payload t)).

Definition payload_canonical (p : payload) : Prop :=
  match p with PTransfer | PStaking => False | _ => True end.

Lemma payload_norm_canonical (p : payload) : payload_canonical p -> payload_norm p = p.
Proof. destruct p; cbn; tauto. Qed.

Lemma trx_norm_canonical (t : trx) : payload_canonical (t_payload t) -> trx_norm t = t.
Proof.
  intros H. destruct t as [v ti n f to a g gp ty p]. unfold trx_norm. cbn in *.
  rewrite payload_norm_canonical by exact H. reflexivity.
Qed.

Lemma payload_bytes_norm (p : payload) : payload_bytes (payload_norm p) = payload_bytes p.
Proof. destruct p; reflexivity. Qed.

Lemma trx_rlp_norm (t : trx) : trx_rlp (trx_norm t) = trx_rlp t.
Proof.
  destruct t as [v ti n f to a g gp ty p].
  unfold trx_rlp, trx_item, trx_fields, trx_norm. cbn [t_version t_time t_nonce t_from t_to
    t_amount t_gas t_gasprice t_type t_payload].
  rewrite payload_bytes_norm. reflexivity.
Qed.

(* ------------------------------------------------------------------ *)
(** * Injectivity of the RLP body *)

Lemma map_Str_inj (a b : list (list byte)) : map Str a = map Str b -> a = b.
Proof.
  revert b. induction a as [|x a IH]; intros [|y b] H; cbn in H; try discriminate.
  - reflexivity.
  - injection H as Hxy Hab. subst. f_equal. apply IH, Hab.
Qed.

Lemma ustr_inj (a b : N) : ustr a = ustr b -> a = b.
Proof. unfold ustr. intros H. injection H as H. apply be_bytes_inj, H. Qed.

Lemma payload_item_ok (p : payload) (i : item) :
  N.of_nat (length (payload_bytes p)) < two64N -> payload_item p = Some i -> item_ok i.
Proof.
  unfold payload_bytes. intros Hlen Hi. rewrite Hi in Hlen. exact Hlen.
Qed.

Lemma payload_bytes_inj (ty : Z) (p1 p2 : payload) :
  payload_wf p1 -> payload_wf p2 ->
  payload_kind_ok ty p1 -> payload_kind_ok ty p2 ->
  N.of_nat (length (payload_bytes p1)) < two64N ->
  N.of_nat (length (payload_bytes p2)) < two64N ->
  payload_bytes p1 = payload_bytes p2 -> payload_norm p1 = payload_norm p2.
Proof.
  intros W1 W2 K1 K2 L1 L2 Heq.
  destruct (payload_item p1) as [i1|] eqn:E1; destruct (payload_item p2) as [i2|] eqn:E2.
  - (* both carry bytes : same tx.Type, hence same constructor *)
    pose proof (payload_item_ok _ _ L1 E1) as Ok1.
    pose proof (payload_item_ok _ _ L2 E2) as Ok2.
    unfold payload_bytes in Heq. rewrite E1, E2 in Heq.
    apply (rlp_encode_inj _ _ Ok1 Ok2) in Heq. subst i2.
    destruct p1 as [ | | |h1|a1|d1|n1 u1|h1 c1|m1 s1 v1 a1 o1 op1];
      cbn [payload_item] in E1; try discriminate E1;
      destruct p2 as [ | | |h2|a2|d2|n2 u2|h2 c2|m2 s2 v2 a2 o2 op2];
      cbn [payload_item] in E2; try discriminate E2;
      cbn [payload_kind_ok] in K1, K2; try (exfalso; lia);
      rewrite <- E2 in E1; cbn [payload_norm].
    + injection E1 as ->. reflexivity.
    + injection E1 as Ha. apply be_bytes_inj in Ha. subst. reflexivity.
    + injection E1 as ->. reflexivity.
    + injection E1 as -> ->. reflexivity.
    + injection E1 as -> Hc. cbn [payload_wf] in W1, W2.
      apply be_bytes_inj, u32_of_Z_inj in Hc; try assumption. subst. reflexivity.
    + injection E1 as -> Hs Hv Ha Ho Hop. cbn [payload_wf] in W1, W2.
      destruct W1 as [Ws1 [Wv1 [Wa1 Wo1]]]. destruct W2 as [Ws2 [Wv2 [Wa2 Wo2]]].
      apply be_bytes_inj, u64_of_Z_inj in Hs; try assumption.
      apply be_bytes_inj, u64_of_Z_inj in Hv; try assumption.
      apply be_bytes_inj, u64_of_Z_inj in Ha; try assumption.
      apply be_bytes_inj, u32_of_Z_inj in Ho; try assumption.
      apply map_Str_inj in Hop. subst. reflexivity.
  - exfalso. unfold payload_bytes in Heq. rewrite E1, E2 in Heq.
    exact (rlp_encode_nonempty _ Heq).
  - exfalso. unfold payload_bytes in Heq. rewrite E1, E2 in Heq.
    symmetry in Heq. exact (rlp_encode_nonempty _ Heq).
  - destruct p1; cbn [payload_item] in E1; try discriminate E1;
      destruct p2; cbn [payload_item] in E2; try discriminate E2; reflexivity.
Qed.

Lemma trx_item_ok (t : trx) : N.of_nat (length (trx_rlp t)) < 2 ^ 64 -> item_ok (trx_item t).
Proof. unfold item_ok, trx_rlp. rewrite two64N_eq. tauto. Qed.

Lemma trx_payload_len (t : trx) :
  item_ok (trx_item t) -> N.of_nat (length (payload_bytes (t_payload t))) < two64N.
Proof.
  intros Hok. apply item_ok_Lst in Hok.
  apply item_ok_Str.
  apply (proj1 (Forall_forall _ _) Hok).
  unfold trx_fields. cbn [In]. tauto.
Qed.

(* Without any hypothesis on payload kinds: equal encodings have equal scalar fields
   and equal payload BYTES. *)
Theorem trx_rlp_inj_fields (t1 t2 : trx) :
  int64_ok (t_time t1) -> int64_ok (t_time t2) ->
  int32_ok (t_type t1) -> int32_ok (t_type t2) ->
  N.of_nat (length (trx_rlp t1)) < 2 ^ 64 ->
  N.of_nat (length (trx_rlp t2)) < 2 ^ 64 ->
  trx_rlp t1 = trx_rlp t2 ->
  t_version t1 = t_version t2 /\ t_time t1 = t_time t2 /\ t_nonce t1 = t_nonce t2 /\
  t_from t1 = t_from t2 /\ t_to t1 = t_to t2 /\ t_amount t1 = t_amount t2 /\
  t_gas t1 = t_gas t2 /\ t_gasprice t1 = t_gasprice t2 /\ t_type t1 = t_type t2 /\
  payload_bytes (t_payload t1) = payload_bytes (t_payload t2).
Proof.
  intros Ti1 Ti2 Ty1 Ty2 S1 S2 Heq.
  apply trx_item_ok in S1. apply trx_item_ok in S2.
  unfold trx_rlp in Heq. apply (rlp_encode_inj _ _ S1 S2) in Heq.
  unfold trx_item, trx_fields in Heq.
  injection Heq as Hv Hti Hn Hf Hto Ha Hg Hgp Hty Hp.
  apply be_bytes_inj in Hv, Hti, Hn, Ha, Hg, Hgp, Hty.
  apply u64_of_Z_inj in Hti; try assumption.
  apply u64_of_Z_inj in Hty; try (apply int32_int64; assumption).
  repeat split; assumption.
Qed.

Theorem trx_rlp_inj (t1 t2 : trx) :
  trx_wf t1 -> trx_wf t2 -> trx_rlp t1 = trx_rlp t2 -> trx_norm t1 = trx_norm t2.
Proof.
  intros W1 W2 Heq.
  destruct (trx_rlp_inj_fields t1 t2 (wf_time _ W1) (wf_time _ W2) (wf_type _ W1)
              (wf_type _ W2) (wf_size _ W1) (wf_size _ W2) Heq)
    as [Hv [Hti [Hn [Hf [Hto [Ha [Hg [Hgp [Hty Hp]]]]]]]]].
  pose proof (trx_payload_len _ (trx_item_ok _ (wf_size _ W1))) as L1.
  pose proof (trx_payload_len _ (trx_item_ok _ (wf_size _ W2))) as L2.
  pose proof (wf_kind _ W1) as K1. pose proof (wf_kind _ W2) as K2.
  rewrite Hty in K1.
  pose proof (payload_bytes_inj _ _ _ (wf_payload _ W1) (wf_payload _ W2) K1 K2 L1 L2 Hp) as Hpn.
  unfold trx_norm. rewrite Hv, Hti, Hn, Hf, Hto, Ha, Hg, Hgp, Hty, Hpn. reflexivity.
Qed.

(* For transactions as the wire decoder produces them (never a PTransfer / PStaking
   object) the quotient is the identity. *)
Corollary trx_rlp_inj_canonical (t1 t2 : trx) :
  trx_wf t1 -> trx_wf t2 ->
  payload_canonical (t_payload t1) -> payload_canonical (t_payload t2) ->
  trx_rlp t1 = trx_rlp t2 -> t1 = t2.
Proof.
  intros W1 W2 C1 C2 Heq.
  rewrite <- (trx_norm_canonical t1 C1), <- (trx_norm_canonical t2 C2).
  apply trx_rlp_inj; assumption.
Qed.

(* ------------------------------------------------------------------ *)
(** * Decimal *)

Fixpoint dec_le (fuel : nat) (n : N) : list byte :=
  match fuel with
  | O => []
  | S f => if n =? 0 then [] else n2b (48 + n mod 10) :: dec_le f (n / 10)
  end.

(* fmt "%d" of a non-negative int *)
Definition dec_of_N (n : N) : list byte :=
  if n =? 0 then [n2b 48] else rev (dec_le (N.to_nat (N.size n)) n).

Definition dec_of_nat (n : nat) : list byte := dec_of_N (N.of_nat n).

Definition is_digit (b : byte) : Prop := 48 <= b2n b <= 57.

Lemma dec_le_digits (fuel : nat) : forall n, Forall is_digit (dec_le fuel n).
Proof.
  induction fuel as [|f IH]; intros n; cbn [dec_le].
  - constructor.
  - destruct (n =? 0); constructor; [|apply IH].
    unfold is_digit. rewrite b2n_n2b by lia. lia.
Qed.

Lemma dec_of_N_digits (n : N) : Forall is_digit (dec_of_N n).
Proof.
  unfold dec_of_N. destruct (n =? 0).
  - constructor; [|constructor]. unfold is_digit. rewrite b2n_n2b by lia. lia.
  - apply Forall_rev, dec_le_digits.
Qed.

Fixpoint dec_le_val (l : list byte) : N :=
  match l with [] => 0 | b :: r => (b2n b - 48) + 10 * dec_le_val r end.
Definition dec_val (l : list byte) : N := dec_le_val (rev l).

Lemma dec_le_val_spec (fuel : nat) :
  forall n, n < 2 ^ N.of_nat fuel -> dec_le_val (dec_le fuel n) = n.
Proof.
  induction fuel as [|f IH]; intros n Hn.
  - cbn in Hn. cbn [dec_le dec_le_val]. lia.
  - cbn [dec_le]. destruct (N.eqb_spec n 0) as [Hz|Hz].
    + cbn [dec_le_val]. lia.
    + cbn [dec_le_val]. rewrite b2n_n2b by lia.
      rewrite Nat2N.inj_succ, N.pow_succ_r' in Hn.
      rewrite IH.
      * lia.
      * remember (2 ^ N.of_nat f) as p eqn:Hp. clear Hp IH. lia.
Qed.

Lemma dec_val_dec_of_N (n : N) : dec_val (dec_of_N n) = n.
Proof.
  unfold dec_val, dec_of_N. destruct (N.eqb_spec n 0) as [Hz|Hz].
  - subst. reflexivity.
  - rewrite rev_involutive. apply dec_le_val_spec.
    rewrite N2Nat.id. apply N.size_gt.
Qed.

Lemma dec_of_N_inj (a b : N) : dec_of_N a = dec_of_N b -> a = b.
Proof.
  intros H. rewrite <- (dec_val_dec_of_N a), <- (dec_val_dec_of_N b), H. reflexivity.
Qed.

(* ------------------------------------------------------------------ *)
(** * The signing preimage *)

(* "\x19RIGO(" *)
Definition pre_head : list byte := bytesN [25; 82; 73; 71; 79; 40].
(* ")" and " Signed Message:\n" *)
Definition rparen : byte := n2b 41.
Definition pre_mid_tail : list byte :=
  bytesN [32; 83; 105; 103; 110; 101; 100; 32; 77; 101; 115; 115; 97; 103; 101; 58; 10].
Definition pre_mid : list byte := rparen :: pre_mid_tail.

Definition preimage (chain : list byte) (t : trx) : list byte :=
  let r := trx_rlp t in
  pre_head ++ chain ++ pre_mid ++ dec_of_nat (length r) ++ r.

(* [c] has no occurrence of [m] as a contiguous substring *)
Definition no_sub {A} (m c : list A) : Prop := forall a b, c <> a ++ m ++ b.

Lemma rparen_not_in_tail : ~ In rparen pre_mid_tail.
Proof.
  intros H. apply (in_map b2n) in H. revert H. vm_compute.
  intros H. repeat (destruct H as [H|H]; [discriminate H|]). exact H.
Qed.

Section Split.
  Context {A : Type}.
  Variable x : A.
  Variable m' : list A.
  Hypothesis Hx : ~ In x m'.

  (* the delimiter x :: m' has no border (no proper suffix is a prefix), so its first
     occurrence after a delimiter-free prefix is where the prefix ends *)
  Lemma split_aux (c l r1 r2 : list A) :
    no_sub (x :: m') (c ++ l) ->
    (x :: m') ++ r2 = l ++ (x :: m') ++ r1 -> l = [].
  Proof.
    intros Hns Heq. destruct l as [|y l']; [reflexivity|exfalso].
    cbn [app] in Heq. injection Heq as Hxy Heq. subst y.
    apply app_eq_app in Heq. destruct Heq as [k [[Hm Hk]|[Hl Hk]]].
    - destruct k as [|z k'].
      + rewrite app_nil_r in Hm. subst l'.
        apply (Hns c []). rewrite app_nil_r. reflexivity.
      + cbn [app] in Hk. injection Hk as Hz _. subst z.
        apply Hx. rewrite Hm. apply in_or_app. right. left. reflexivity.
    - subst l'. apply (Hns c k). reflexivity.
  Qed.

  Lemma split_unique (c1 c2 r1 r2 : list A) :
    no_sub (x :: m') c1 -> no_sub (x :: m') c2 ->
    c1 ++ (x :: m') ++ r1 = c2 ++ (x :: m') ++ r2 -> c1 = c2 /\ r1 = r2.
  Proof.
    intros H1 H2 Heq.
    apply app_eq_app in Heq. destruct Heq as [l [[Hc Hr]|[Hc Hr]]].
    - subst c1. pose proof (split_aux c2 l r1 r2 H1 Hr) as Hl. subst l.
      rewrite app_nil_r. cbn [app] in Hr. injection Hr as Hr.
      apply app_inv_head in Hr. split; [reflexivity|symmetry; exact Hr].
    - subst c2. pose proof (split_aux c1 l r2 r1 H2 Hr) as Hl. subst l.
      rewrite app_nil_r. cbn [app] in Hr. injection Hr as Hr.
      apply app_inv_head in Hr. split; [reflexivity|exact Hr].
  Qed.
End Split.

(* simple sufficient conditions for [no_sub pre_mid c] *)
Lemma no_byte_no_sub (y : byte) (c : list byte) :
  In y pre_mid -> ~ In y c -> no_sub pre_mid c.
Proof.
  intros Hy Hc a b Heq. apply Hc. rewrite Heq.
  apply in_or_app. right. apply in_or_app. left. exact Hy.
Qed.

Lemma no_rparen_no_sub (c : list byte) : ~ In rparen c -> no_sub pre_mid c.
Proof. apply no_byte_no_sub. left. reflexivity. Qed.

Lemma no_newline_no_sub (c : list byte) : ~ In (n2b 10) c -> no_sub pre_mid c.
Proof.
  apply no_byte_no_sub. unfold pre_mid, pre_mid_tail, bytesN. cbn [map In]. tauto.
Qed.

(* digits, then a non-digit : unique split *)
Lemma digits_split (d1 d2 r1 r2 : list byte) :
  Forall is_digit d1 -> Forall is_digit d2 ->
  (exists h t, r1 = h :: t /\ ~ is_digit h) ->
  (exists h t, r2 = h :: t /\ ~ is_digit h) ->
  d1 ++ r1 = d2 ++ r2 -> d1 = d2 /\ r1 = r2.
Proof.
  intros D1. revert d2. induction D1 as [|x d1 Hx D1 IH]; intros d2 D2 R1 R2 Heq.
  - destruct D2 as [|y d2 Hy D2]; [split; [reflexivity|exact Heq]|exfalso].
    destruct R1 as [h [t [-> Hh]]]. cbn [app] in Heq. injection Heq as Hhy _.
    subst. contradiction.
  - destruct D2 as [|y d2 Hy D2].
    + exfalso. destruct R2 as [h [t [-> Hh]]]. cbn [app] in Heq. injection Heq as Hhy _.
      subst. contradiction.
    + cbn [app] in Heq. injection Heq as Hxy Heq. subst y.
      destruct (IH d2 D2 R1 R2 Heq) as [Hd Hr]. subst. split; reflexivity.
Qed.

Lemma trx_rlp_head (t : trx) :
  item_ok (trx_item t) -> exists h t', trx_rlp t = h :: t' /\ ~ is_digit h.
Proof.
  intros Hok. destruct (rlp_head_Lst _ Hok) as [h [t' [He Hh]]].
  exists h, t'. split; [exact He|]. unfold is_digit. lia.
Qed.

(* Main theorem.  Hypothesis on the chain ids: neither contains the 18-byte text
   ") Signed Message:\n".  [preimage_ambiguous] shows that some such hypothesis is
   necessary. *)
Theorem preimage_inj (c1 c2 : list byte) (t1 t2 : trx) :
  no_sub pre_mid c1 -> no_sub pre_mid c2 ->
  trx_wf t1 -> trx_wf t2 ->
  preimage c1 t1 = preimage c2 t2 ->
  c1 = c2 /\ trx_norm t1 = trx_norm t2.
Proof.
  intros N1 N2 W1 W2 Heq. unfold preimage in Heq.
  apply app_inv_head in Heq.
  destruct (split_unique rparen pre_mid_tail rparen_not_in_tail c1 c2 _ _ N1 N2 Heq)
    as [Hc Hrest].
  split; [exact Hc|].
  pose proof (trx_item_ok _ (wf_size _ W1)) as Ok1.
  pose proof (trx_item_ok _ (wf_size _ W2)) as Ok2.
  destruct (digits_split _ _ _ _ (dec_of_N_digits _) (dec_of_N_digits _)
              (trx_rlp_head _ Ok1) (trx_rlp_head _ Ok2) Hrest) as [_ Hr].
  apply trx_rlp_inj; assumption.
Qed.

(* the version asked for: chain ids without the byte ")" *)
Corollary preimage_inj_no_rparen (c1 c2 : list byte) (t1 t2 : trx) :
  ~ In rparen c1 -> ~ In rparen c2 ->
  trx_wf t1 -> trx_wf t2 ->
  preimage c1 t1 = preimage c2 t2 ->
  c1 = c2 /\ trx_norm t1 = trx_norm t2.
Proof. intros N1 N2. apply preimage_inj; apply no_rparen_no_sub; assumption. Qed.

(* chain ids without a newline (every printable chain id) *)
Corollary preimage_inj_no_newline (c1 c2 : list byte) (t1 t2 : trx) :
  ~ In (n2b 10) c1 -> ~ In (n2b 10) c2 ->
  trx_wf t1 -> trx_wf t2 ->
  preimage c1 t1 = preimage c2 t2 ->
  c1 = c2 /\ trx_norm t1 = trx_norm t2.
Proof. intros N1 N2. apply preimage_inj; apply no_newline_no_sub; assumption. Qed.

Corollary preimage_inj_canonical (c1 c2 : list byte) (t1 t2 : trx) :
  no_sub pre_mid c1 -> no_sub pre_mid c2 ->
  trx_wf t1 -> trx_wf t2 ->
  payload_canonical (t_payload t1) -> payload_canonical (t_payload t2) ->
  preimage c1 t1 = preimage c2 t2 ->
  c1 = c2 /\ t1 = t2.
Proof.
  intros N1 N2 W1 W2 C1 C2 Heq.
  destruct (preimage_inj c1 c2 t1 t2 N1 N2 W1 W2 Heq) as [Hc Ht].
  rewrite (trx_norm_canonical t1 C1), (trx_norm_canonical t2 C2) in Ht.
  split; assumption.
Qed.

(* ------------------------------------------------------------------ *)
(** * Executable entry points for the Go-generated test vectors *)

Definition preimage_N (chain : list N) (t : trx) : list N :=
  Nbytes (preimage (bytesN chain) t).

Fixpoint list_N_eqb (a b : list N) : bool :=
  match a, b with
  | [], [] => true
  | x :: a', y :: b' => (x =? y) && list_N_eqb a' b'
  | _, _ => false
  end.

Lemma list_N_eqb_eq (a b : list N) : list_N_eqb a b = true <-> a = b.
Proof.
  revert b. induction a as [|x a IH]; intros [|y b]; cbn [list_N_eqb];
    try (split; [discriminate|discriminate]).
  - split; reflexivity.
  - rewrite andb_true_iff, N.eqb_eq, IH. split.
    + intros [-> ->]. reflexivity.
    + intros H. injection H as -> ->. split; reflexivity.
Qed.

Fixpoint check_from (i : nat) (vs : list (list N * trx * list N)) : list nat :=
  match vs with
  | [] => []
  | (c, t, e) :: r =>
      if list_N_eqb (preimage_N c t) e then check_from (S i) r
      else i :: check_from (S i) r
  end.

(* indices (from 0) of the vectors whose expected bytes differ from the model *)
Definition check_vectors (vs : list (list N * trx * list N)) : list nat := check_from 0 vs.

Lemma check_from_nil (vs : list (list N * trx * list N)) (i : nat) :
  check_from i vs = [] -> Forall (fun v => preimage_N (fst (fst v)) (snd (fst v)) = snd v) vs.
Proof.
  revert i. induction vs as [|[[c t] e] r IH]; intros i H.
  - constructor.
  - cbn [check_from] in H. destruct (list_N_eqb (preimage_N c t) e) eqn:E; [|discriminate H].
    constructor; [apply list_N_eqb_eq, E | apply (IH _ H)].
Qed.

Lemma check_vectors_nil (vs : list (list N * trx * list N)) :
  check_vectors vs = [] -> Forall (fun v => preimage_N (fst (fst v)) (snd (fst v)) = snd v) vs.
Proof. apply check_from_nil. Qed.

(* ------------------------------------------------------------------ *)
(** * Examples *)

Definition addr_a : list byte := bytesN [1;2;3;4;5;6;7;8;9;10;11;12;13;14;15;16;17;18;19;20].
Definition addr_b : list byte := bytesN [255;254;253;252;251;250;249;248;247;246;245;244;243;242;241;240;239;238;237;236].

(* a proposal with a negative time stamp and a negative option type *)
Definition ex_proposal : trx :=
  MkTrx 1 (-1695600000000000000)%Z (2 ^ 64 - 1) addr_a addr_b (2 ^ 255) 1000000
        (2 ^ 256 - 1) 4%Z
        (PProposal (bytesN [104;105]) 10%Z 259200%Z 518410%Z (-1)%Z
                   [bytesN [123;125]; []; repeat (n2b 7) 300]).

Definition ex_transfer : trx :=
  MkTrx 1 1695600000000000000%Z 7 addr_a addr_b 1000000000000000000 21000 250000000000 1%Z PNone.

Definition ex_transfer_obj : trx :=
  MkTrx 1 1695600000000000000%Z 7 addr_a addr_b 1000000000000000000 21000 250000000000 1%Z PTransfer.

Ltac solve_wf :=
  constructor;
  [ vm_compute; reflexivity
  | unfold int64_ok; cbn [t_time]; lia
  | vm_compute; reflexivity
  | vm_compute; reflexivity
  | vm_compute; reflexivity
  | vm_compute; reflexivity
  | unfold int32_ok; cbn [t_type]; lia
  | cbn [t_payload payload_wf]; unfold int64_ok, int32_ok; try lia; try (vm_compute; reflexivity); exact I
  | cbn [t_payload t_type payload_kind_ok]; try reflexivity; exact I
  | vm_compute; reflexivity ].

Example ex_proposal_wf : trx_wf ex_proposal.
Proof. unfold ex_proposal. solve_wf. Qed.

Example ex_transfer_wf : trx_wf ex_transfer.
Proof. unfold ex_transfer. solve_wf. Qed.

Example ex_transfer_obj_wf : trx_wf ex_transfer_obj.
Proof. unfold ex_transfer_obj. solve_wf. Qed.

Definition chain_localnet : list byte := bytesN [108;111;99;97;108;110;101;116]. (* "localnet" *)

Example chain_localnet_ok : ~ In rparen chain_localnet /\ no_sub pre_mid chain_localnet.
Proof.
  assert (H : ~ In rparen chain_localnet).
  { intros H. apply (in_map b2n) in H. revert H. vm_compute.
    intros H. repeat (destruct H as [H|H]; [discriminate H|]). exact H. }
  split; [exact H|apply no_rparen_no_sub, H].
Qed.

(* the preimage of ex_transfer under "localnet", first 30 bytes:
   \x19 R I G O ( l o c a l n e t ) ' ' S i g n e d ' ' M e s s a g *)
Example ex_preimage_prefix :
  firstn 30 (preimage_N [108;111;99;97;108;110;101;116] ex_transfer)
  = [25;82;73;71;79;40;108;111;99;97;108;110;101;116;41;32;83;105;103;110;101;100;32;77;101;115;115;97;103;101].
Proof. vm_compute. reflexivity. Qed.

Example dec_examples :
  Nbytes (dec_of_N 0) = [48] /\ Nbytes (dec_of_N 7) = [55] /\
  Nbytes (dec_of_N 1024) = [49;48;50;52] /\ Nbytes (dec_of_nat 90) = [57;48].
Proof. vm_compute. repeat split; reflexivity. Qed.

(* the theorems apply to the examples *)
Example ex_inj_applies (c : list byte) (t : trx) :
  no_sub pre_mid c -> trx_wf t ->
  preimage chain_localnet ex_proposal = preimage c t ->
  chain_localnet = c /\ trx_norm ex_proposal = trx_norm t.
Proof.
  intros Hc Hw. apply preimage_inj; try assumption.
  - apply chain_localnet_ok.
  - apply ex_proposal_wf.
Qed.

(* The quotient is needed: nil payload and &TrxPayloadAssetTransfer{} sign identically. *)
Example payload_quotient_needed :
  ex_transfer <> ex_transfer_obj /\ trx_wf ex_transfer /\ trx_wf ex_transfer_obj /\
  trx_rlp ex_transfer = trx_rlp ex_transfer_obj /\
  trx_norm ex_transfer = trx_norm ex_transfer_obj.
Proof.
  split; [intros H; discriminate H|].
  split; [apply ex_transfer_wf|]. split; [apply ex_transfer_obj_wf|].
  split; reflexivity.
Qed.

(* [wf_kind] is needed: with tx.Type = TRX_SETDOC, a TrxPayloadSetDoc{"a","b"} and a
   TrxPayloadVoting{TxHash:"a", Choice:'b'} have the same bytes.  (Reachable only by
   building a Trx in process with a payload object that contradicts Type; both wire
   decoders derive the payload type from Type.) *)
Definition ex_setdoc : trx :=
  MkTrx 1 5%Z 0 addr_a addr_b 0 100000 1 7%Z (PSetDoc (bytesN [97]) (bytesN [98])).
Definition ex_setdoc_as_voting : trx :=
  MkTrx 1 5%Z 0 addr_a addr_b 0 100000 1 7%Z (PVoting (bytesN [97]) 98%Z).

Example payload_kind_needed :
  trx_norm ex_setdoc <> trx_norm ex_setdoc_as_voting /\
  trx_rlp ex_setdoc = trx_rlp ex_setdoc_as_voting /\
  trx_wf ex_setdoc /\
  payload_wf (t_payload ex_setdoc_as_voting) /\
  ~ payload_kind_ok (t_type ex_setdoc_as_voting) (t_payload ex_setdoc_as_voting).
Proof.
  split; [intros H; discriminate H|].
  split; [vm_compute; reflexivity|].
  split; [unfold ex_setdoc; solve_wf|].
  split; [cbn; unfold int32_ok; lia|].
  cbn. discriminate.
Qed.

(* ------------------------------------------------------------------ *)
(** * Ambiguity when the chain id may contain ") Signed Message:\n"

   t_b is an ordinary transfer.  t_a is a contract call whose Data is
     ") Signed Message:\n" ++ decimal(len(rlp t_b)) ++ (rlp t_b without its last byte)
   (the last byte of every trx_rlp is the 0x80 of the empty Sig, which t_a's own
   Sig field supplies).  Signing t_a for chain "x" signs exactly the bytes of t_b
   for the chain id  "x) Signed Message:\n<len(rlp t_a)><first bytes of rlp t_a>".
   Both transactions are well formed, with 20-byte addresses. *)

Definition amb_tb : trx := ex_transfer.
Definition amb_data : list byte :=
  pre_mid ++ dec_of_nat (length (trx_rlp amb_tb)) ++ removelast (trx_rlp amb_tb).
Definition amb_ta : trx :=
  MkTrx 1 1695600000000000000%Z 8 addr_b addr_a 0 1000000 250000000000 6%Z (PContract amb_data).
Definition amb_c1 : list byte := bytesN [120].
Definition amb_x : list byte :=
  firstn (length (trx_rlp amb_ta) - S (length amb_data)) (trx_rlp amb_ta).
Definition amb_c2 : list byte :=
  amb_c1 ++ pre_mid ++ dec_of_nat (length (trx_rlp amb_ta)) ++ amb_x.

Example amb_wf : trx_wf amb_ta /\ trx_wf amb_tb.
Proof. split; [unfold amb_ta; solve_wf | apply ex_transfer_wf]. Qed.

Lemma amb_eq : preimage_N (Nbytes amb_c1) amb_ta = preimage_N (Nbytes amb_c2) amb_tb.
Proof. vm_compute. reflexivity. Qed.

Lemma bytesN_Nbytes (l : list byte) : bytesN (Nbytes l) = l.
Proof.
  unfold bytesN, Nbytes. induction l as [|x l IH]; cbn [map]; [reflexivity|].
  rewrite n2b_b2n, IH. reflexivity.
Qed.

Theorem preimage_ambiguous :
  exists c1 c2 t1 t2,
    (c1 <> c2 \/ t1 <> t2) /\ trx_wf t1 /\ trx_wf t2 /\
    payload_canonical (t_payload t1) /\ payload_canonical (t_payload t2) /\
    preimage c1 t1 = preimage c2 t2.
Proof.
  exists amb_c1, amb_c2, amb_ta, amb_tb.
  split; [right; intros H; discriminate H|].
  split; [apply amb_wf|]. split; [apply amb_wf|].
  split; [exact I|]. split; [exact I|].
  pose proof amb_eq as H. unfold preimage_N in H. rewrite !bytesN_Nbytes in H.
  apply Nbytes_inj, H.
Qed.

(* both the chain ids and the transactions differ *)
Example amb_all_differ : amb_c1 <> amb_c2 /\ trx_norm amb_ta <> trx_norm amb_tb /\ length amb_c2 = 93%nat.
Proof.
  split; [intros H; apply (f_equal (@length byte)) in H; vm_compute in H; discriminate H|].
  split; [intros H; discriminate H|].
  vm_compute. reflexivity.
Qed.

Print Assumptions trx_rlp_inj_fields.
Print Assumptions trx_rlp_inj.
Print Assumptions trx_rlp_inj_canonical.
Print Assumptions preimage_inj.
Print Assumptions preimage_inj_no_rparen.
Print Assumptions preimage_inj_no_newline.
Print Assumptions preimage_inj_canonical.
Print Assumptions preimage_ambiguous.
Print Assumptions payload_quotient_needed.
Print Assumptions payload_kind_needed.
Print Assumptions check_vectors_nil.
