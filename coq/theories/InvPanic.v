(* InvPanic.v — property C09, model part: no input makes the application panic.
   In Spec.v every explicit panic(...), unchecked type assertion, slice expression and division of
   the Go code that is reachable from ABCI input is a [Panic site] result.  This file shows which
   facts about the state the Go code relies on for none of them to fire, and that these facts are
   kept by well-bracketed runs from genesis.
   Main results:
     deliver_never_panics            (N1)  DeliverTx, under [state_ok s]
     begin_block_never_panics        (N2)  BeginBlock, under [state_ok s], [block_ok s]
     end_block_never_panics          (N2)  EndBlock, under [state_ok s], [block_ok s], [keys_ok s]
     run_never_panics                (N3)  well-bracketed runs from [init_chain g]
     *_refuted / deliver_panics_reachable  each hypothesis dropped in turn: concrete witnesses *)
From Rigo Require Import Base.
From stdpp Require Import gmap sorting.
From Rigo Require Import Spec SpecProps.
From Rigo Require Import InvFail.
Local Open Scope Z_scope.

(* ------------------------------------------------------------------ arithmetic *)
Lemma two64_double : two64 = 2 * two63.  Proof. reflexivity. Qed.
Lemma two63_pos : 0 < two63.  Proof. reflexivity. Qed.
Lemma apP_pos : 0 < amountPerPower.  Proof. reflexivity. Qed.
Lemma two63_apP_lt_two255 : two63 * amountPerPower < two255.  Proof. reflexivity. Qed.
Lemma two64_apP_lt_two255 : two64 * amountPerPower < two255.  Proof. reflexivity. Qed.

Local Opaque two256 two255 two64 two63.

(* AmountToPower does not panic below 2^63 RIGO (ctrlers/types/gov_params.go:611) *)
Lemma amount_to_power_small a :
  0 ≤ a < two63 * amountPerPower → amount_to_power a = Some (a / amountPerPower).
Proof.
  intros H. pose proof apP_pos as Hp. pose proof two64_double as H64. pose proof two63_pos as H63.
  assert (Hq : 0 ≤ a / amountPerPower < two63).
  { split; [apply Z.div_pos; lia|]. apply Z.div_lt_upper_bound; [exact Hp|lia]. }
  unfold amount_to_power. rewrite (Z.mod_small (a / amountPerPower) two64) by lia.
  rewrite wrap64_small by (unfold in64; lia).
  destruct (a / amountPerPower <? 0) eqn:E; [apply Z.ltb_lt in E; lia|reflexivity].
Qed.

(* ------------------------------------------------------------------ hypotheses on transactions *)
(* Both wire decoders (ctrlers/types/trx.go:170 and :268) build the payload object from the type
   field, so a TRX_UNSTAKING transaction always carries a TrxPayloadUnstaking.  This is the only
   type for which the code uses an unchecked type assertion before any checked one
   (ctrlers/stake/ctrler.go:510, ValidateTrx).  For TRX_SETDOC the checked assertion of
   AcctCtrler.ValidateTrx precedes the unchecked one in execution, see [acct_execute_no_panic]. *)
Definition payload_kind_ok (t : tx) : Prop :=
  t_type t = TRX_UNSTAKING → ∃ h len_ok, t_payload t = PUnstake h len_ok.

(* ------------------------------------------------------------------ what DeliverTx relies on *)
(* balances and bonded powers stay below 2^63 RIGO.  It follows from
   [supply l < two63 * amountPerPower] (C02), stake bookkeeping (C11) and non-negative powers. *)
Definition supply_small (l : ledgers) : Prop :=
  (∀ a x, accts l !! a = Some x → a_bal x < two63 * amountPerPower) ∧
  (∀ a d b x, dels l !! a = Some d → accts l !! b = Some x →
              d_total d * amountPerPower + a_bal x < two63 * amountPerPower).
Definition totals_nonneg (l : ledgers) : Prop := ∀ a d, dels l !! a = Some d → 0 ≤ d_total d.

(* an active limiter has a positive base and a positive validator count *)
Definition lim_ok (sl : limiter) : Prop :=
  ∀ objs, lim_objs sl = Some objs → 0 < lim_base sl ∧ 0 < lim_maxcnt sl.

(* no reward entry is stamped with a height above the current block *)
Definition reward_heights_ok (s : state) : Prop :=
  ∀ a r, rewards (work s) !! a = Some r → r_height r ≤ b_height (bctx s).

(* Each conjunct, and the Go line that relies on it:
   params_ok          AmountToPower(MinValidatorStake/MinDelegatorStake) ctrlers/stake/ctrler.go:446,460;
                      fee arithmetic of commonValidation (amount ≤ balance is derived from it)
   supply_small       AmountToPower(tx.Amount) ctrler.go:428 and gov_params.go:611;
                      "check overflow" panic ctrler.go:474
   totals_nonneg      SelfStakeRatio divides by TotalPower + added, delegatee.go:234; ctrler.go:474
   lim_ok             limiter.go:155 (powerObjs[maxValidatorCnt-1]) and :163 (/ baseTotalPower)
   reward_heights_ok  Reward.Withdraw panics when rwd.height > h, reward.go:63 *)
Definition state_ok (s : state) : Prop :=
  params_ok (gparams s) ∧ supply_small (work s) ∧ totals_nonneg (work s) ∧ lim_ok (lim s) ∧
  reward_heights_ok s.

(* ------------------------------------------------------------------ StakeLimiter.CheckLimit *)
Lemma check_limit_no_panic sl da dt diff p : lim_ok sl → check_limit sl da dt diff ≠ Panic p.
Proof.
  intros Hl. unfold check_limit.
  destruct (lim_objs sl) as [objs|] eqn:Eo; [|discriminate].
  destruct (Hl objs Eo) as [Hb Hm]. cbv zeta.
  destruct (negb (if diff <=? 0 then true else _)); [discriminate|].
  destruct (negb (_ =? dt)); [discriminate|].
  match goal with |- (if ?c then _ else _) ≠ _ => destruct c eqn:E1 end.
  { exfalso. apply andb_true_iff in E1 as [E1 _]. apply andb_true_iff in E1 as [_ E1].
    apply Z.leb_le in E1. lia. }
  destruct (lim_base sl =? 0) eqn:E2; [apply Z.eqb_eq in E2; lia|].
  match goal with |- (if ?c then _ else _) ≠ _ => destruct c end; [discriminate|].
  match goal with |- (if ?c then _ else _) ≠ _ => destruct c end; discriminate.
Qed.

(* ------------------------------------------------------------------ StakeCtrler.ValidateTrx *)
Lemma params_ok_minval g : params_ok g →
  amount_to_power (g_minValidatorStake g) = Some (g_minValidatorStake g / amountPerPower).
Proof.
  intros (_ & _ & _ & _ & _ & Hv & _). apply amount_to_power_small. pose proof apP_pos. lia.
Qed.
Lemma params_ok_mindel g : params_ok g →
  amount_to_power (g_minDelegatorStake g) = Some (g_minDelegatorStake g / amountPerPower).
Proof. intros (_ & _ & _ & _ & _ & _ & Hd & _). apply amount_to_power_small. exact Hd. Qed.

Lemma stake_validate_no_panic s1 t p :
  params_ok (gparams s1) →
  0 ≤ t_amount t < two63 * amountPerPower →
  (∀ d, dels (work s1) !! t_to t = Some d →
        0 ≤ d_total d ∧ d_total d + t_amount t / amountPerPower < two63) →
  lim_ok (lim s1) → payload_kind_ok t →
  stake_validate s1 t ≠ Panic p.
Proof.
  intros Hg Ha Hd Hl Hk. pose proof two63_pos as H63. unfold stake_validate.
  ty_case t TRX_STAKING E2.
  { rewrite (amount_to_power_small _ Ha), (params_ok_minval _ Hg), (params_ok_mindel _ Hg).
    set (txp := t_amount t / amountPerPower).
    destruct (txp <=? 0) eqn:Eq; [discriminate|]. apply Z.leb_gt in Eq.
    destruct (negb (t_amount t mod amountPerPower =? 0)); [discriminate|].
    destruct (dels (work s1) !! t_to t) as [d|] eqn:Ed.
    - destruct (Hd d eq_refl) as [Hd0 Hd1]. fold txp in Hd1.
      assert (Hw : (wrap64 (d_total d + txp) <=? 0) = false).
      { rewrite wrap64_small by (unfold in64; lia). apply Z.leb_gt. lia. }
      destruct (t_from t =? t_to t)%N.
      + destruct (txp + d_self d <? _); [discriminate|]. rewrite Hw.
        destruct (3 <=? _); [apply check_limit_no_panic; exact Hl|discriminate].
      + destruct ((0 <? _) && (txp <? _)); [discriminate|].
        destruct (d_total d + txp =? 0) eqn:E0; [apply Z.eqb_eq in E0; lia|].
        destruct (_ <? g_minSelfStakeRatio _); [discriminate|]. rewrite Hw.
        destruct (3 <=? _); [apply check_limit_no_panic; exact Hl|discriminate].
    - assert (Ht : txp < two63).
      { apply Z.div_lt_upper_bound; [exact apP_pos|lia]. }
      assert (Hw : (wrap64 (0 + txp) <=? 0) = false).
      { rewrite wrap64_small by (unfold in64; lia). apply Z.leb_gt. lia. }
      destruct (t_from t =? t_to t)%N; [|discriminate].
      destruct (txp + 0 <? _); [discriminate|]. rewrite Hw.
      destruct (3 <=? _); [apply check_limit_no_panic; exact Hl|discriminate]. }
  ty_case t TRX_UNSTAKING E3.
  { destruct (dels (work s1) !! t_to t) as [d|]; [|discriminate].
    destruct (Hk E3) as (h & lo & ->).
    destruct (negb lo); [discriminate|].
    destruct (find_stake h (d_stakes d)) as [s0|]; [|discriminate].
    destruct (negb (s_from s0 =? t_from t)%N); [discriminate|].
    destruct (3 <=? _); [apply check_limit_no_panic; exact Hl|discriminate]. }
  destruct (negb (t_amount t =? 0)); [discriminate|].
  destruct (t_payload t); try discriminate.
  destruct (rewards (work s1) !! t_from t) as [r|]; [|discriminate].
  destruct (r_cumulated r <? req); discriminate.
Qed.

(* validation of the other controllers has no panic site *)
Lemma validated_no_panic s1 recv t p :
  params_ok (gparams s1) →
  0 ≤ t_amount t < two63 * amountPerPower →
  (∀ d, dels (work s1) !! t_to t = Some d →
        0 ≤ d_total d ∧ d_total d + t_amount t / amountPerPower < two63) →
  lim_ok (lim s1) → payload_kind_ok t →
  validated s1 recv t ≠ Panic p.
Proof.
  intros Hg Ha Hd Hl Hk. unfold validated.
  destruct ((t_type t =? TRX_PROPOSAL) || (t_type t =? TRX_VOTING)).
  { destruct (gov_validate s1 t); discriminate. }
  destruct ((t_type t =? TRX_TRANSFER) || (t_type t =? TRX_SETDOC)).
  { destruct (acct_validate t); discriminate. }
  destruct ((t_type t =? TRX_STAKING) || (t_type t =? TRX_UNSTAKING) || (t_type t =? TRX_WITHDRAW)).
  { apply stake_validate_no_panic; assumption. }
  destruct (t_type t =? TRX_CONTRACT); [|discriminate].
  destruct (evm_validate recv t); discriminate.
Qed.

(* ------------------------------------------------------------------ execution *)
Lemma gov_execute_no_panic s l t p : gov_execute s l t ≠ Panic p.
Proof.
  unfold gov_execute. destruct (t_type t =? TRX_PROPOSAL).
  - destruct (t_payload t); discriminate.
  - destruct (t_payload t) as [| | | |ph choice| |]; try discriminate.
    destruct (props l !! ph) as [q|]; [|discriminate].
    destruct (prop_vote q (t_from t) choice); discriminate.
Qed.

(* the unchecked assertion in exeSetDoc is preceded by the checked one of ValidateTrx *)
Lemma acct_execute_no_panic l t p :
  (t_type t = TRX_SETDOC → acct_validate t = None) →
  t_type t = TRX_TRANSFER ∨ t_type t = TRX_SETDOC →
  acct_execute l t ≠ Panic p.
Proof.
  intros Hv Hty. unfold acct_execute.
  destruct (accts l !! t_from t) as [sender|]; [|discriminate].
  destruct (accts l !! t_to t) as [receiver|]; [|discriminate].
  ty_case t TRX_TRANSFER E1.
  - destruct (sub_balance sender (t_amount t)); [|discriminate].
    destruct (add_balance _ (t_amount t)); discriminate.
  - assert (E7 : t_type t = TRX_SETDOC) by tauto. specialize (Hv E7).
    unfold acct_validate in Hv. rewrite E7 in Hv. cbn [Z.eqb TRX_SETDOC Pos.eqb] in Hv.
    destruct (t_payload t); try discriminate.
Qed.

Lemma stake_execute_no_panic s l t p :
  (∀ r, rewards l !! t_from t = Some r → r_height r ≤ b_height (bctx s)) →
  stake_execute s l t ≠ Panic p.
Proof.
  intros Hr. unfold stake_execute.
  destruct (t_type t =? TRX_STAKING).
  { destruct (match dels l !! t_to t with Some d => Some d | None => _ end); [|discriminate].
    destruct (accts l !! t_from t) as [x|]; [|discriminate].
    destruct (sub_balance x (t_amount t)); discriminate. }
  destruct (t_type t =? TRX_UNSTAKING).
  { destruct (dels l !! t_to t) as [d|]; [|discriminate].
    destruct (t_payload t) as [|hs lo| | | | |]; try discriminate.
    destruct (find_stake hs (d_stakes d)) as [s0|]; [|discriminate].
    destruct (negb (s_from s0 =? t_from t)%N); [discriminate|].
    destruct (if d_self (del_stake d hs) =? 0 then _ else _) as [d2 fr2].
    destruct (d_total d2 =? 0); discriminate. }
  destruct (t_payload t) as [| |req| | | |]; try discriminate.
  destruct (rewards l !! t_from t) as [r|] eqn:Er; [|discriminate].
  destruct (r_height r >? b_height (bctx s)) eqn:Eh.
  { exfalso. apply Z.gtb_lt in Eh. specialize (Hr r eq_refl). lia. }
  destruct (acct_reward _ (t_from t) req); discriminate.
Qed.

Lemma validated_acct_validate s1 recv t lim' :
  validated s1 recv t = Ok lim' → t_type t = TRX_SETDOC → acct_validate t = None.
Proof.
  unfold validated. intros H E7. rewrite E7 in H.
  cbn [Z.eqb orb TRX_SETDOC TRX_PROPOSAL TRX_VOTING TRX_TRANSFER Pos.eqb] in H.
  destruct (acct_validate t); [discriminate|reflexivity].
Qed.

Lemma exec_native_no_panic s2 recv s1 t lim' p :
  validated s1 recv t = Ok lim' →
  (∀ r, rewards (work s2) !! t_from t = Some r → r_height r ≤ b_height (bctx s2)) →
  exec_native s2 t ≠ Panic p.
Proof.
  intros Hv Hr. unfold exec_native.
  destruct ((t_type t =? TRX_PROPOSAL) || (t_type t =? TRX_VOTING)); [apply gov_execute_no_panic|].
  destruct ((t_type t =? TRX_TRANSFER) || (t_type t =? TRX_SETDOC)) eqn:Ea.
  - apply acct_execute_no_panic.
    + eapply validated_acct_validate; eassumption.
    + apply orb_true_iff in Ea as [Ea|Ea]; apply Z.eqb_eq in Ea; tauto.
  - apply stake_execute_no_panic. exact Hr.
Qed.

Lemma post_native_no_panic price s2 t l' s' p : post_native price s2 t l' ≠ (s', Panic p).
Proof.
  unfold post_native. destruct (accts l' !! t_from t) as [x|]; [|discriminate].
  destruct (sub_balance x (fee_of t)); discriminate.
Qed.

(* ------------------------------------------------------------------ N1 *)
Theorem deliver_never_panics s t :
  state_ok s → tx_wf t → payload_kind_ok t → ∀ s' p, deliver s t ≠ (s', Panic p).
Proof.
  intros (Hg & [Hbal Htot] & Hnn & Hl & Hrh) Hwf Hk s' p H. rewrite deliver_eq in H.
  destruct (accts (work s) !! t_from t) as [sender|] eqn:Hs; [|discriminate].
  cbv zeta in H.
  destruct (common_validation0 (gparams s) t) as [e0|] eqn:Hv0; [discriminate|].
  destruct (common_validation1 sender t) as [e1|] eqn:Hv1; [discriminate|].
  (* amount ≤ balance of the sender *)
  assert (Hamt : 0 ≤ t_amount t < two63 * amountPerPower ∧ t_amount t ≤ a_bal sender).
  { destruct Hwf as (Ha & _ & Hgas & _). destruct Hg as (Hp & _).
    assert (Hsb : sender_bal_ok s t).
    { intros x Hx. specialize (Hbal _ _ Hx). pose proof two63_apP_lt_two255. pose proof two256_double. lia. }
    pose proof (vf_fee s t (proj1 Hgas) Hp Hv0) as Hf.
    pose proof (vf_bal s t sender (proj1 Ha) (proj1 Hgas) Hp Hsb Hs Hv0 Hv1) as Hb.
    specialize (Hbal _ _ Hs). lia. }
  destruct Hamt as [Hamt Hle].
  destruct (validated (pre s t) (receiver_of s t) t) as [lim'|ev|pv] eqn:Hv.
  2:{ discriminate. }
  2:{ eapply validated_no_panic; [| | | | |exact Hv]; try assumption.
      intros d Hd. unfold pre in Hd. cbn [work with_work] in Hd. rewrite find_or_new_dels in Hd.
      split; [eapply Hnn; exact Hd|].
      specialize (Htot _ _ _ _ Hd Hs). pose proof apP_pos as Hp.
      assert (Hq : t_amount t / amountPerPower * amountPerPower ≤ t_amount t).
      { rewrite Z.mul_comm. apply Z.mul_div_le. exact Hp. }
      nia. }
  destruct (evm_path s t).
  - unfold finish in H. destruct (evm_execute _ t) as [[l' gas]|e'|p'] eqn:Ex; try discriminate.
    eapply evm_execute_no_panic. exact Ex.
  - unfold finish in H.
    destruct (exec_native (with_lim (pre s t) lim') t) as [l'|e'|p'] eqn:Ex; [|discriminate|].
    + eapply post_native_no_panic. exact H.
    + eapply exec_native_no_panic; [exact Hv| |exact Ex].
      intros r Hr. unfold pre in Hr. cbn [work with_work with_lim] in Hr.
      rewrite find_or_new_rewards in Hr. apply Hrh in Hr. exact Hr.
Qed.
Print Assumptions deliver_never_panics.

(* ------------------------------------------------------------------ N1: a concrete state *)
Lemma map_forall_by_list {A} (m : gmap N A) (P : A → Prop) :
  Forall (λ kv : N * A, P kv.2) (map_to_list m) → ∀ k x, m !! k = Some x → P x.
Proof.
  intros H k x Hx. rewrite Forall_forall in H. apply (H (k, x)). apply elem_of_map_to_list. exact Hx.
Qed.

Lemma supply_small_by_bounds l B T :
  (∀ a x, accts l !! a = Some x → a_bal x ≤ B) → (∀ a d, dels l !! a = Some d → d_total d ≤ T) →
  0 ≤ T → T * amountPerPower + B < two63 * amountPerPower → supply_small l.
Proof.
  intros Hb Ht HT Hs. pose proof apP_pos. split.
  - intros a x Hx. specialize (Hb _ _ Hx). nia.
  - intros a d b x Hd Hx. specialize (Hb _ _ Hx). specialize (Ht _ _ Hd). nia.
Qed.


Ltac eval_list :=
  match goal with |- Forall _ ?l => let v := eval vm_compute in l in replace l with v by (vm_compute; reflexivity) end.
Ltac map_all := apply map_forall_by_list; eval_list; repeat constructor; vm_compute; discriminate.

Definition hdr (h : Z) : header := {| h_height := h; h_proposer := Some 1%N; h_votes := []; h_evidence := [] |}.
Definition gen3 : genesis := {|
  gen_params := pr0 10;
  gen_holders := [(1%N, 1000 * amountPerPower); (2%N, 500 * amountPerPower); (3%N, 500 * amountPerPower)];
  gen_validators := [(1%N, 100); (2%N, 100); (3%N, 100)] |}.
Definition hdr3 : header :=
  {| h_height := 3; h_proposer := Some 1%N; h_votes := [(1%N, 100, true); (2%N, 100, true); (3%N, 100, false)];
     h_evidence := [] |}.
Definition st3 : state :=
  srun (init_chain gen3) [SBegin (hdr 1); SEnd; SCommit; SBegin (hdr 2); SEnd; SCommit; SBegin hdr3].

(* the hypotheses of N1 hold in the third block of a three-validator chain: the limiter is active
   and rewards have been issued *)
Example state_ok_ex :
  state_ok st3 ∧ (∃ objs, lim_objs (lim st3) = Some objs) ∧ length (lastvals st3) = 3%nat ∧
  size (rewards (work st3)) = 2%nat.
Proof.
  split; [|split; [eexists; vm_compute; reflexivity|split; vm_compute; reflexivity]].
  split; [exact pr0_ok|]. split.
  { apply (supply_small_by_bounds _ (1000 * amountPerPower) 100).
    - map_all.
    - map_all.
    - lia.
    - vm_compute. reflexivity. }
  split; [unfold totals_nonneg; map_all|].
  split; [intros objs _; vm_compute; split; reflexivity|].
  unfold reward_heights_ok. map_all.
Qed.

(* ------------------------------------------------------------------ each hypothesis is needed *)
Definition stake_tx (from to : addr) (amount nonce : Z) (h : hash) : tx := {|
  t_type := TRX_STAKING; t_from := from; t_to := to; t_from_ok := true; t_to_ok := true; t_amount := amount;
  t_price := 10; t_gas := 100; t_nonce := nonce; t_payload := PNone; t_hash := h; t_sigok := true; t_evm := None |}.

(* (a) A REACHABLE panic when the supply is not below 2^63 RIGO: a genesis holder owning 2^63 RIGO
   stakes them; AmountToPower (gov_params.go:611) panics inside DeliverTx.  Parameters, the
   transaction and its payload are all well-formed; only [supply_small] fails. *)
Definition gen_big : genesis := {|
  gen_params := pr0 10;
  gen_holders := [(1%N, two63 * amountPerPower + 1000000)];
  gen_validators := [(1%N, 100)] |}.

Theorem deliver_panics_reachable : ∃ g ops t,
  params_ok (gen_params g) ∧ tx_wf t ∧ payload_kind_ok t ∧
  (deliver (srun (init_chain g) ops) t).2 = Panic P_AMOUNT_TO_POWER.
Proof.
  exists gen_big, [SBegin (hdr 1)], (stake_tx 1%N 1%N (two63 * amountPerPower) 0 50%N).
  split; [exact pr0_ok|]. split; [zc|]. split; [intros E; vm_compute in E; discriminate|].
  vm_compute. reflexivity.
Qed.
Print Assumptions deliver_panics_reachable.

(* (b) every balance below 2^63 RIGO but bonded power + balance not: the "delegatee power
   overflow" panic of ValidateTrx (ctrler.go:474) *)
Definition gen_big2 : genesis := {|
  gen_params := pr0 10;
  gen_holders := [(1%N, 2 ^ 62 * amountPerPower + 1000000); (2%N, 2 ^ 62 * amountPerPower + 1000000)];
  gen_validators := [(1%N, 100)] |}.

Theorem deliver_never_panics_refuted_total : ∃ g ops t,
  params_ok (gen_params g) ∧ tx_wf t ∧ payload_kind_ok t ∧
  (∀ a x, accts (work (srun (init_chain g) ops)) !! a = Some x → a_bal x < two63 * amountPerPower) ∧
  (deliver (srun (init_chain g) ops) t).2 = Panic P_POWER_OVERFLOW.
Proof.
  exists gen_big2, [SBegin (hdr 1); SDeliver (stake_tx 1%N 1%N (2 ^ 62 * amountPerPower) 0 50%N)],
         (stake_tx 2%N 1%N (2 ^ 62 * amountPerPower) 0 51%N).
  split; [exact pr0_ok|]. split; [zc|]. split; [intros E; vm_compute in E; discriminate|].
  split; [map_all|]. vm_compute. reflexivity.
Qed.

(* (c) a TRX_UNSTAKING transaction without an unstaking payload (excluded by both decoders) *)
Theorem deliver_never_panics_refuted_kind : ∃ s t,
  state_ok s ∧ tx_wf t ∧ (deliver s t).2 = Panic P_ENDBLOCK.
Proof.
  exists st3, (mk_tx TRX_UNSTAKING 1%N 1%N 0 10 100 0 PNone).
  split; [apply state_ok_ex|]. split; [zc|]. vm_compute. reflexivity.
Qed.

(* (d) minValidatorStake below one RIGO (the only conjunct of params_ok that fails; proposals are
   checked for an upper bound of this parameter only, gov/ctrler.go:212): delegatees without any
   power stay eligible, and once every validator has been slashed to nothing the limiter's base
   is 0 and checkUpdatablePowerLimit (limiter.go:163) divides by zero *)
Definition pr_low : params := {|
  g_version := 1; g_maxValidatorCnt := 21; g_minValidatorStake := 1;
  g_minDelegatorStake := 0; g_rewardPerPower := 1000; g_lazyRewardBlocks := 10; g_lazyApplyingBlocks := 10;
  g_gasPrice := 10; g_minTrxGas := 10; g_maxTrxGas := 1000000; g_maxBlockGas := 10000000;
  g_minVotingPeriodBlocks := 1; g_maxVotingPeriodBlocks := 100; g_minSelfStakeRatio := 50;
  g_maxUpdatableStakeRatio := 30; g_maxIndividualStakeRatio := 100; g_slashRatio := 50;
  g_signedBlocksWindow := 100; g_minSignedBlocks := 10 |}.
Definition gen_low : genesis := {|
  gen_params := pr_low;
  gen_holders := [(1%N, 1000 * amountPerPower); (2%N, 500 * amountPerPower); (3%N, 500 * amountPerPower)];
  gen_validators := [(1%N, 1); (2%N, 1); (3%N, 1)] |}.
Definition hdr_evi (h : Z) : header :=
  {| h_height := h; h_proposer := Some 1%N; h_votes := []; h_evidence := [1%N; 2%N; 3%N] |}.

Theorem deliver_never_panics_refuted_minstake : ∃ g ops t,
  params_ok (merge_params (gen_params g) (pr0 10)) ∧ 0 < g_minValidatorStake (gen_params g) ∧
  g_minValidatorStake (pr0 10) ≠ g_minValidatorStake (gen_params g) ∧
  tx_wf t ∧ payload_kind_ok t ∧
  supply_small (work (srun (init_chain g) ops)) ∧ totals_nonneg (work (srun (init_chain g) ops)) ∧
  (deliver (srun (init_chain g) ops) t).2 = Panic P_LIMITER_DIV.
Proof.
  exists gen_low, [SBegin (hdr 1); SEnd; SCommit; SBegin (hdr 2); SEnd; SCommit; SBegin (hdr_evi 3); SEnd; SCommit;
                   SBegin (hdr 4)],
         (stake_tx 1%N 1%N amountPerPower 0 50%N).
  split; [zc|]. split; [reflexivity|]. split; [discriminate|]. split; [zc|].
  split; [intros E; vm_compute in E; discriminate|].
  split.
  { apply (supply_small_by_bounds _ (1000 * amountPerPower) 100); [map_all|map_all|lia|vm_compute; reflexivity]. }
  split; [unfold totals_nonneg; map_all|].
  vm_compute. reflexivity.
Qed.

(* ================================================================== N2: block processing *)
(* ------------------------------------------------------------------ folds and sorted items *)
Lemma foldl_res_ok {A B} (f : res A → B → res A) (P : A → Prop) (l : list B) :
  (∀ a b, b ∈ l → P a → ∃ a', f (Ok a) b = Ok a' ∧ P a') →
  ∀ a, P a → ∃ a', foldl f (Ok a) l = Ok a' ∧ P a'.
Proof.
  induction l as [|b l IH]; intros Hf a Ha; simpl.
  - exists a. split; [reflexivity|exact Ha].
  - destruct (Hf a b (elem_of_list_here _ _) Ha) as (a1 & -> & Ha1).
    apply IH; [|exact Ha1]. intros a2 b2 Hin. apply Hf. apply elem_of_list_further. exact Hin.
Qed.

Lemma foldl_inv {A B} (f : A → B → A) (P : A → Prop) (l : list B) :
  (∀ a b, b ∈ l → P a → P (f a b)) → ∀ a, P a → P (foldl f a l).
Proof.
  induction l as [|b l IH]; intros Hf a Ha; simpl; [exact Ha|].
  apply IH; [|apply Hf; [left|exact Ha]]. intros a2 b2 Hin. apply Hf. right. exact Hin.
Qed.

Lemma sorted_items_elem {A} (m : gmap N A) k x : (k, x) ∈ sorted_items m ↔ m !! k = Some x.
Proof. unfold sorted_items. rewrite merge_sort_Permutation. apply elem_of_map_to_list. Qed.
Lemma sorted_items_nodup {A} (m : gmap N A) : NoDup (sorted_items m).*1.
Proof. unfold sorted_items. rewrite merge_sort_Permutation. apply NoDup_fst_map_to_list. Qed.

(* ------------------------------------------------------------------ heights *)
(* what BeginBlock relies on besides the reward heights: block heights are consecutive and
   every committed block left one version of the ledgers *)
Definition heights_ok (s : state) : Prop :=
  0 ≤ last_height s ∧ b_height (bctx s) ≤ last_height s + 1 ∧
  last_height s ≤ Z.of_nat (length (committed s)).

Definition RH (h : Z) (l : ledgers) : Prop := ∀ a r, rewards l !! a = Some r → r_height r ≤ h.

(* ------------------------------------------------------------------ BeginBlock: rewards *)
Definition reward_step (g : params) (h : Z) (acc : res (gmap addr reward * Z)) (s0 : stake) : res (gmap addr reward * Z) :=
  match acc with
  | Ok (m, issued) =>
      let amt := mul256 (s_power s0 mod two64) (g_rewardPerPower g) in
      match reward_issue (default reward0 (m !! s_from s0)) amt h with
      | None => Panic P_REWARD_HEIGHT
      | Some r' => Ok (<[s_from s0 := r']> m, add256 issued amt)
      end
  | x => x end.
Lemma reward_to_eq g h rw d : reward_to g h rw d = foldl (reward_step g h) (Ok (rw, 0)) (d_stakes d).
Proof. reflexivity. Qed.

Definition RHm (h : Z) (m : gmap addr reward) : Prop := ∀ a r, m !! a = Some r → r_height r ≤ h.

Lemma reward_to_ok g h rw d : 0 ≤ h → RHm h rw →
  ∃ rw' iss, reward_to g h rw d = Ok (rw', iss) ∧ RHm h rw'.
Proof.
  intros Hh Hrw. rewrite reward_to_eq.
  destruct (foldl_res_ok (reward_step g h) (λ x, RHm h x.1) (d_stakes d)) with (a := (rw, 0))
    as ([rw' iss] & E & H); [|exact Hrw|exists rw', iss; split; assumption].
  intros [m issued] s0 _ Hm. cbn [fst] in Hm. unfold reward_step.
  set (amt := mul256 _ _). unfold reward_issue.
  assert (Hle : r_height (default reward0 (m !! s_from s0)) ≤ h).
  { destruct (m !! s_from s0) as [r|] eqn:Er; cbn; [eapply Hm; exact Er|exact Hh]. }
  destruct (h <? _) eqn:E; [apply Z.ltb_lt in E; lia|].
  eexists. split; [reflexivity|]. cbn [fst]. intros a r Hr.
  destruct (decide (a = s_from s0)) as [->|Hne].
  - rewrite lookup_insert in Hr. injection Hr as <-. cbn. lia.
  - rewrite lookup_insert_ne in Hr by congruence. eapply Hm. exact Hr.
Qed.

(* ------------------------------------------------------------------ BeginBlock: votes *)
Definition vote_step (g : params) (old : ledgers) (h : Z) (acc : res (ledgers * Z)) (v : addr * Z * bool) : res (ledgers * Z) :=
  match acc with
  | Ok (l, issued) =>
    let '(a, pw, signed) := v in
    if signed : bool then
      match dels old !! a with
      | None => Ok (l, issued)
      | Some d => if negb (d_total d =? pw) then Ok (l, issued)
                  else match reward_to g h (rewards l) d with
                       | Ok (rw, iss) => Ok (set_rewards l rw, add256 issued iss)
                       | Err e => Err e | Panic p => Panic p end
      end
    else
      match dels l !! a with
      | None => Ok (l, issued)
      | Some d =>
          let sh := h - 1 in
          let m1 := mark (d_marks d) sh in
          let s0 := if sh - g_signedBlocksWindow g <? 0 then 0 else sh - g_signedBlocksWindow g in
          let '(cnt, m2) := count_in_window m1 s0 sh in
          let d1 := {| d_addr := d_addr d; d_self := d_self d; d_total := d_total d; d_stakes := d_stakes d; d_marks := m2 |} in
          let l1 := set_dels l (<[a := d1]> (dels l)) in
          if g_signedBlocksWindow g - cnt <? g_minSignedBlocks g then
            let '(_, ss) := del_all_stakes d1 in
            let l2 := set_frozen l1 (freeze_all (frozen l1) (h + g_lazyRewardBlocks g) ss) in
            Ok (set_dels l2 (delete a (dels l2)), issued)
          else Ok (l1, issued)
      end
  | x => x end.

Lemma process_votes_eq s l h votes :
  process_votes s l h votes =
  match ledgers_at s (hgt_of_power h) with
  | None => Panic P_BEGINBLOCK
  | Some old => foldl (vote_step (gparams s) old h) (Ok (l, 0)) votes
  end.
Proof. reflexivity. Qed.

(* one vote: no panic; only rewards, delegatees and frozen stakes change *)
Lemma vote_step_ok g old h l issued v : 0 ≤ h → RH h l →
  ∃ l' issued', vote_step g old h (Ok (l, issued)) v = Ok (l', issued') ∧ RH h l' ∧
    accts l' = accts l ∧ props l' = props l ∧ fprops l' = fprops l ∧ lparams l' = lparams l ∧
    ((dels l' = dels l ∧ frozen l' = frozen l) ∨
     (rewards l' = rewards l ∧ ∃ a d m2, v = (a, v.1.2, false) ∧ dels l !! a = Some d ∧
        let d1 := {| d_addr := d_addr d; d_self := d_self d; d_total := d_total d; d_stakes := d_stakes d; d_marks := m2 |} in
        (dels l' = <[a := d1]> (dels l) ∧ frozen l' = frozen l ∨
         dels l' = delete a (dels l) ∧
         frozen l' = freeze_all (frozen l) (h + g_lazyRewardBlocks g) (d_stakes d)))).
Proof.
  intros Hh Hl. destruct v as [[a pw] signed]. unfold vote_step. destruct signed.
  - destruct (dels old !! a) as [d|].
    2:{ exists l, issued. repeat split; try assumption. left. split; reflexivity. }
    destruct (negb (d_total d =? pw)).
    { exists l, issued. repeat split; try assumption. left. split; reflexivity. }
    destruct (reward_to_ok g h (rewards l) d Hh Hl) as (rw' & iss & -> & Hrw').
    eexists _, _. split; [reflexivity|]. split; [exact Hrw'|]. repeat split. left. split; reflexivity.
  - destruct (dels l !! a) as [d|] eqn:Ed.
    2:{ exists l, issued. repeat split; try assumption. left. split; reflexivity. }
    cbv zeta. destruct (count_in_window _ _ _) as [cnt m2].
    destruct (_ <? g_minSignedBlocks g).
    + cbn [del_all_stakes d_stakes]. eexists _, _. split; [reflexivity|]. split; [exact Hl|].
      repeat split. right. split; [reflexivity|]. exists a, d, m2. split; [reflexivity|]. split; [exact Ed|].
      right. cbn. rewrite delete_insert_delete. split; reflexivity.
    + eexists _, _. split; [reflexivity|]. split; [exact Hl|].
      repeat split. right. split; [reflexivity|]. exists a, d, m2. split; [reflexivity|]. split; [exact Ed|].
      left. split; reflexivity.
Qed.

Lemma ledgers_at_some s n :
  n ≤ Z.of_nat (length (committed s)) → is_Some (ledgers_at s n).
Proof.
  intros Hn. unfold ledgers_at.
  destruct (Z.of_nat (length (committed s)) <? n) eqn:E1; [apply Z.ltb_lt in E1; lia|].
  destruct (n <=? 0) eqn:E2; [eexists; reflexivity|]. apply Z.leb_gt in E2.
  apply lookup_lt_is_Some. lia.
Qed.

Lemma hgt_of_power_le h n : 1 ≤ n → h ≤ n + 1 → hgt_of_power h ≤ n.
Proof. intros H1 Hh. unfold hgt_of_power. destruct (h - 4 <=? 0) eqn:E; [lia|]. lia. Qed.

(* N2, BeginBlock.  Intended statement: under [state_ok s] ...; only the reward heights are
   used, so the theorem is stated with that conjunct alone ([state_ok s] implies it).
   The two hypotheses on the header are Tendermint's discipline: heights are consecutive
   (node/app.go:296 panics otherwise) and the first block carries no LastCommitInfo votes
   (with votes, block 1 asks for ImmutableLedgerAt(1) before any version exists and
   StakeCtrler.BeginBlock returns an error, on which node/app.go:316 panics). *)
Theorem begin_block_never_panics s hd :
  reward_heights_ok s → heights_ok s →
  h_height hd = last_height s + 1 →
  (h_votes hd ≠ [] → committed s ≠ []) →
  ∀ s' p, begin_block s hd ≠ (s', Panic p).
Proof.
  intros Hrh (H0 & Hb & Hc) Hh Hvotes s' p H. unfold begin_block in H.
  rewrite Hh, Z.eqb_refl in H. cbn [negb] in H.
  destruct (h_votes hd) as [|v vs] eqn:Ev; [discriminate|].
  rewrite process_votes_eq in H.
  assert (Hlen : 1 ≤ Z.of_nat (length (committed s))).
  { destruct (committed s); [exfalso; apply Hvotes; [discriminate|reflexivity]|cbn; lia]. }
  match type of H with context [ledgers_at ?s1 ?n] =>
    destruct (ledgers_at_some s1 n) as [old Eo] end.
  { cbn [committed]. apply hgt_of_power_le; lia. }
  rewrite Eo in H.
  match type of H with context [foldl ?f (Ok (?l, 0)) ?vs] =>
    destruct (foldl_res_ok f (λ x, RH (last_height s + 1) x.1) vs) with (a := (l, 0))
      as ([l3 iss] & E & _) end.
  - intros [l issued] v0 _ Hl. cbn [gparams].
    destruct (vote_step_ok (gparams s) old (last_height s + 1) l issued v0) as (l' & i' & E & Hl' & _);
      [lia|exact Hl|]. exists (l', i'). split; [exact E|exact Hl'].
  - cbn [fst]. intros a r Hr. unfold stake_punish in Hr.
    assert (Hrw : ∀ l evi, rewards (stake_punish l (g_slashRatio (gparams s)) evi) = rewards l).
    { intros l evi. unfold stake_punish. apply (foldl_inv _ (λ x, rewards x = rewards l)); [|reflexivity].
      intros x a0 _ Hx. destruct (dels x !! a0); [exact Hx|exact Hx]. }
    fold (stake_punish (gov_punish (work s) (g_slashRatio (gparams s)) (h_evidence hd)) (g_slashRatio (gparams s)) (h_evidence hd)) in Hr.
    rewrite Hrw in Hr.
    assert (Hgp : ∀ l evi, rewards (gov_punish l (g_slashRatio (gparams s)) evi) = rewards l).
    { intros l evi. unfold gov_punish. apply (foldl_inv _ (λ x, rewards x = rewards l)); [|reflexivity].
      intros x a0 _ Hx. apply (foldl_inv _ (λ y, rewards y = rewards l)); [|exact Hx].
      intros y kp _ Hy. destruct (props y !! kp.1); [exact Hy|exact Hy]. }
    rewrite Hgp in Hr. apply Hrh in Hr. lia.
  - rewrite E in H. discriminate.
Qed.
Print Assumptions begin_block_never_panics.

(* ------------------------------------------------------------------ proposals *)
(* [Q] is what is known about the parameter documents of the options; N2 needs only that they
   parse ([Q := λ _, True]), N3 also that applying them keeps the parameters well-formed *)
Definition option_ok (Q : params → Prop) (o : voption) : Prop := ∃ np, o_params o = Some np ∧ Q np.
Definition prop_ok (Q : params → Prop) (p : proposal) : Prop :=
  p_options p ≠ [] ∧
  (p_opttype p = PROPOSAL_GOVPARAMS → Forall (option_ok Q) (p_options p)) ∧
  (p_opttype p = PROPOSAL_GOVPARAMS → ∀ o, p_major p = Some o → option_ok Q o).
Definition gov_ok (Q : params → Prop) (l : ledgers) : Prop :=
  (∀ k p, props l !! k = Some p → prop_ok Q p) ∧ (∀ k p, fprops l !! k = Some p → prop_ok Q p).

Lemma insert_opt_Forall (P : voption → Prop) x l : P x → Forall P l → Forall P (insert_opt x l).
Proof.
  intros Hx. induction 1 as [|y l Hy Hl IH]; simpl; [repeat constructor; exact Hx|].
  destruct (o_votes y <? o_votes x); repeat constructor; assumption.
Qed.
Lemma insert_opt_nonempty x l : insert_opt x l ≠ [].
Proof. destruct l as [|y l]; simpl; [discriminate|]. destruct (o_votes y <? o_votes x); discriminate. Qed.

Lemma sort_opts_Forall (P : voption → Prop) l : Forall P l → Forall P (sort_opts l).
Proof.
  unfold sort_opts. intros H.
  assert (G : ∀ acc, Forall P acc → Forall P (foldl (λ acc x, insert_opt x acc) acc l)).
  { induction H as [|x l Hx Hl IH]; intros acc Ha; simpl; [exact Ha|].
    apply IH. apply insert_opt_Forall; assumption. }
  apply G. constructor.
Qed.
Lemma sort_opts_nonempty l : l ≠ [] → sort_opts l ≠ [].
Proof.
  unfold sort_opts. intros H.
  assert (G : ∀ l acc, acc ≠ [] → foldl (λ acc x, insert_opt x acc) acc l ≠ []).
  { clear. induction l as [|x l IH]; intros acc Ha; simpl; [exact Ha|]. apply IH. apply insert_opt_nonempty. }
  destruct l as [|x l]; [contradiction|]. simpl. apply G. discriminate.
Qed.

(* updateMajorOption: options[0] exists (ctrlers/gov/proposal: the slice index panics otherwise) *)
Lemma update_major_ok Q p : prop_ok Q p → ∃ p', update_major p = Ok p' ∧ prop_ok Q p'.
Proof.
  intros (Hne & Hopts & Hmaj). unfold update_major.
  pose proof (sort_opts_nonempty _ Hne) as Hs.
  destruct (sort_opts (p_options p)) as [|o os] eqn:Eo; [contradiction|].
  eexists. split; [reflexivity|]. split; [cbn; discriminate|]. split; cbn.
  - intros Ht. rewrite <- Eo. apply sort_opts_Forall. apply Hopts. exact Ht.
  - intros Ht o' Ho'. destruct (p_majority p <=? o_votes o).
    + injection Ho' as <-. specialize (Hopts Ht). apply (sort_opts_Forall _ _) in Hopts.
      rewrite Eo in Hopts. inversion Hopts; assumption.
    + apply Hmaj; assumption.
Qed.

(* ------------------------------------------------------------------ EndBlock: freezeProposals *)
Definition freeze_step (h : Z) (acc : res ledgers) (kp : hash * proposal) : res ledgers :=
  match acc with
  | Ok l =>
      let p := kp.2 in
      if p_end p <? h then
        match props l !! kp.1 with
        | None => Panic P_ENDBLOCK
        | Some _ =>
            let l1 := set_props l (delete kp.1 (props l)) in
            match update_major p with
            | Ok p' => match p_major p' with
                       | Some _ => Ok (set_fprops l1 (<[kp.1 := p']> (fprops l1)))
                       | None => Ok l1 end
            | Err e => Err e | Panic x => Panic x
            end
        end
      else Ok l
  | x => x end.
Lemma freeze_proposals_eq base l h :
  freeze_proposals base l h = foldl (freeze_step h) (Ok l) (sorted_items (props base)).
Proof. reflexivity. Qed.

Definition freeze_post (Q : params → Prop) (l l' : ledgers) : Prop :=
  accts l' = accts l ∧ dels l' = dels l ∧ frozen l' = frozen l ∧ rewards l' = rewards l ∧
  (∀ k p, props l' !! k = Some p → props l !! k = Some p) ∧
  (∀ k, is_Some (fprops l !! k) → is_Some (fprops l' !! k)) ∧
  (∀ k p, fprops l' !! k = Some p → fprops l !! k = Some p ∨ prop_ok Q p).

Lemma freeze_post_refl Q l : freeze_post Q l l.
Proof. repeat split; auto. Qed.
Lemma freeze_post_trans Q l1 l2 l3 : freeze_post Q l1 l2 → freeze_post Q l2 l3 → freeze_post Q l1 l3.
Proof.
  intros (A1 & B1 & C1 & D1 & E1 & F1 & G1) (A2 & B2 & C2 & D2 & E2 & F2 & G2).
  repeat split; try congruence; auto.
  intros k p H. destruct (G2 k p H) as [H'|H']; [auto|right; exact H'].
Qed.

Lemma freeze_fold Q h items : NoDup items.*1 → ∀ l,
  (∀ kp, kp ∈ items → is_Some (props l !! kp.1) ∧ prop_ok Q kp.2) →
  ∃ l', foldl (freeze_step h) (Ok l) items = Ok l' ∧ freeze_post Q l l'.
Proof.
  induction items as [|kp items IH]; intros Hnd l Hin; cbn [foldl].
  { exists l. split; [reflexivity|apply freeze_post_refl]. }
  apply NoDup_cons in Hnd as [Hnk Hnd]. cbn [fmap list_fmap] in Hnk.
  destruct (Hin kp (elem_of_list_here _ _)) as [[q Hq] Hok].
  assert (Hstep : ∃ l1, freeze_step h (Ok l) kp = Ok l1 ∧ freeze_post Q l l1 ∧
                        ∀ k, k ≠ kp.1 → props l1 !! k = props l !! k).
  { unfold freeze_step. destruct (p_end kp.2 <? h).
    2:{ exists l. split; [reflexivity|]. split; [apply freeze_post_refl|reflexivity]. }
    rewrite Hq. cbv zeta. destruct (update_major_ok Q kp.2 Hok) as (p' & -> & Hp').
    destruct (p_major p').
    - eexists. split; [reflexivity|]. split.
      + repeat split; cbn.
        * intros k p Hk. apply lookup_delete_Some in Hk. tauto.
        * intros k Hk. apply lookup_insert_is_Some'. right. exact Hk.
        * intros k p Hk. destruct (decide (k = kp.1)) as [->|Hne].
          -- rewrite lookup_insert in Hk. injection Hk as <-. right. exact Hp'.
          -- rewrite lookup_insert_ne in Hk by congruence. left. exact Hk.
      + intros k Hne. cbn. apply lookup_delete_ne. congruence.
    - eexists. split; [reflexivity|]. split.
      + repeat split; cbn; auto. intros k p Hk. apply lookup_delete_Some in Hk. tauto.
      + intros k Hne. cbn. apply lookup_delete_ne. congruence. }
  destruct Hstep as (l1 & -> & Hpost1 & Hother).
  destruct (IH Hnd l1) as (l' & E & Hpost').
  { intros kp' Hkp'. destruct (Hin kp' (elem_of_list_further _ _ _ Hkp')) as [Hs Hp]. split; [|exact Hp].
    rewrite Hother; [exact Hs|]. intros Heq. apply Hnk. rewrite <- Heq.
    apply elem_of_list_fmap. exists kp'. split; [reflexivity|exact Hkp']. }
  exists l'. split; [exact E|]. eapply freeze_post_trans; eassumption.
Qed.

(* ------------------------------------------------------------------ EndBlock: applyProposals *)
Definition apply_step (g : params) (h : Z) (acc : res (ledgers * option params)) (kp : hash * proposal)
  : res (ledgers * option params) :=
  match acc with
  | Ok (l, np) =>
      let p := kp.2 in
      if p_apply p <=? h then
        match fprops l !! kp.1 with
        | None => Panic P_ENDBLOCK
        | Some _ =>
            let l1 := set_fprops l (delete kp.1 (fprops l)) in
            match p_major p with
            | Some o =>
                if p_opttype p =? PROPOSAL_GOVPARAMS then
                  match o_params o with
                  | Some newp => let m := merge_params g newp in Ok (set_lparams l1 m, Some m)
                  | None => Panic P_ENDBLOCK
                  end
                else Ok (l1, np)
            | None => Ok (l1, np)
            end
        end
      else Ok (l, np)
  | x => x end.
Lemma apply_proposals_eq s base l h :
  apply_proposals s base l h = foldl (apply_step (gparams s) h) (Ok (l, newparams s)) (sorted_items (fprops base)).
Proof. reflexivity. Qed.

Definition apply_post (l l' : ledgers) : Prop :=
  accts l' = accts l ∧ dels l' = dels l ∧ frozen l' = frozen l ∧ rewards l' = rewards l ∧
  props l' = props l ∧ (∀ k p, fprops l' !! k = Some p → fprops l !! k = Some p).

Lemma apply_fold (Q R : params → Prop) g h items : NoDup items.*1 →
  (∀ newp, Q newp → R (merge_params g newp)) → ∀ l np,
  (∀ kp, kp ∈ items → is_Some (fprops l !! kp.1) ∧ prop_ok Q kp.2) →
  (∀ m, np = Some m → R m) →
  ∃ l' np', foldl (apply_step g h) (Ok (l, np)) items = Ok (l', np') ∧ apply_post l l' ∧
            (∀ m, np' = Some m → R m).
Proof.
  intros Hnd HQR. induction items as [|kp items IH]; intros l np Hin Hnp; cbn [foldl].
  { exists l, np. split; [reflexivity|]. split; [repeat split; auto|exact Hnp]. }
  apply NoDup_cons in Hnd as [Hnk Hnd]. cbn [fmap list_fmap] in Hnk.
  destruct (Hin kp (elem_of_list_here _ _)) as [[q Hq] (_ & _ & Hmaj)].
  assert (Hstep : ∃ l1 np1, apply_step g h (Ok (l, np)) kp = Ok (l1, np1) ∧ apply_post l l1 ∧
                        (∀ m, np1 = Some m → R m) ∧ ∀ k, k ≠ kp.1 → fprops l1 !! k = fprops l !! k).
  { unfold apply_step. destruct (p_apply kp.2 <=? h).
    2:{ exists l, np. split; [reflexivity|]. split; [repeat split; auto|]. split; [exact Hnp|reflexivity]. }
    rewrite Hq. cbv zeta.
    assert (Hdel : apply_post l (set_fprops l (delete kp.1 (fprops l)))).
    { repeat split; cbn; auto. intros k p Hk. apply lookup_delete_Some in Hk. tauto. }
    assert (Hne : ∀ k, k ≠ kp.1 → delete kp.1 (fprops l) !! k = fprops l !! k).
    { intros k Hk. apply lookup_delete_ne. congruence. }
    destruct (p_major kp.2) as [o|] eqn:Em.
    2:{ eexists _, _. split; [reflexivity|]. split; [exact Hdel|]. split; [exact Hnp|exact Hne]. }
    destruct (Z.eqb_spec (p_opttype kp.2) PROPOSAL_GOVPARAMS) as [Et|Et].
    2:{ eexists _, _. split; [reflexivity|]. split; [exact Hdel|]. split; [exact Hnp|exact Hne]. }
    destruct (Hmaj Et o eq_refl) as (newp & -> & HQ).
    eexists _, _. split; [reflexivity|]. split; [exact Hdel|]. split; [|exact Hne].
    intros m Hm. injection Hm as <-. apply HQR. exact HQ. }
  destruct Hstep as (l1 & np1 & -> & Hpost1 & Hnp1 & Hother).
  destruct (IH Hnd l1 np1) as (l' & np' & E & Hpost' & Hnp'); [|exact Hnp1|].
  { intros kp' Hkp'. destruct (Hin kp' (elem_of_list_further _ _ _ Hkp')) as [Hs Hp]. split; [|exact Hp].
    rewrite Hother; [exact Hs|]. intros Heq. apply Hnk. rewrite <- Heq.
    apply elem_of_list_fmap. exists kp'. split; [reflexivity|exact Hkp']. }
  exists l', np'. split; [exact E|]. split; [|exact Hnp'].
  destruct Hpost1 as (A1 & B1 & C1 & D1 & E1 & F1). destruct Hpost' as (A2 & B2 & C2 & D2 & E2 & F2).
  repeat split; try congruence. auto.
Qed.

(* ------------------------------------------------------------------ EndBlock: unfreezingStakes *)
Definition accts_mono (A A' : gmap addr account) : Prop := ∀ a, is_Some (A !! a) → is_Some (A' !! a).
Lemma accts_mono_refl A : accts_mono A A.  Proof. intros a H. exact H. Qed.
Lemma accts_mono_trans A B C : accts_mono A B → accts_mono B C → accts_mono A C.
Proof. intros H1 H2 a H. auto. Qed.
Lemma accts_mono_insert A a x : accts_mono A (<[a := x]> A).
Proof. intros b H. apply lookup_insert_is_Some'. right. exact H. Qed.

Lemma power_to_amount_pos p : (sign256 (power_to_amount p) <? 0) = false.
Proof.
  apply sign256_nonneg. unfold power_to_amount, mul256, wrap256.
  pose proof (Z.mod_pos_bound p two64 two64_pos) as Hm. pose proof apP_pos as Ha.
  pose proof two64_apP_lt_two255 as Hb. pose proof two256_double as Hd. pose proof two255_pos.
  rewrite Z.mod_small; nia.
Qed.

Definition unfreeze_step (h : Z) (acc : res ledgers) (kp : hash * stake) : res ledgers :=
  match acc with
  | Ok l =>
      let s0 := kp.2 in
      if s_refund s0 <=? h then
        match acct_reward l (s_from s0) (power_to_amount (s_power s0)) with
        | None => Panic P_ENDBLOCK
        | Some l1 => Ok (set_frozen l1 (delete kp.1 (frozen l1)))
        end
      else Ok l
  | x => x end.
Lemma unfreeze_eq base l h : unfreeze base l h = foldl (unfreeze_step h) (Ok l) (sorted_items (frozen base)).
Proof. reflexivity. Qed.

Definition unfreeze_post (l l' : ledgers) : Prop :=
  accts_mono (accts l) (accts l') ∧ dels l' = dels l ∧ rewards l' = rewards l ∧
  props l' = props l ∧ fprops l' = fprops l ∧
  (∀ k st, frozen l' !! k = Some st → frozen l !! k = Some st).

Lemma unfreeze_fold h items l :
  (∀ kp, kp ∈ items → is_Some (accts l !! s_from kp.2)) →
  ∃ l', foldl (unfreeze_step h) (Ok l) items = Ok l' ∧ unfreeze_post l l'.
Proof.
  intros Hin. apply (foldl_res_ok (unfreeze_step h) (unfreeze_post l)).
  2:{ split; [apply accts_mono_refl|]. repeat split; auto. }
  intros l1 kp Hkp (A & B & C & D & E & F). unfold unfreeze_step.
  destruct (s_refund kp.2 <=? h).
  2:{ exists l1. split; [reflexivity|]. repeat split; auto. }
  destruct (A _ (Hin kp Hkp)) as [x Hx]. unfold acct_reward. rewrite Hx. cbn [mbind option_bind].
  unfold add_balance. rewrite power_to_amount_pos. cbn [mbind option_bind].
  eexists. split; [reflexivity|]. split; [|repeat split; cbn; auto].
  - cbn. eapply accts_mono_trans; [exact A|apply accts_mono_insert].
  - intros k st Hk. apply lookup_delete_Some in Hk. apply F. tauto.
Qed.

(* ------------------------------------------------------------------ N2, EndBlock *)
(* the committed proposals are still in the working tree, and so are the frozen ones: only
   freezeProposals / applyProposals remove them, once per block *)
Definition keys_ok (s : state) : Prop :=
  (∀ k, is_Some (props (base_of s) !! k) → is_Some (props (work s) !! k)) ∧
  (∀ k, is_Some (fprops (base_of s) !! k) → is_Some (fprops (work s) !! k)).
(* the owner of every unbonding stake has an account (AcctCtrler.Reward on a missing account
   returns an error, which unfreezingStakes hands to EndBlock; node/app.go:530 panics on it) *)
Definition frozen_owned (A : gmap addr account) (l : ledgers) : Prop :=
  ∀ h st, frozen l !! h = Some st → is_Some (A !! s_from st).

Definition end_post (Q : params → Prop) (s s' : state) : Prop :=
  committed s' = committed s ∧ gparams s' = gparams s ∧ alldels s' = alldels s ∧ lim s' = lim s ∧
  bctx s' = bctx s ∧ last_height s' = last_height s ∧
  accts_mono (accts (work s)) (accts (work s')) ∧ dels (work s') = dels (work s) ∧
  rewards (work s') = rewards (work s) ∧
  (∀ k st, frozen (work s') !! k = Some st → frozen (work s) !! k = Some st) ∧
  (∀ k p, props (work s') !! k = Some p → props (work s) !! k = Some p) ∧
  (∀ k p, fprops (work s') !! k = Some p → fprops (work s) !! k = Some p ∨ prop_ok Q p).

Lemma end_block_ok (Q R : params → Prop) s :
  0 ≤ g_maxValidatorCnt (gparams s) → keys_ok s → gov_ok Q (base_of s) →
  frozen_owned (accts (work s)) (base_of s) →
  (∀ newp, Q newp → R (merge_params (gparams s) newp)) → (∀ m, newparams s = Some m → R m) →
  ∃ s' ups, end_block s = (s', Ok ups) ∧ end_post Q s s' ∧ (∀ m, newparams s' = Some m → R m).
Proof.
  intros Hmax [Hkp Hkf] [Hgp Hgf] Hfo HQR HR. unfold end_block.
  rewrite freeze_proposals_eq.
  destruct (freeze_fold Q (b_height (bctx s)) _ (sorted_items_nodup (props (base_of s))) (work s))
    as (l1 & -> & (A1 & B1 & C1 & D1 & E1 & F1 & G1)).
  { intros [k p] Hin. apply sorted_items_elem in Hin. cbn. split; [apply Hkp; eexists; exact Hin|].
    eapply Hgp. exact Hin. }
  rewrite apply_proposals_eq.
  destruct (apply_fold Q R (gparams s) (b_height (bctx s)) _ (sorted_items_nodup (fprops (base_of s))) HQR
              l1 (newparams s)) as (l2 & np & -> & (A2 & B2 & C2 & D2 & E2 & F2) & Hnp); [|exact HR|].
  { intros [k p] Hin. apply sorted_items_elem in Hin. cbn. split; [apply F1, Hkf; eexists; exact Hin|].
    eapply Hgf. exact Hin. }
  set (l3o := match b_proposer (bctx s) with Some pa => _ | None => Some l2 end).
  assert (H3 : ∃ l3, l3o = Some l3 ∧ accts_mono (accts l2) (accts l3) ∧ dels l3 = dels l2 ∧
                     frozen l3 = frozen l2 ∧ rewards l3 = rewards l2 ∧ props l3 = props l2 ∧ fprops l3 = fprops l2).
  { subst l3o. destruct (b_proposer (bctx s)) as [pa|].
    2:{ exists l2. split; [reflexivity|]. split; [apply accts_mono_refl|]. repeat split. }
    destruct (0 <? sign256 (b_feesum (bctx s))) eqn:Es.
    2:{ exists l2. split; [reflexivity|]. split; [apply accts_mono_refl|]. repeat split. }
    unfold add_balance. apply Z.ltb_lt in Es.
    destruct (sign256 (b_feesum (bctx s)) <? 0) eqn:Es'; [apply Z.ltb_lt in Es'; lia|].
    eexists. split; [reflexivity|]. split; [apply accts_mono_insert|]. repeat split. }
  destruct H3 as (l3 & -> & A3 & B3 & C3 & D3 & E3 & F3).
  rewrite unfreeze_eq.
  destruct (unfreeze_fold (b_height (bctx s)) (sorted_items (frozen (base_of s))) l3)
    as (l4 & -> & (A4 & B4 & C4 & D4 & E4 & F4)).
  { intros [k st] Hin. apply sorted_items_elem in Hin. cbn. apply A3. rewrite A2, A1. eapply Hfo. exact Hin. }
  destruct (g_maxValidatorCnt (gparams s) <? 0) eqn:Em; [apply Z.ltb_lt in Em; lia|].
  eexists _, _. split; [reflexivity|]. split; [|exact Hnp].
  unfold end_post. cbn. repeat split.
  - eapply accts_mono_trans; [|exact A4]. rewrite <- A1, <- A2. exact A3.
  - congruence.
  - congruence.
  - intros k st Hk. apply F4 in Hk. congruence.
  - intros k p Hk. apply E1. congruence.
  - intros k p Hk. rewrite E4, F3 in Hk. apply F2 in Hk. apply G1. exact Hk.
Qed.

(* Intended statement: under [state_ok s] plus ...; of [state_ok] only [0 ≤ g_maxValidatorCnt]
   is used (selectValidators slices allDelegatees[:maxValidatorCnt]) *)
Theorem end_block_never_panics s :
  0 ≤ g_maxValidatorCnt (gparams s) → keys_ok s → gov_ok (λ _, True) (base_of s) →
  frozen_owned (accts (work s)) (base_of s) →
  ∀ s' p, end_block s ≠ (s', Panic p).
Proof.
  intros Hmax Hk Hg Hf s' p H.
  destruct (end_block_ok (λ _, True) (λ _, True) s Hmax Hk Hg Hf) as (s1 & ups & E & _); [auto|auto|].
  rewrite E in H. discriminate.
Qed.
Print Assumptions end_block_never_panics.
