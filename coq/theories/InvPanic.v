(* InvPanic.v — property C09, model part: no input makes the application panic.
   In Spec.v every explicit panic(...), unchecked type assertion, slice expression and division of
   the Go code that is reachable from ABCI input is a [Panic site] result.  This file shows which
   facts about the state the Go code relies on for none of them to fire, and that these facts are
   kept by well-bracketed runs from genesis.
   Main results:
     deliver_never_panics        (N1) DeliverTx under [state_ok s], [tx_wf t], [payload_kind_ok t]
     begin_block_never_panics    (N2) BeginBlock under [reward_heights_ok s], [heights_ok s], consecutive
                                      heights, no votes before the first commit
     end_block_never_panics      (N2) EndBlock under [0 ≤ maxValidatorCnt], [keys_ok s],
                                      [gov_ok _ (base_of s)], [frozen_owned _ (base_of s)]
     run_never_panics            (N3) well-bracketed runs from [init_chain g]: BeginBlock and EndBlock
                                      succeed, DeliverTx never panics; [run_no_step_panics] the same
                                      as "no step returns Panic"; [run_invariant]: the hypotheses of
                                      N1/N2 are invariants of such runs
     run_never_panics_C02_C11    (N3) the external hypothesis in the shared vocabulary
                                      (delegatee_ok, ranges_ok, supply < 2^63 RIGO at every prefix)
   Witnesses that the hypotheses are needed (all by computation on concrete chains):
     deliver_panics_reachable                 supply of 2^63 RIGO: AmountToPower panics in DeliverTx
     deliver_never_panics_refuted_total       bonded + balance ≥ 2^63 RIGO: "power overflow" panic
     deliver_never_panics_refuted_kind        TRX_UNSTAKING without unstaking payload
     deliver_never_panics_refuted_minstake    minValidatorStake < 1 RIGO: limiter divides by zero
     begin_block_never_panics_refuted_votes   votes in block 1
     end_block_never_panics_refuted_bracket   EndBlock twice
     run_never_panics_refuted_consistent      unparsable option flagged as parsable
     run_never_panics_refuted_params          option with maxValidatorCnt = -1 *)
From Rigo Require Import Base.
From stdpp Require Import gmap sorting.
From Rigo Require Import Spec SpecProps.
From Rigo Require Import InvFail.
Local Open Scope Z_scope.

(* ------------------------------------------------------------------ arithmetic *)
Lemma two64_double : two64 = 2 * two63.  Proof. reflexivity. Qed.
Lemma two63_pos : 0 < two63.  Proof. reflexivity. Qed.
Lemma apP_pos : 0 < amountPerPower.  Proof. reflexivity. Qed.
Lemma two63_apP_lt_two255 : two63 * amountPerPower < two255.  Proof. reflexivity. Qed.
Lemma two64_apP_lt_two255 : two64 * amountPerPower < two255.  Proof. reflexivity. Qed.

Local Opaque two256 two255 two64 two63.

(* AmountToPower does not panic below 2^63 RIGO (ctrlers/types/gov_params.go:611) *)
Lemma amount_to_power_small a :
  0 ≤ a < two63 * amountPerPower → amount_to_power a = Some (a / amountPerPower).
Proof.
  intros H. pose proof apP_pos as Hp. pose proof two64_double as H64. pose proof two63_pos as H63.
  assert (Hq : 0 ≤ a / amountPerPower < two63).
  { split; [apply Z.div_pos; lia|]. apply Z.div_lt_upper_bound; [exact Hp|lia]. }
  unfold amount_to_power. rewrite (Z.mod_small (a / amountPerPower) two64) by lia.
  rewrite wrap64_small by (unfold in64; lia).
  destruct (a / amountPerPower <? 0) eqn:E; [apply Z.ltb_lt in E; lia|reflexivity].
Qed.

(* ------------------------------------------------------------------ hypotheses on transactions *)
(* Both wire decoders (ctrlers/types/trx.go:170 and :268) build the payload object from the type
   field, so a TRX_UNSTAKING transaction always carries a TrxPayloadUnstaking.  This is the only
   type for which the code uses an unchecked type assertion before any checked one
   (ctrlers/stake/ctrler.go:510, ValidateTrx).  For TRX_SETDOC the checked assertion of
   AcctCtrler.ValidateTrx precedes the unchecked one in execution, see [acct_execute_no_panic]. *)
Definition payload_kind_ok (t : tx) : Prop :=
  t_type t = TRX_UNSTAKING → ∃ h len_ok, t_payload t = PUnstake h len_ok.

(* ------------------------------------------------------------------ what DeliverTx relies on *)
(* balances and bonded powers stay below 2^63 RIGO.  It follows from
   [supply l < two63 * amountPerPower] (C02), stake bookkeeping (C11) and non-negative powers. *)
Definition supply_small (l : ledgers) : Prop :=
  (∀ a x, accts l !! a = Some x → a_bal x < two63 * amountPerPower) ∧
  (∀ a d b x, dels l !! a = Some d → accts l !! b = Some x →
              d_total d * amountPerPower + a_bal x < two63 * amountPerPower).
Definition totals_nonneg (l : ledgers) : Prop := ∀ a d, dels l !! a = Some d → 0 ≤ d_total d.

(* an active limiter has a positive base and a positive validator count *)
Definition lim_ok (sl : limiter) : Prop :=
  ∀ objs, lim_objs sl = Some objs → 0 < lim_base sl ∧ 0 < lim_maxcnt sl.

(* no reward entry is stamped with a height above the current block *)
Definition reward_heights_ok (s : state) : Prop :=
  ∀ a r, rewards (work s) !! a = Some r → r_height r ≤ b_height (bctx s).

(* Each conjunct, and the Go line that relies on it:
   params_ok          AmountToPower(MinValidatorStake / MinDelegatorStake), ctrlers/stake/ctrler.go:447,459
                      (panic at ctrlers/types/gov_params.go:612); gasPrice < 2^192 makes the fee check of
                      commonValidation mean "amount ≤ balance"; 0 < maxValidatorCnt, see lim_ok
   supply_small       AmountToPower(tx.Amount) ctrler.go:427 (panic gov_params.go:612);
                      "check overflow" panic ctrler.go:474-475 (totalPower + txPower ≤ 0)
   totals_nonneg      SelfStakeRatio divides by TotalPower + added, delegatee.go:234; ctrler.go:474
   lim_ok             limiter.go:155 (powerObjs[maxValidatorCnt-1]) and limiter.go:163 (/ baseTotalPower)
   reward_heights_ok  Reward.Withdraw panics when rwd.height > h, reward.go:63 *)
Definition state_ok (s : state) : Prop :=
  params_ok (gparams s) ∧ supply_small (work s) ∧ totals_nonneg (work s) ∧ lim_ok (lim s) ∧
  reward_heights_ok s.

(* ------------------------------------------------------------------ StakeLimiter.CheckLimit *)
Lemma check_limit_no_panic sl da dt diff p : lim_ok sl → check_limit sl da dt diff ≠ Panic p.
Proof.
  intros Hl. unfold check_limit.
  destruct (lim_objs sl) as [objs|] eqn:Eo; [|discriminate].
  destruct (Hl objs Eo) as [Hb Hm]. cbv zeta.
  destruct (negb (if diff <=? 0 then true else _)); [discriminate|].
  destruct (negb (_ =? dt)); [discriminate|].
  match goal with |- (if ?c then _ else _) ≠ _ => destruct c eqn:E1 end.
  { exfalso. apply andb_true_iff in E1 as [E1 _]. apply andb_true_iff in E1 as [_ E1].
    apply Z.leb_le in E1. lia. }
  destruct (lim_base sl =? 0) eqn:E2; [apply Z.eqb_eq in E2; lia|].
  match goal with |- (if ?c then _ else _) ≠ _ => destruct c end; [discriminate|].
  match goal with |- (if ?c then _ else _) ≠ _ => destruct c end; discriminate.
Qed.

(* ------------------------------------------------------------------ StakeCtrler.ValidateTrx *)
Lemma params_ok_minval g : params_ok g →
  amount_to_power (g_minValidatorStake g) = Some (g_minValidatorStake g / amountPerPower).
Proof.
  intros (_ & _ & _ & _ & _ & Hv & _). apply amount_to_power_small. pose proof apP_pos. lia.
Qed.
Lemma params_ok_mindel g : params_ok g →
  amount_to_power (g_minDelegatorStake g) = Some (g_minDelegatorStake g / amountPerPower).
Proof. intros (_ & _ & _ & _ & _ & _ & Hd & _). apply amount_to_power_small. exact Hd. Qed.

Lemma stake_validate_no_panic s1 t p :
  params_ok (gparams s1) →
  0 ≤ t_amount t < two63 * amountPerPower →
  (∀ d, dels (work s1) !! t_to t = Some d →
        0 ≤ d_total d ∧ d_total d + t_amount t / amountPerPower < two63) →
  lim_ok (lim s1) → payload_kind_ok t →
  stake_validate s1 t ≠ Panic p.
Proof.
  intros Hg Ha Hd Hl Hk. pose proof two63_pos as H63. unfold stake_validate.
  ty_case t TRX_STAKING E2.
  { rewrite (amount_to_power_small _ Ha), (params_ok_minval _ Hg), (params_ok_mindel _ Hg).
    set (txp := t_amount t / amountPerPower).
    destruct (txp <=? 0) eqn:Eq; [discriminate|]. apply Z.leb_gt in Eq.
    destruct (negb (t_amount t mod amountPerPower =? 0)); [discriminate|].
    destruct (dels (work s1) !! t_to t) as [d|] eqn:Ed.
    - destruct (Hd d eq_refl) as [Hd0 Hd1]. fold txp in Hd1.
      assert (Hw : (wrap64 (d_total d + txp) <=? 0) = false).
      { rewrite wrap64_small by (unfold in64; lia). apply Z.leb_gt. lia. }
      destruct (t_from t =? t_to t)%N.
      + destruct (txp + d_self d <? _); [discriminate|]. rewrite Hw.
        destruct (3 <=? _); [apply check_limit_no_panic; exact Hl|discriminate].
      + destruct ((0 <? _) && (txp <? _)); [discriminate|].
        destruct (d_total d + txp =? 0) eqn:E0; [apply Z.eqb_eq in E0; lia|].
        destruct (_ <? g_minSelfStakeRatio _); [discriminate|]. rewrite Hw.
        destruct (3 <=? _); [apply check_limit_no_panic; exact Hl|discriminate].
    - assert (Ht : txp < two63).
      { apply Z.div_lt_upper_bound; [exact apP_pos|lia]. }
      assert (Hw : (wrap64 (0 + txp) <=? 0) = false).
      { rewrite wrap64_small by (unfold in64; lia). apply Z.leb_gt. lia. }
      destruct (t_from t =? t_to t)%N; [|discriminate].
      destruct (txp + 0 <? _); [discriminate|]. rewrite Hw.
      destruct (3 <=? _); [apply check_limit_no_panic; exact Hl|discriminate]. }
  ty_case t TRX_UNSTAKING E3.
  { destruct (dels (work s1) !! t_to t) as [d|]; [|discriminate].
    destruct (Hk E3) as (h & lo & ->).
    destruct (negb lo); [discriminate|].
    destruct (find_stake h (d_stakes d)) as [s0|]; [|discriminate].
    destruct (negb (s_from s0 =? t_from t)%N); [discriminate|].
    destruct (3 <=? _); [apply check_limit_no_panic; exact Hl|discriminate]. }
  destruct (negb (t_amount t =? 0)); [discriminate|].
  destruct (t_payload t); try discriminate.
  destruct (rewards (work s1) !! t_from t) as [r|]; [|discriminate].
  destruct (r_cumulated r <? req); discriminate.
Qed.

(* validation of the other controllers has no panic site *)
Lemma validated_no_panic s1 recv t p :
  params_ok (gparams s1) →
  0 ≤ t_amount t < two63 * amountPerPower →
  (∀ d, dels (work s1) !! t_to t = Some d →
        0 ≤ d_total d ∧ d_total d + t_amount t / amountPerPower < two63) →
  lim_ok (lim s1) → payload_kind_ok t →
  validated s1 recv t ≠ Panic p.
Proof.
  intros Hg Ha Hd Hl Hk. unfold validated.
  destruct ((t_type t =? TRX_PROPOSAL) || (t_type t =? TRX_VOTING)).
  { destruct (gov_validate s1 t); discriminate. }
  destruct ((t_type t =? TRX_TRANSFER) || (t_type t =? TRX_SETDOC)).
  { destruct (acct_validate t); discriminate. }
  destruct ((t_type t =? TRX_STAKING) || (t_type t =? TRX_UNSTAKING) || (t_type t =? TRX_WITHDRAW)).
  { apply stake_validate_no_panic; assumption. }
  destruct (t_type t =? TRX_CONTRACT); [|discriminate].
  destruct (evm_validate recv t); discriminate.
Qed.

(* ------------------------------------------------------------------ execution *)
Lemma gov_execute_no_panic s l t p : gov_execute s l t ≠ Panic p.
Proof.
  unfold gov_execute. destruct (t_type t =? TRX_PROPOSAL).
  - destruct (t_payload t); discriminate.
  - destruct (t_payload t) as [| | | |ph choice| |]; try discriminate.
    destruct (props l !! ph) as [q|]; [|discriminate].
    destruct (prop_vote q (t_from t) choice); discriminate.
Qed.

(* the unchecked assertion in exeSetDoc is preceded by the checked one of ValidateTrx *)
Lemma acct_execute_no_panic l t p :
  (t_type t = TRX_SETDOC → acct_validate t = None) →
  t_type t = TRX_TRANSFER ∨ t_type t = TRX_SETDOC →
  acct_execute l t ≠ Panic p.
Proof.
  intros Hv Hty. unfold acct_execute.
  destruct (accts l !! t_from t) as [sender|]; [|discriminate].
  destruct (accts l !! t_to t) as [receiver|]; [|discriminate].
  ty_case t TRX_TRANSFER E1.
  - destruct (sub_balance sender (t_amount t)); [|discriminate].
    destruct (add_balance _ (t_amount t)); discriminate.
  - assert (E7 : t_type t = TRX_SETDOC) by tauto. specialize (Hv E7).
    unfold acct_validate in Hv. rewrite E7 in Hv. cbn [Z.eqb TRX_SETDOC Pos.eqb] in Hv.
    destruct (t_payload t); try discriminate.
Qed.

Lemma stake_execute_no_panic s l t p :
  (∀ r, rewards l !! t_from t = Some r → r_height r ≤ b_height (bctx s)) →
  stake_execute s l t ≠ Panic p.
Proof.
  intros Hr. unfold stake_execute.
  destruct (t_type t =? TRX_STAKING).
  { destruct (match dels l !! t_to t with Some d => Some d | None => _ end); [|discriminate].
    destruct (accts l !! t_from t) as [x|]; [|discriminate].
    destruct (sub_balance x (t_amount t)); discriminate. }
  destruct (t_type t =? TRX_UNSTAKING).
  { destruct (dels l !! t_to t) as [d|]; [|discriminate].
    destruct (t_payload t) as [|hs lo| | | | |]; try discriminate.
    destruct (find_stake hs (d_stakes d)) as [s0|]; [|discriminate].
    destruct (negb (s_from s0 =? t_from t)%N); [discriminate|].
    destruct (if d_self (del_stake d hs) =? 0 then _ else _) as [d2 fr2].
    destruct (d_total d2 =? 0); discriminate. }
  destruct (t_payload t) as [| |req| | | |]; try discriminate.
  destruct (rewards l !! t_from t) as [r|] eqn:Er; [|discriminate].
  destruct (r_height r >? b_height (bctx s)) eqn:Eh.
  { exfalso. apply Z.gtb_lt in Eh. specialize (Hr r eq_refl). lia. }
  destruct (acct_reward _ (t_from t) req); discriminate.
Qed.

Lemma validated_acct_validate s1 recv t lim' :
  validated s1 recv t = Ok lim' → t_type t = TRX_SETDOC → acct_validate t = None.
Proof.
  unfold validated. intros H E7. rewrite E7 in H.
  cbn [Z.eqb orb TRX_SETDOC TRX_PROPOSAL TRX_VOTING TRX_TRANSFER Pos.eqb] in H.
  destruct (acct_validate t); [discriminate|reflexivity].
Qed.

Lemma exec_native_no_panic s2 recv s1 t lim' p :
  validated s1 recv t = Ok lim' →
  (∀ r, rewards (work s2) !! t_from t = Some r → r_height r ≤ b_height (bctx s2)) →
  exec_native s2 t ≠ Panic p.
Proof.
  intros Hv Hr. unfold exec_native.
  destruct ((t_type t =? TRX_PROPOSAL) || (t_type t =? TRX_VOTING)); [apply gov_execute_no_panic|].
  destruct ((t_type t =? TRX_TRANSFER) || (t_type t =? TRX_SETDOC)) eqn:Ea.
  - apply acct_execute_no_panic.
    + eapply validated_acct_validate; eassumption.
    + apply orb_true_iff in Ea as [Ea|Ea]; apply Z.eqb_eq in Ea; tauto.
  - apply stake_execute_no_panic. exact Hr.
Qed.

Lemma post_native_no_panic price s2 t l' s' p : post_native price s2 t l' ≠ (s', Panic p).
Proof.
  unfold post_native. destruct (accts l' !! t_from t) as [x|]; [|discriminate].
  destruct (sub_balance x (fee_of t)); discriminate.
Qed.

(* ------------------------------------------------------------------ N1 *)
Theorem deliver_never_panics s t :
  state_ok s → tx_wf t → payload_kind_ok t → ∀ s' p, deliver s t ≠ (s', Panic p).
Proof.
  intros (Hg & [Hbal Htot] & Hnn & Hl & Hrh) Hwf Hk s' p H. rewrite deliver_eq in H.
  destruct (accts (work s) !! t_from t) as [sender|] eqn:Hs; [|discriminate].
  cbv zeta in H.
  destruct (common_validation0 (gparams s) t) as [e0|] eqn:Hv0; [discriminate|].
  destruct (common_validation1 sender t) as [e1|] eqn:Hv1; [discriminate|].
  (* amount ≤ balance of the sender *)
  assert (Hamt : 0 ≤ t_amount t < two63 * amountPerPower ∧ t_amount t ≤ a_bal sender).
  { destruct Hwf as (Ha & _ & Hgas & _). destruct Hg as (Hp & _).
    assert (Hsb : sender_bal_ok s t).
    { intros x Hx. specialize (Hbal _ _ Hx). pose proof two63_apP_lt_two255. pose proof two256_double. lia. }
    pose proof (vf_fee s t (proj1 Hgas) Hp Hv0) as Hf.
    pose proof (vf_bal s t sender (proj1 Ha) (proj1 Hgas) Hp Hsb Hs Hv0 Hv1) as Hb.
    specialize (Hbal _ _ Hs). lia. }
  destruct Hamt as [Hamt Hle].
  destruct (validated (pre s t) (receiver_of s t) t) as [lim'|ev|pv] eqn:Hv.
  2:{ discriminate. }
  2:{ eapply validated_no_panic; [| | | | |exact Hv]; try assumption.
      intros d Hd. unfold pre in Hd. cbn [work with_work] in Hd. rewrite find_or_new_dels in Hd.
      split; [eapply Hnn; exact Hd|].
      specialize (Htot _ _ _ _ Hd Hs). pose proof apP_pos as Hp.
      assert (Hq : t_amount t / amountPerPower * amountPerPower ≤ t_amount t).
      { rewrite Z.mul_comm. apply Z.mul_div_le. exact Hp. }
      nia. }
  destruct (evm_path s t).
  - unfold finish in H. destruct (evm_execute _ t) as [[l' gas]|e'|p'] eqn:Ex; try discriminate.
    eapply evm_execute_no_panic. exact Ex.
  - unfold finish in H.
    destruct (exec_native (with_lim (pre s t) lim') t) as [l'|e'|p'] eqn:Ex; [|discriminate|].
    + eapply post_native_no_panic. exact H.
    + eapply exec_native_no_panic; [exact Hv| |exact Ex].
      intros r Hr. unfold pre in Hr. cbn [work with_work with_lim] in Hr.
      rewrite find_or_new_rewards in Hr. apply Hrh in Hr. exact Hr.
Qed.
Print Assumptions deliver_never_panics.

(* ------------------------------------------------------------------ N1: a concrete state *)
Lemma map_forall_by_list {A} (m : gmap N A) (P : A → Prop) :
  Forall (λ kv : N * A, P kv.2) (map_to_list m) → ∀ k x, m !! k = Some x → P x.
Proof.
  intros H k x Hx. rewrite Forall_forall in H. apply (H (k, x)). apply elem_of_map_to_list. exact Hx.
Qed.

Lemma supply_small_by_bounds l B T :
  (∀ a x, accts l !! a = Some x → a_bal x ≤ B) → (∀ a d, dels l !! a = Some d → d_total d ≤ T) →
  0 ≤ T → T * amountPerPower + B < two63 * amountPerPower → supply_small l.
Proof.
  intros Hb Ht HT Hs. pose proof apP_pos. split.
  - intros a x Hx. specialize (Hb _ _ Hx). nia.
  - intros a d b x Hd Hx. specialize (Hb _ _ Hx). specialize (Ht _ _ Hd). nia.
Qed.


Ltac eval_list :=
  match goal with |- Forall _ ?l => let v := eval vm_compute in l in replace l with v by (vm_compute; reflexivity) end.
Ltac map_all := apply map_forall_by_list; eval_list; repeat constructor; vm_compute; discriminate.

Definition hdr (h : Z) : header := {| h_height := h; h_proposer := Some 1%N; h_votes := []; h_evidence := [] |}.
Definition gen3 : genesis := {|
  gen_params := pr0 10;
  gen_holders := [(1%N, 1000 * amountPerPower); (2%N, 500 * amountPerPower); (3%N, 500 * amountPerPower)];
  gen_validators := [(1%N, 100); (2%N, 100); (3%N, 100)] |}.
Definition hdr3 : header :=
  {| h_height := 3; h_proposer := Some 1%N; h_votes := [(1%N, 100, true); (2%N, 100, true); (3%N, 100, false)];
     h_evidence := [] |}.
Definition st3 : state :=
  srun (init_chain gen3) [SBegin (hdr 1); SEnd; SCommit; SBegin (hdr 2); SEnd; SCommit; SBegin hdr3].

(* the hypotheses of N1 hold in the third block of a three-validator chain: the limiter is active
   and rewards have been issued *)
Example state_ok_ex :
  state_ok st3 ∧ (∃ objs, lim_objs (lim st3) = Some objs) ∧ length (lastvals st3) = 3%nat ∧
  size (rewards (work st3)) = 2%nat.
Proof.
  split; [|split; [eexists; vm_compute; reflexivity|split; vm_compute; reflexivity]].
  split; [exact pr0_ok|]. split.
  { apply (supply_small_by_bounds _ (1000 * amountPerPower) 100).
    - map_all.
    - map_all.
    - lia.
    - vm_compute. reflexivity. }
  split; [unfold totals_nonneg; map_all|].
  split; [intros objs _; vm_compute; split; reflexivity|].
  unfold reward_heights_ok. map_all.
Qed.

(* ------------------------------------------------------------------ each hypothesis is needed *)
Definition stake_tx (from to : addr) (amount nonce : Z) (h : hash) : tx := {|
  t_type := TRX_STAKING; t_from := from; t_to := to; t_from_ok := true; t_to_ok := true; t_amount := amount;
  t_price := 10; t_gas := 100; t_nonce := nonce; t_payload := PNone; t_hash := h; t_sigok := true; t_evm := None |}.

(* (a) A REACHABLE panic when the supply is not below 2^63 RIGO: a genesis holder owning 2^63 RIGO
   stakes them; AmountToPower (gov_params.go:611) panics inside DeliverTx.  Parameters, the
   transaction and its payload are all well-formed; only [supply_small] fails. *)
Definition gen_big : genesis := {|
  gen_params := pr0 10;
  gen_holders := [(1%N, two63 * amountPerPower + 1000000)];
  gen_validators := [(1%N, 100)] |}.

Theorem deliver_panics_reachable : ∃ g ops t,
  params_ok (gen_params g) ∧ tx_wf t ∧ payload_kind_ok t ∧
  (deliver (srun (init_chain g) ops) t).2 = Panic P_AMOUNT_TO_POWER.
Proof.
  exists gen_big, [SBegin (hdr 1)], (stake_tx 1%N 1%N (two63 * amountPerPower) 0 50%N).
  split; [exact pr0_ok|]. split; [zc|]. split; [intros E; vm_compute in E; discriminate|].
  vm_compute. reflexivity.
Qed.
Print Assumptions deliver_panics_reachable.

(* (b) every balance below 2^63 RIGO but bonded power + balance not: the "delegatee power
   overflow" panic of ValidateTrx (ctrler.go:474) *)
Definition gen_big2 : genesis := {|
  gen_params := pr0 10;
  gen_holders := [(1%N, 2 ^ 62 * amountPerPower + 1000000); (2%N, 2 ^ 62 * amountPerPower + 1000000)];
  gen_validators := [(1%N, 100)] |}.

Theorem deliver_never_panics_refuted_total : ∃ g ops t,
  params_ok (gen_params g) ∧ tx_wf t ∧ payload_kind_ok t ∧
  (∀ a x, accts (work (srun (init_chain g) ops)) !! a = Some x → a_bal x < two63 * amountPerPower) ∧
  (deliver (srun (init_chain g) ops) t).2 = Panic P_POWER_OVERFLOW.
Proof.
  exists gen_big2, [SBegin (hdr 1); SDeliver (stake_tx 1%N 1%N (2 ^ 62 * amountPerPower) 0 50%N)],
         (stake_tx 2%N 1%N (2 ^ 62 * amountPerPower) 0 51%N).
  split; [exact pr0_ok|]. split; [zc|]. split; [intros E; vm_compute in E; discriminate|].
  split; [map_all|]. vm_compute. reflexivity.
Qed.

(* (c) a TRX_UNSTAKING transaction without an unstaking payload (excluded by both decoders) *)
Theorem deliver_never_panics_refuted_kind : ∃ s t,
  state_ok s ∧ tx_wf t ∧ (deliver s t).2 = Panic P_ENDBLOCK.
Proof.
  exists st3, (mk_tx TRX_UNSTAKING 1%N 1%N 0 10 100 0 PNone).
  split; [apply state_ok_ex|]. split; [zc|]. vm_compute. reflexivity.
Qed.

(* (d) minValidatorStake below one RIGO (the only conjunct of params_ok that fails; proposals are
   checked for an upper bound of this parameter only, gov/ctrler.go:212): delegatees without any
   power stay eligible, and once every validator has been slashed to nothing the limiter's base
   is 0 and checkUpdatablePowerLimit (limiter.go:163) divides by zero *)
Definition pr_low : params := {|
  g_version := 1; g_maxValidatorCnt := 21; g_minValidatorStake := 1;
  g_minDelegatorStake := 0; g_rewardPerPower := 1000; g_lazyRewardBlocks := 10; g_lazyApplyingBlocks := 10;
  g_gasPrice := 10; g_minTrxGas := 10; g_maxTrxGas := 1000000; g_maxBlockGas := 10000000;
  g_minVotingPeriodBlocks := 1; g_maxVotingPeriodBlocks := 100; g_minSelfStakeRatio := 50;
  g_maxUpdatableStakeRatio := 30; g_maxIndividualStakeRatio := 100; g_slashRatio := 50;
  g_signedBlocksWindow := 100; g_minSignedBlocks := 10 |}.
Definition gen_low : genesis := {|
  gen_params := pr_low;
  gen_holders := [(1%N, 1000 * amountPerPower); (2%N, 500 * amountPerPower); (3%N, 500 * amountPerPower)];
  gen_validators := [(1%N, 1); (2%N, 1); (3%N, 1)] |}.
Definition hdr_evi (h : Z) : header :=
  {| h_height := h; h_proposer := Some 1%N; h_votes := []; h_evidence := [1%N; 2%N; 3%N] |}.

Theorem deliver_never_panics_refuted_minstake : ∃ g ops t,
  params_ok (merge_params (gen_params g) (pr0 10)) ∧ 0 < g_minValidatorStake (gen_params g) ∧
  g_minValidatorStake (pr0 10) ≠ g_minValidatorStake (gen_params g) ∧
  tx_wf t ∧ payload_kind_ok t ∧
  supply_small (work (srun (init_chain g) ops)) ∧ totals_nonneg (work (srun (init_chain g) ops)) ∧
  (deliver (srun (init_chain g) ops) t).2 = Panic P_LIMITER_DIV.
Proof.
  exists gen_low, [SBegin (hdr 1); SEnd; SCommit; SBegin (hdr 2); SEnd; SCommit; SBegin (hdr_evi 3); SEnd; SCommit;
                   SBegin (hdr 4)],
         (stake_tx 1%N 1%N amountPerPower 0 50%N).
  split; [zc|]. split; [reflexivity|]. split; [discriminate|]. split; [zc|].
  split; [intros E; vm_compute in E; discriminate|].
  split.
  { apply (supply_small_by_bounds _ (1000 * amountPerPower) 100); [map_all|map_all|lia|vm_compute; reflexivity]. }
  split; [unfold totals_nonneg; map_all|].
  vm_compute. reflexivity.
Qed.

(* ================================================================== N2: block processing *)
(* ------------------------------------------------------------------ folds and sorted items *)
Lemma foldl_res_ok {A B} (f : res A → B → res A) (P : A → Prop) (l : list B) :
  (∀ a b, b ∈ l → P a → ∃ a', f (Ok a) b = Ok a' ∧ P a') →
  ∀ a, P a → ∃ a', foldl f (Ok a) l = Ok a' ∧ P a'.
Proof.
  induction l as [|b l IH]; intros Hf a Ha; simpl.
  - exists a. split; [reflexivity|exact Ha].
  - destruct (Hf a b (elem_of_list_here _ _) Ha) as (a1 & -> & Ha1).
    apply IH; [|exact Ha1]. intros a2 b2 Hin. apply Hf. apply elem_of_list_further. exact Hin.
Qed.

Lemma foldl_inv {A B} (f : A → B → A) (P : A → Prop) (l : list B) :
  (∀ a b, b ∈ l → P a → P (f a b)) → ∀ a, P a → P (foldl f a l).
Proof.
  induction l as [|b l IH]; intros Hf a Ha; simpl; [exact Ha|].
  apply IH; [|apply Hf; [left|exact Ha]]. intros a2 b2 Hin. apply Hf. right. exact Hin.
Qed.

Lemma sorted_items_elem {A} (m : gmap N A) k x : (k, x) ∈ sorted_items m ↔ m !! k = Some x.
Proof. unfold sorted_items. rewrite merge_sort_Permutation. apply elem_of_map_to_list. Qed.
Lemma sorted_items_nodup {A} (m : gmap N A) : NoDup (sorted_items m).*1.
Proof. unfold sorted_items. rewrite merge_sort_Permutation. apply NoDup_fst_map_to_list. Qed.

(* ------------------------------------------------------------------ heights *)
(* what BeginBlock relies on besides the reward heights: block heights are consecutive and
   every committed block left one version of the ledgers *)
Definition heights_ok (s : state) : Prop :=
  0 ≤ last_height s ∧ b_height (bctx s) ≤ last_height s + 1 ∧
  last_height s ≤ Z.of_nat (length (committed s)).

Definition RH (h : Z) (l : ledgers) : Prop := ∀ a r, rewards l !! a = Some r → r_height r ≤ h.

(* ------------------------------------------------------------------ BeginBlock: rewards *)
Definition reward_step (g : params) (h : Z) (acc : res (gmap addr reward * Z)) (s0 : stake) : res (gmap addr reward * Z) :=
  match acc with
  | Ok (m, issued) =>
      let amt := mul256 (s_power s0 mod two64) (g_rewardPerPower g) in
      match reward_issue (default reward0 (m !! s_from s0)) amt h with
      | None => Panic P_REWARD_HEIGHT
      | Some r' => Ok (<[s_from s0 := r']> m, add256 issued amt)
      end
  | x => x end.
Lemma reward_to_eq g h rw d : reward_to g h rw d = foldl (reward_step g h) (Ok (rw, 0)) (d_stakes d).
Proof. reflexivity. Qed.

Definition RHm (h : Z) (m : gmap addr reward) : Prop := ∀ a r, m !! a = Some r → r_height r ≤ h.

Lemma reward_to_ok g h rw d : 0 ≤ h → RHm h rw →
  ∃ rw' iss, reward_to g h rw d = Ok (rw', iss) ∧ RHm h rw'.
Proof.
  intros Hh Hrw. rewrite reward_to_eq.
  destruct (foldl_res_ok (reward_step g h) (λ x, RHm h x.1) (d_stakes d)) with (a := (rw, 0))
    as ([rw' iss] & E & H); [|exact Hrw|exists rw', iss; split; assumption].
  intros [m issued] s0 _ Hm. cbn [fst] in Hm. unfold reward_step.
  set (amt := mul256 _ _). unfold reward_issue.
  assert (Hle : r_height (default reward0 (m !! s_from s0)) ≤ h).
  { destruct (m !! s_from s0) as [r|] eqn:Er; cbn; [eapply Hm; exact Er|exact Hh]. }
  destruct (h <? _) eqn:E; [apply Z.ltb_lt in E; lia|].
  eexists. split; [reflexivity|]. cbn [fst]. intros a r Hr.
  destruct (decide (a = s_from s0)) as [->|Hne].
  - rewrite lookup_insert in Hr. injection Hr as <-. cbn. lia.
  - rewrite lookup_insert_ne in Hr by congruence. eapply Hm. exact Hr.
Qed.

(* ------------------------------------------------------------------ BeginBlock: votes *)
Definition vote_step (g : params) (old : ledgers) (h : Z) (acc : res (ledgers * Z)) (v : addr * Z * bool) : res (ledgers * Z) :=
  match acc with
  | Ok (l, issued) =>
    let '(a, pw, signed) := v in
    if signed : bool then
      match dels old !! a with
      | None => Ok (l, issued)
      | Some d => if negb (d_total d =? pw) then Ok (l, issued)
                  else match reward_to g h (rewards l) d with
                       | Ok (rw, iss) => Ok (set_rewards l rw, add256 issued iss)
                       | Err e => Err e | Panic p => Panic p end
      end
    else
      match dels l !! a with
      | None => Ok (l, issued)
      | Some d =>
          let sh := h - 1 in
          let m1 := mark (d_marks d) sh in
          let s0 := if sh - g_signedBlocksWindow g <? 0 then 0 else sh - g_signedBlocksWindow g in
          let '(cnt, m2) := count_in_window m1 s0 sh in
          let d1 := {| d_addr := d_addr d; d_self := d_self d; d_total := d_total d; d_stakes := d_stakes d; d_marks := m2 |} in
          let l1 := set_dels l (<[a := d1]> (dels l)) in
          if g_signedBlocksWindow g - cnt <? g_minSignedBlocks g then
            let '(_, ss) := del_all_stakes d1 in
            let l2 := set_frozen l1 (freeze_all (frozen l1) (h + g_lazyRewardBlocks g) ss) in
            Ok (set_dels l2 (delete a (dels l2)), issued)
          else Ok (l1, issued)
      end
  | x => x end.

Lemma process_votes_eq s l h votes :
  process_votes s l h votes =
  match ledgers_at s (hgt_of_power h) with
  | None => Panic P_BEGINBLOCK
  | Some old => foldl (vote_step (gparams s) old h) (Ok (l, 0)) votes
  end.
Proof. reflexivity. Qed.

(* one vote: no panic; only rewards, delegatees and frozen stakes change *)
Lemma vote_step_ok g old h l issued v : 0 ≤ h → RH h l →
  ∃ l' issued', vote_step g old h (Ok (l, issued)) v = Ok (l', issued') ∧ RH h l' ∧
    accts l' = accts l ∧ props l' = props l ∧ fprops l' = fprops l ∧ lparams l' = lparams l ∧
    ((dels l' = dels l ∧ frozen l' = frozen l) ∨
     (rewards l' = rewards l ∧ ∃ a d m2, v = (a, v.1.2, false) ∧ dels l !! a = Some d ∧
        let d1 := {| d_addr := d_addr d; d_self := d_self d; d_total := d_total d; d_stakes := d_stakes d; d_marks := m2 |} in
        (dels l' = <[a := d1]> (dels l) ∧ frozen l' = frozen l ∨
         dels l' = delete a (dels l) ∧
         frozen l' = freeze_all (frozen l) (h + g_lazyRewardBlocks g) (d_stakes d)))).
Proof.
  intros Hh Hl. destruct v as [[a pw] signed]. unfold vote_step. destruct signed.
  - destruct (dels old !! a) as [d|].
    2:{ exists l, issued. repeat split; try assumption. left. split; reflexivity. }
    destruct (negb (d_total d =? pw)).
    { exists l, issued. repeat split; try assumption. left. split; reflexivity. }
    destruct (reward_to_ok g h (rewards l) d Hh Hl) as (rw' & iss & -> & Hrw').
    eexists _, _. split; [reflexivity|]. split; [exact Hrw'|]. repeat split. left. split; reflexivity.
  - destruct (dels l !! a) as [d|] eqn:Ed.
    2:{ exists l, issued. repeat split; try assumption. left. split; reflexivity. }
    cbv zeta. destruct (count_in_window _ _ _) as [cnt m2].
    destruct (_ <? g_minSignedBlocks g).
    + cbn [del_all_stakes d_stakes]. eexists _, _. split; [reflexivity|]. split; [exact Hl|].
      repeat split. right. split; [reflexivity|]. exists a, d, m2. split; [reflexivity|]. split; [exact Ed|].
      right. cbn. rewrite delete_insert_delete. split; reflexivity.
    + eexists _, _. split; [reflexivity|]. split; [exact Hl|].
      repeat split. right. split; [reflexivity|]. exists a, d, m2. split; [reflexivity|]. split; [exact Ed|].
      left. split; reflexivity.
Qed.

Lemma ledgers_at_some s n :
  n ≤ Z.of_nat (length (committed s)) → is_Some (ledgers_at s n).
Proof.
  intros Hn. unfold ledgers_at.
  destruct (Z.of_nat (length (committed s)) <? n) eqn:E1; [apply Z.ltb_lt in E1; lia|].
  destruct (n <=? 0) eqn:E2; [eexists; reflexivity|]. apply Z.leb_gt in E2.
  apply lookup_lt_is_Some. lia.
Qed.

Lemma hgt_of_power_le h n : 1 ≤ n → h ≤ n + 1 → hgt_of_power h ≤ n.
Proof. intros H1 Hh. unfold hgt_of_power. destruct (h - 4 <=? 0) eqn:E; [lia|]. lia. Qed.

(* N2, BeginBlock.  Intended statement: under [state_ok s] ...; only the reward heights are
   used, so the theorem is stated with that conjunct alone ([state_ok s] implies it).
   The two hypotheses on the header are Tendermint's discipline: heights are consecutive
   (node/app.go:296 panics otherwise) and the first block carries no LastCommitInfo votes
   (with votes, block 1 asks for ImmutableLedgerAt(1) before any version exists and
   StakeCtrler.BeginBlock returns an error, on which node/app.go:316 panics). *)
Theorem begin_block_never_panics s hd :
  reward_heights_ok s → heights_ok s →
  h_height hd = last_height s + 1 →
  (h_votes hd ≠ [] → committed s ≠ []) →
  ∀ s' p, begin_block s hd ≠ (s', Panic p).
Proof.
  intros Hrh (H0 & Hb & Hc) Hh Hvotes s' p H. unfold begin_block in H.
  rewrite Hh, Z.eqb_refl in H. cbn [negb] in H.
  destruct (h_votes hd) as [|v vs] eqn:Ev; [discriminate|].
  rewrite process_votes_eq in H.
  assert (Hlen : 1 ≤ Z.of_nat (length (committed s))).
  { destruct (committed s); [exfalso; apply Hvotes; [discriminate|reflexivity]|cbn; lia]. }
  match type of H with context [ledgers_at ?s1 ?n] =>
    destruct (ledgers_at_some s1 n) as [old Eo] end.
  { cbn [committed]. apply hgt_of_power_le; lia. }
  rewrite Eo in H.
  match type of H with context [foldl ?f (Ok (?l, 0)) ?vs] =>
    destruct (foldl_res_ok f (λ x, RH (last_height s + 1) x.1) vs) with (a := (l, 0))
      as ([l3 iss] & E & _) end.
  - intros [l issued] v0 _ Hl. cbn [gparams].
    destruct (vote_step_ok (gparams s) old (last_height s + 1) l issued v0) as (l' & i' & E & Hl' & _);
      [lia|exact Hl|]. exists (l', i'). split; [exact E|exact Hl'].
  - cbn [fst]. intros a r Hr. unfold stake_punish in Hr.
    assert (Hrw : ∀ l evi, rewards (stake_punish l (g_slashRatio (gparams s)) evi) = rewards l).
    { intros l evi. unfold stake_punish. apply (foldl_inv _ (λ x, rewards x = rewards l)); [|reflexivity].
      intros x a0 _ Hx. destruct (dels x !! a0); [exact Hx|exact Hx]. }
    fold (stake_punish (gov_punish (work s) (g_slashRatio (gparams s)) (h_evidence hd)) (g_slashRatio (gparams s)) (h_evidence hd)) in Hr.
    rewrite Hrw in Hr.
    assert (Hgp : ∀ l evi, rewards (gov_punish l (g_slashRatio (gparams s)) evi) = rewards l).
    { intros l evi. unfold gov_punish. apply (foldl_inv _ (λ x, rewards x = rewards l)); [|reflexivity].
      intros x a0 _ Hx. apply (foldl_inv _ (λ y, rewards y = rewards l)); [|exact Hx].
      intros y kp _ Hy. destruct (props y !! kp.1); [exact Hy|exact Hy]. }
    rewrite Hgp in Hr. apply Hrh in Hr. lia.
  - rewrite E in H. discriminate.
Qed.
Print Assumptions begin_block_never_panics.

(* ------------------------------------------------------------------ proposals *)
(* [Q] is what is known about the parameter documents of the options; N2 needs only that they
   parse ([Q := λ _, True]), N3 also that applying them keeps the parameters well-formed *)
Definition option_ok (Q : params → Prop) (o : voption) : Prop := ∃ np, o_params o = Some np ∧ Q np.
Definition prop_ok (Q : params → Prop) (p : proposal) : Prop :=
  p_options p ≠ [] ∧
  (p_opttype p = PROPOSAL_GOVPARAMS → Forall (option_ok Q) (p_options p)) ∧
  (p_opttype p = PROPOSAL_GOVPARAMS → ∀ o, p_major p = Some o → option_ok Q o).
Definition gov_ok (Q : params → Prop) (l : ledgers) : Prop :=
  (∀ k p, props l !! k = Some p → prop_ok Q p) ∧ (∀ k p, fprops l !! k = Some p → prop_ok Q p).

Lemma insert_opt_Forall (P : voption → Prop) x l : P x → Forall P l → Forall P (insert_opt x l).
Proof.
  intros Hx. induction 1 as [|y l Hy Hl IH]; simpl; [repeat constructor; exact Hx|].
  destruct (o_votes y <? o_votes x); repeat constructor; assumption.
Qed.
Lemma insert_opt_nonempty x l : insert_opt x l ≠ [].
Proof. destruct l as [|y l]; simpl; [discriminate|]. destruct (o_votes y <? o_votes x); discriminate. Qed.

Lemma sort_opts_Forall (P : voption → Prop) l : Forall P l → Forall P (sort_opts l).
Proof.
  unfold sort_opts. intros H.
  assert (G : ∀ acc, Forall P acc → Forall P (foldl (λ acc x, insert_opt x acc) acc l)).
  { induction H as [|x l Hx Hl IH]; intros acc Ha; simpl; [exact Ha|].
    apply IH. apply insert_opt_Forall; assumption. }
  apply G. constructor.
Qed.
Lemma sort_opts_nonempty l : l ≠ [] → sort_opts l ≠ [].
Proof.
  unfold sort_opts. intros H.
  assert (G : ∀ l acc, acc ≠ [] → foldl (λ acc x, insert_opt x acc) acc l ≠ []).
  { clear. induction l as [|x l IH]; intros acc Ha; simpl; [exact Ha|]. apply IH. apply insert_opt_nonempty. }
  destruct l as [|x l]; [contradiction|]. simpl. apply G. discriminate.
Qed.

(* updateMajorOption: options[0] exists (ctrlers/gov/proposal: the slice index panics otherwise) *)
Lemma update_major_ok Q p : prop_ok Q p → ∃ p', update_major p = Ok p' ∧ prop_ok Q p'.
Proof.
  intros (Hne & Hopts & Hmaj). unfold update_major.
  pose proof (sort_opts_nonempty _ Hne) as Hs.
  destruct (sort_opts (p_options p)) as [|o os] eqn:Eo; [contradiction|].
  eexists. split; [reflexivity|]. split; [cbn; discriminate|]. split; cbn.
  - intros Ht. rewrite <- Eo. apply sort_opts_Forall. apply Hopts. exact Ht.
  - intros Ht o' Ho'. destruct (p_majority p <=? o_votes o).
    + injection Ho' as <-. specialize (Hopts Ht). apply (sort_opts_Forall _ _) in Hopts.
      rewrite Eo in Hopts. inversion Hopts; assumption.
    + apply Hmaj; assumption.
Qed.

(* ------------------------------------------------------------------ EndBlock: freezeProposals *)
Definition freeze_step (h : Z) (acc : res ledgers) (kp : hash * proposal) : res ledgers :=
  match acc with
  | Ok l =>
      let p := kp.2 in
      if p_end p <? h then
        match props l !! kp.1 with
        | None => Panic P_ENDBLOCK
        | Some _ =>
            let l1 := set_props l (delete kp.1 (props l)) in
            match update_major p with
            | Ok p' => match p_major p' with
                       | Some _ => Ok (set_fprops l1 (<[kp.1 := p']> (fprops l1)))
                       | None => Ok l1 end
            | Err e => Err e | Panic x => Panic x
            end
        end
      else Ok l
  | x => x end.
Lemma freeze_proposals_eq base l h :
  freeze_proposals base l h = foldl (freeze_step h) (Ok l) (sorted_items (props base)).
Proof. reflexivity. Qed.

Definition freeze_post (Q : params → Prop) (l l' : ledgers) : Prop :=
  accts l' = accts l ∧ dels l' = dels l ∧ frozen l' = frozen l ∧ rewards l' = rewards l ∧
  (∀ k p, props l' !! k = Some p → props l !! k = Some p) ∧
  (∀ k, is_Some (fprops l !! k) → is_Some (fprops l' !! k)) ∧
  (∀ k p, fprops l' !! k = Some p → fprops l !! k = Some p ∨ prop_ok Q p).

Lemma freeze_post_refl Q l : freeze_post Q l l.
Proof. repeat split; auto. Qed.
Lemma freeze_post_trans Q l1 l2 l3 : freeze_post Q l1 l2 → freeze_post Q l2 l3 → freeze_post Q l1 l3.
Proof.
  intros (A1 & B1 & C1 & D1 & E1 & F1 & G1) (A2 & B2 & C2 & D2 & E2 & F2 & G2).
  repeat split; try congruence; auto.
  intros k p H. destruct (G2 k p H) as [H'|H']; [auto|right; exact H'].
Qed.

Lemma freeze_fold Q h items : NoDup items.*1 → ∀ l,
  (∀ kp, kp ∈ items → is_Some (props l !! kp.1) ∧ prop_ok Q kp.2) →
  ∃ l', foldl (freeze_step h) (Ok l) items = Ok l' ∧ freeze_post Q l l'.
Proof.
  induction items as [|kp items IH]; intros Hnd l Hin; cbn [foldl].
  { exists l. split; [reflexivity|apply freeze_post_refl]. }
  apply NoDup_cons in Hnd as [Hnk Hnd]. cbn [fmap list_fmap] in Hnk.
  destruct (Hin kp (elem_of_list_here _ _)) as [[q Hq] Hok].
  assert (Hstep : ∃ l1, freeze_step h (Ok l) kp = Ok l1 ∧ freeze_post Q l l1 ∧
                        ∀ k, k ≠ kp.1 → props l1 !! k = props l !! k).
  { unfold freeze_step. destruct (p_end kp.2 <? h).
    2:{ exists l. split; [reflexivity|]. split; [apply freeze_post_refl|reflexivity]. }
    rewrite Hq. cbv zeta. destruct (update_major_ok Q kp.2 Hok) as (p' & -> & Hp').
    destruct (p_major p').
    - eexists. split; [reflexivity|]. split.
      + repeat split; cbn.
        * intros k p Hk. apply lookup_delete_Some in Hk. tauto.
        * intros k Hk. apply lookup_insert_is_Some'. right. exact Hk.
        * intros k p Hk. destruct (decide (k = kp.1)) as [->|Hne].
          -- rewrite lookup_insert in Hk. injection Hk as <-. right. exact Hp'.
          -- rewrite lookup_insert_ne in Hk by congruence. left. exact Hk.
      + intros k Hne. cbn. apply lookup_delete_ne. congruence.
    - eexists. split; [reflexivity|]. split.
      + repeat split; cbn; auto. intros k p Hk. apply lookup_delete_Some in Hk. tauto.
      + intros k Hne. cbn. apply lookup_delete_ne. congruence. }
  destruct Hstep as (l1 & -> & Hpost1 & Hother).
  destruct (IH Hnd l1) as (l' & E & Hpost').
  { intros kp' Hkp'. destruct (Hin kp' (elem_of_list_further _ _ _ Hkp')) as [Hs Hp]. split; [|exact Hp].
    rewrite Hother; [exact Hs|]. intros Heq. apply Hnk. rewrite <- Heq.
    apply elem_of_list_fmap. exists kp'. split; [reflexivity|exact Hkp']. }
  exists l'. split; [exact E|]. eapply freeze_post_trans; eassumption.
Qed.

(* ------------------------------------------------------------------ EndBlock: applyProposals *)
Definition apply_step (g : params) (h : Z) (acc : res (ledgers * option params)) (kp : hash * proposal)
  : res (ledgers * option params) :=
  match acc with
  | Ok (l, np) =>
      let p := kp.2 in
      if p_apply p <=? h then
        match fprops l !! kp.1 with
        | None => Panic P_ENDBLOCK
        | Some _ =>
            let l1 := set_fprops l (delete kp.1 (fprops l)) in
            match p_major p with
            | Some o =>
                if p_opttype p =? PROPOSAL_GOVPARAMS then
                  match o_params o with
                  | Some newp => let m := merge_params g newp in Ok (set_lparams l1 m, Some m)
                  | None => Panic P_ENDBLOCK
                  end
                else Ok (l1, np)
            | None => Ok (l1, np)
            end
        end
      else Ok (l, np)
  | x => x end.
Lemma apply_proposals_eq s base l h :
  apply_proposals s base l h = foldl (apply_step (gparams s) h) (Ok (l, newparams s)) (sorted_items (fprops base)).
Proof. reflexivity. Qed.

Definition apply_post (l l' : ledgers) : Prop :=
  accts l' = accts l ∧ dels l' = dels l ∧ frozen l' = frozen l ∧ rewards l' = rewards l ∧
  props l' = props l ∧ (∀ k p, fprops l' !! k = Some p → fprops l !! k = Some p).

Lemma apply_fold (Q R : params → Prop) g h items : NoDup items.*1 →
  (∀ newp, Q newp → R (merge_params g newp)) → ∀ l np,
  (∀ kp, kp ∈ items → is_Some (fprops l !! kp.1) ∧ prop_ok Q kp.2) →
  (∀ m, np = Some m → R m) →
  ∃ l' np', foldl (apply_step g h) (Ok (l, np)) items = Ok (l', np') ∧ apply_post l l' ∧
            (∀ m, np' = Some m → R m).
Proof.
  intros Hnd HQR. induction items as [|kp items IH]; intros l np Hin Hnp; cbn [foldl].
  { exists l, np. split; [reflexivity|]. split; [repeat split; auto|exact Hnp]. }
  apply NoDup_cons in Hnd as [Hnk Hnd]. cbn [fmap list_fmap] in Hnk.
  destruct (Hin kp (elem_of_list_here _ _)) as [[q Hq] (_ & _ & Hmaj)].
  assert (Hstep : ∃ l1 np1, apply_step g h (Ok (l, np)) kp = Ok (l1, np1) ∧ apply_post l l1 ∧
                        (∀ m, np1 = Some m → R m) ∧ ∀ k, k ≠ kp.1 → fprops l1 !! k = fprops l !! k).
  { unfold apply_step. destruct (p_apply kp.2 <=? h).
    2:{ exists l, np. split; [reflexivity|]. split; [repeat split; auto|]. split; [exact Hnp|reflexivity]. }
    rewrite Hq. cbv zeta.
    assert (Hdel : apply_post l (set_fprops l (delete kp.1 (fprops l)))).
    { repeat split; cbn; auto. intros k p Hk. apply lookup_delete_Some in Hk. tauto. }
    assert (Hne : ∀ k, k ≠ kp.1 → delete kp.1 (fprops l) !! k = fprops l !! k).
    { intros k Hk. apply lookup_delete_ne. congruence. }
    destruct (p_major kp.2) as [o|] eqn:Em.
    2:{ eexists _, _. split; [reflexivity|]. split; [exact Hdel|]. split; [exact Hnp|exact Hne]. }
    destruct (Z.eqb_spec (p_opttype kp.2) PROPOSAL_GOVPARAMS) as [Et|Et].
    2:{ eexists _, _. split; [reflexivity|]. split; [exact Hdel|]. split; [exact Hnp|exact Hne]. }
    destruct (Hmaj Et o eq_refl) as (newp & -> & HQ).
    eexists _, _. split; [reflexivity|]. split; [exact Hdel|]. split; [|exact Hne].
    intros m Hm. injection Hm as <-. apply HQR. exact HQ. }
  destruct Hstep as (l1 & np1 & -> & Hpost1 & Hnp1 & Hother).
  destruct (IH Hnd l1 np1) as (l' & np' & E & Hpost' & Hnp'); [|exact Hnp1|].
  { intros kp' Hkp'. destruct (Hin kp' (elem_of_list_further _ _ _ Hkp')) as [Hs Hp]. split; [|exact Hp].
    rewrite Hother; [exact Hs|]. intros Heq. apply Hnk. rewrite <- Heq.
    apply elem_of_list_fmap. exists kp'. split; [reflexivity|exact Hkp']. }
  exists l', np'. split; [exact E|]. split; [|exact Hnp'].
  destruct Hpost1 as (A1 & B1 & C1 & D1 & E1 & F1). destruct Hpost' as (A2 & B2 & C2 & D2 & E2 & F2).
  repeat split; try congruence. auto.
Qed.

(* ------------------------------------------------------------------ EndBlock: unfreezingStakes *)
Definition accts_mono (A A' : gmap addr account) : Prop := ∀ a, is_Some (A !! a) → is_Some (A' !! a).
Lemma accts_mono_refl A : accts_mono A A.  Proof. intros a H. exact H. Qed.
Lemma accts_mono_trans A B C : accts_mono A B → accts_mono B C → accts_mono A C.
Proof. intros H1 H2 a H. auto. Qed.
Lemma accts_mono_insert A a x : accts_mono A (<[a := x]> A).
Proof. intros b H. apply lookup_insert_is_Some'. right. exact H. Qed.

Lemma power_to_amount_pos p : (sign256 (power_to_amount p) <? 0) = false.
Proof.
  apply sign256_nonneg. unfold power_to_amount, mul256, wrap256.
  pose proof (Z.mod_pos_bound p two64 two64_pos) as Hm. pose proof apP_pos as Ha.
  pose proof two64_apP_lt_two255 as Hb. pose proof two256_double as Hd. pose proof two255_pos.
  rewrite Z.mod_small; nia.
Qed.

Definition unfreeze_step (h : Z) (acc : res ledgers) (kp : hash * stake) : res ledgers :=
  match acc with
  | Ok l =>
      let s0 := kp.2 in
      if s_refund s0 <=? h then
        match acct_reward l (s_from s0) (power_to_amount (s_power s0)) with
        | None => Panic P_ENDBLOCK
        | Some l1 => Ok (set_frozen l1 (delete kp.1 (frozen l1)))
        end
      else Ok l
  | x => x end.
Lemma unfreeze_eq base l h : unfreeze base l h = foldl (unfreeze_step h) (Ok l) (sorted_items (frozen base)).
Proof. reflexivity. Qed.

Definition unfreeze_post (l l' : ledgers) : Prop :=
  accts_mono (accts l) (accts l') ∧ dels l' = dels l ∧ rewards l' = rewards l ∧
  props l' = props l ∧ fprops l' = fprops l ∧
  (∀ k st, frozen l' !! k = Some st → frozen l !! k = Some st).

Lemma unfreeze_fold h items l :
  (∀ kp, kp ∈ items → is_Some (accts l !! s_from kp.2)) →
  ∃ l', foldl (unfreeze_step h) (Ok l) items = Ok l' ∧ unfreeze_post l l'.
Proof.
  intros Hin. apply (foldl_res_ok (unfreeze_step h) (unfreeze_post l)).
  2:{ split; [apply accts_mono_refl|]. repeat split; auto. }
  intros l1 kp Hkp (A & B & C & D & E & F). unfold unfreeze_step.
  destruct (s_refund kp.2 <=? h).
  2:{ exists l1. split; [reflexivity|]. repeat split; auto. }
  destruct (A _ (Hin kp Hkp)) as [x Hx]. unfold acct_reward. rewrite Hx. cbn [mbind option_bind].
  unfold add_balance. rewrite power_to_amount_pos. cbn [mbind option_bind].
  eexists. split; [reflexivity|]. split; [|repeat split; cbn; auto].
  - cbn. eapply accts_mono_trans; [exact A|apply accts_mono_insert].
  - intros k st Hk. apply lookup_delete_Some in Hk. apply F. tauto.
Qed.

(* ------------------------------------------------------------------ N2, EndBlock *)
(* the committed proposals are still in the working tree, and so are the frozen ones: only
   freezeProposals / applyProposals remove them, once per block *)
Definition keys_ok (s : state) : Prop :=
  (∀ k, is_Some (props (base_of s) !! k) → is_Some (props (work s) !! k)) ∧
  (∀ k, is_Some (fprops (base_of s) !! k) → is_Some (fprops (work s) !! k)).
(* the owner of every unbonding stake has an account (AcctCtrler.Reward on a missing account
   returns an error, which unfreezingStakes hands to EndBlock; node/app.go:530 panics on it) *)
Definition frozen_owned (A : gmap addr account) (l : ledgers) : Prop :=
  ∀ h st, frozen l !! h = Some st → is_Some (A !! s_from st).

Definition end_post (Q : params → Prop) (s s' : state) : Prop :=
  committed s' = committed s ∧ gparams s' = gparams s ∧ alldels s' = alldels s ∧ lim s' = lim s ∧
  bctx s' = bctx s ∧ last_height s' = last_height s ∧
  accts_mono (accts (work s)) (accts (work s')) ∧ dels (work s') = dels (work s) ∧
  rewards (work s') = rewards (work s) ∧
  (∀ k st, frozen (work s') !! k = Some st → frozen (work s) !! k = Some st) ∧
  (∀ k p, props (work s') !! k = Some p → props (work s) !! k = Some p) ∧
  (∀ k p, fprops (work s') !! k = Some p → fprops (work s) !! k = Some p ∨ prop_ok Q p).

Lemma end_block_ok (Q R : params → Prop) s :
  0 ≤ g_maxValidatorCnt (gparams s) → keys_ok s → gov_ok Q (base_of s) →
  frozen_owned (accts (work s)) (base_of s) →
  (∀ newp, Q newp → R (merge_params (gparams s) newp)) → (∀ m, newparams s = Some m → R m) →
  ∃ s' ups, end_block s = (s', Ok ups) ∧ end_post Q s s' ∧ (∀ m, newparams s' = Some m → R m).
Proof.
  intros Hmax [Hkp Hkf] [Hgp Hgf] Hfo HQR HR. unfold end_block.
  rewrite freeze_proposals_eq.
  destruct (freeze_fold Q (b_height (bctx s)) _ (sorted_items_nodup (props (base_of s))) (work s))
    as (l1 & -> & (A1 & B1 & C1 & D1 & E1 & F1 & G1)).
  { intros [k p] Hin. apply sorted_items_elem in Hin. cbn. split; [apply Hkp; eexists; exact Hin|].
    eapply Hgp. exact Hin. }
  rewrite apply_proposals_eq.
  destruct (apply_fold Q R (gparams s) (b_height (bctx s)) _ (sorted_items_nodup (fprops (base_of s))) HQR
              l1 (newparams s)) as (l2 & np & -> & (A2 & B2 & C2 & D2 & E2 & F2) & Hnp); [|exact HR|].
  { intros [k p] Hin. apply sorted_items_elem in Hin. cbn. split; [apply F1, Hkf; eexists; exact Hin|].
    eapply Hgf. exact Hin. }
  set (l3o := match b_proposer (bctx s) with Some pa => _ | None => Some l2 end).
  assert (H3 : ∃ l3, l3o = Some l3 ∧ accts_mono (accts l2) (accts l3) ∧ dels l3 = dels l2 ∧
                     frozen l3 = frozen l2 ∧ rewards l3 = rewards l2 ∧ props l3 = props l2 ∧ fprops l3 = fprops l2).
  { subst l3o. destruct (b_proposer (bctx s)) as [pa|].
    2:{ exists l2. split; [reflexivity|]. split; [apply accts_mono_refl|]. repeat split. }
    destruct (0 <? sign256 (b_feesum (bctx s))) eqn:Es.
    2:{ exists l2. split; [reflexivity|]. split; [apply accts_mono_refl|]. repeat split. }
    unfold add_balance. apply Z.ltb_lt in Es.
    destruct (sign256 (b_feesum (bctx s)) <? 0) eqn:Es'; [apply Z.ltb_lt in Es'; lia|].
    eexists. split; [reflexivity|]. split; [apply accts_mono_insert|]. repeat split. }
  destruct H3 as (l3 & -> & A3 & B3 & C3 & D3 & E3 & F3).
  rewrite unfreeze_eq.
  destruct (unfreeze_fold (b_height (bctx s)) (sorted_items (frozen (base_of s))) l3)
    as (l4 & -> & (A4 & B4 & C4 & D4 & E4 & F4)).
  { intros [k st] Hin. apply sorted_items_elem in Hin. cbn. apply A3. rewrite A2, A1. eapply Hfo. exact Hin. }
  destruct (g_maxValidatorCnt (gparams s) <? 0) eqn:Em; [apply Z.ltb_lt in Em; lia|].
  eexists _, _. split; [reflexivity|]. split; [|exact Hnp].
  unfold end_post. cbn. repeat split.
  - eapply accts_mono_trans; [|exact A4]. rewrite <- A1, <- A2. exact A3.
  - congruence.
  - congruence.
  - intros k st Hk. apply F4 in Hk. congruence.
  - intros k p Hk. apply E1. congruence.
  - intros k p Hk. rewrite E4, F3 in Hk. apply F2 in Hk. apply G1. exact Hk.
Qed.

(* Intended statement: under [state_ok s] plus ...; of [state_ok] only [0 ≤ g_maxValidatorCnt]
   is used (selectValidators slices allDelegatees[:maxValidatorCnt]) *)
Theorem end_block_never_panics s :
  0 ≤ g_maxValidatorCnt (gparams s) → keys_ok s → gov_ok (λ _, True) (base_of s) →
  frozen_owned (accts (work s)) (base_of s) →
  ∀ s' p, end_block s ≠ (s', Panic p).
Proof.
  intros Hmax Hk Hg Hf s' p H.
  destruct (end_block_ok (λ _, True) (λ _, True) s Hmax Hk Hg Hf) as (s1 & ups & E & _); [auto|auto|].
  rewrite E in H. discriminate.
Qed.
Print Assumptions end_block_never_panics.

(* ================================================================== N3: runs *)
(* a parameter document that keeps well-formed parameters well-formed when applied *)
Definition opt_ok (np : params) : Prop := ∀ cur, params_ok cur → params_ok (merge_params cur np).

(* hypotheses on transactions: the parse flag of a proposal payload is what the harness says it is
   (every option parsed), and the parameter documents keep the parameters in range *)
Definition payload_consistent (t : tx) : Prop :=
  match t_payload t with
  | PProposal _ _ _ _ opts parse_ok => parse_ok = true → Forall (λ o : N * option params, is_Some o.2) opts
  | _ => True end.
Definition proposal_params_ok (t : tx) : Prop :=
  match t_payload t with
  | PProposal _ _ _ _ opts _ => Forall (λ o : N * option params, ∀ np, o.2 = Some np → opt_ok np) opts
  | _ => True end.

Definition fr_owned (A : gmap addr account) (m : gmap hash stake) : Prop :=
  ∀ h st, m !! h = Some st → is_Some (A !! s_from st).
Definition dels_owned (A : gmap addr account) (m : gmap addr delegatee) : Prop :=
  ∀ a d st, m !! a = Some d → st ∈ d_stakes d → is_Some (A !! s_from st).
Definition owned (A : gmap addr account) (l : ledgers) : Prop := dels_owned A (dels l) ∧ fr_owned A (frozen l).

(* the part of the invariant that lives in the working ledgers *)
Definition W (h : Z) (l : ledgers) : Prop := gov_ok opt_ok l ∧ owned (accts l) l ∧ RH h l.
Definition grows (l l' : ledgers) : Prop :=
  accts_mono (accts l) (accts l') ∧ (∀ k, is_Some (props l !! k) → is_Some (props l' !! k)) ∧
  (∀ k, is_Some (fprops l !! k) → is_Some (fprops l' !! k)).

Lemma grows_refl l : grows l l.
Proof. split; [apply accts_mono_refl|]. split; auto. Qed.
Lemma grows_trans l1 l2 l3 : grows l1 l2 → grows l2 l3 → grows l1 l3.
Proof.
  intros (A1 & B1 & C1) (A2 & B2 & C2). split; [eapply accts_mono_trans; eassumption|]. split; auto.
Qed.

Lemma owned_mono A A' l : accts_mono A A' → owned A l → owned A' l.
Proof.
  intros Hm [Hd Hf]. split.
  - intros a d st H1 H2. apply Hm. eapply Hd; eassumption.
  - intros h st H1. apply Hm. eapply Hf; eassumption.
Qed.

(* a step that touches accounts only *)
Lemma W_accts h l l' :
  props l' = props l → fprops l' = fprops l → dels l' = dels l → frozen l' = frozen l →
  rewards l' = rewards l → accts_mono (accts l) (accts l') → W h l → W h l' ∧ grows l l'.
Proof.
  intros Ep Ef Ed Efr Er Hm ([Hg1 Hg2] & Ho & Hr). split; [split; [|split]|].
  - split; [rewrite Ep; exact Hg1|rewrite Ef; exact Hg2].
  - apply (owned_mono _ _ _ Hm) in Ho. destruct Ho as [H1 H2]. split; [rewrite Ed; exact H1|rewrite Efr; exact H2].
  - unfold RH. rewrite Er. exact Hr.
  - split; [exact Hm|]. rewrite Ep, Ef. split; auto.
Qed.

Lemma W_set_acct h l a x : W h l → W h (set_acct l a x) ∧ grows l (set_acct l a x).
Proof. apply W_accts; try reflexivity. apply accts_mono_insert. Qed.

Lemma W_find_or_new h l a : W h l → W h (find_or_new l a).1 ∧ grows l (find_or_new l a).1.
Proof.
  intros H. unfold find_or_new. destruct (accts l !! a); cbn [fst].
  - split; [exact H|apply grows_refl].
  - apply W_set_acct. exact H.
Qed.

Lemma W_step h l l1 l2 : (W h l1 ∧ grows l l1) → (W h l1 → W h l2 ∧ grows l1 l2) → W h l2 ∧ grows l l2.
Proof. intros [H1 G1] H. destruct (H H1) as [H2 G2]. split; [exact H2|eapply grows_trans; eassumption]. Qed.

(* ------------------------------------------------------------------ the EVM path *)
Lemma evm_execute_W h l t l' gas : evm_execute l t = Ok (l', gas) → W h l → W h l' ∧ grows l l'.
Proof.
  unfold evm_execute. intros H Hw. destruct (t_evm t) as [e|]; [|discriminate].
  destruct (negb (e_ok e)); [discriminate|]. injection H as <- _.
  match goal with |- context [foldl ?f l (e_accts e)] =>
    assert (H1 : W h (foldl f l (e_accts e)) ∧ grows l (foldl f l (e_accts e))) end.
  { apply (foldl_inv _ (λ x, W h x ∧ grows l x)); [|split; [exact Hw|apply grows_refl]].
    intros x [[a bal] nonce] _ Hx. eapply W_step; [exact Hx|]. apply W_set_acct. }
  destruct (e_created e) as [c|]; [|exact H1].
  eapply W_step; [exact H1|]. apply W_set_acct.
Qed.

(* ------------------------------------------------------------------ accounts *)
Lemma acct_execute_W h l t l' : acct_execute l t = Ok l' → W h l → W h l' ∧ grows l l'.
Proof.
  unfold acct_execute. intros H Hw.
  destruct (accts l !! t_from t) as [sender|]; [|discriminate].
  destruct (accts l !! t_to t) as [receiver|]; [|discriminate].
  destruct (t_type t =? TRX_TRANSFER).
  - destruct (sub_balance sender (t_amount t)) as [sender'|]; [|discriminate].
    destruct (add_balance _ (t_amount t)) as [recv'|]; [|discriminate]. injection H as <-.
    eapply W_step; [apply W_set_acct; exact Hw|]. apply W_set_acct.
  - destruct (t_payload t); try discriminate. injection H as <-. apply W_set_acct. exact Hw.
Qed.

(* ------------------------------------------------------------------ governance *)
Lemma option_ok_set_votes Q v o : option_ok Q o → option_ok Q (set_votes v o).
Proof. intros (np & H1 & H2). exists np. split; [exact H1|exact H2]. Qed.

Lemma alter_votes_nonempty (f : voption → voption) i os : os ≠ [] → alter f i os ≠ [].
Proof. intros H E. apply H. apply length_zero_iff_nil. rewrite <- (alter_length f os i), E. reflexivity. Qed.

Lemma cancel_vote_ok Q os v :
  (os ≠ [] → (cancel_vote os v).1 ≠ []) ∧ (Forall (option_ok Q) os → Forall (option_ok Q) (cancel_vote os v).1).
Proof.
  unfold cancel_vote. destruct (0 <=? v_choice v); cbn [fst]; [|split; auto]. split.
  - apply alter_votes_nonempty.
  - intros H. apply Forall_alter; [exact H|]. intros x _. apply option_ok_set_votes.
Qed.
Lemma do_vote_ok Q os v c :
  (os ≠ [] → (do_vote os v c).1 ≠ []) ∧ (Forall (option_ok Q) os → Forall (option_ok Q) (do_vote os v c).1).
Proof.
  unfold do_vote. destruct (0 <=? c); cbn [fst]; [|split; auto]. split.
  - apply alter_votes_nonempty.
  - intros H. apply Forall_alter; [exact H|]. intros x _. apply option_ok_set_votes.
Qed.

Lemma prop_vote_ok Q p a c p' : prop_vote p a c = Some p' → prop_ok Q p → prop_ok Q p'.
Proof.
  unfold prop_vote. intros H (Hne & Hopts & Hmaj).
  destruct (p_voters p !! a) as [v|]; [|discriminate]. cbn [mbind option_bind] in H.
  destruct (cancel_vote (p_options p) v) as [o1 v1] eqn:E1.
  destruct (do_vote o1 v1 c) as [o2 v2] eqn:E2. injection H as <-.
  pose proof (cancel_vote_ok Q (p_options p) v) as [N1 F1]. rewrite E1 in N1, F1. cbn [fst] in N1, F1.
  pose proof (do_vote_ok Q o1 v1 c) as [N2 F2]. rewrite E2 in N2, F2. cbn [fst] in N2, F2.
  split; [cbn; auto|]. split; cbn; [intros Ht; auto|exact Hmaj].
Qed.

Lemma gov_validate_proposal s t : gov_validate s t = None → t_type t = TRX_PROPOSAL →
  ∃ start period apply opttype opts flag, t_payload t = PProposal start period apply opttype opts flag ∧
    opts ≠ [] ∧ (opttype = PROPOSAL_GOVPARAMS → flag = true).
Proof.
  unfold gov_validate. intros H E4. rewrite E4 in H. cbn [Z.eqb TRX_PROPOSAL Pos.eqb] in H.
  destruct (negb (t_to t =? 0)%N); [discriminate|].
  destruct (negb (is_validator s (t_from t))); [discriminate|].
  destruct (t_payload t) as [| | |start period apply opttype opts flag| | |]; try discriminate.
  destruct (match props (work s) !! t_hash t with Some _ => true | None => false end); [discriminate|].
  destruct (start <=? _); [discriminate|].
  destruct (_ || _); [discriminate|].
  destruct ((opttype =? PROPOSAL_GOVPARAMS) && negb flag) eqn:Ef; [discriminate|].
  destruct (_ <? start); [discriminate|].
  destruct (_ || _); [discriminate|].
  destruct opts as [|o opts]; [discriminate|].
  eexists _, _, _, _, _, _. split; [reflexivity|]. split; [discriminate|].
  intros ->. rewrite Z.eqb_refl in Ef. destruct flag; [reflexivity|discriminate].
Qed.

Lemma gov_execute_W h s l t l' :
  gov_execute s l t = Ok l' →
  (t_type t = TRX_PROPOSAL → ∃ s1, gov_validate s1 t = None) →
  payload_consistent t → proposal_params_ok t →
  W h l → W h l' ∧ grows l l'.
Proof.
  unfold gov_execute. intros H Hv Hpc Hpp ([Hg1 Hg2] & Ho & Hr).
  ty_case t TRX_PROPOSAL E4.
  - destruct (Hv E4) as [s1 Hv1].
    destruct (gov_validate_proposal s1 t Hv1 E4) as (start & period & apply & opttype & opts & flag & Ep & Hne & Hfl).
    unfold payload_consistent in Hpc. unfold proposal_params_ok in Hpp. rewrite Ep in H, Hpc, Hpp.
    injection H as <-. split; [split; [|split]|].
    + split; [|exact Hg2]. cbn. intros k p Hk. apply lookup_insert_Some in Hk as [[_ <-]|[_ Hk]]; [|eapply Hg1; exact Hk].
      split; [cbn; destruct opts; [contradiction|discriminate]|]. split; cbn; [|discriminate].
      intros Ht. specialize (Hpc (Hfl Ht)). apply Forall_fmap.
      rewrite Forall_forall in Hpc, Hpp. apply Forall_forall. intros o Hin.
      destruct (Hpc o Hin) as [np Hnp]. exists np. cbn. split; [exact Hnp|]. apply (Hpp o Hin). exact Hnp.
    + exact Ho.
    + exact Hr.
    + split; [apply accts_mono_refl|]. split; [|auto]. cbn. intros k Hk. apply lookup_insert_is_Some'. right. exact Hk.
  - destruct (t_payload t) as [| | | |ph choice| |]; try discriminate.
    destruct (props l !! ph) as [q|] eqn:Eq; [|discriminate].
    destruct (prop_vote q (t_from t) choice) as [q'|] eqn:Ev; [|discriminate]. injection H as <-.
    split; [split; [|split]|].
    + split; [|exact Hg2]. cbn. intros k p Hk. apply lookup_insert_Some in Hk as [[_ <-]|[_ Hk]]; [|eapply Hg1; exact Hk].
      eapply prop_vote_ok; [exact Ev|]. eapply Hg1. exact Eq.
    + exact Ho.
    + exact Hr.
    + split; [apply accts_mono_refl|]. split; [|auto]. cbn. intros k Hk. apply lookup_insert_is_Some'. right. exact Hk.
Qed.

(* ------------------------------------------------------------------ staking *)
Lemma find_stake_elem h l s0 : find_stake h l = Some s0 → s0 ∈ l.
Proof.
  induction l as [|s r IH]; simpl; [discriminate|].
  destruct (s_hash s =? h)%N; [intros [= <-]; left|intros H; right; apply IH; exact H].
Qed.
Lemma remove_stake_elem h l st : st ∈ remove_stake h l → st ∈ l.
Proof.
  induction l as [|s r IH]; simpl; [auto|].
  destruct (s_hash s =? h)%N; [intros H; right; exact H|].
  intros H. apply elem_of_cons in H as [->|H]; [left|right; apply IH; exact H].
Qed.

Lemma freeze_all_owned A fr r ss :
  fr_owned A fr → (∀ st, st ∈ ss → is_Some (A !! s_from st)) → fr_owned A (freeze_all fr r ss).
Proof.
  unfold freeze_all. intros Hf Hs. apply (foldl_inv _ (fr_owned A)); [|exact Hf].
  intros m st Hin Hm h st' Hk. apply lookup_insert_Some in Hk as [[_ <-]|[_ Hk]]; [exact (Hs st Hin)|eapply Hm; exact Hk].
Qed.

Lemma stake_execute_W s l t l' :
  stake_execute s l t = Ok l' → W (b_height (bctx s)) l → W (b_height (bctx s)) l' ∧ grows l l'.
Proof.
  set (h := b_height (bctx s)). unfold stake_execute. fold h. intros H (Hg & [Hod Hof] & Hr).
  destruct (t_type t =? TRX_STAKING).
  { destruct (match dels l !! t_to t with Some d => Some d | None => _ end) as [d|] eqn:Ed; [|discriminate].
    destruct (accts l !! t_from t) as [sender|] eqn:Es; [|discriminate].
    destruct (sub_balance sender (t_amount t)) as [sender'|]; [|discriminate]. injection H as <-.
    assert (Hm : accts_mono (accts l) (<[t_from t := sender']> (accts l))) by apply accts_mono_insert.
    split; [split; [exact Hg|split; [|exact Hr]]|split; [exact Hm|split; auto]].
    split; cbn.
    - intros a d0 st Hk Hin. apply lookup_insert_Some in Hk as [[_ <-]|[_ Hk]].
      + cbn in Hin. apply elem_of_app in Hin as [Hin|Hin].
        * destruct (dels l !! t_to t) as [d'|] eqn:Ed'.
          -- injection Ed as <-. apply Hm. eapply Hod; eassumption.
          -- destruct (t_from t =? t_to t)%N; [|discriminate]. injection Ed as <-. cbn in Hin. inversion Hin.
        * apply elem_of_list_singleton in Hin as ->. cbn. rewrite lookup_insert. eexists; reflexivity.
      + apply Hm. eapply Hod; eassumption.
    - intros k st Hk. apply Hm. eapply Hof; exact Hk. }
  destruct (t_type t =? TRX_UNSTAKING).
  { destruct (dels l !! t_to t) as [d|] eqn:Ed; [|discriminate].
    destruct (t_payload t) as [|hs lo| | | | |]; try discriminate.
    destruct (find_stake hs (d_stakes d)) as [s0|] eqn:Ef; [|discriminate].
    destruct (negb (s_from s0 =? t_from t)%N); [discriminate|].
    pose proof (find_stake_elem _ _ _ Ef) as Hs0.
    assert (Hd1 : ∀ st, st ∈ d_stakes (del_stake d hs) → is_Some (accts l !! s_from st)).
    { intros st Hin. unfold del_stake in Hin. rewrite Ef in Hin. cbn in Hin.
      eapply Hod; [exact Ed|]. eapply remove_stake_elem. exact Hin. }
    set (fr1 := <[s_hash s0 := with_refund (h + g_lazyRewardBlocks (gparams s)) s0]> (frozen l)) in H.
    assert (Hfr1 : fr_owned (accts l) fr1).
    { intros k st Hk. apply lookup_insert_Some in Hk as [[_ <-]|[_ Hk]]; [exact (Hod _ _ _ Ed Hs0)|eapply Hof; exact Hk]. }
    destruct (if d_self (del_stake d hs) =? 0 then _ else _) as [d2 fr2] eqn:E2.
    assert (H2 : (∀ st, st ∈ d_stakes d2 → is_Some (accts l !! s_from st)) ∧ fr_owned (accts l) fr2).
    { destruct (d_self (del_stake d hs) =? 0).
      - cbn in E2. injection E2 as <- <-. split; [cbn; intros st Hin; inversion Hin|].
        apply freeze_all_owned; assumption.
      - injection E2 as <- <-. split; assumption. }
    destruct H2 as [Hd2 Hfr2].
    assert (G : grows l l').
    { destruct (d_total d2 =? 0); injection H as <-; (split; [apply accts_mono_refl|split; auto]). }
    split; [|exact G]. split; [|split].
    - destruct (d_total d2 =? 0); injection H as <-; exact Hg.
    - destruct (d_total d2 =? 0); injection H as <-; (split; cbn; [|exact Hfr2]).
      + intros a d0 st Hk Hin. apply lookup_delete_Some in Hk as [_ Hk]. eapply Hod; eassumption.
      + intros a d0 st Hk Hin. apply lookup_insert_Some in Hk as [[_ <-]|[_ Hk]]; [apply Hd2; exact Hin|eapply Hod; eassumption].
    - destruct (d_total d2 =? 0); injection H as <-; exact Hr. }
  destruct (t_payload t) as [| |req| | | |]; try discriminate.
  destruct (rewards l !! t_from t) as [r|] eqn:Er; [|discriminate].
  destruct (r_height r >? h); [discriminate|].
  unfold acct_reward in H. cbn [accts set_rewards] in H.
  destruct (accts l !! t_from t) as [x|]; [|discriminate]. cbn [mbind option_bind] in H.
  destruct (add_balance x req) as [x'|]; [|discriminate]. cbn [mbind option_bind] in H. injection H as <-.
  assert (Hm : accts_mono (accts l) (<[t_from t := x']> (accts l))) by apply accts_mono_insert.
  split; [split; [exact Hg|split]|split; [exact Hm|split; auto]].
  - apply (owned_mono _ _ _ Hm). split; assumption.
  - intros a r0 Hk. cbn in Hk. apply lookup_insert_Some in Hk as [[_ <-]|[_ Hk]]; [cbn; lia|eapply Hr; exact Hk].
Qed.

(* ------------------------------------------------------------------ the limiter stays sound *)
Lemma check_limit_lim_ok sl da dt diff sl' : check_limit sl da dt diff = Ok sl' → lim_ok sl → lim_ok sl'.
Proof.
  unfold check_limit. intros H Hl.
  destruct (lim_objs sl) as [objs|] eqn:Eo; [|injection H as <-; exact Hl].
  cbv zeta in H.
  destruct (negb (if diff <=? 0 then true else _)); [discriminate|].
  destruct (negb (_ =? dt)); [discriminate|].
  match type of H with (if ?c then _ else _) = _ => destruct c end; [discriminate|].
  destruct (lim_base sl =? 0); [discriminate|].
  match type of H with (if ?c then _ else _) = _ => destruct c end; [discriminate|].
  match type of H with (if ?c then _ else _) = _ => destruct c end; [discriminate|].
  injection H as <-. intros objs' _. cbn. exact (Hl objs Eo).
Qed.

Lemma stake_validate_lim_ok s1 t lim' : stake_validate s1 t = Ok lim' → lim_ok (lim s1) → lim_ok lim'.
Proof.
  intros H Hl. unfold stake_validate in H.
  destruct (t_type t =? TRX_STAKING).
  { destruct (_ <=? 0); [discriminate|]. destruct (negb _); [discriminate|].
    destruct (amount_to_power (t_amount t)) as [txp|]; [|discriminate].
    match type of H with match ?cs with Ok _ => _ | Err _ => _ | Panic _ => _ end = _ =>
      destruct cs as [total|e|p] end; try discriminate.
    destruct (wrap64 _ <=? 0); [discriminate|].
    destruct (3 <=? _); [eapply check_limit_lim_ok; eassumption|injection H as <-; exact Hl]. }
  destruct (t_type t =? TRX_UNSTAKING).
  { destruct (dels (work s1) !! t_to t) as [d|]; [|discriminate].
    destruct (t_payload t) as [|hs lo| | | | |]; try discriminate.
    destruct (negb lo); [discriminate|].
    destruct (find_stake hs (d_stakes d)) as [s0|]; [|discriminate].
    destruct (negb (s_from s0 =? t_from t)%N); [discriminate|].
    destruct (3 <=? _); [eapply check_limit_lim_ok; eassumption|injection H as <-; exact Hl]. }
  destruct (negb (t_amount t =? 0)); [discriminate|].
  destruct (t_payload t); try discriminate.
  destruct (rewards (work s1) !! t_from t) as [r|]; [|discriminate].
  destruct (r_cumulated r <? req); [discriminate|]. injection H as <-. exact Hl.
Qed.

Lemma validated_lim_ok s1 recv t lim' : validated s1 recv t = Ok lim' → lim_ok (lim s1) → lim_ok lim'.
Proof.
  intros H Hl. ty_case t TRX_STAKING E2.
  { rewrite (validated_stake _ _ _ (or_introl E2)) in H. eapply stake_validate_lim_ok; eassumption. }
  ty_case t TRX_UNSTAKING E3.
  { rewrite (validated_stake _ _ _ (or_intror (or_introl E3))) in H. eapply stake_validate_lim_ok; eassumption. }
  rewrite (validated_lim _ _ _ _ H E2 E3). exact Hl.
Qed.

(* ------------------------------------------------------------------ DeliverTx keeps the invariant *)
Lemma exec_native_W s1 recv lim' s2 t l' :
  validated s1 recv t = Ok lim' → exec_native s2 t = Ok l' → payload_consistent t → proposal_params_ok t →
  W (b_height (bctx s2)) (work s2) → W (b_height (bctx s2)) l' ∧ grows (work s2) l'.
Proof.
  intros Hv H Hpc Hpp Hw. unfold exec_native in H.
  destruct ((t_type t =? TRX_PROPOSAL) || (t_type t =? TRX_VOTING)).
  { eapply gov_execute_W; try eassumption. intros E4. exists s1. unfold validated in Hv. rewrite E4 in Hv.
    cbn [Z.eqb orb TRX_PROPOSAL Pos.eqb] in Hv. destruct (gov_validate s1 t); [discriminate|reflexivity]. }
  destruct ((t_type t =? TRX_TRANSFER) || (t_type t =? TRX_SETDOC)).
  { eapply acct_execute_W; eassumption. }
  eapply stake_execute_W; eassumption.
Qed.

Definition same_frame (s s' : state) : Prop :=
  committed s' = committed s ∧ gparams s' = gparams s ∧ newparams s' = newparams s ∧
  last_height s' = last_height s ∧ b_height (bctx s') = b_height (bctx s).
Lemma same_frame_refl s : same_frame s s.  Proof. repeat split. Qed.

Lemma deliver_inv s t :
  payload_consistent t → proposal_params_ok t →
  W (b_height (bctx s)) (work s) → lim_ok (lim s) →
  W (b_height (bctx s)) (work (deliver s t).1) ∧ grows (work s) (work (deliver s t).1) ∧
  lim_ok (lim (deliver s t).1) ∧ same_frame s (deliver s t).1.
Proof.
  intros Hpc Hpp Hw Hl. set (h := b_height (bctx s)) in *. rewrite deliver_eq.
  destruct (accts (work s) !! t_from t) as [sender|] eqn:Hs.
  2:{ cbn [fst]. split; [exact Hw|]. split; [apply grows_refl|]. split; [exact Hl|apply same_frame_refl]. }
  cbv zeta.
  assert (Hpre : W h (work (pre s t)) ∧ grows (work s) (work (pre s t))).
  { unfold pre. cbn [work with_work]. apply W_find_or_new. exact Hw. }
  assert (Rpre : W h (work (pre s t)) ∧ grows (work s) (work (pre s t)) ∧ lim_ok (lim (pre s t)) ∧ same_frame s (pre s t)).
  { destruct Hpre as [H1 H2]. split; [exact H1|]. split; [exact H2|]. split; [exact Hl|repeat split]. }
  destruct (common_validation0 (gparams s) t); [exact Rpre|].
  destruct (common_validation1 sender t); [exact Rpre|].
  destruct (validated (pre s t) (receiver_of s t) t) as [lim'|ev|pv] eqn:Hv; [|exact Rpre|exact Rpre].
  pose proof (validated_lim_ok _ _ _ _ Hv Hl) as Hl'.
  set (s2 := with_lim (pre s t) lim').
  assert (R2 : W h (work s2) ∧ grows (work s) (work s2) ∧ lim_ok (lim s2) ∧ same_frame s s2).
  { destruct Hpre as [H1 H2]. split; [exact H1|]. split; [exact H2|]. split; [exact Hl'|repeat split]. }
  unfold finish. destruct (evm_path s t).
  - destruct (evm_execute (work s2) t) as [[l' gas]|e'|p'] eqn:Ex; [|exact R2|exact R2].
    cbn [fst]. destruct Hpre as [H1 H2].
    destruct (evm_execute_W h _ _ _ _ Ex H1) as [H3 H4].
    split; [exact H3|]. split; [eapply grows_trans; eassumption|]. split; [exact Hl'|repeat split].
  - destruct (exec_native s2 t) as [l'|e'|p'] eqn:Ex; [|exact R2|exact R2].
    destruct Hpre as [H1 H2].
    destruct (exec_native_W _ _ _ s2 t l' Hv Ex Hpc Hpp H1) as [H3 H4].
    unfold post_native. destruct (accts l' !! t_from t) as [snd'|]; [|exact R2].
    destruct (sub_balance snd' (fee_of t)) as [snd''|].
    + cbn [fst]. destruct (W_set_acct h l' (t_from t) (add_nonce snd'') H3) as [H5 H6].
      split; [exact H5|]. split; [eapply grows_trans; [exact H2|eapply grows_trans; eassumption]|].
      split; [exact Hl'|repeat split].
    + cbn [fst]. split; [exact H3|]. split; [eapply grows_trans; eassumption|]. split; [exact Hl'|repeat split].
Qed.

(* ------------------------------------------------------------------ BeginBlock keeps the invariant *)
Lemma prop_punish_ok Q p a ratio : prop_ok Q p → prop_ok Q (prop_punish p a ratio).1.
Proof.
  intros (Hne & Hopts & Hmaj). unfold prop_punish.
  destruct (p_voters p !! a) as [v|]; [|split; [exact Hne|split; assumption]].
  destruct (cancel_vote (p_options p) v) as [o1 v1] eqn:E1.
  pose proof (cancel_vote_ok Q (p_options p) v) as [N1 F1]. rewrite E1 in N1, F1. cbn [fst] in N1, F1.
  cbv zeta.
  match goal with |- context [if ?c then (delete a (p_voters p), o1) else _] => destruct c end.
  { cbn. split; [auto|]. split; cbn; [auto|exact Hmaj]. }
  destruct (0 <=? v_choice v).
  - match goal with |- context [do_vote o1 ?v2 ?c] =>
      destruct (do_vote o1 v2 c) as [o' v'] eqn:E2; pose proof (do_vote_ok Q o1 v2 c) as [N2 F2] end.
    rewrite E2 in N2, F2. cbn [fst] in N2, F2.
    cbn. split; [auto|]. split; cbn; [auto|exact Hmaj].
  - cbn. split; [auto|]. split; cbn; [auto|exact Hmaj].
Qed.

(* what a step that touches proposals only has to show *)
Lemma W_props h l l' :
  accts l' = accts l → dels l' = dels l → frozen l' = frozen l → rewards l' = rewards l → fprops l' = fprops l →
  (∀ k, is_Some (props l !! k) → is_Some (props l' !! k)) →
  (∀ k p, props l' !! k = Some p → prop_ok opt_ok p) →
  W h l → W h l' ∧ grows l l'.
Proof.
  intros Ea Ed Efr Er Ef Hk Hp ([Hg1 Hg2] & [Ho1 Ho2] & Hr). split; [split; [|split]|].
  - split; [exact Hp|rewrite Ef; exact Hg2].
  - unfold owned. rewrite Ea, Ed, Efr. split; assumption.
  - unfold RH. rewrite Er. exact Hr.
  - split; [rewrite Ea; apply accts_mono_refl|]. split; [exact Hk|rewrite Ef; auto].
Qed.

Lemma gov_punish_W h l ratio evi :
  W h l → W h (gov_punish l ratio evi) ∧ grows l (gov_punish l ratio evi) ∧ accts (gov_punish l ratio evi) = accts l.
Proof.
  intros Hw. unfold gov_punish.
  apply (foldl_inv _ (λ x, W h x ∧ grows l x ∧ accts x = accts l)); [|split; [exact Hw|split; [apply grows_refl|reflexivity]]].
  intros x a _ Hx.
  apply (foldl_inv _ (λ y, W h y ∧ grows l y ∧ accts y = accts l)); [|exact Hx].
  intros y kp _ (Hy & Gy & Ay). destruct (props y !! kp.1) as [p|] eqn:Ep; [|split; [exact Hy|split; assumption]].
  destruct (W_props h y (set_props y (<[kp.1 := (prop_punish p a ratio).1]> (props y)))) as [H1 H2];
    try reflexivity; [| |exact Hy|].
  - cbn. intros k Hk. apply lookup_insert_is_Some'. right. exact Hk.
  - cbn. intros k q Hk. destruct Hy as ([Hg1 _] & _).
    apply lookup_insert_Some in Hk as [[_ <-]|[_ Hk]]; [apply prop_punish_ok; eapply Hg1; exact Ep|eapply Hg1; exact Hk].
  - split; [exact H1|]. split; [eapply grows_trans; eassumption|exact Ay].
Qed.

Lemma elem_of_map {A B} (f : A → B) l y : y ∈ map f l → ∃ x, y = f x ∧ x ∈ l.
Proof.
  induction l as [|x l IH]; simpl; intros H; [inversion H|].
  apply elem_of_cons in H as [->|H]; [exists x; split; [reflexivity|left]|].
  destruct (IH H) as (x' & E & Hin). exists x'. split; [exact E|right; exact Hin].
Qed.

Lemma slash_all_from d ratio st :
  st ∈ d_stakes (slash_all d ratio).1 → ∃ st0, st0 ∈ d_stakes d ∧ s_from st = s_from st0.
Proof.
  unfold slash_all. cbn [fst d_stakes]. intros H.
  match type of H with st ∈ foldl ?f ?slashed ?removing =>
    assert (Hs : ∀ x, x ∈ foldl f slashed removing → x ∈ slashed) end.
  { apply (foldl_inv _ (λ l, ∀ x, x ∈ l → x ∈ _)); [|auto].
    intros l s0 _ Hl x Hx. apply Hl. eapply remove_stake_elem. exact Hx. }
  apply Hs in H. apply elem_of_map in H as (st0 & E & Hin). exists st0. split; [exact Hin|].
  rewrite E. destruct (_ <? 1); reflexivity.
Qed.

(* a step that touches delegatees and frozen stakes only *)
Lemma W_stakes h l l' :
  accts l' = accts l → rewards l' = rewards l → props l' = props l → fprops l' = fprops l →
  owned (accts l) l' → W h l → W h l' ∧ grows l l'.
Proof.
  intros Ea Er Ep Ef Ho ([Hg1 Hg2] & _ & Hr). split; [split; [|split]|].
  - split; [rewrite Ep; exact Hg1|rewrite Ef; exact Hg2].
  - rewrite Ea. exact Ho.
  - unfold RH. rewrite Er. exact Hr.
  - split; [rewrite Ea; apply accts_mono_refl|]. rewrite Ep, Ef. split; auto.
Qed.

Lemma stake_punish_W h l ratio evi :
  W h l → W h (stake_punish l ratio evi) ∧ grows l (stake_punish l ratio evi) ∧ accts (stake_punish l ratio evi) = accts l.
Proof.
  intros Hw. unfold stake_punish.
  apply (foldl_inv _ (λ x, W h x ∧ grows l x ∧ accts x = accts l)); [|split; [exact Hw|split; [apply grows_refl|reflexivity]]].
  intros x a _ (Hx & Gx & Ax). destruct (dels x !! a) as [d|] eqn:Ed; [|split; [exact Hx|split; assumption]].
  destruct (W_stakes h x (set_dels x (<[a := (slash_all d ratio).1]> (dels x)))) as [H1 H2];
    try reflexivity; [|exact Hx|].
  - destruct Hx as (_ & [Ho1 Ho2] & _). split; [|exact Ho2]. cbn. intros b d0 st Hk Hin.
    apply lookup_insert_Some in Hk as [[_ <-]|[_ Hk]]; [|eapply Ho1; eassumption].
    apply slash_all_from in Hin as (st0 & Hin0 & ->). eapply Ho1; eassumption.
  - split; [exact H1|]. split; [eapply grows_trans; eassumption|exact Ax].
Qed.

Lemma vote_step_W g old h l issued v : 0 ≤ h → W h l →
  ∃ l' issued', vote_step g old h (Ok (l, issued)) v = Ok (l', issued') ∧ W h l' ∧ grows l l' ∧ accts l' = accts l.
Proof.
  intros Hh Hw. pose proof Hw as ([Hg1 Hg2] & [Ho1 Ho2] & Hr).
  destruct (vote_step_ok g old h l issued v Hh Hr) as (l' & i' & E & Hr' & Ea & Ep & Ef & _ & Hcase).
  exists l', i'. split; [exact E|].
  assert (G : grows l l').
  { split; [rewrite Ea; apply accts_mono_refl|]. rewrite Ep, Ef. split; auto. }
  split; [|split; [exact G|exact Ea]].
  split; [split; [rewrite Ep; exact Hg1|rewrite Ef; exact Hg2]|]. split; [|exact Hr'].
  unfold owned. rewrite Ea. destruct Hcase as [[Ed Efr]|(_ & a & d & m2 & _ & Hd & [[Ed Efr]|[Ed Efr]])].
  - rewrite Ed, Efr. split; assumption.
  - rewrite Ed, Efr. split; [|exact Ho2]. intros b d0 st Hk Hin.
    apply lookup_insert_Some in Hk as [[_ <-]|[_ Hk]]; [cbn in Hin|]; eapply Ho1; eassumption.
  - rewrite Ed, Efr. split.
    + intros b d0 st Hk Hin. apply lookup_delete_Some in Hk as [_ Hk]. eapply Ho1; eassumption.
    + apply freeze_all_owned; [exact Ho2|]. intros st Hin. eapply Ho1; eassumption.
Qed.

(* the limiter BeginBlock builds: every eligible delegatee has power *)
Definition self_le_total (l : ledgers) : Prop := ∀ a d, dels l !! a = Some d → d_self d ≤ d_total d.

Lemma min_power_pos g : params_ok g → 1 ≤ min_power g.
Proof.
  intros Hg. unfold min_power, power_of. rewrite (params_ok_minval _ Hg). cbn [default].
  destruct Hg as (_ & _ & _ & _ & _ & Hv & _). apply Z.div_le_lower_bound; [exact apP_pos|lia].
Qed.

Lemma sumZ_with_nonneg {A} (f : A → Z) l : (∀ x, x ∈ l → 0 ≤ f x) → 0 ≤ sumZ_with f l.
Proof.
  induction l as [|x l IH]; intros H; cbn; [lia|].
  assert (0 ≤ f x) by (apply H; left).
  assert (0 ≤ sumZ_with f l) by (apply IH; intros y Hy; apply H; right; exact Hy).
  unfold sumZ_with in *. lia.
Qed.

Lemma limiter_reset_ok g base :
  params_ok g → self_le_total base →
  lim_ok (limiter_reset (sort_power (List.filter (λ d, min_power g <=? d_self d) (snd <$> sorted_items (dels base)))) g).
Proof.
  intros Hg Hb. set (all := sort_power _).
  assert (Hall : ∀ d, d ∈ all → 1 ≤ d_total d).
  { intros d Hd. unfold all, sort_power in Hd. rewrite merge_sort_Permutation in Hd.
    apply elem_of_list_In, filter_In in Hd as [Hin Hle]. apply elem_of_list_In in Hin.
    apply elem_of_list_fmap in Hin as ([k d'] & -> & Hin). apply sorted_items_elem in Hin. cbn.
    apply Z.leb_le in Hle. cbn in Hle. pose proof (min_power_pos _ Hg). specialize (Hb _ _ Hin). lia. }
  intros objs Ho. unfold limiter_reset in *. cbn [lim_objs lim_base lim_maxcnt] in *.
  destruct Hg as (_ & _ & _ & _ & Hmax & _). split; [|exact Hmax].
  destruct all as [|d ds]; [discriminate|].
  destruct (Z.to_nat (g_maxValidatorCnt g)) as [|n] eqn:En; [lia|].
  cbn [take sumZ_with foldr]. assert (1 ≤ d_total d) by (apply Hall; left).
  assert (0 ≤ sumZ_with d_total (take n ds)).
  { apply sumZ_with_nonneg. intros x Hx. apply elem_of_take in Hx as (i & Hi & _).
    apply elem_of_list_lookup_2 in Hi. assert (1 ≤ d_total x) by (apply Hall; right; exact Hi). lia. }
  unfold sumZ_with in *. lia.
Qed.

Lemma begin_block_inv s hd :
  h_height hd = last_height s + 1 → (h_votes hd ≠ [] → committed s ≠ []) →
  params_ok (gparams s) → heights_ok s → self_le_total (base_of s) →
  W (b_height (bctx s)) (work s) →
  let s' := (begin_block s hd).1 in
  (∃ iss, (begin_block s hd).2 = Ok iss) ∧
  W (h_height hd) (work s') ∧ grows (work s) (work s') ∧ lim_ok (lim s') ∧
  committed s' = committed s ∧ gparams s' = gparams s ∧ newparams s' = newparams s ∧
  last_height s' = last_height s ∧ b_height (bctx s') = h_height hd.
Proof.
  intros Hh Hvotes Hg (H0 & Hb & Hc) Hbase Hw. cbv zeta. unfold begin_block.
  rewrite Hh, Z.eqb_refl. cbn [negb]. rewrite <- Hh.
  assert (Hw0 : W (h_height hd) (work s)).
  { destruct Hw as (A & B & C). split; [exact A|]. split; [exact B|]. intros a r Hr. apply C in Hr. lia. }
  destruct (gov_punish_W (h_height hd) (work s) (g_slashRatio (gparams s)) (h_evidence hd) Hw0) as (W1 & G1 & A1).
  destruct (stake_punish_W (h_height hd) _ (g_slashRatio (gparams s)) (h_evidence hd) W1) as (W2 & G2 & A2).
  pose proof (grows_trans _ _ _ G1 G2) as G12.
  pose proof (limiter_reset_ok (gparams s) (base_of s) Hg Hbase) as Hlim.
  destruct (h_votes hd) as [|v vs] eqn:Ev.
  { cbn. split; [eexists; reflexivity|]. split; [exact W2|]. split; [exact G12|]. split; [exact Hlim|]. repeat split. }
  rewrite process_votes_eq.
  assert (Hlen : 1 ≤ Z.of_nat (length (committed s))).
  { destruct (committed s); [exfalso; apply Hvotes; [discriminate|reflexivity]|cbn; lia]. }
  match goal with |- context [ledgers_at ?s1 ?n] => destruct (ledgers_at_some s1 n) as [old Eo] end.
  { cbn [committed]. apply hgt_of_power_le; lia. }
  rewrite Eo. cbn [gparams].
  match goal with |- context [foldl ?f (Ok (?l, 0)) ?vs] =>
    destruct (foldl_res_ok f (λ x, W (h_height hd) x.1 ∧ grows l x.1) vs) with (a := (l, 0))
      as ([l3 iss] & E & W3 & G3) end.
  - intros [l issued] v0 _ [Hl Gl]. cbn [fst] in Hl, Gl.
    destruct (vote_step_W (gparams s) old (h_height hd) l issued v0) as (l' & i' & E & Hl' & Gl' & _); [lia|exact Hl|].
    exists (l', i'). split; [exact E|]. cbn [fst]. split; [exact Hl'|eapply grows_trans; eassumption].
  - cbn [fst]. split; [exact W2|apply grows_refl].
  - rewrite E. cbn [fst snd] in *. split; [eexists; reflexivity|]. split; [exact W3|].
    split; [eapply grows_trans; eassumption|]. split; [exact Hlim|]. repeat split.
Qed.

(* ------------------------------------------------------------------ the run invariant *)
Inductive phase := Idle | InBlock | Ended.

(* facts this file maintains by itself *)
Definition core (s : state) : Prop :=
  params_ok (gparams s) ∧ (∀ m, newparams s = Some m → params_ok m) ∧
  W (b_height (bctx s)) (work s) ∧ lim_ok (lim s) ∧
  gov_ok opt_ok (base_of s) ∧ fr_owned (accts (work s)) (frozen (base_of s)) ∧ self_le_total (base_of s).

Definition phase_inv (ph : phase) (n : Z) (s : state) : Prop :=
  core s ∧ 0 ≤ n ∧ last_height s = n ∧ Z.of_nat (length (committed s)) = n ∧
  match ph with
  | Idle => b_height (bctx s) = n ∧ keys_ok s
  | InBlock => b_height (bctx s) = n + 1 ∧ keys_ok s
  | Ended => b_height (bctx s) = n + 1
  end.

(* facts taken from the stake-bookkeeping (C11) and supply (C02) properties: bonded totals are the
   sums of non-negative stake powers, and the supply stays below 2^63 RIGO *)
Definition ext_ok (s : state) : Prop :=
  supply_small (work s) ∧ totals_nonneg (work s) ∧ self_le_total (work s).

Lemma core_state_ok s : core s → ext_ok s → state_ok s.
Proof.
  intros (Hg & _ & (_ & _ & Hr) & Hl & _) (Hs & Ht & _).
  split; [exact Hg|]. split; [exact Hs|]. split; [exact Ht|]. split; [exact Hl|exact Hr].
Qed.

Lemma base_of_same s s' : committed s' = committed s → gparams s' = gparams s → base_of s' = base_of s.
Proof. intros E1 E2. unfold base_of. rewrite E1, E2. reflexivity. Qed.
Lemma base_of_commit s : base_of (commit s) = work s.
Proof. unfold base_of, commit. cbn [committed]. rewrite last_snoc. reflexivity. Qed.

Lemma keys_ok_grows s s' : base_of s' = base_of s → grows (work s) (work s') → keys_ok s → keys_ok s'.
Proof. intros Eb (_ & Gp & Gf) [Kp Kf]. unfold keys_ok. rewrite Eb. split; auto. Qed.

Lemma fr_owned_mono A A' m : accts_mono A A' → fr_owned A m → fr_owned A' m.
Proof. intros Hm H h st Hk. apply Hm. eapply H. exact Hk. Qed.

(* ------------------------------------------------------------------ genesis *)
Definition all_empty (l : ledgers) : Prop :=
  frozen l = ∅ ∧ rewards l = ∅ ∧ props l = ∅ ∧ fprops l = ∅.

Lemma init_fold_accts (vals : list (addr * Z)) : ∀ l,
  let l' := foldl (λ l v, (find_or_new l v.1).1) l vals in
  (∀ v, v ∈ vals → is_Some (accts l' !! v.1)) ∧ accts_mono (accts l) (accts l') ∧
  dels l' = dels l ∧ (all_empty l → all_empty l').
Proof.
  induction vals as [|v vals IH]; intros l; cbn [foldl].
  { split; [intros v Hv; inversion Hv|]. split; [apply accts_mono_refl|]. split; [reflexivity|auto]. }
  destruct (IH (find_or_new l v.1).1) as (H1 & H2 & H3 & H4). cbv zeta in *.
  assert (Hm : accts_mono (accts l) (accts (find_or_new l v.1).1)).
  { unfold find_or_new. destruct (accts l !! v.1); cbn; [apply accts_mono_refl|apply accts_mono_insert]. }
  split; [|split; [eapply accts_mono_trans; eassumption|split]].
  - intros v' Hv'. apply elem_of_cons in Hv' as [->|Hv']; [|apply H1; exact Hv'].
    apply H2. rewrite find_or_new_lookup. eexists; reflexivity.
  - rewrite H3. apply find_or_new_dels.
  - intros He. apply H4. unfold find_or_new. destruct (accts l !! v.1); exact He.
Qed.

Lemma init_chain_inv g : params_ok (gen_params g) → phase_inv Idle 0 (init_chain g).
Proof.
  intros Hg. unfold init_chain.
  set (l1 := foldl (λ l h, set_acct l h.1 _) (empty_ledgers (gen_params g)) (gen_holders g)).
  assert (H1 : dels l1 = ∅ ∧ all_empty l1).
  { apply (foldl_inv _ (λ l, dels l = ∅ ∧ all_empty l)); [|repeat split].
    intros l h _ Hl. exact Hl. }
  destruct (init_fold_accts (gen_validators g) l1) as (A2 & _ & D2 & E2). cbv zeta in *.
  set (l2 := foldl (λ l v, (find_or_new l v.1).1) l1 (gen_validators g)) in *.
  destruct H1 as [D1 E1]. specialize (E2 E1). rewrite D1 in D2.
  set (l3 := foldl _ l2 (gen_validators g)).
  assert (H3 : accts l3 = accts l2 ∧ all_empty l3 ∧
               ∀ a d st, dels l3 !! a = Some d → st ∈ d_stakes d → ∃ v, v ∈ gen_validators g ∧ s_from st = v.1).
  { apply (foldl_inv _ (λ l, accts l = accts l2 ∧ all_empty l ∧
             ∀ a d st, dels l !! a = Some d → st ∈ d_stakes d → ∃ v, v ∈ gen_validators g ∧ s_from st = v.1)).
    - intros l v Hv (Ha & He & Hd). split; [exact Ha|]. split; [exact He|]. cbn.
      intros a d st Hk Hin. apply lookup_insert_Some in Hk as [[_ <-]|[_ Hk]]; [|eapply Hd; eassumption].
      cbn in Hin. apply elem_of_list_singleton in Hin as ->. exists v. split; [exact Hv|reflexivity].
    - split; [reflexivity|]. split; [exact E2|]. intros a d st Hk. rewrite D2, lookup_empty in Hk. discriminate. }
  destruct H3 as (A3 & (F3 & R3 & P3 & FP3) & S3).
  split; [|cbn; repeat split; try lia; intros k [x Hx]; cbn in Hx; rewrite lookup_empty in Hx; discriminate].
  split; [exact Hg|]. split; [cbn; discriminate|]. cbn [work bctx b_height lim base_of committed last default gparams].
  split; [|split; [intros objs Ho; discriminate|]].
  - split; [split; intros k p Hk; [rewrite P3 in Hk|rewrite FP3 in Hk]; rewrite lookup_empty in Hk; discriminate|].
    split; [split|].
    + intros a d st Hk Hin. destruct (S3 a d st Hk Hin) as (v & Hv & ->). rewrite A3. apply A2. exact Hv.
    + intros h st Hk. rewrite F3, lookup_empty in Hk. discriminate.
    + intros a r Hk. rewrite R3, lookup_empty in Hk. discriminate.
  - split; [split; intros k p Hk; cbn in Hk; rewrite lookup_empty in Hk; discriminate|].
    split; [intros h st Hk; cbn in Hk; rewrite lookup_empty in Hk; discriminate|].
    intros a d Hk. cbn in Hk. rewrite lookup_empty in Hk. discriminate.
Qed.

(* ------------------------------------------------------------------ runs *)
Definition tx_ok (t : tx) : Prop := tx_wf t ∧ payload_kind_ok t ∧ payload_consistent t ∧ proposal_params_ok t.

(* Begin, Deliver*, End, Commit; block n+1 follows block n; the first block carries no votes *)
Fixpoint bracketed (ph : phase) (n : Z) (ops : list sop) : Prop :=
  match ops with
  | [] => True
  | o :: r =>
      match ph, o with
      | Idle, SBegin hd => h_height hd = n + 1 ∧ (h_votes hd ≠ [] → 1 ≤ n) ∧ bracketed InBlock n r
      | InBlock, SDeliver t => tx_ok t ∧ bracketed InBlock n r
      | InBlock, SEnd => bracketed Ended n r
      | Ended, SCommit => bracketed Idle (n + 1) r
      | _, _ => False
      end
  end.

Fixpoint ext_along (s : state) (ops : list sop) : Prop :=
  ext_ok s ∧ match ops with [] => True | o :: r => ext_along (sstep s o) r end.

(* BeginBlock and EndBlock succeed (any error there makes node/app.go panic); DeliverTx answers *)
Definition step_answers (s : state) (o : sop) : Prop :=
  match o with
  | SBegin hd => ∃ x, (begin_block s hd).2 = Ok x
  | SDeliver t => ∀ p, (deliver s t).2 ≠ Panic p
  | SEnd => ∃ ups, (end_block s).2 = Ok ups
  | SCommit => True
  end.
Fixpoint run_answers (s : state) (ops : list sop) : Prop :=
  match ops with [] => True | o :: r => step_answers s o ∧ run_answers (sstep s o) r end.

(* the phase and block count after one operation of a well-bracketed run *)
Definition next_phase (ph : phase) (n : Z) (o : sop) : phase * Z :=
  match ph, o with
  | Idle, SBegin _ => (InBlock, n)
  | InBlock, SDeliver _ => (InBlock, n)
  | InBlock, SEnd => (Ended, n)
  | Ended, SCommit => (Idle, n + 1)
  | _, _ => (ph, n)
  end.
Fixpoint end_phase (ph : phase) (n : Z) (ops : list sop) : phase * Z :=
  match ops with [] => (ph, n) | o :: r => end_phase (next_phase ph n o).1 (next_phase ph n o).2 r end.

Lemma step_inv ph n s o r :
  phase_inv ph n s → bracketed ph n (o :: r) → ext_ok s →
  step_answers s o ∧ phase_inv (next_phase ph n o).1 (next_phase ph n o).2 (sstep s o) ∧
  bracketed (next_phase ph n o).1 (next_phase ph n o).2 r.
Proof.
  intros (Hcore & Hn & Hlast & Hlen & Hph) Hbr Hext.
  pose proof Hcore as (Hg & Hnp & Hw & Hl & Hgb & Hfb & Hsb).
  destruct ph, o; cbn [bracketed] in Hbr; try contradiction.
  - (* BeginBlock *)
    destruct Hph as [Hbh Hk]. destruct Hbr as (Hh & Hv & Hbr).
    destruct (begin_block_inv s h) as ([iss Hok] & W' & G' & L' & C' & GP' & NP' & LH' & BH'); try assumption.
    + lia.
    + intros Hvs Hc. specialize (Hv Hvs). rewrite Hc in Hlen. cbn in Hlen. lia.
    + split; [lia|]. split; lia.
    + cbn [step_answers sstep]. split; [exists iss; exact Hok|]. cbn [next_phase fst snd].
      split; [|exact Hbr]. pose proof (base_of_same _ _ C' GP') as Eb.
      split; [|split; [exact Hn|split; [lia|split; [rewrite C'; exact Hlen|split; [lia|eapply keys_ok_grows; eassumption]]]]].
      split; [rewrite GP'; exact Hg|]. split; [rewrite NP'; exact Hnp|]. split; [rewrite BH'; exact W'|].
      split; [exact L'|]. rewrite Eb. split; [exact Hgb|]. split; [|exact Hsb].
      eapply fr_owned_mono; [exact (proj1 G')|exact Hfb].
  - (* DeliverTx *)
    destruct Hph as [Hbh Hk]. destruct Hbr as ((Hwf & Hkind & Hpc & Hpp) & Hbr).
    cbn [step_answers sstep]. split.
    { intros p Hp. destruct (deliver s t) as [s' res] eqn:E. cbn in Hp. subst res.
      eapply (deliver_never_panics s t (core_state_ok _ Hcore Hext) Hwf Hkind). exact E. }
    destruct (deliver_inv s t Hpc Hpp Hw Hl) as (W' & G' & L' & (C' & GP' & NP' & LH' & BH')).
    cbn [next_phase fst snd]. split; [|exact Hbr]. pose proof (base_of_same _ _ C' GP') as Eb.
    split; [|split; [exact Hn|split; [lia|split; [rewrite C'; exact Hlen|split; [lia|eapply keys_ok_grows; eassumption]]]]].
    split; [rewrite GP'; exact Hg|]. split; [rewrite NP'; exact Hnp|]. split; [rewrite BH'; exact W'|].
    split; [exact L'|]. rewrite Eb. split; [exact Hgb|]. split; [|exact Hsb].
    eapply fr_owned_mono; [exact (proj1 G')|exact Hfb].
  - (* EndBlock *)
    destruct Hph as [Hbh Hk].
    destruct (end_block_ok opt_ok params_ok s) as (s' & ups & E & HP & Hnp'); try assumption.
    + destruct Hg as (_ & _ & _ & _ & Hm & _). lia.
    + intros newp HQ. apply HQ. exact Hg.
    + cbn [step_answers sstep]. rewrite E. cbn [fst snd]. split; [exists ups; reflexivity|].
      cbn [next_phase fst snd]. split; [|exact Hbr].
      destruct HP as (C' & GP' & _ & L' & B' & LH' & A' & D' & R' & F' & P' & FP').
      pose proof (base_of_same _ _ C' GP') as Eb.
      split; [|split; [exact Hn|split; [lia|split; [rewrite C'; exact Hlen|rewrite B'; exact Hbh]]]].
      split; [rewrite GP'; exact Hg|]. split; [exact Hnp'|]. rewrite B', L', Eb.
      destruct Hw as ([Hg1 Hg2] & [Ho1 Ho2] & Hr).
      split; [|split; [exact Hl|split; [exact Hgb|split; [eapply fr_owned_mono; eassumption|exact Hsb]]]].
      split; [split|split; [split|]].
      * intros k p Hk'. eapply Hg1. apply P'. exact Hk'.
      * intros k p Hk'. destruct (FP' k p Hk') as [Hk''|Hk'']; [eapply Hg2; exact Hk''|exact Hk''].
      * rewrite D'. intros a d st Hd Hin. apply A'. eapply Ho1; eassumption.
      * intros k st Hk'. apply A'. eapply Ho2. apply F'. exact Hk'.
      * unfold RH. rewrite R'. exact Hr.
  - (* Commit *)
    cbn [step_answers sstep]. split; [exact I|]. cbn [next_phase fst snd]. split; [|exact Hbr].
    destruct Hw as (Hgw & [Ho1 Ho2] & Hr). destruct Hext as (_ & _ & Hsl).
    split; [|split; [lia|split; [cbn; lia|split; [cbn; rewrite app_length; cbn; lia|split; [cbn; lia|]]]]].
    + unfold core. rewrite base_of_commit. cbn [gparams newparams work bctx lim commit].
      split; [destruct (newparams s) as [m|]; cbn; [apply Hnp; reflexivity|exact Hg]|].
      split; [discriminate|]. split; [split; [exact Hgw|split; [split; assumption|exact Hr]]|].
      split; [exact Hl|]. split; [exact Hgw|]. split; [exact Ho2|exact Hsl].
    + unfold keys_ok. rewrite base_of_commit. cbn [work commit]. split; auto.
Qed.

Lemma run_inv ops : ∀ ph n s,
  phase_inv ph n s → bracketed ph n ops → ext_along s ops → run_answers s ops.
Proof.
  induction ops as [|o r IH]; intros ph n s Hinv Hbr Hext; [exact I|].
  destruct Hext as [He Hext]. destruct (step_inv ph n s o r Hinv Hbr He) as (Ha & Hinv' & Hbr').
  split; [exact Ha|]. eapply IH; eassumption.
Qed.

(* the invariant holds after the run as well *)
Lemma run_reaches ops : ∀ ph n s,
  phase_inv ph n s → bracketed ph n ops → ext_along s ops →
  phase_inv (end_phase ph n ops).1 (end_phase ph n ops).2 (srun s ops).
Proof.
  induction ops as [|o r IH]; intros ph n s Hinv Hbr Hext; [exact Hinv|].
  destruct Hext as [He Hext]. destruct (step_inv ph n s o r Hinv Hbr He) as (_ & Hinv' & Hbr').
  cbn [end_phase srun foldl]. apply IH; assumption.
Qed.

(* N3.  The hypothesis [ext_along] is the part owned by other properties: at every point of the
   run the supply is below 2^63 RIGO ([supply_small]) and every delegatee's total power is
   non-negative and not below its self power (C11 bookkeeping with non-negative stake powers).
   Everything else [state_ok], [keys_ok], the proposal and ownership invariants is established
   here from [params_ok (gen_params g)] and the hypotheses on the operations. *)
Theorem run_never_panics g ops :
  params_ok (gen_params g) → bracketed Idle 0 ops → ext_along (init_chain g) ops →
  run_answers (init_chain g) ops.
Proof. intros Hg Hbr Hext. eapply run_inv; [apply init_chain_inv; exact Hg|exact Hbr|exact Hext]. Qed.
Print Assumptions run_never_panics.

(* [state_ok] and the hypotheses of the two block theorems are invariants of such runs *)
Theorem run_invariant g ops :
  params_ok (gen_params g) → bracketed Idle 0 ops → ext_along (init_chain g) ops →
  let s := srun (init_chain g) ops in
  phase_inv (end_phase Idle 0 ops).1 (end_phase Idle 0 ops).2 s ∧ (ext_ok s → state_ok s) ∧
  heights_ok s ∧ gov_ok (λ _, True) (base_of s) ∧ frozen_owned (accts (work s)) (base_of s) ∧
  ((end_phase Idle 0 ops).1 ≠ Ended → keys_ok s).
Proof.
  intros Hg Hbr Hext s.
  pose proof (run_reaches ops Idle 0 _ (init_chain_inv g Hg) Hbr Hext) as Hinv. fold s in Hinv.
  split; [exact Hinv|]. destruct Hinv as (Hcore & Hn & Hlast & Hlen & Hph).
  split; [apply core_state_ok; exact Hcore|].
  destruct Hcore as (_ & _ & _ & _ & [Hg1 Hg2] & Hfo & _).
  split; [|split; [|split; [exact Hfo|]]].
  - split; [lia|]. split; [|lia]. destruct (end_phase Idle 0 ops).1; [destruct Hph as [-> _]|destruct Hph as [-> _]|rewrite Hph]; lia.
  - split; intros k p Hk; [apply Hg1 in Hk|apply Hg2 in Hk]; destruct Hk as (A & B & C);
      (split; [exact A|split; [intros Ht; specialize (B Ht); eapply Forall_impl; [exact B|]|intros Ht o Ho; specialize (C Ht o Ho)]]).
    + intros o (np & E & _). exists np. split; [exact E|exact I].
    + destruct C as (np & E & _). exists np. split; [exact E|exact I].
    + intros o (np & E & _). exists np. split; [exact E|exact I].
    + destruct C as (np & E & _). exists np. split; [exact E|exact I].
  - intros Hne. destruct (end_phase Idle 0 ops).1; [exact (proj2 Hph)|exact (proj2 Hph)|contradiction].
Qed.
Print Assumptions run_invariant.

(* no operation of such a run returns [Panic] *)
Definition step_panics (s : state) (o : sop) : Prop :=
  match o with
  | SBegin hd => ∃ p, (begin_block s hd).2 = Panic p
  | SDeliver t => ∃ p, (deliver s t).2 = Panic p
  | SEnd => ∃ p, (end_block s).2 = Panic p
  | SCommit => False
  end.
Corollary run_no_step_panics g ops pre o post :
  params_ok (gen_params g) → bracketed Idle 0 ops → ext_along (init_chain g) ops →
  ops = pre ++ o :: post → ¬ step_panics (srun (init_chain g) pre) o.
Proof.
  intros Hg Hbr Hext ->. pose proof (run_never_panics g _ Hg Hbr Hext) as H. clear Hbr Hext Hg.
  revert H. generalize (init_chain g) as s. induction pre as [|x pre IH]; intros s H.
  - cbn in H. destruct H as [Ha _]. destruct o; cbn in *.
    + intros [p Hp]. destruct Ha as [x Hx]. congruence.
    + intros [p Hp]. eapply Ha. exact Hp.
    + intros [p Hp]. destruct Ha as [x Hx]. congruence.
    + auto.
  - cbn in H. destruct H as [_ H]. cbn [srun foldl]. apply IH. exact H.
Qed.
Print Assumptions run_no_step_panics.

(* ------------------------------------------------------------------ [ext_ok] in the shared vocabulary *)
(* the hypothesis of N3 follows from the stake bookkeeping of C11 ([delegatee_ok]), the machine
   ranges ([ranges_ok]) and a total supply below 2^63 RIGO (C02's quantity [supply]) *)
Lemma sum_power_app' a b : sum_power (a ++ b) = sum_power a + sum_power b.
Proof. induction a as [|x a IH]; cbn; [reflexivity|]. unfold sum_power in *. cbn. lia. Qed.
Lemma sum_power_nonneg l : (∀ st, st ∈ l → 0 ≤ s_power st) → 0 ≤ sum_power l.
Proof.
  induction l as [|x l IH]; intros H; cbn; [lia|].
  assert (0 ≤ s_power x) by (apply H; left).
  assert (0 ≤ sum_power l) by (apply IH; intros y Hy; apply H; right; exact Hy).
  unfold sum_power in *. lia.
Qed.
Lemma sum_power_of_bounds a l : (∀ st, st ∈ l → 0 ≤ s_power st) → 0 ≤ sum_power_of a l ≤ sum_power l.
Proof.
  induction l as [|x l IH]; intros H; cbn; [lia|].
  assert (0 ≤ s_power x) by (apply H; left).
  assert (0 ≤ sum_power_of a l ≤ sum_power l) by (apply IH; intros y Hy; apply H; right; exact Hy).
  unfold sum_power, sum_power_of in *. destruct (s_from x =? a)%N; lia.
Qed.

Lemma concat_elem {A} (f : A → list stake) (L : list A) x st : x ∈ L → st ∈ f x → st ∈ concat (f <$> L).
Proof.
  induction L as [|y L IH]; intros Hx Hst; [inversion Hx|]. cbn [fmap list_fmap concat]. apply elem_of_app.
  apply elem_of_cons in Hx as [->|Hx]; [left; exact Hst|right; apply IH; assumption].
Qed.
Lemma sum_concat_ge {A} (f : A → list stake) (L : list A) x :
  x ∈ L → (∀ st, st ∈ concat (f <$> L) → 0 ≤ s_power st) → sum_power (f x) ≤ sum_power (concat (f <$> L)).
Proof.
  induction L as [|y L IH]; intros Hx Hn; [inversion Hx|]. cbn [fmap list_fmap concat] in *.
  rewrite sum_power_app'.
  assert (H0 : 0 ≤ sum_power (f y)) by (apply sum_power_nonneg; intros st Hst; apply Hn, elem_of_app; left; exact Hst).
  assert (H1 : 0 ≤ sum_power (concat (f <$> L))) by (apply sum_power_nonneg; intros st Hst; apply Hn, elem_of_app; right; exact Hst).
  apply elem_of_cons in Hx as [->|Hx]; [lia|].
  assert (sum_power (f x) ≤ sum_power (concat (f <$> L))); [|lia].
  apply IH; [exact Hx|]. intros st Hst. apply Hn, elem_of_app. right. exact Hst.
Qed.

Lemma total_balance_ge l :
  (∀ a x, accts l !! a = Some x → 0 ≤ a_bal x) →
  0 ≤ total_balance l ∧ ∀ a x, accts l !! a = Some x → a_bal x ≤ total_balance l.
Proof.
  unfold total_balance. generalize (accts l). intros m. induction m as [|i x m Hi IH] using map_ind; intros Hn.
  { rewrite map_fold_empty. split; [lia|]. intros a x Hx. rewrite lookup_empty in Hx. discriminate. }
  rewrite map_fold_insert_L; [|intros; lia|exact Hi].
  destruct IH as [IH1 IH2].
  { intros a y Hy. apply (Hn a). rewrite lookup_insert_ne; [exact Hy|]. intros ->. congruence. }
  assert (0 ≤ a_bal x) by (apply (Hn i); apply lookup_insert).
  cbv beta in *. split; [lia|]. intros a y Hy. apply lookup_insert_Some in Hy as [[_ <-]|[_ Hy]]; [lia|].
  specialize (IH2 _ _ Hy). lia.
Qed.

Lemma ext_ok_from_C02_C11 s :
  (∀ a d, dels (work s) !! a = Some d → delegatee_ok a d) → ranges_ok (work s) →
  supply (work s) < two63 * amountPerPower → ext_ok s.
Proof.
  intros Hd (Hra & Hrs & _) Hsup. set (l := work s) in *. pose proof apP_pos as Hp.
  assert (Hb : ∀ st, st ∈ bonded_stakes l → 0 ≤ s_power st).
  { intros st Hst. apply (Hrs st), elem_of_app. left. exact Hst. }
  assert (Hf : 0 ≤ frozen_power l).
  { apply sum_power_nonneg. intros st Hst. apply (Hrs st), elem_of_app. right. exact Hst. }
  destruct (total_balance_ge l) as [HT0 HT]; [intros a x Hx; apply Hra in Hx; lia|].
  assert (HD : ∀ a d, dels l !! a = Some d → 0 ≤ d_self d ≤ d_total d ∧ d_total d ≤ bonded_power l).
  { intros a d Had. destruct (Hd a d Had) as (_ & Et & Es & _).
    assert (Hin : (a, d) ∈ map_to_list (dels l)) by (apply elem_of_map_to_list; exact Had).
    assert (Hn : ∀ st, st ∈ d_stakes d → 0 ≤ s_power st).
    { intros st Hst. apply Hb. exact (concat_elem (λ kv : addr * delegatee, d_stakes kv.2) _ (a, d) st Hin Hst). }
    pose proof (sum_power_of_bounds a _ Hn) as Hsb.
    pose proof (sum_concat_ge (λ kv : addr * delegatee, d_stakes kv.2) _ (a, d) Hin Hb) as Hge. cbv beta in Hge. cbn [snd] in Hge.
    unfold bonded_power, bonded_stakes. lia. }
  assert (HB : 0 ≤ bonded_power l) by (apply sum_power_nonneg; exact Hb).
  unfold supply in Hsup. fold l in Hsup.
  split; [split|split].
  - intros a x Hx. specialize (HT _ _ Hx). nia.
  - intros a d b x Had Hx. specialize (HT _ _ Hx). destruct (HD _ _ Had) as [_ Hle]. nia.
  - intros a d Had. destruct (HD _ _ Had) as [H1 _]. lia.
  - intros a d Had. destruct (HD _ _ Had) as [H1 _]. lia.
Qed.
Print Assumptions ext_ok_from_C02_C11.

Lemma ext_along_prefixes ops : ∀ s,
  (∀ pre post, ops = pre ++ post → ext_ok (srun s pre)) → ext_along s ops.
Proof.
  induction ops as [|o r IH]; intros s H.
  - split; [exact (H [] [] eq_refl)|exact I].
  - split; [exact (H [] (o :: r) eq_refl)|]. apply IH. intros pre post ->.
    exact (H (o :: pre) post eq_refl).
Qed.

(* N3 with the external hypothesis spelled out in the shared vocabulary: at every point of the
   run the delegatees are consistent (C11), the machine ranges hold, and the supply (C02) is
   below 2^63 RIGO *)
Corollary run_never_panics_C02_C11 g ops :
  params_ok (gen_params g) → bracketed Idle 0 ops →
  (∀ pre post, ops = pre ++ post →
     let l := work (srun (init_chain g) pre) in
     (∀ a d, dels l !! a = Some d → delegatee_ok a d) ∧ ranges_ok l ∧ supply l < two63 * amountPerPower) →
  run_answers (init_chain g) ops.
Proof.
  intros Hg Hbr H. apply run_never_panics; [exact Hg|exact Hbr|].
  apply ext_along_prefixes. intros pre post E. destruct (H pre post E) as (H1 & H2 & H3).
  apply ext_ok_from_C02_C11; assumption.
Qed.
Print Assumptions run_never_panics_C02_C11.

(* ------------------------------------------------------------------ a checker for [ext_along] *)
Definition ext_okb (s : state) : bool :=
  let A := map_to_list (accts (work s)) in
  forallb (λ kx : addr * account, a_bal kx.2 <? two63 * amountPerPower) A &&
  forallb (λ kd : addr * delegatee,
             (0 <=? d_total kd.2) && (d_self kd.2 <=? d_total kd.2) &&
             forallb (λ kx : addr * account, d_total kd.2 * amountPerPower + a_bal kx.2 <? two63 * amountPerPower) A)
          (map_to_list (dels (work s))).
Fixpoint ext_alongb (s : state) (ops : list sop) : bool :=
  ext_okb s && match ops with [] => true | o :: r => ext_alongb (sstep s o) r end.

Lemma ext_okb_sound s : ext_okb s = true → ext_ok s.
Proof.
  unfold ext_okb. intros H. apply andb_true_iff in H as [HA HD].
  rewrite forallb_forall in HA, HD.
  assert (HD' : ∀ a d, dels (work s) !! a = Some d →
            0 ≤ d_total d ∧ d_self d ≤ d_total d ∧
            ∀ b x, accts (work s) !! b = Some x → d_total d * amountPerPower + a_bal x < two63 * amountPerPower).
  { intros a d Hd.
    assert (Hin : In (a, d) (map_to_list (dels (work s)))).
    { apply elem_of_list_In, elem_of_map_to_list. exact Hd. }
    specialize (HD _ Hin). cbn in HD. apply andb_true_iff in HD as [H1 H2].
    apply andb_true_iff in H1 as [H0 H1]. apply Z.leb_le in H0, H1. split; [exact H0|]. split; [exact H1|].
    intros b x Hx. rewrite forallb_forall in H2. specialize (H2 (b, x)). cbn in H2. apply Z.ltb_lt. apply H2.
    apply elem_of_list_In, elem_of_map_to_list. exact Hx. }
  split; [split|split].
  - intros a x Hx. specialize (HA (a, x)). cbn in HA. apply Z.ltb_lt. apply HA.
    apply elem_of_list_In, elem_of_map_to_list. exact Hx.
  - intros a d b x Hd Hx. destruct (HD' a d Hd) as (_ & _ & H). eapply H. exact Hx.
  - intros a d Hd. destruct (HD' a d Hd) as (H & _). exact H.
  - intros a d Hd. destruct (HD' a d Hd) as (_ & H & _). exact H.
Qed.

Lemma ext_alongb_sound ops : ∀ s, ext_alongb s ops = true → ext_along s ops.
Proof.
  induction ops as [|o r IH]; intros s H; cbn in H; apply andb_true_iff in H as [H1 H2].
  - split; [apply ext_okb_sound; exact H1|exact I].
  - split; [apply ext_okb_sound; exact H1|apply IH; exact H2].
Qed.

(* ------------------------------------------------------------------ N3 on a concrete chain *)
Definition p_zero : params := {|
  g_version := 0; g_maxValidatorCnt := 0; g_minValidatorStake := 0; g_minDelegatorStake := 0;
  g_rewardPerPower := 0; g_lazyRewardBlocks := 0; g_lazyApplyingBlocks := 0; g_gasPrice := 0;
  g_minTrxGas := 0; g_maxTrxGas := 0; g_maxBlockGas := 0; g_minVotingPeriodBlocks := 0;
  g_maxVotingPeriodBlocks := 0; g_minSelfStakeRatio := 0; g_maxUpdatableStakeRatio := 0;
  g_maxIndividualStakeRatio := 0; g_slashRatio := 0; g_signedBlocksWindow := 0; g_minSignedBlocks := 0 |}.
(* a parameter document that sets slashRatio to 30 and maxValidatorCnt to 10 *)
Definition opt_slash : params := {|
  g_version := 0; g_maxValidatorCnt := 10; g_minValidatorStake := 0; g_minDelegatorStake := 0;
  g_rewardPerPower := 0; g_lazyRewardBlocks := 0; g_lazyApplyingBlocks := 0; g_gasPrice := 0;
  g_minTrxGas := 0; g_maxTrxGas := 0; g_maxBlockGas := 0; g_minVotingPeriodBlocks := 0;
  g_maxVotingPeriodBlocks := 0; g_minSelfStakeRatio := 0; g_maxUpdatableStakeRatio := 0;
  g_maxIndividualStakeRatio := 0; g_slashRatio := 30; g_signedBlocksWindow := 0; g_minSignedBlocks := 0 |}.

Lemma opt_ok_zero : opt_ok p_zero.
Proof. intros cur H. destruct cur. exact H. Qed.
Lemma opt_ok_slash : opt_ok opt_slash.
Proof.
  intros cur H. destruct cur. unfold params_ok in *. cbn in *. unfold pick. cbn.
  destruct H as (H1 & H2 & H3 & H4 & H5 & H6 & H7 & H8 & H9 & H10 & H11).
  repeat split; try lia; try tauto.
Qed.

Definition pr1 : params := {|
  g_version := 1; g_maxValidatorCnt := 21; g_minValidatorStake := 10 * amountPerPower;
  g_minDelegatorStake := 0; g_rewardPerPower := 1000; g_lazyRewardBlocks := 10; g_lazyApplyingBlocks := 1;
  g_gasPrice := 10; g_minTrxGas := 10; g_maxTrxGas := 1000000; g_maxBlockGas := 10000000;
  g_minVotingPeriodBlocks := 1; g_maxVotingPeriodBlocks := 100; g_minSelfStakeRatio := 50;
  g_maxUpdatableStakeRatio := 30; g_maxIndividualStakeRatio := 100; g_slashRatio := 50;
  g_signedBlocksWindow := 100; g_minSignedBlocks := 10 |}.
Lemma pr1_ok : params_ok pr1.  Proof. zc. Qed.

Definition gen4 : genesis := {|
  gen_params := pr1;
  gen_holders := [(1%N, 1000 * amountPerPower); (2%N, 500 * amountPerPower); (3%N, 500 * amountPerPower)];
  gen_validators := [(1%N, 100); (2%N, 100); (3%N, 100)] |}.

Definition prop_tx (o : option params) : tx :=
  mk_tx TRX_PROPOSAL 1%N 0%N 0 10 100 0 (PProposal 4 1 6 PROPOSAL_GOVPARAMS [(1%N, o)] true).
Definition vote_tx (from : addr) (nonce : Z) : tx :=
  mk_tx TRX_VOTING from 0%N 0 10 100 nonce (PVoting 77%N 0).

(* blocks 1-2: empty; 3: rewards, a proposal, a delegation, a self-stake; 4: two votes, an
   unstaking; 5: idle; 6: the proposal is frozen; 7: it is applied *)
Definition run_a (o : option params) : list sop :=
  [SBegin (hdr 1); SEnd; SCommit; SBegin (hdr 2); SEnd; SCommit;
   SBegin hdr3; SDeliver (prop_tx o); SDeliver (stake_tx 2%N 1%N (20 * amountPerPower) 0 60%N);
   SDeliver (stake_tx 3%N 3%N (5 * amountPerPower) 0 61%N); SEnd; SCommit;
   SBegin (hdr 4); SDeliver (vote_tx 1%N 1); SDeliver (vote_tx 2%N 1);
   SDeliver (mk_tx TRX_UNSTAKING 2%N 1%N 0 10 100 2 (PUnstake 60%N true)); SEnd; SCommit;
   SBegin (hdr 5); SEnd; SCommit].
Definition run_b : list sop := [SBegin (hdr 6); SEnd; SCommit].
Definition run_c : list sop := [SBegin (hdr 7); SEnd; SCommit; SBegin (hdr 8)].
Definition run_ex : list sop := run_a (Some opt_slash) ++ run_b ++ run_c.

Definition all_ok (s : state) (ops : list sop) : bool :=
  (fix go s ops := match ops with [] => true | o :: r =>
     match o with
     | SDeliver t => match (deliver s t).2 with Ok _ => true | _ => false end
     | _ => sstep_ok s o end && go (sstep s o) r end) s ops.

Lemma tx_ok_plain t :
  tx_wf t → t_type t ≠ TRX_UNSTAKING → (∀ a b c d e f, t_payload t ≠ PProposal a b c d e f) → tx_ok t.
Proof.
  intros Hwf Hty Hp. split; [exact Hwf|]. split; [intros E; contradiction|].
  unfold payload_consistent, proposal_params_ok. destruct (t_payload t); try (split; exact I).
  exfalso. eapply Hp. reflexivity.
Qed.

Lemma tx_ok_prop : tx_ok (prop_tx (Some opt_slash)).
Proof.
  split; [zc|]. split; [intros E; vm_compute in E; discriminate|].
  unfold payload_consistent, proposal_params_ok. cbn. split.
  - intros _. repeat constructor. eexists; reflexivity.
  - constructor; [|constructor]. intros np' E. cbn in E. injection E as <-. exact opt_ok_slash.
Qed.

Ltac solve_bracketed :=
  unfold run_a, run_b, run_c; cbn [app bracketed];
  repeat match goal with
  | |- _ ∧ _ => split
  | |- tx_ok (prop_tx _) => exact tx_ok_prop
  | |- tx_ok (mk_tx TRX_UNSTAKING _ _ _ _ _ _ _) =>
      split; [zc|split; [intros _; eexists _, _; reflexivity|split; exact I]]
  | |- tx_ok _ => apply tx_ok_plain; [zc|discriminate|discriminate]
  | |- _ = _ => reflexivity
  | |- _ → _ => let H := fresh in intros H; first [lia|exfalso; apply H; reflexivity]
  | |- True => exact I
  end.

Example run_never_panics_ex :
  params_ok (gen_params gen4) ∧ bracketed Idle 0 run_ex ∧ ext_along (init_chain gen4) run_ex ∧
  run_answers (init_chain gen4) run_ex ∧
  (* every operation succeeded, and the proposal went through *)
  all_ok (init_chain gen4) run_ex = true ∧
  g_slashRatio (gparams (srun (init_chain gen4) run_ex)) = 30.
Proof.
  assert (Hb : bracketed Idle 0 run_ex) by (unfold run_ex; solve_bracketed).
  assert (He : ext_along (init_chain gen4) run_ex) by (apply ext_alongb_sound; vm_compute; reflexivity).
  split; [exact pr1_ok|]. split; [exact Hb|]. split; [exact He|].
  split; [apply run_never_panics; [exact pr1_ok|exact Hb|exact He]|].
  split; vm_compute; reflexivity.
Qed.

(* the hypotheses of the two block theorems on concrete states of this chain: before block 6
   (rewards issued, an unbonding stake and an open proposal committed) and inside block 6, whose
   EndBlock freezes the proposal *)
Example block_theorems_ex :
  let s5 := srun (init_chain gen4) (run_a (Some opt_slash)) in
  let s6 := srun (init_chain gen4) (run_a (Some opt_slash) ++ [SBegin (hdr 6)]) in
  (reward_heights_ok s5 ∧ heights_ok s5 ∧ committed s5 ≠ [] ∧ size (rewards (work s5)) = 2%nat) ∧
  (0 ≤ g_maxValidatorCnt (gparams s6) ∧ keys_ok s6 ∧ gov_ok (λ _, True) (base_of s6) ∧
   frozen_owned (accts (work s6)) (base_of s6) ∧
   size (props (base_of s6)) = 1%nat ∧ size (frozen (base_of s6)) = 1%nat) ∧
  (∃ ups, (end_block s6).2 = Ok ups) ∧ size (fprops (work (end_block s6).1)) = 1%nat.
Proof.
  cbv zeta. split; [|split; [|split]].
  - assert (Hb : bracketed Idle 0 (run_a (Some opt_slash))) by solve_bracketed.
    assert (He : ext_along (init_chain gen4) (run_a (Some opt_slash))) by (apply ext_alongb_sound; vm_compute; reflexivity).
    destruct (run_invariant gen4 _ pr1_ok Hb He) as ((Hcore & _) & _ & Hh & _). cbv zeta in *.
    destruct Hcore as (_ & _ & (_ & _ & Hr) & _).
    split; [exact Hr|]. split; [exact Hh|]. split; [vm_compute; discriminate|vm_compute; reflexivity].
  - assert (Hb : bracketed Idle 0 (run_a (Some opt_slash) ++ [SBegin (hdr 6)])) by solve_bracketed.
    assert (He : ext_along (init_chain gen4) (run_a (Some opt_slash) ++ [SBegin (hdr 6)])) by (apply ext_alongb_sound; vm_compute; reflexivity).
    destruct (run_invariant gen4 _ pr1_ok Hb He) as (_ & _ & _ & Hg & Hf & Hk). cbv zeta in *.
    split; [vm_compute; discriminate|]. split; [apply Hk; vm_compute; discriminate|].
    split; [exact Hg|]. split; [exact Hf|]. split; vm_compute; reflexivity.
  - eexists. vm_compute. reflexivity.
  - vm_compute. reflexivity.
Qed.

(* ------------------------------------------------------------------ N2/N3: the hypotheses are needed *)
(* (e) votes in the first block (excluded by Tendermint: block 1 has no LastCommitInfo) *)
Theorem begin_block_never_panics_refuted_votes : ∃ g hd,
  params_ok (gen_params g) ∧ h_height hd = last_height (init_chain g) + 1 ∧
  (begin_block (init_chain g) hd).2 = Panic P_BEGINBLOCK.
Proof.
  exists gen4, {| h_height := 1; h_proposer := Some 1%N; h_votes := [(1%N, 100, true)]; h_evidence := [] |}.
  split; [exact pr1_ok|]. split; vm_compute; reflexivity.
Qed.

(* (f) EndBlock twice in the block that freezes a proposal: the second DelFinality fails *)
Theorem end_block_never_panics_refuted_bracket : ∃ g ops,
  params_ok (gen_params g) ∧ all_ok (init_chain g) (ops ++ [SEnd]) = true ∧
  (end_block (srun (init_chain g) (ops ++ [SEnd]))).2 = Panic P_ENDBLOCK.
Proof.
  exists gen4, (run_a (Some opt_slash) ++ [SBegin (hdr 6)]).
  split; [exact pr1_ok|]. split; vm_compute; reflexivity.
Qed.

(* (g) [payload_consistent] dropped: a proposal flagged as parsable whose option does not parse
   wins the vote; applyProposals fails at its applying height *)
Theorem run_never_panics_refuted_consistent : ∃ g ops,
  params_ok (gen_params g) ∧ all_ok (init_chain g) ops = true ∧
  (end_block (srun (init_chain g) ops)).2 = Panic P_ENDBLOCK.
Proof.
  exists gen4, (run_a None ++ run_b ++ [SBegin (hdr 7)]).
  split; [exact pr1_ok|]. split; vm_compute; reflexivity.
Qed.

(* (h) [proposal_params_ok] dropped: the winning option sets maxValidatorCnt to -1; once it is in
   force EndBlock's validator selection slices with a negative bound, and an unstaking transaction
   divides by the limiter's zero base *)
Definition opt_bad : params := {|
  g_version := 0; g_maxValidatorCnt := -1; g_minValidatorStake := 0; g_minDelegatorStake := 0;
  g_rewardPerPower := 0; g_lazyRewardBlocks := 0; g_lazyApplyingBlocks := 0; g_gasPrice := 0;
  g_minTrxGas := 0; g_maxTrxGas := 0; g_maxBlockGas := 0; g_minVotingPeriodBlocks := 0;
  g_maxVotingPeriodBlocks := 0; g_minSelfStakeRatio := 0; g_maxUpdatableStakeRatio := 0;
  g_maxIndividualStakeRatio := 0; g_slashRatio := 0; g_signedBlocksWindow := 0; g_minSignedBlocks := 0 |}.

Theorem run_never_panics_refuted_params : ∃ g ops t,
  params_ok (gen_params g) ∧ all_ok (init_chain g) ops = true ∧ tx_wf t ∧ payload_kind_ok t ∧
  (end_block (srun (init_chain g) ops)).2 = Panic P_SELECT ∧
  (deliver (srun (init_chain g) ops) t).2 = Panic P_LIMITER_DIV.
Proof.
  exists gen4, (run_a (Some opt_bad) ++ run_b ++ run_c), (mk_tx TRX_UNSTAKING 3%N 3%N 0 10 100 1 (PUnstake 61%N true)).
  split; [exact pr1_ok|]. split; [vm_compute; reflexivity|]. split; [zc|].
  split; [intros _; eexists _, _; reflexivity|]. split; vm_compute; reflexivity.
Qed.

Print Assumptions deliver_never_panics.
Print Assumptions begin_block_never_panics.
Print Assumptions end_block_never_panics.
Print Assumptions run_never_panics.
Print Assumptions deliver_panics_reachable.
Print Assumptions run_never_panics_refuted_params.
