(* InvPanic.v — property C09, model part: no input makes the application panic.
   In Spec.v every explicit panic(...), unchecked type assertion, slice expression and division of
   the Go code that is reachable from ABCI input is a [Panic site] result.  This file shows which
   facts about the state the Go code relies on for none of them to fire, and that these facts are
   kept by well-bracketed runs from genesis.
   Main results:
     deliver_never_panics            (N1)  DeliverTx, under [state_ok s]
     begin_block_never_panics        (N2)  BeginBlock, under [state_ok s], [block_ok s]
     end_block_never_panics          (N2)  EndBlock, under [state_ok s], [block_ok s], [keys_ok s]
     run_never_panics                (N3)  well-bracketed runs from [init_chain g]
     *_refuted / deliver_panics_reachable  each hypothesis dropped in turn: concrete witnesses *)
From Rigo Require Import Base.
From stdpp Require Import gmap sorting.
From Rigo Require Import Spec SpecProps.
From Rigo Require Import InvFail.
Local Open Scope Z_scope.

(* ------------------------------------------------------------------ arithmetic *)
Lemma two64_double : two64 = 2 * two63.  Proof. reflexivity. Qed.
Lemma two63_pos : 0 < two63.  Proof. reflexivity. Qed.
Lemma apP_pos : 0 < amountPerPower.  Proof. reflexivity. Qed.
Lemma two63_apP_lt_two255 : two63 * amountPerPower < two255.  Proof. reflexivity. Qed.

Local Opaque two256 two255 two64 two63.

(* AmountToPower does not panic below 2^63 RIGO (ctrlers/types/gov_params.go:611) *)
Lemma amount_to_power_small a :
  0 ≤ a < two63 * amountPerPower → amount_to_power a = Some (a / amountPerPower).
Proof.
  intros H. pose proof apP_pos as Hp. pose proof two64_double as H64. pose proof two63_pos as H63.
  assert (Hq : 0 ≤ a / amountPerPower < two63).
  { split; [apply Z.div_pos; lia|]. apply Z.div_lt_upper_bound; [exact Hp|lia]. }
  unfold amount_to_power. rewrite (Z.mod_small (a / amountPerPower) two64) by lia.
  rewrite wrap64_small by (unfold in64; lia).
  destruct (a / amountPerPower <? 0) eqn:E; [apply Z.ltb_lt in E; lia|reflexivity].
Qed.

(* ------------------------------------------------------------------ hypotheses on transactions *)
(* Both wire decoders (ctrlers/types/trx.go:170 and :268) build the payload object from the type
   field, so a TRX_UNSTAKING transaction always carries a TrxPayloadUnstaking.  This is the only
   type for which the code uses an unchecked type assertion before any checked one
   (ctrlers/stake/ctrler.go:510, ValidateTrx).  For TRX_SETDOC the checked assertion of
   AcctCtrler.ValidateTrx precedes the unchecked one in execution, see [acct_execute_no_panic]. *)
Definition payload_kind_ok (t : tx) : Prop :=
  t_type t = TRX_UNSTAKING → ∃ h len_ok, t_payload t = PUnstake h len_ok.

(* ------------------------------------------------------------------ what DeliverTx relies on *)
(* balances and bonded powers stay below 2^63 RIGO.  It follows from
   [supply l < two63 * amountPerPower] (C02), stake bookkeeping (C11) and non-negative powers. *)
Definition supply_small (l : ledgers) : Prop :=
  (∀ a x, accts l !! a = Some x → a_bal x < two63 * amountPerPower) ∧
  (∀ a d b x, dels l !! a = Some d → accts l !! b = Some x →
              d_total d * amountPerPower + a_bal x < two63 * amountPerPower).
Definition totals_nonneg (l : ledgers) : Prop := ∀ a d, dels l !! a = Some d → 0 ≤ d_total d.

(* an active limiter has a positive base and a positive validator count *)
Definition lim_ok (sl : limiter) : Prop :=
  ∀ objs, lim_objs sl = Some objs → 0 < lim_base sl ∧ 0 < lim_maxcnt sl.

(* no reward entry is stamped with a height above the current block *)
Definition reward_heights_ok (s : state) : Prop :=
  ∀ a r, rewards (work s) !! a = Some r → r_height r ≤ b_height (bctx s).

(* Each conjunct, and the Go line that relies on it:
   params_ok          AmountToPower(MinValidatorStake/MinDelegatorStake) ctrlers/stake/ctrler.go:446,460;
                      fee arithmetic of commonValidation (amount ≤ balance is derived from it)
   supply_small       AmountToPower(tx.Amount) ctrler.go:428 and gov_params.go:611;
                      "check overflow" panic ctrler.go:474
   totals_nonneg      SelfStakeRatio divides by TotalPower + added, delegatee.go:234; ctrler.go:474
   lim_ok             limiter.go:155 (powerObjs[maxValidatorCnt-1]) and :163 (/ baseTotalPower)
   reward_heights_ok  Reward.Withdraw panics when rwd.height > h, reward.go:63 *)
Definition state_ok (s : state) : Prop :=
  params_ok (gparams s) ∧ supply_small (work s) ∧ totals_nonneg (work s) ∧ lim_ok (lim s) ∧
  reward_heights_ok s.

(* ------------------------------------------------------------------ StakeLimiter.CheckLimit *)
Lemma check_limit_no_panic sl da dt diff p : lim_ok sl → check_limit sl da dt diff ≠ Panic p.
Proof.
  intros Hl. unfold check_limit.
  destruct (lim_objs sl) as [objs|] eqn:Eo; [|discriminate].
  destruct (Hl objs Eo) as [Hb Hm]. cbv zeta.
  destruct (negb (if diff <=? 0 then true else _)); [discriminate|].
  destruct (negb (_ =? dt)); [discriminate|].
  match goal with |- (if ?c then _ else _) ≠ _ => destruct c eqn:E1 end.
  { exfalso. apply andb_true_iff in E1 as [E1 _]. apply andb_true_iff in E1 as [_ E1].
    apply Z.leb_le in E1. lia. }
  destruct (lim_base sl =? 0) eqn:E2; [apply Z.eqb_eq in E2; lia|].
  match goal with |- (if ?c then _ else _) ≠ _ => destruct c end; [discriminate|].
  match goal with |- (if ?c then _ else _) ≠ _ => destruct c end; discriminate.
Qed.

(* ------------------------------------------------------------------ StakeCtrler.ValidateTrx *)
Lemma params_ok_minval g : params_ok g →
  amount_to_power (g_minValidatorStake g) = Some (g_minValidatorStake g / amountPerPower).
Proof.
  intros (_ & _ & _ & _ & _ & Hv & _). apply amount_to_power_small. pose proof apP_pos. lia.
Qed.
Lemma params_ok_mindel g : params_ok g →
  amount_to_power (g_minDelegatorStake g) = Some (g_minDelegatorStake g / amountPerPower).
Proof. intros (_ & _ & _ & _ & _ & _ & Hd & _). apply amount_to_power_small. exact Hd. Qed.

Lemma stake_validate_no_panic s1 t p :
  params_ok (gparams s1) →
  0 ≤ t_amount t < two63 * amountPerPower →
  (∀ d, dels (work s1) !! t_to t = Some d →
        0 ≤ d_total d ∧ d_total d + t_amount t / amountPerPower < two63) →
  lim_ok (lim s1) → payload_kind_ok t →
  stake_validate s1 t ≠ Panic p.
Proof.
  intros Hg Ha Hd Hl Hk. pose proof two63_pos as H63. unfold stake_validate.
  ty_case t TRX_STAKING E2.
  { rewrite (amount_to_power_small _ Ha), (params_ok_minval _ Hg), (params_ok_mindel _ Hg).
    set (txp := t_amount t / amountPerPower).
    destruct (txp <=? 0) eqn:Eq; [discriminate|]. apply Z.leb_gt in Eq.
    destruct (negb (t_amount t mod amountPerPower =? 0)); [discriminate|].
    destruct (dels (work s1) !! t_to t) as [d|] eqn:Ed.
    - destruct (Hd d eq_refl) as [Hd0 Hd1]. fold txp in Hd1.
      assert (Hw : (wrap64 (d_total d + txp) <=? 0) = false).
      { rewrite wrap64_small by (unfold in64; lia). apply Z.leb_gt. lia. }
      destruct (t_from t =? t_to t)%N.
      + destruct (txp + d_self d <? _); [discriminate|]. rewrite Hw.
        destruct (3 <=? _); [apply check_limit_no_panic; exact Hl|discriminate].
      + destruct ((0 <? _) && (txp <? _)); [discriminate|].
        destruct (d_total d + txp =? 0) eqn:E0; [apply Z.eqb_eq in E0; lia|].
        destruct (_ <? g_minSelfStakeRatio _); [discriminate|]. rewrite Hw.
        destruct (3 <=? _); [apply check_limit_no_panic; exact Hl|discriminate].
    - assert (Ht : txp < two63).
      { apply Z.div_lt_upper_bound; [exact apP_pos|lia]. }
      assert (Hw : (wrap64 (0 + txp) <=? 0) = false).
      { rewrite wrap64_small by (unfold in64; lia). apply Z.leb_gt. lia. }
      destruct (t_from t =? t_to t)%N; [|discriminate].
      destruct (txp + 0 <? _); [discriminate|]. rewrite Hw.
      destruct (3 <=? _); [apply check_limit_no_panic; exact Hl|discriminate]. }
  ty_case t TRX_UNSTAKING E3.
  { destruct (dels (work s1) !! t_to t) as [d|]; [|discriminate].
    destruct (Hk E3) as (h & lo & ->).
    destruct (negb lo); [discriminate|].
    destruct (find_stake h (d_stakes d)) as [s0|]; [|discriminate].
    destruct (negb (s_from s0 =? t_from t)%N); [discriminate|].
    destruct (3 <=? _); [apply check_limit_no_panic; exact Hl|discriminate]. }
  destruct (negb (t_amount t =? 0)); [discriminate|].
  destruct (t_payload t); try discriminate.
  destruct (rewards (work s1) !! t_from t) as [r|]; [|discriminate].
  destruct (r_cumulated r <? req); discriminate.
Qed.

(* validation of the other controllers has no panic site *)
Lemma validated_no_panic s1 recv t p :
  params_ok (gparams s1) →
  0 ≤ t_amount t < two63 * amountPerPower →
  (∀ d, dels (work s1) !! t_to t = Some d →
        0 ≤ d_total d ∧ d_total d + t_amount t / amountPerPower < two63) →
  lim_ok (lim s1) → payload_kind_ok t →
  validated s1 recv t ≠ Panic p.
Proof.
  intros Hg Ha Hd Hl Hk. unfold validated.
  destruct ((t_type t =? TRX_PROPOSAL) || (t_type t =? TRX_VOTING)).
  { destruct (gov_validate s1 t); discriminate. }
  destruct ((t_type t =? TRX_TRANSFER) || (t_type t =? TRX_SETDOC)).
  { destruct (acct_validate t); discriminate. }
  destruct ((t_type t =? TRX_STAKING) || (t_type t =? TRX_UNSTAKING) || (t_type t =? TRX_WITHDRAW)).
  { apply stake_validate_no_panic; assumption. }
  destruct (t_type t =? TRX_CONTRACT); [|discriminate].
  destruct (evm_validate recv t); discriminate.
Qed.

(* ------------------------------------------------------------------ execution *)
Lemma gov_execute_no_panic s l t p : gov_execute s l t ≠ Panic p.
Proof.
  unfold gov_execute. destruct (t_type t =? TRX_PROPOSAL).
  - destruct (t_payload t); discriminate.
  - destruct (t_payload t) as [| | | |ph choice| |]; try discriminate.
    destruct (props l !! ph) as [q|]; [|discriminate].
    destruct (prop_vote q (t_from t) choice); discriminate.
Qed.

(* the unchecked assertion in exeSetDoc is preceded by the checked one of ValidateTrx *)
Lemma acct_execute_no_panic l t p :
  (t_type t = TRX_SETDOC → acct_validate t = None) →
  t_type t = TRX_TRANSFER ∨ t_type t = TRX_SETDOC →
  acct_execute l t ≠ Panic p.
Proof.
  intros Hv Hty. unfold acct_execute.
  destruct (accts l !! t_from t) as [sender|]; [|discriminate].
  destruct (accts l !! t_to t) as [receiver|]; [|discriminate].
  ty_case t TRX_TRANSFER E1.
  - destruct (sub_balance sender (t_amount t)); [|discriminate].
    destruct (add_balance _ (t_amount t)); discriminate.
  - assert (E7 : t_type t = TRX_SETDOC) by tauto. specialize (Hv E7).
    unfold acct_validate in Hv. rewrite E7 in Hv. cbn [Z.eqb TRX_SETDOC Pos.eqb] in Hv.
    destruct (t_payload t); try discriminate.
Qed.

Lemma stake_execute_no_panic s l t p :
  (∀ r, rewards l !! t_from t = Some r → r_height r ≤ b_height (bctx s)) →
  stake_execute s l t ≠ Panic p.
Proof.
  intros Hr. unfold stake_execute.
  destruct (t_type t =? TRX_STAKING).
  { destruct (match dels l !! t_to t with Some d => Some d | None => _ end); [|discriminate].
    destruct (accts l !! t_from t) as [x|]; [|discriminate].
    destruct (sub_balance x (t_amount t)); discriminate. }
  destruct (t_type t =? TRX_UNSTAKING).
  { destruct (dels l !! t_to t) as [d|]; [|discriminate].
    destruct (t_payload t) as [|hs lo| | | | |]; try discriminate.
    destruct (find_stake hs (d_stakes d)) as [s0|]; [|discriminate].
    destruct (negb (s_from s0 =? t_from t)%N); [discriminate|].
    destruct (if d_self (del_stake d hs) =? 0 then _ else _) as [d2 fr2].
    destruct (d_total d2 =? 0); discriminate. }
  destruct (t_payload t) as [| |req| | | |]; try discriminate.
  destruct (rewards l !! t_from t) as [r|] eqn:Er; [|discriminate].
  destruct (r_height r >? b_height (bctx s)) eqn:Eh.
  { exfalso. apply Z.gtb_lt in Eh. specialize (Hr r eq_refl). lia. }
  destruct (acct_reward _ (t_from t) req); discriminate.
Qed.

Lemma validated_acct_validate s1 recv t lim' :
  validated s1 recv t = Ok lim' → t_type t = TRX_SETDOC → acct_validate t = None.
Proof.
  unfold validated. intros H E7. rewrite E7 in H.
  cbn [Z.eqb orb TRX_SETDOC TRX_PROPOSAL TRX_VOTING TRX_TRANSFER Pos.eqb] in H.
  destruct (acct_validate t); [discriminate|reflexivity].
Qed.

Lemma exec_native_no_panic s2 recv s1 t lim' p :
  validated s1 recv t = Ok lim' →
  (∀ r, rewards (work s2) !! t_from t = Some r → r_height r ≤ b_height (bctx s2)) →
  exec_native s2 t ≠ Panic p.
Proof.
  intros Hv Hr. unfold exec_native.
  destruct ((t_type t =? TRX_PROPOSAL) || (t_type t =? TRX_VOTING)); [apply gov_execute_no_panic|].
  destruct ((t_type t =? TRX_TRANSFER) || (t_type t =? TRX_SETDOC)) eqn:Ea.
  - apply acct_execute_no_panic.
    + eapply validated_acct_validate; eassumption.
    + apply orb_true_iff in Ea as [Ea|Ea]; apply Z.eqb_eq in Ea; tauto.
  - apply stake_execute_no_panic. exact Hr.
Qed.

Lemma post_native_no_panic price s2 t l' s' p : post_native price s2 t l' ≠ (s', Panic p).
Proof.
  unfold post_native. destruct (accts l' !! t_from t) as [x|]; [|discriminate].
  destruct (sub_balance x (fee_of t)); discriminate.
Qed.

(* ------------------------------------------------------------------ N1 *)
Theorem deliver_never_panics s t :
  state_ok s → tx_wf t → payload_kind_ok t → ∀ s' p, deliver s t ≠ (s', Panic p).
Proof.
  intros (Hg & [Hbal Htot] & Hnn & Hl & Hrh) Hwf Hk s' p H. rewrite deliver_eq in H.
  destruct (accts (work s) !! t_from t) as [sender|] eqn:Hs; [|discriminate].
  cbv zeta in H.
  destruct (common_validation0 (gparams s) t) as [e0|] eqn:Hv0; [discriminate|].
  destruct (common_validation1 sender t) as [e1|] eqn:Hv1; [discriminate|].
  (* amount ≤ balance of the sender *)
  assert (Hamt : 0 ≤ t_amount t < two63 * amountPerPower ∧ t_amount t ≤ a_bal sender).
  { destruct Hwf as (Ha & _ & Hgas & _). destruct Hg as (Hp & _).
    assert (Hsb : sender_bal_ok s t).
    { intros x Hx. specialize (Hbal _ _ Hx). pose proof two63_apP_lt_two255. pose proof two256_double. lia. }
    pose proof (vf_fee s t (proj1 Hgas) Hp Hv0) as Hf.
    pose proof (vf_bal s t sender (proj1 Ha) (proj1 Hgas) Hp Hsb Hs Hv0 Hv1) as Hb.
    specialize (Hbal _ _ Hs). lia. }
  destruct Hamt as [Hamt Hle].
  destruct (validated (pre s t) (receiver_of s t) t) as [lim'|ev|pv] eqn:Hv.
  2:{ discriminate. }
  2:{ eapply validated_no_panic; [| | | | |exact Hv]; try assumption.
      intros d Hd. unfold pre in Hd. cbn [work with_work] in Hd. rewrite find_or_new_dels in Hd.
      split; [eapply Hnn; exact Hd|].
      specialize (Htot _ _ _ _ Hd Hs). pose proof apP_pos as Hp.
      assert (Hq : t_amount t / amountPerPower * amountPerPower ≤ t_amount t).
      { rewrite Z.mul_comm. apply Z.mul_div_le. exact Hp. }
      nia. }
  destruct (evm_path s t).
  - unfold finish in H. destruct (evm_execute _ t) as [[l' gas]|e'|p'] eqn:Ex; try discriminate.
    eapply evm_execute_no_panic. exact Ex.
  - unfold finish in H.
    destruct (exec_native (with_lim (pre s t) lim') t) as [l'|e'|p'] eqn:Ex; [|discriminate|].
    + eapply post_native_no_panic. exact H.
    + eapply exec_native_no_panic; [exact Hv| |exact Ex].
      intros r Hr. unfold pre in Hr. cbn [work with_work with_lim] in Hr.
      rewrite find_or_new_rewards in Hr. apply Hrh in Hr. exact Hr.
Qed.
Print Assumptions deliver_never_panics.
