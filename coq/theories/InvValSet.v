(* InvValSet.v — property C10 of Spec.v: the validator updates returned by EndBlock.

   The pure validator-set theory (selection, the update diff, Tendermint's application of updates)
   is in Sorting.v / ValSet.v over value snapshots [ValSet.dg]; this file connects it to the
   executable application model:
     V1  Spec.val_updates = ValSet.updates, hence the per-block well-formedness of the updates;
     V2  Spec.sort_power is THE power-order listing; the selection made by begin_block/end_block;
     V3  histories: folding the updates of a run of blocks.  *)
From Rigo Require Import Base.
From stdpp Require Import gmap sorting.
From Rigo Require Import Spec SpecProps.
From Rigo Require Sorting ValSet.
Local Open Scope Z_scope.
Local Opaque two256 two255 two64 two63.

(* ================================================================== 0. list plumbing *)
Lemma foldl_fold_left {A B} (f : A → B → A) (l : list B) (a : A) : foldl f a l = fold_left f l a.
Proof. revert a; induction l as [|x l IH]; intros a; simpl; [reflexivity | apply IH]. Qed.

Lemma Sorted_impl {A} (R R' : A → A → Prop) l : (∀ a b, R a b → R' a b) → Sorted R l → Sorted R' l.
Proof.
  intros HR. induction 1 as [|a l Hs IH Hh]; constructor; [exact IH|].
  destruct Hh as [|b l Hab]; constructor. apply HR, Hab.
Qed.

Lemma Sorted_map {A B} (f : A → B) (R : B → B → Prop) l : Sorted (λ a b, R (f a) (f b)) l → Sorted R (map f l).
Proof.
  induction 1 as [|a l Hs IH Hh]; simpl; constructor; [exact IH|].
  destruct Hh as [|b l Hab]; simpl; constructor. exact Hab.
Qed.

Lemma filter_map_comm {A B} (f : A → B) (p : B → bool) l :
  List.filter p (map f l) = map f (List.filter (λ x, p (f x)) l).
Proof. induction l as [|x l IH]; simpl; [reflexivity|]. destruct (p (f x)); simpl; rewrite IH; reflexivity. Qed.

Lemma elem_of_List_filter {A} (p : A → bool) l x : x ∈ List.filter p l ↔ x ∈ l ∧ p x = true.
Proof. rewrite !elem_of_list_In. apply filter_In. Qed.

(* ================================================================== 1. (V1) val_updates is ValSet.updates *)
(* an announced validator (address, power) as a value snapshot: only the address and the total
   power are looked at by [ValSet.updates] *)
Definition to_dg (x : addr * Z) : ValSet.dg := ValSet.mk_dg x.1 0 x.2 0.

Lemma vals_to_dg l : ValSet.vals (map to_dg l) = l.
Proof. unfold ValSet.vals. induction l as [|[a p] l IH]; simpl; [reflexivity | rewrite IH; reflexivity]. Qed.

Lemma addrs_to_dg l : map ValSet.d_addr (map to_dg l) = l.*1.
Proof. rewrite map_map. reflexivity. Qed.

Lemma removals_to_dg l : ValSet.removals (map to_dg l) = map (λ x : addr * Z, (x.1, 0)) l.
Proof. unfold ValSet.removals. rewrite map_map. reflexivity. Qed.

(* the fuel of end_block (one more than the two lengths) is enough; no sortedness is needed for
   the two functions to agree *)
Theorem val_updates_bridge fuel : ∀ old new,
  (length old + length new < fuel)%nat →
  val_updates fuel old new = ValSet.updates (map to_dg old) (map to_dg new).
Proof.
  induction fuel as [|f IH]; intros old new Hf; [lia|].
  destruct old as [|[a p] o'].
  { simpl. rewrite ValSet.updates_nil_l, vals_to_dg. reflexivity. }
  destruct new as [|[b q] n'].
  { cbn [val_updates]. rewrite ValSet.updates_nil_r, removals_to_dg. reflexivity. }
  cbn [val_updates map]. rewrite ValSet.updates_cons. cbn [to_dg ValSet.d_addr ValSet.d_total fst snd].
  simpl in Hf.
  destruct (N.compare_spec a b) as [E|L|G].
  - subst b. rewrite N.ltb_irrefl, N.eqb_refl.
    rewrite (IH o' n') by lia. destruct (p =? q); reflexivity.
  - rewrite (proj2 (N.ltb_lt a b) L). rewrite (IH o' ((b, q) :: n')) by (simpl; lia). reflexivity.
  - assert (H1 : (a <? b)%N = false) by (apply N.ltb_ge; lia).
    assert (H2 : (a =? b)%N = false) by (apply N.eqb_neq; lia).
    rewrite H1, H2. rewrite (IH ((a, p) :: o') n') by (simpl; lia). reflexivity.
Qed.

(* ------------------------------------------------------------------ sort_addr *)
Global Instance key_le_total {A} : Total (@key_le A).
Proof. intros x y. unfold key_le. lia. Qed.
Global Instance key_le_trans {A} : Transitive (@key_le A).
Proof. intros x y z. unfold key_le. lia. Qed.

Lemma sort_addr_perm l : sort_addr l ≡ₚ l.
Proof. apply merge_sort_Permutation. Qed.

Lemma sort_addr_length l : length (sort_addr l) = length l.
Proof. apply Permutation_length, sort_addr_perm. Qed.

Lemma key_sorted_strict {A} (k : list (N * A)) :
  StronglySorted key_le k → NoDup k.*1 → StronglySorted N.lt k.*1.
Proof.
  induction 1 as [|x k Hs IH Hf]; intros Hnd; [constructor|].
  rewrite fmap_cons in Hnd |- *.
  apply NoDup_cons in Hnd as [Hx Hnd]. constructor; [apply IH, Hnd|].
  rewrite Forall_forall in Hf. rewrite Forall_forall. intros a Ha.
  apply elem_of_list_fmap in Ha as (y & -> & Hy).
  pose proof (Hf y Hy) as Hle. unfold key_le in Hle.
  assert (x.1 ≠ y.1) by (intros E; apply Hx; rewrite E; apply elem_of_list_fmap; eauto). lia.
Qed.

Lemma sorted_items_strict {A} (m : gmap N A) : StronglySorted N.lt (sorted_items m).*1.
Proof.
  apply key_sorted_strict.
  - apply StronglySorted_merge_sort; apply _.
  - unfold sorted_items. rewrite merge_sort_Permutation. apply NoDup_fst_map_to_list.
Qed.

Theorem sort_addr_sorted l : NoDup l.*1 → ValSet.addr_sorted (map to_dg (sort_addr l)).
Proof.
  intros Hnd. unfold ValSet.addr_sorted. rewrite addrs_to_dg. apply key_sorted_strict.
  - apply StronglySorted_merge_sort; apply _.
  - rewrite sort_addr_perm. exact Hnd.
Qed.

(* ------------------------------------------------------------------ the per-call theorem *)
Section Updates.
  Variables old new : list (addr * Z).
  Variable fuel : nat.
  Hypothesis Hold : NoDup old.*1.
  Hypothesis Hnew : NoDup new.*1.
  Hypothesis Hfuel : (length old + length new < fuel)%nat.
  Let ups := val_updates fuel (sort_addr old) (sort_addr new).

  Lemma ups_bridge : ups = ValSet.updates (map to_dg (sort_addr old)) (map to_dg (sort_addr new)).
  Proof. apply val_updates_bridge. rewrite !sort_addr_length. exact Hfuel. Qed.

  (* no address occurs twice among the updates *)
  Theorem val_updates_nodup : NoDup ups.*1.
  Proof.
    rewrite ups_bridge. apply NoDup_ListNoDup. apply ValSet.updates_nodup; apply sort_addr_sorted; assumption.
  Qed.

  Lemma pos_to_dg : (∀ a p, (a, p) ∈ new → 0 < p) → ∀ d, In d (map to_dg (sort_addr new)) → 0 < ValSet.d_total d.
  Proof.
    intros Hpos d Hd. apply in_map_iff in Hd as ([a p] & <- & Hx). simpl.
    apply (Hpos a). rewrite <- sort_addr_perm. apply elem_of_list_In, Hx.
  Qed.

  (* a power-0 update (a removal) names a member of the old set *)
  Theorem val_updates_removals : (∀ a p, (a, p) ∈ new → 0 < p) → ∀ a, (a, 0) ∈ ups → a ∈ old.*1.
  Proof.
    intros Hpos a Ha. rewrite ups_bridge in Ha. apply elem_of_list_In in Ha.
    apply ValSet.updates_removals_in_old in Ha; [|apply pos_to_dg, Hpos].
    rewrite addrs_to_dg in Ha. rewrite <- sort_addr_perm. apply elem_of_list_In, Ha.
  Qed.

  (* no negative power *)
  Theorem val_updates_nonneg : (∀ a p, (a, p) ∈ new → 0 ≤ p) → ∀ a p, (a, p) ∈ ups → 0 ≤ p.
  Proof.
    intros Hpos a p Ha. rewrite ups_bridge in Ha. apply elem_of_list_In in Ha.
    eapply ValSet.updates_nonneg; [|exact Ha].
    intros d Hd. apply in_map_iff in Hd as ([b q] & <- & Hx). simpl.
    apply (Hpos b). rewrite <- sort_addr_perm. apply elem_of_list_In, Hx.
  Qed.

  (* applying the updates to the old set gives the new set *)
  Theorem val_updates_apply : (∀ a p, (a, p) ∈ new → p ≠ 0) →
    ValSet.apply_updates (sort_addr old) ups = sort_addr new.
  Proof.
    intros Hnz. rewrite ups_bridge.
    rewrite <- (vals_to_dg (sort_addr old)) at 1. rewrite <- (vals_to_dg (sort_addr new)) at 2.
    apply ValSet.updates_apply; [apply sort_addr_sorted, Hold | apply sort_addr_sorted, Hnew |].
    intros d Hd. apply in_map_iff in Hd as ([b q] & <- & Hx). simpl.
    apply (Hnz b). rewrite <- sort_addr_perm. apply elem_of_list_In, Hx.
  Qed.

  (* all of it: Tendermint's own checks accept the list and the result is the new set *)
  Theorem val_updates_wellformed : (∀ a p, (a, p) ∈ new → 0 < p) →
    ValSet.tm_apply_updates (sort_addr old) ups = Some (sort_addr new).
  Proof.
    intros Hpos. rewrite ups_bridge.
    rewrite <- (vals_to_dg (sort_addr old)) at 1. rewrite <- (vals_to_dg (sort_addr new)) at 2.
    apply ValSet.updates_wellformed; [apply sort_addr_sorted, Hold | apply sort_addr_sorted, Hnew |].
    apply pos_to_dg, Hpos.
  Qed.
End Updates.
Print Assumptions val_updates_bridge.
Print Assumptions val_updates_wellformed.

(* ================================================================== 2. (V2) the power order and the selection *)
(* the value snapshot of a delegatee *)
Definition dg_of (d : delegatee) : ValSet.dg :=
  ValSet.mk_dg (d_addr d) (d_self d) (d_total d) (length (d_stakes d)).

Lemma power_less_dg a b : power_less a b = ValSet.power_lt (dg_of a) (dg_of b).
Proof.
  unfold power_less, ValSet.power_lt. cbn [dg_of ValSet.d_total ValSet.d_nstakes ValSet.d_addr].
  destruct (d_total a =? d_total b); cbn [negb]; [|reflexivity].
  destruct (Nat.eqb (length (d_stakes a)) (length (d_stakes b))); reflexivity.
Qed.

(* PowerOrderDelegatees.Less is a strict order, total on delegatees with distinct addresses *)
Lemma power_less_irrefl a : power_less a a = false.
Proof. rewrite power_less_dg. apply ValSet.power_lt_irrefl. Qed.
Lemma power_less_trans a b c : power_less a b = true → power_less b c = true → power_less a c = true.
Proof. rewrite !power_less_dg. apply ValSet.power_lt_trans. Qed.
Lemma power_less_total a b : d_addr a ≠ d_addr b → power_less a b = true ∨ power_less b a = true.
Proof. rewrite !power_less_dg. intros H. apply ValSet.power_lt_total. exact H. Qed.
Lemma power_less_asym a b : power_less a b = true → power_less b a = false.
Proof. apply Rigo.Sorting.lt_asym; [apply power_less_irrefl | apply power_less_trans]. Qed.

Global Instance power_leP_total : Total power_leP.
Proof.
  intros x y. unfold power_leP, power_le. destruct (power_less y x) eqn:E; [|left; exact I].
  right. rewrite (power_less_asym _ _ E). exact I.
Qed.

Notation power_ltP := (λ a b : delegatee, power_less a b = true).
Notation go_sorted_power := (Rigo.Sorting.go_sorted delegatee power_less).

Definition distinct_addrs (l : list delegatee) : Prop := NoDup (d_addr <$> l).

Lemma distinct_addrs_NoDup l : distinct_addrs l → List.NoDup l.
Proof. intros H. apply NoDup_ListNoDup. eapply NoDup_fmap_1. exact H. Qed.

Lemma distinct_addrs_total l : distinct_addrs l → Rigo.Sorting.total_on delegatee power_less l.
Proof.
  intros Hd a b Ha Hb Hne. apply power_less_total. intros E. apply Hne.
  apply elem_of_list_In in Ha, Hb. clear Hne. unfold distinct_addrs in Hd.
  induction l as [|x l IH]; [inversion Ha|]. rewrite fmap_cons in Hd. apply NoDup_cons in Hd as [Hx Hd].
  apply elem_of_cons in Ha as [->|Ha]; apply elem_of_cons in Hb as [->|Hb].
  - reflexivity.
  - exfalso. apply Hx. rewrite E. apply elem_of_list_fmap. eauto.
  - exfalso. apply Hx. rewrite <- E. apply elem_of_list_fmap. eauto.
  - apply IH; assumption.
Qed.

Lemma sort_power_perm l : sort_power l ≡ₚ l.
Proof. apply merge_sort_Permutation. Qed.

(* what sort.IsSorted checks holds of the model's merge sort ... *)
Lemma sort_power_go_sorted l : go_sorted_power (sort_power l).
Proof.
  unfold Rigo.Sorting.go_sorted. eapply Sorted_impl; [|apply (Sorted_merge_sort power_leP)].
  intros a b H. unfold power_leP, power_le in H. unfold Rigo.Sorting.geP.
  destruct (power_less b a); [destruct H | reflexivity].
Qed.

(* ... and on distinct addresses there is only one such listing: any correct sort (Go's unstable
   sort.Sort, the insertion sort of ValSet.v, the merge sort of Spec.v) returns the same list *)
Theorem sort_power_unique l l' :
  distinct_addrs l → l' ≡ₚ l → go_sorted_power l' → l' = sort_power l.
Proof.
  intros Hd Hp Hs.
  pose proof (Rigo.Sorting.sort_unique delegatee power_less power_less_irrefl power_less_trans) as U.
  rewrite (U l l' (distinct_addrs_NoDup l Hd) (distinct_addrs_total l Hd) Hp Hs).
  symmetry. apply U; [apply distinct_addrs_NoDup, Hd | apply distinct_addrs_total, Hd | apply sort_power_perm | apply sort_power_go_sorted].
Qed.

Lemma distinct_addrs_perm l l' : l ≡ₚ l' → distinct_addrs l → distinct_addrs l'.
Proof. unfold distinct_addrs. intros Hp. rewrite Hp. auto. Qed.

Theorem sort_power_sorted l : distinct_addrs l → StronglySorted power_ltP (sort_power l).
Proof.
  intros Hd.
  apply (Rigo.Sorting.go_sorted_strong delegatee power_less power_less_trans).
  - apply distinct_addrs_NoDup. eapply distinct_addrs_perm; [symmetry; apply sort_power_perm | exact Hd].
  - apply distinct_addrs_total. eapply distinct_addrs_perm; [symmetry; apply sort_power_perm | exact Hd].
  - apply sort_power_go_sorted.
Qed.

Lemma dg_addrs l : map ValSet.d_addr (map dg_of l) = d_addr <$> l.
Proof. rewrite map_map. reflexivity. Qed.

Lemma distinct_dg l : distinct_addrs l → ValSet.distinct (map dg_of l).
Proof. intros H. unfold ValSet.distinct. rewrite dg_addrs. apply NoDup_ListNoDup, H. Qed.

(* the model's merge sort and ValSet's insertion sort agree on the snapshots *)
Theorem sort_power_dg l : distinct_addrs l → map dg_of (sort_power l) = ValSet.sort_power (map dg_of l).
Proof.
  intros Hd. apply ValSet.select_unique.
  - apply distinct_dg, Hd.
  - apply Permutation_map, sort_power_perm.
  - unfold Rigo.Sorting.go_sorted. apply Sorted_map.
    eapply Sorted_impl; [|apply sort_power_go_sorted].
    intros a b. unfold Rigo.Sorting.geP. rewrite power_less_dg. auto.
Qed.

(* ------------------------------------------------------------------ what begin_block / end_block select *)
Definition dels_key_ok (l : ledgers) : Prop := ∀ a d, dels l !! a = Some d → d_addr d = a.
Definition totals_ok (l : ledgers) : Prop := ∀ a d, dels l !! a = Some d → 0 ≤ d_self d ≤ d_total d.

(* the delegatees of a ledger state in key order: what iterating the committed tree delivers *)
Definition committed_dels (l : ledgers) : list delegatee := snd <$> sorted_items (dels l).
Definition eligible (g : params) (l : ledgers) : list delegatee :=
  List.filter (λ d, min_power g <=? d_self d) (committed_dels l).
Definition ranked (g : params) (l : ledgers) : list delegatee := sort_power (eligible g l).
Definition selection (g : params) (l : ledgers) : list delegatee :=
  take (Z.to_nat (g_maxValidatorCnt g)) (ranked g l).
Definition sel_vals (g : params) (l : ledgers) : list (addr * Z) :=
  map (λ d, (d_addr d, d_total d)) (selection g l).

Lemma elem_of_sorted_items {A} (m : gmap N A) k x : (k, x) ∈ sorted_items m ↔ m !! k = Some x.
Proof. unfold sorted_items. rewrite merge_sort_Permutation. apply elem_of_map_to_list. Qed.

Lemma elem_of_committed_dels l d : d ∈ committed_dels l ↔ ∃ a, dels l !! a = Some d.
Proof.
  unfold committed_dels. rewrite elem_of_list_fmap. split.
  - intros ([a d'] & -> & H). exists a. apply elem_of_sorted_items, H.
  - intros (a & H). exists (a, d). split; [reflexivity | apply elem_of_sorted_items, H].
Qed.

Lemma committed_dels_addrs l : dels_key_ok l → d_addr <$> committed_dels l = (sorted_items (dels l)).*1.
Proof.
  intros Hk. unfold committed_dels.
  assert (H : Forall (λ kd : addr * delegatee, d_addr kd.2 = kd.1) (sorted_items (dels l))).
  { rewrite Forall_forall. intros [a d] Hx. apply elem_of_sorted_items in Hx. simpl. eapply Hk, Hx. }
  induction H as [|[a d] k Hx Hf IH]; [reflexivity|].
  rewrite !fmap_cons. cbn [fst snd] in Hx |- *. rewrite Hx, IH. reflexivity.
Qed.

Lemma committed_dels_distinct l : dels_key_ok l → distinct_addrs (committed_dels l).
Proof.
  intros Hk. unfold distinct_addrs. rewrite (committed_dels_addrs l Hk).
  unfold sorted_items. rewrite merge_sort_Permutation. apply NoDup_fst_map_to_list.
Qed.

Lemma distinct_addrs_filter p l : distinct_addrs l → distinct_addrs (List.filter p l).
Proof.
  unfold distinct_addrs. induction l as [|x l IH]; intros H; [constructor|].
  rewrite fmap_cons in H. apply NoDup_cons in H as [Hx H]. simpl.
  destruct (p x); [|apply IH, H]. rewrite fmap_cons. apply NoDup_cons. split; [|apply IH, H].
  intros Hin. apply Hx. apply elem_of_list_fmap in Hin as (y & -> & Hy).
  apply elem_of_List_filter in Hy as [Hy _]. apply elem_of_list_fmap. eauto.
Qed.

Lemma eligible_distinct g l : dels_key_ok l → distinct_addrs (eligible g l).
Proof. intros Hk. apply distinct_addrs_filter, committed_dels_distinct, Hk. Qed.

Lemma elem_of_eligible g l d : d ∈ eligible g l ↔ (∃ a, dels l !! a = Some d) ∧ min_power g ≤ d_self d.
Proof. unfold eligible. rewrite elem_of_List_filter, elem_of_committed_dels, Z.leb_le. reflexivity. Qed.

Lemma ranked_distinct g l : dels_key_ok l → distinct_addrs (ranked g l).
Proof. intros Hk. eapply distinct_addrs_perm; [symmetry; apply sort_power_perm | apply eligible_distinct, Hk]. Qed.

Lemma distinct_addrs_take n l : distinct_addrs l → distinct_addrs (take n l).
Proof.
  unfold distinct_addrs. rewrite <- (take_drop n l) at 1. rewrite fmap_app. intros H.
  apply NoDup_app in H as [H _]. exact H.
Qed.

Lemma selection_distinct g l : dels_key_ok l → distinct_addrs (selection g l).
Proof. intros Hk. apply distinct_addrs_take, ranked_distinct, Hk. Qed.

Lemma sel_vals_addrs g l : (sel_vals g l).*1 = d_addr <$> selection g l.
Proof.
  unfold sel_vals. generalize (selection g l) as k. induction k as [|d k IH]; [reflexivity|].
  cbn [map]. rewrite !fmap_cons, IH. reflexivity.
Qed.

Lemma sel_vals_nodup g l : dels_key_ok l → NoDup (sel_vals g l).*1.
Proof. intros Hk. rewrite sel_vals_addrs. apply selection_distinct, Hk. Qed.

Lemma elem_of_sel_vals g l a p : (a, p) ∈ sel_vals g l ↔ ∃ d, d ∈ selection g l ∧ d_addr d = a ∧ d_total d = p.
Proof.
  unfold sel_vals. rewrite elem_of_list_In, in_map_iff. split.
  - intros (d & [= <- <-] & H). exists d. rewrite elem_of_list_In. auto.
  - intros (d & H & <- & <-). exists d. rewrite <- elem_of_list_In. auto.
Qed.

(* (V2) the selection, characterised without reference to any sorting algorithm: it consists of
   eligible delegatees of [l] (own power at least the minimum), has min(#eligible, maxValidatorCnt)
   members, is listed in strictly descending power order (total power, then number of stakes, then
   address), and every eligible delegatee left out ranks strictly after every selected one; the
   announced power is the total power. *)
Theorem selection_spec g l :
  dels_key_ok l → 0 ≤ g_maxValidatorCnt g →
  (∀ d, d ∈ selection g l → dels l !! d_addr d = Some d ∧ min_power g ≤ d_self d) ∧
  distinct_addrs (selection g l) ∧
  StronglySorted power_ltP (selection g l) ∧
  Z.of_nat (length (selection g l)) = Z.min (Z.of_nat (length (eligible g l))) (g_maxValidatorCnt g) ∧
  (∀ d e, d ∈ selection g l → dels l !! d_addr e = Some e → min_power g ≤ d_self e →
          e ∉ selection g l → power_less d e = true) ∧
  sel_vals g l = map (λ d, (d_addr d, d_total d)) (selection g l).
Proof.
  intros Hk Hmax.
  pose proof (sort_power_sorted _ (eligible_distinct g l Hk)) as Hss. fold (ranked g l) in Hss.
  assert (Hsplit : ranked g l = selection g l ++ drop (Z.to_nat (g_maxValidatorCnt g)) (ranked g l))
    by (symmetry; apply take_drop).
  split; [|split; [|split; [|split; [|split]]]].
  - intros d Hd. assert (Hr : d ∈ ranked g l) by (rewrite Hsplit; apply elem_of_app; left; exact Hd).
    unfold ranked in Hr. rewrite sort_power_perm in Hr. apply elem_of_eligible in Hr as [(a & Ha) Hm].
    split; [|exact Hm]. rewrite (Hk _ _ Ha). exact Ha.
  - apply selection_distinct, Hk.
  - rewrite Hsplit in Hss. eapply StronglySorted_app_inv_l, Hss.
  - unfold selection. rewrite take_length. unfold ranked.
    rewrite (Permutation_length (sort_power_perm (eligible g l))). lia.
  - intros d e Hd He Hm Hn. rewrite Hsplit in Hss.
    eapply (elem_of_StronglySorted_app _ _ _ d e Hss Hd).
    assert (Hr : e ∈ ranked g l).
    { unfold ranked. rewrite sort_power_perm. apply elem_of_eligible. split; [eauto | exact Hm]. }
    rewrite Hsplit in Hr. apply elem_of_app in Hr as [Hr|Hr]; [contradiction | exact Hr].
  - reflexivity.
Qed.

(* any correct sort of the eligible delegatees gives the same selection *)
Theorem selection_unique g l l' :
  dels_key_ok l → l' ≡ₚ eligible g l → go_sorted_power l' →
  take (Z.to_nat (g_maxValidatorCnt g)) l' = selection g l.
Proof.
  intros Hk Hp Hs. unfold selection, ranked.
  rewrite (sort_power_unique (eligible g l) l' (eligible_distinct g l Hk) Hp Hs). reflexivity.
Qed.

(* the same selection in the vocabulary of ValSet.v, so that its theorems (select_top,
   select_subset, select_length, select_resort, ...) apply to the model's selection *)
Theorem selection_dg g l :
  dels_key_ok l → 0 ≤ g_maxValidatorCnt g →
  ValSet.select (g_maxValidatorCnt g) (ValSet.eligible (min_power g) (map dg_of (committed_dels l)))
  = Some (map dg_of (selection g l)) ∧
  sel_vals g l = ValSet.vals (map dg_of (selection g l)).
Proof.
  intros Hk Hmax. split.
  - rewrite ValSet.select_some by exact Hmax. f_equal.
    unfold ValSet.eligible. rewrite filter_map_comm. cbn [dg_of ValSet.d_self].
    fold (eligible g l). rewrite <- (sort_power_dg _ (eligible_distinct g l Hk)).
    rewrite map_length. unfold selection, ranked. rewrite firstn_map.
    f_equal. rewrite <- (Permutation_length (sort_power_perm (eligible g l))).
    set (k := sort_power (eligible g l)).
    destruct (Z.le_ge_cases (Z.of_nat (length k)) (g_maxValidatorCnt g)) as [Hle|Hge].
    + rewrite Z.min_l by exact Hle. rewrite Nat2Z.id. rewrite !firstn_all2; [reflexivity | lia | lia].
    + rewrite Z.min_r by lia. reflexivity.
  - unfold sel_vals, ValSet.vals. rewrite map_map. reflexivity.
Qed.
Print Assumptions sort_power_unique.
Print Assumptions selection_spec.
Print Assumptions selection_dg.

(* ================================================================== 3. what the operations do to the validator bookkeeping *)
(* [lstep l l']: the parameter record is kept and the key discipline of the delegatee map survives *)
Definition lstep (l l' : ledgers) : Prop := lparams l' = lparams l ∧ (dels_key_ok l → dels_key_ok l').
Definition same_dp (l l' : ledgers) : Prop := dels l' = dels l ∧ lparams l' = lparams l.

Lemma same_dp_refl l : same_dp l l. Proof. split; reflexivity. Qed.
Lemma same_dp_trans l1 l2 l3 : same_dp l1 l2 → same_dp l2 l3 → same_dp l1 l3.
Proof. intros [H1 H2] [H3 H4]; split; congruence. Qed.
Lemma lstep_refl l : lstep l l. Proof. split; auto. Qed.
Lemma lstep_trans l1 l2 l3 : lstep l1 l2 → lstep l2 l3 → lstep l1 l3.
Proof. intros [H1 H2] [H3 H4]; split; [congruence | auto]. Qed.
Lemma lstep_same_dp l l' : same_dp l l' → lstep l l'.
Proof. intros [H1 H2]. split; [exact H2|]. unfold dels_key_ok. rewrite H1. auto. Qed.

Lemma lstep_insert l a d : (dels_key_ok l → d_addr d = a) → lstep l (set_dels l (<[a := d]> (dels l))).
Proof.
  intros Hd. split; [reflexivity|]. intros Hk b x. simpl. rewrite lookup_insert_Some.
  intros [[<- <-]|[_ H]]; [apply Hd, Hk | eapply Hk, H].
Qed.
Lemma lstep_delete l a : lstep l (set_dels l (delete a (dels l))).
Proof. split; [reflexivity|]. intros Hk b x. simpl. rewrite lookup_delete_Some. intros [_ H]. eapply Hk, H. Qed.

Lemma lstep_delete' l l' a : lparams l' = lparams l → dels l' = delete a (dels l) → lstep l l'.
Proof.
  intros H1 H2. split; [exact H1|]. intros Hk b x. rewrite H2, lookup_delete_Some. intros [_ H]. eapply Hk, H.
Qed.

Lemma del_stake_addr d h : d_addr (del_stake d h) = d_addr d.
Proof. unfold del_stake. destruct (find_stake h (d_stakes d)); reflexivity. Qed.

Lemma foldl_res_stuck_err {A B} (f : res A → B → res A) (xs : list B) e :
  (∀ b, f (Err e) b = Err e) → foldl f (Err e) xs = Err e.
Proof. intros H. induction xs as [|x xs IH]; simpl; [reflexivity | rewrite H; exact IH]. Qed.
Lemma foldl_res_stuck_panic {A B} (f : res A → B → res A) (xs : list B) p :
  (∀ b, f (Panic p) b = Panic p) → foldl f (Panic p) xs = Panic p.
Proof. intros H. induction xs as [|x xs IH]; simpl; [reflexivity | rewrite H; exact IH]. Qed.

(* ------------------------------------------------------------------ deliver *)
Lemma stake_execute_lstep s l t l' : stake_execute s l t = Ok l' → lstep l l'.
Proof.
  unfold stake_execute.
  destruct (t_type t =? TRX_STAKING) eqn:E1.
  { destruct (dels l !! t_to t) as [d|] eqn:Ed.
    - destruct (accts l !! t_from t) as [sender|]; [|discriminate].
      destruct (sub_balance sender (t_amount t)) as [sender'|]; [|discriminate].
      intros [= <-]. eapply lstep_trans; [apply lstep_same_dp; split; reflexivity|].
      apply (lstep_insert (set_acct l (t_from t) sender')). intros Hk. simpl. eapply Hk. exact Ed.
    - destruct (t_from t =? t_to t)%N eqn:Eft; [|discriminate]. apply N.eqb_eq in Eft.
      destruct (accts l !! t_from t) as [sender|]; [|discriminate].
      destruct (sub_balance sender (t_amount t)) as [sender'|]; [|discriminate].
      intros [= <-]. eapply lstep_trans; [apply lstep_same_dp; split; reflexivity|].
      apply (lstep_insert (set_acct l (t_from t) sender')). intros _. simpl. exact Eft. }
  destruct (t_type t =? TRX_UNSTAKING) eqn:E2.
  { destruct (dels l !! t_to t) as [d|] eqn:Ed; [|discriminate].
    destruct (t_payload t) as [|hs b| | | | |]; try discriminate.
    destruct (find_stake hs (d_stakes d)) as [s0|]; [|discriminate].
    destruct (negb (s_from s0 =? t_from t)%N); [discriminate|].
    assert (Ha : dels_key_ok l → d_addr (del_stake d hs) = t_to t).
    { intros Hk. rewrite del_stake_addr. eapply Hk, Ed. }
    destruct (d_self (del_stake d hs) =? 0); simpl.
    - destruct (_ =? 0); intros [= <-].
      + eapply lstep_trans; [apply lstep_same_dp; split; reflexivity | apply (lstep_delete (set_frozen l _))].
      + eapply lstep_trans; [apply lstep_same_dp; split; reflexivity | apply (lstep_insert (set_frozen l _)); exact Ha].
    - destruct (_ =? 0); intros [= <-].
      + eapply lstep_trans; [apply lstep_same_dp; split; reflexivity | apply (lstep_delete (set_frozen l _))].
      + eapply lstep_trans; [apply lstep_same_dp; split; reflexivity | apply (lstep_insert (set_frozen l _)); exact Ha]. }
  destruct (t_payload t) as [| |req| | | |]; try discriminate.
  destruct (rewards l !! t_from t) as [r|]; [|discriminate].
  destruct (r_height r >? b_height (bctx s)); [discriminate|].
  match goal with |- match ?x with _ => _ end = _ → _ => destruct x as [l2|] eqn:Ew end; [|discriminate].
  intros [= <-]. unfold acct_reward in Ew.
  destruct (accts _ !! t_from t) as [x|]; simpl in Ew; [|discriminate].
  destruct (add_balance x req) as [x'|]; simpl in Ew; [|discriminate].
  injection Ew as <-. apply lstep_same_dp. split; reflexivity.
Qed.

Lemma find_or_new_dp l a : same_dp l (find_or_new l a).1.
Proof. unfold find_or_new. destruct (accts l !! a); split; reflexivity. Qed.

Lemma evm_fold_dp (xs : list (addr * Z * Z)) l :
  same_dp l (foldl (λ l x, let '(a, bal, nonce) := x in
       let old := default acct0 (accts l !! a) in
       set_acct l a {| a_nonce := nonce; a_bal := bal; a_code := a_code old; a_name := a_name old; a_doc := a_doc old |}) l xs).
Proof.
  revert l; induction xs as [|[[a bal] nonce] xs IH]; intros l; simpl; [apply same_dp_refl|].
  eapply same_dp_trans; [|apply IH]. split; reflexivity.
Qed.

Lemma evm_execute_dp l t l' g : evm_execute l t = Ok (l', g) → same_dp l l'.
Proof.
  unfold evm_execute. destruct (t_evm t) as [e|]; [|discriminate].
  destruct (negb (e_ok e)); [discriminate|]. intros [= <- _].
  destruct (e_created e) as [c|].
  - eapply same_dp_trans; [apply evm_fold_dp | split; reflexivity].
  - apply evm_fold_dp.
Qed.

Lemma gov_execute_dp s l t l' : gov_execute s l t = Ok l' → same_dp l l'.
Proof.
  unfold gov_execute. destruct (t_type t =? TRX_PROPOSAL).
  - destruct (t_payload t); try discriminate. intros [= <-]. split; reflexivity.
  - destruct (t_payload t) as [| | | |ph choice| |]; try discriminate.
    destruct (props l !! ph) as [p|]; [|discriminate].
    destruct (prop_vote p (t_from t) choice); [|discriminate]. intros [= <-]. split; reflexivity.
Qed.

Lemma acct_execute_dp l t l' : acct_execute l t = Ok l' → same_dp l l'.
Proof.
  unfold acct_execute. destruct (accts l !! t_from t) as [sender|]; [|discriminate].
  destruct (accts l !! t_to t) as [receiver|]; [|discriminate].
  destruct (t_type t =? TRX_TRANSFER).
  - destruct (sub_balance sender (t_amount t)) as [sender'|]; [|discriminate].
    destruct (add_balance _ (t_amount t)) as [recv'|]; [|discriminate].
    intros [= <-]. split; reflexivity.
  - destruct (t_payload t); try discriminate. intros [= <-]. split; reflexivity.
Qed.

(* the fields a delivery cannot touch, and its effect on the working ledgers *)
Definition ctl_kept (s s' : state) : Prop :=
  committed s' = committed s ∧ gparams s' = gparams s ∧ newparams s' = newparams s ∧
  alldels s' = alldels s ∧ lastvals s' = lastvals s ∧ last_height s' = last_height s ∧
  b_height (bctx s') = b_height (bctx s).

Lemma deliver_frame s t : ctl_kept s (deliver s t).1 ∧ lstep (work s) (work (deliver s t).1).
Proof.
  destruct (deliver s t) as [s' r] eqn:E. cbn [fst]. revert E. unfold deliver.
  destruct (accts (work s) !! t_from t) as [sender|] eqn:Es.
  2:{ intros [= <- <-]. split; [repeat split | apply lstep_refl]. }
  cbv zeta.
  destruct (find_or_new (work (with_bctx s _)) (t_to t)) as [l0 receiver] eqn:Ef.
  assert (Hl0 : lstep (work s) l0).
  { pose proof (find_or_new_dp (work s) (t_to t)) as H. simpl in Ef. rewrite Ef in H. apply lstep_same_dp, H. }
  destruct (common_validation0 (gparams s) t) as [e|].
  { intros [= <- <-]. split; [repeat split | exact Hl0]. }
  destruct (common_validation1 sender t) as [e|].
  { intros [= <- <-]. split; [repeat split | exact Hl0]. }
  match goal with |- match ?v with Ok _ => _ | Err _ => _ | Panic _ => _ end = _ → _ =>
    destruct v as [lim'|e|p] eqn:Eval end.
  2:{ intros [= <- <-]. split; [repeat split | exact Hl0]. }
  2:{ intros [= <- <-]. split; [repeat split | exact Hl0]. }
  clear Eval.
  match goal with |- (if ?c then _ else _) = _ → _ => destruct c end.
  { (* EVM path *)
    match goal with |- match ?v with Ok _ => _ | Err _ => _ | Panic _ => _ end = _ → _ =>
      destruct v as [[l' gas]|e|p] eqn:Eevm end.
    - intros [= <- <-]. split; [repeat split|].
      eapply lstep_trans; [exact Hl0 | apply lstep_same_dp; eapply evm_execute_dp; exact Eevm].
    - intros [= <- <-]. split; [repeat split | exact Hl0].
    - intros [= <- <-]. split; [repeat split | exact Hl0]. }
  match goal with |- match ?v with Ok _ => _ | Err _ => _ | Panic _ => _ end = _ → _ =>
    destruct v as [l'|e|p] eqn:Eexec end.
  2:{ intros [= <- <-]. split; [repeat split | exact Hl0]. }
  2:{ intros [= <- <-]. split; [repeat split | exact Hl0]. }
  assert (Hexec : lstep (work s) l').
  { eapply lstep_trans; [exact Hl0|].
    destruct ((t_type t =? TRX_PROPOSAL) || (t_type t =? TRX_VOTING)).
    - apply lstep_same_dp. eapply gov_execute_dp; exact Eexec.
    - destruct ((t_type t =? TRX_TRANSFER) || (t_type t =? TRX_SETDOC)).
      + apply lstep_same_dp. eapply acct_execute_dp; exact Eexec.
      + eapply stake_execute_lstep; exact Eexec. }
  clear Eexec.
  destruct (accts l' !! t_from t) as [snd'|].
  2:{ intros [= <- <-]. split; [repeat split | exact Hl0]. }
  destruct (sub_balance snd' (fee_of t)) as [snd''|].
  - intros [= <- <-]. split; [repeat split|].
    eapply lstep_trans; [exact Hexec | apply lstep_same_dp; split; reflexivity].
  - intros [= <- <-]. split; [repeat split | exact Hexec].
Qed.

Definition delivers (s : state) (txs : list tx) : state := foldl (λ s t, (deliver s t).1) s txs.

Lemma ctl_kept_refl s : ctl_kept s s. Proof. repeat split. Qed.
Lemma ctl_kept_trans s1 s2 s3 : ctl_kept s1 s2 → ctl_kept s2 s3 → ctl_kept s1 s3.
Proof. unfold ctl_kept. intros (?&?&?&?&?&?&?) (?&?&?&?&?&?&?). repeat split; congruence. Qed.

Lemma delivers_frame txs : ∀ s, ctl_kept s (delivers s txs) ∧ lstep (work s) (work (delivers s txs)).
Proof.
  induction txs as [|t txs IH]; intros s; [split; [apply ctl_kept_refl | apply lstep_refl]|].
  unfold delivers. simpl. fold (delivers (deliver s t).1 txs).
  destruct (deliver_frame s t) as [H1 H2]. destruct (IH (deliver s t).1) as [H3 H4].
  split; [eapply ctl_kept_trans | eapply lstep_trans]; eassumption.
Qed.

(* ------------------------------------------------------------------ begin_block *)
Lemma gov_punish_inner_dp a ratio (targets : list (hash * proposal)) l :
  same_dp l (foldl (λ l kp, match props l !! kp.1 with
                   | Some p => set_props l (<[kp.1 := (prop_punish p a ratio).1]> (props l))
                   | None => l end) l targets).
Proof.
  revert l. induction targets as [|kp targets IH2]; intros l1; simpl; [apply same_dp_refl|].
  eapply same_dp_trans; [|apply IH2].
  destruct (props l1 !! kp.1); [split; reflexivity | apply same_dp_refl].
Qed.

Lemma gov_punish_dp l ratio evi : same_dp l (gov_punish l ratio evi).
Proof.
  unfold gov_punish. revert l. induction evi as [|a evi IH]; intros l; simpl; [apply same_dp_refl|].
  eapply same_dp_trans; [|apply IH]. apply gov_punish_inner_dp.
Qed.

Lemma stake_punish_lstep l ratio evi : lstep l (stake_punish l ratio evi).
Proof.
  unfold stake_punish. revert l. induction evi as [|a evi IH]; intros l; simpl; [apply lstep_refl|].
  eapply lstep_trans; [|apply IH].
  destruct (dels l !! a) as [d|] eqn:Ed; [|apply lstep_refl].
  apply lstep_insert. intros Hk. simpl. eapply Hk, Ed.
Qed.

Lemma process_votes_lstep s l h votes l' iss : process_votes s l h votes = Ok (l', iss) → lstep l l'.
Proof.
  unfold process_votes.
  destruct (ledgers_at s (hgt_of_power h)) as [old|]; [|discriminate].
  match goal with |- foldl ?f _ _ = _ → _ => set (step := f) end.
  generalize 0 as i0. revert l.
  induction votes as [|[[a pw] signed] votes IH]; intros l i0.
  { simpl. intros [= <- _]. apply lstep_refl. }
  change (foldl step (step (Ok (l, i0)) (a, pw, signed)) votes = Ok (l', iss) → lstep l l').
  assert (Hstuck : ∀ r : res (ledgers * Z), (∀ x, r ≠ Ok x) → foldl step r votes = Ok (l', iss) → False).
  { intros [x|e|p] Hx; [destruct (Hx x); reflexivity| |].
    - rewrite foldl_res_stuck_err by reflexivity. discriminate.
    - rewrite foldl_res_stuck_panic by reflexivity. discriminate. }
  unfold step at 2.
  destruct signed.
  - destruct (dels old !! a) as [d|]; [|apply IH].
    destruct (negb (d_total d =? pw)); [apply IH|].
    destruct (reward_to (gparams s) h (rewards l) d) as [[rw iss']|e|p].
    + intros H. eapply lstep_trans; [|eapply IH, H]. apply lstep_same_dp. split; reflexivity.
    + intros H. exfalso. eapply Hstuck; [|exact H]. discriminate.
    + intros H. exfalso. eapply Hstuck; [|exact H]. discriminate.
  - destruct (dels l !! a) as [d|] eqn:Ed; [|apply IH].
    destruct (count_in_window _ _ _) as [cnt m2] eqn:Ec.
    assert (H1 : lstep l (set_dels l (<[a := {| d_addr := d_addr d; d_self := d_self d; d_total := d_total d;
                                                d_stakes := d_stakes d; d_marks := m2 |}]> (dels l)))).
    { apply lstep_insert. intros Hk. simpl. eapply Hk, Ed. }
    destruct (_ <? g_minSignedBlocks (gparams s)).
    + intros H. eapply lstep_trans; [|eapply IH, H].
      eapply lstep_trans; [exact H1|]. eapply (lstep_delete' _ _ a); reflexivity.
    + intros H. eapply lstep_trans; [|eapply IH, H]. exact H1.
Qed.

Lemma begin_block_frame s hd :
  let s' := (begin_block s hd).1 in
  committed s' = committed s ∧ gparams s' = gparams s ∧ newparams s' = newparams s ∧
  lastvals s' = lastvals s ∧ last_height s' = last_height s ∧ lstep (work s) (work s').
Proof.
  unfold begin_block.
  destruct (negb (h_height hd =? last_height s + 1)); [cbn; repeat (split; [reflexivity|]); apply lstep_refl|]. cbv zeta.
  assert (H2 : lstep (work s) (stake_punish (gov_punish (work s) (g_slashRatio (gparams s)) (h_evidence hd))
                  (g_slashRatio (gparams s)) (h_evidence hd))).
  { eapply lstep_trans; [apply lstep_same_dp, gov_punish_dp | apply stake_punish_lstep]. }
  destruct (h_votes hd) as [|v votes] eqn:Ev; [cbn; repeat (split; [reflexivity|]); exact H2|].
  match goal with |- context [process_votes ?s1 ?l2 ?h ?vs] => destruct (process_votes s1 l2 h vs) as [[l3 iss]|e|pn] eqn:Epv end;
    cbn; repeat (split; [reflexivity|]); try exact H2.
  eapply lstep_trans; [exact H2 | eapply process_votes_lstep, Epv].
Qed.

Lemma begin_block_ok s hd r : (begin_block s hd).2 = Ok r →
  h_height hd = last_height s + 1 ∧
  alldels (begin_block s hd).1 = ranked (gparams s) (base_of s) ∧
  b_height (bctx (begin_block s hd).1) = h_height hd.
Proof.
  unfold begin_block.
  destruct (h_height hd =? last_height s + 1) eqn:Eh; cbn [negb]; [|discriminate]. apply Z.eqb_eq in Eh.
  cbv zeta. destruct (h_votes hd) as [|v votes]; [intros _; cbn; auto|].
  match goal with |- context [process_votes ?s1 ?l2 ?h ?vs] => destruct (process_votes s1 l2 h vs) as [[l3 iss]|e|pn] end;
    cbn; intros H; try discriminate H. auto.
Qed.

(* ------------------------------------------------------------------ end_block and commit *)
Lemma freeze_proposals_dp base l h l' : freeze_proposals base l h = Ok l' → same_dp l l'.
Proof.
  unfold freeze_proposals. generalize (sorted_items (props base)) as items.
  intros items. revert l. induction items as [|kp items IH]; intros l; simpl.
  { intros [= <-]; apply same_dp_refl. }
  destruct (p_end kp.2 <? h); [|apply IH].
  destruct (props l !! kp.1); [|rewrite foldl_res_stuck_panic by reflexivity; discriminate].
  destruct (update_major kp.2) as [p'|e|pn].
  - destruct (p_major p'); intros H; apply IH in H; (eapply same_dp_trans; [|exact H]); split; reflexivity.
  - rewrite foldl_res_stuck_err by reflexivity; discriminate.
  - rewrite foldl_res_stuck_panic by reflexivity; discriminate.
Qed.

(* the parameter record of the working ledgers and the pending in-memory copy move together *)
Lemma apply_proposals_params s base l h l' np : apply_proposals s base l h = Ok (l', np) →
  dels l' = dels l ∧ (lparams l = default (gparams s) (newparams s) → lparams l' = default (gparams s) np).
Proof.
  unfold apply_proposals. generalize (sorted_items (fprops base)) as items. generalize (newparams s) as np0.
  intros np0 items. revert l np0. induction items as [|kp items IH]; intros l np0; simpl.
  { intros [= <- <-]; auto. }
  destruct (p_apply kp.2 <=? h); [|apply IH].
  destruct (fprops l !! kp.1); [|rewrite foldl_res_stuck_panic by reflexivity; discriminate].
  destruct (p_major kp.2) as [o|].
  - destruct (p_opttype kp.2 =? PROPOSAL_GOVPARAMS).
    + destruct (o_params o) as [newp|]; [|rewrite foldl_res_stuck_panic by reflexivity; discriminate].
      intros H; apply IH in H as [H1 H2]. split; [exact H1|]. intros _. apply H2. reflexivity.
    + intros H; apply IH in H as [H1 H2]. split; [exact H1 | exact H2].
  - intros H; apply IH in H as [H1 H2]. split; [exact H1 | exact H2].
Qed.

Lemma unfreeze_dp base l h l' : unfreeze base l h = Ok l' → same_dp l l'.
Proof.
  unfold unfreeze. generalize (sorted_items (frozen base)) as items.
  intros items. revert l. induction items as [|kp items IH]; intros l; simpl.
  { intros [= <-]; apply same_dp_refl. }
  destruct (s_refund kp.2 <=? h); [|apply IH].
  destruct (acct_reward l (s_from kp.2) (power_to_amount (s_power kp.2))) as [l1|] eqn:Er;
    [|rewrite foldl_res_stuck_panic by reflexivity; discriminate].
  intros H. apply IH in H. eapply same_dp_trans; [|exact H].
  unfold acct_reward in Er. destruct (accts l !! _) as [x|]; simpl in Er; [|discriminate].
  destruct (add_balance x _) as [x'|]; simpl in Er; [|discriminate]. injection Er as <-. split; reflexivity.
Qed.

Lemma end_block_ok s s' ups : end_block s = (s', Ok ups) →
  committed s' = committed s ∧ gparams s' = gparams s ∧ alldels s' = alldels s ∧ bctx s' = bctx s ∧
  last_height s' = last_height s ∧ dels (work s') = dels (work s) ∧
  (lparams (work s) = default (gparams s) (newparams s) → lparams (work s') = default (gparams s) (newparams s')) ∧
  0 ≤ g_maxValidatorCnt (gparams s) ∧
  lastvals s' = map (λ d, (d_addr d, d_total d)) (take (Z.to_nat (g_maxValidatorCnt (gparams s))) (alldels s)) ∧
  ups = val_updates (S (length (lastvals s) + length (lastvals s'))) (sort_addr (lastvals s)) (sort_addr (lastvals s')).
Proof.
  unfold end_block.
  destruct (freeze_proposals (base_of s) (work s) (b_height (bctx s))) as [l1|e|pn] eqn:E1; try discriminate.
  destruct (apply_proposals s (base_of s) l1 (b_height (bctx s))) as [[l2 np]|e|pn] eqn:E2; try discriminate.
  apply freeze_proposals_dp in E1 as [D1 P1]. apply apply_proposals_params in E2 as [D2 P2].
  match goal with |- match ?x with Some _ => _ | None => _ end = _ → _ => destruct x as [l3|] eqn:E3 end; [|discriminate].
  assert (H3 : dels l3 = dels l2 ∧ lparams l3 = lparams l2).
  { destruct (b_proposer (bctx s)) as [pa|]; [|injection E3 as <-; auto].
    destruct (0 <? sign256 (b_feesum (bctx s))); [|injection E3 as <-; auto].
    destruct (add_balance _ _) as [x|]; [|discriminate]. injection E3 as <-. auto. }
  destruct H3 as [D3 P3]. clear E3.
  destruct (unfreeze (base_of s) l3 (b_height (bctx s))) as [l4|e|pn] eqn:E4; try discriminate.
  apply unfreeze_dp in E4 as [D4 P4].
  destruct (g_maxValidatorCnt (gparams s) <? 0) eqn:Em; [discriminate|]. apply Z.ltb_ge in Em.
  intros [= <- <-]. cbn.
  repeat (split; [reflexivity|]).
  split; [congruence|]. split; [intros H; rewrite P4, P3; apply P2; rewrite P1; exact H|].
  split; [exact Em|]. split; [reflexivity|].
  rewrite map_length. reflexivity.
Qed.

(* ================================================================== 4. blocks and the boundary invariant *)
Definition block_ops (hd : header) (txs : list tx) : list sop := [SBegin hd] ++ map SDeliver txs ++ [SEnd; SCommit].

(* one well-bracketed block in which BeginBlock and EndBlock answer without error; the result is
   the state after the commit and the validator updates EndBlock returned *)
Definition do_block (s : state) (hd : header) (txs : list tx) : option (state * list (addr * Z)) :=
  match (begin_block s hd).2 with
  | Ok _ =>
      let s2 := delivers (begin_block s hd).1 txs in
      match (end_block s2).2 with
      | Ok ups => Some (commit (end_block s2).1, ups)
      | _ => None
      end
  | _ => None
  end.

Lemma srun_delivers s txs : srun s (map SDeliver txs) = delivers s txs.
Proof. revert s. induction txs as [|t txs IH]; intros s; [reflexivity|]. simpl. apply IH. Qed.

Lemma srun_app s l1 l2 : srun s (l1 ++ l2) = srun (srun s l1) l2.
Proof. unfold srun. apply foldl_app. Qed.

(* do_block is the run of [block_ops] of SpecProps.v in which every operation answers Ok *)
Lemma do_block_srun s hd txs s' ups : do_block s hd txs = Some (s', ups) →
  srun s (block_ops hd txs) = s' ∧
  sstep_ok s (SBegin hd) = true ∧ sstep_ok (delivers (begin_block s hd).1 txs) SEnd = true ∧
  (end_block (delivers (begin_block s hd).1 txs)).2 = Ok ups.
Proof.
  unfold do_block, block_ops, sstep_ok. destruct ((begin_block s hd).2) as [r| |] eqn:Eb; try discriminate.
  cbv zeta. destruct ((end_block _).2) as [u| |] eqn:Ee; try discriminate. intros [= <- <-].
  split; [|auto]. rewrite !srun_app. simpl. rewrite srun_delivers. reflexivity.
Qed.

(* the version the last EndBlock looked at (the one before the last committed one) *)
Definition prev_version (s : state) : option ledgers :=
  let n := length (committed s) in if (n <? 2)%nat then None else committed s !! (n - 2)%nat.
(* what the validator record must be after a commit: the selection EndBlock of the last block made *)
Definition announced (s : state) : list (addr * Z) :=
  match prev_version s with Some prev => sel_vals (lparams prev) prev | None => [] end.

Record boundary_ok (s : state) : Prop := {
  bo_keys_work : dels_key_ok (work s);
  bo_keys_comm : ∀ l, l ∈ committed s → dels_key_ok l;
  bo_newparams : newparams s = None;
  bo_params : lparams (work s) = gparams s;
  bo_height : last_height s = Z.of_nat (length (committed s));
  bo_last : committed s ≠ [] → last (committed s) = Some (work s);
  bo_lastvals : lastvals s = announced s }.

(* ------------------------------------------------------------------ genesis *)
Lemma init_fold_holders (hs : list (addr * Z)) l :
  same_dp l (foldl (λ l h, set_acct l h.1 {| a_nonce := 0; a_bal := h.2; a_code := false; a_name := 0%N; a_doc := 0%N |}) l hs).
Proof.
  revert l; induction hs as [|h hs IH]; intros l; simpl; [apply same_dp_refl|].
  eapply same_dp_trans; [|apply IH]. split; reflexivity.
Qed.
Lemma init_fold_valaccts (vs : list (addr * Z)) l : same_dp l (foldl (λ l v, (find_or_new l v.1).1) l vs).
Proof.
  revert l; induction vs as [|v vs IH]; intros l; simpl; [apply same_dp_refl|].
  eapply same_dp_trans; [apply find_or_new_dp | apply IH].
Qed.
Lemma init_fold_vals (vs : list (addr * Z)) l :
  lstep l (foldl (λ l v, set_dels l (<[v.1 := add_stake (new_delegatee v.1)
               {| s_from := v.1; s_to := v.1; s_hash := 0%N; s_start := 1; s_refund := 0; s_power := v.2 |}]> (dels l))) l vs).
Proof.
  revert l; induction vs as [|v vs IH]; intros l; simpl; [apply lstep_refl|].
  eapply lstep_trans; [|apply IH]. apply lstep_insert. intros _. reflexivity.
Qed.

Lemma empty_key_ok p : dels_key_ok (empty_ledgers p).
Proof. intros a d. simpl. rewrite lookup_empty. discriminate. Qed.

Lemma init_chain_work g : lstep (empty_ledgers (gen_params g)) (work (init_chain g)).
Proof.
  unfold init_chain. cbn [work].
  eapply lstep_trans; [apply lstep_same_dp, init_fold_holders|].
  eapply lstep_trans; [apply lstep_same_dp, init_fold_valaccts|]. apply init_fold_vals.
Qed.

Theorem init_chain_boundary g : boundary_ok (init_chain g).
Proof.
  destruct (init_chain_work g) as [Hp Hk].
  constructor.
  - apply Hk, empty_key_ok.
  - intros l Hl. inversion Hl.
  - reflexivity.
  - rewrite Hp. reflexivity.
  - reflexivity.
  - intros H. contradiction H. reflexivity.
  - reflexivity.
Qed.

(* ------------------------------------------------------------------ one block *)
Lemma sel_vals_empty g p : sel_vals g (empty_ledgers p) = [].
Proof.
  unfold sel_vals, selection, ranked, eligible, committed_dels, sorted_items. simpl.
  rewrite map_to_list_empty. cbn. rewrite take_nil. reflexivity.
Qed.

Lemma base_of_boundary s : boundary_ok s →
  (committed s = [] ∧ base_of s = empty_ledgers (gparams s)) ∨ (committed s ≠ [] ∧ base_of s = work s).
Proof.
  intros Hb. unfold base_of. destruct (committed s) as [|l0 c] eqn:Ec.
  - left. auto.
  - right. split; [discriminate|]. rewrite <- Ec. rewrite (bo_last s Hb) by (rewrite Ec; discriminate). reflexivity.
Qed.

Lemma base_key_ok s : boundary_ok s → dels_key_ok (base_of s).
Proof.
  intros Hb. destruct (base_of_boundary s Hb) as [[_ ->]|[_ ->]]; [apply empty_key_ok | apply (bo_keys_work s Hb)].
Qed.

(* what one block does to the state *)
Lemma do_block_inv s hd txs s' ups : boundary_ok s → do_block s hd txs = Some (s', ups) →
  boundary_ok s' ∧
  committed s' = committed s ++ [work s'] ∧
  0 ≤ g_maxValidatorCnt (gparams s) ∧
  lastvals s' = sel_vals (gparams s) (base_of s) ∧
  ups = val_updates (S (length (lastvals s) + length (lastvals s'))) (sort_addr (lastvals s)) (sort_addr (lastvals s')).
Proof.
  intros Hb. unfold do_block.
  destruct ((begin_block s hd).2) as [r| |] eqn:Eb; try discriminate. cbv zeta.
  set (s1 := (begin_block s hd).1). set (s2 := delivers s1 txs).
  destruct (end_block s2) as [s3 r3] eqn:Ee. cbn [fst snd]. destruct r3 as [u| |]; try discriminate.
  intros [= <- <-].
  destruct (begin_block_ok s hd r Eb) as (Hh & Hall & Hbh). fold s1 in Hall, Hbh.
  destruct (begin_block_frame s hd) as (B1 & B2 & B3 & B4 & B5 & [B6 B7]). fold s1 in B1, B2, B3, B4, B5, B6, B7.
  destruct (delivers_frame txs s1) as [(D1 & D2 & D3 & D4 & D5 & D6 & D7) [D8 D9]]. fold s2 in D1, D2, D3, D4, D5, D6, D7, D8, D9.
  destruct (end_block_ok s2 s3 u Ee) as (E1 & E2 & E3 & E4 & E5 & E6 & E7 & E8 & E9 & E10).
  assert (Hg2 : gparams s2 = gparams s) by congruence.
  assert (Hlv : lastvals s3 = sel_vals (gparams s) (base_of s)).
  { rewrite E9, Hg2, D4, Hall. reflexivity. }
  assert (Hk3 : dels_key_ok (work s3)).
  { unfold dels_key_ok. rewrite E6. apply D9, B7, (bo_keys_work s Hb). }
  assert (Hc : committed (commit s3) = committed s ++ [work (commit s3)]).
  { cbn. congruence. }
  split; [|split; [exact Hc|split; [rewrite <- Hg2; exact E8|split; [exact Hlv|]]]].
  2:{ cbn [commit lastvals]. rewrite E10. congruence. }
  constructor.
  - exact Hk3.
  - intros l. rewrite Hc. rewrite elem_of_app, elem_of_list_singleton. intros [Hl| ->].
    + apply (bo_keys_comm s Hb), Hl.
    + exact Hk3.
  - reflexivity.
  - cbn. rewrite E2. apply E7. rewrite D8, B6, D3, B3, (bo_newparams s Hb), Hg2. cbn. apply (bo_params s Hb).
  - cbn. rewrite app_length, E1, D1, B1. cbn. rewrite E4, D7, Hbh, Hh, (bo_height s Hb). lia.
  - intros _. rewrite Hc. apply last_snoc.
  - cbn [commit lastvals]. rewrite Hlv. unfold announced, prev_version. rewrite Hc, app_length. cbn [length].
    destruct (base_of_boundary s Hb) as [[Hn Hbase]|[Hn Hbase]].
    + rewrite Hn. cbn. rewrite Hbase. apply sel_vals_empty.
    + assert (Hlen : (1 ≤ length (committed s))%nat) by (destruct (committed s); [contradiction | simpl; lia]).
      destruct (length (committed s) + 1 <? 2)%nat eqn:E2'; [apply Nat.ltb_lt in E2'; lia|].
      rewrite lookup_app_l by lia.
      replace (length (committed s) + 1 - 2)%nat with (pred (length (committed s))) by lia.
      rewrite <- last_lookup, (bo_last s Hb Hn), Hbase, (bo_params s Hb). reflexivity.
Qed.

Definition sel_positive (s : state) : Prop := ∀ d, d ∈ selection (gparams s) (base_of s) → 0 < d_total d.

(* sufficient for [sel_positive]: the minimum validator stake is at least one unit of power and
   the totals bookkeeping of the committed delegatees holds (InvStake.v proves the latter for
   reachable states: [delegatee_ok] and non-negative stake powers give [totals_ok]) *)
Lemma sel_positive_of_totals s :
  boundary_ok s → 1 ≤ min_power (gparams s) → totals_ok (base_of s) → sel_positive s.
Proof.
  intros Hb Hm Ht d Hd.
  assert (0 ≤ g_maxValidatorCnt (gparams s) ∨ g_maxValidatorCnt (gparams s) < 0) as [Hc|Hc] by lia.
  - destruct (selection_spec (gparams s) (base_of s) (base_key_ok s Hb) Hc) as (H1 & _).
    destruct (H1 d Hd) as [Hin Hself]. pose proof (Ht _ _ Hin). lia.
  - unfold selection in Hd. rewrite Z2Nat.nonpos in Hd by lia. inversion Hd.
Qed.

Lemma totals_ok_of_bookkeeping l :
  (∀ a d, dels l !! a = Some d → delegatee_ok a d) → (∀ s, s ∈ bonded_stakes l → 0 ≤ s_power s) → totals_ok l.
Proof.
  intros Hok Hr a d Hd. destruct (Hok a d Hd) as (_ & Ht & Hs & _). rewrite Ht, Hs.
  assert (Hp : ∀ s, s ∈ d_stakes d → 0 ≤ s_power s).
  { intros st Hst. apply Hr. unfold bonded_stakes. apply elem_of_list_In, in_concat.
    exists (d_stakes d). split; [|apply elem_of_list_In, Hst].
    apply elem_of_list_In, elem_of_list_fmap. exists (a, d). split; [reflexivity | apply elem_of_map_to_list, Hd]. }
  clear -Hp. induction (d_stakes d) as [|st k IH]; simpl; [lia|].
  assert (0 ≤ s_power st) by (apply Hp; left).
  assert (0 ≤ sum_power_of a k ≤ sum_power k) by (apply IH; intros x Hx; apply Hp; right; exact Hx).
  destruct (s_from st =? a)%N; lia.
Qed.

Local Transparent two63 two64.
Lemma min_power_pos g : amountPerPower ≤ g_minValidatorStake g < two63 * amountPerPower → 1 ≤ min_power g.
Proof.
  intros [H1 H2]. unfold min_power, power_of, amount_to_power.
  assert (Hq : 1 ≤ g_minValidatorStake g / amountPerPower < two63).
  { unfold amountPerPower in *. split.
    - apply Z.div_le_lower_bound; lia.
    - apply Z.div_lt_upper_bound; lia. }
  assert (Hw : wrap64 ((g_minValidatorStake g / amountPerPower) mod two64) = g_minValidatorStake g / amountPerPower).
  { rewrite Z.mod_small; [apply wrap64_small; unfold in64|]; unfold two63, two64 in *; lia. }
  rewrite Hw. destruct (_ <? 0) eqn:E; [apply Z.ltb_lt in E; lia|]. simpl. lia.
Qed.
Local Opaque two63 two64.

(* (V1) at the level of a block: the updates EndBlock returns are well-formed for the consensus
   engine, and applying them to the previously announced set gives the new selection *)
Theorem C10_block s hd txs s' ups :
  boundary_ok s → sel_positive s → do_block s hd txs = Some (s', ups) →
  lastvals s' = sel_vals (gparams s) (base_of s) ∧
  ValSet.tm_apply_updates (sort_addr (lastvals s)) ups = Some (sort_addr (lastvals s')) ∧
  ValSet.apply_updates (sort_addr (lastvals s)) ups = sort_addr (lastvals s') ∧
  NoDup ups.*1 ∧ (∀ a, (a, 0) ∈ ups → a ∈ (lastvals s).*1) ∧ (∀ a p, (a, p) ∈ ups → 0 ≤ p).
Proof.
  intros Hb Hpos Hd. destruct (do_block_inv s hd txs s' ups Hb Hd) as (Hb' & _ & _ & Hlv & Hups).
  assert (Hold : NoDup (lastvals s).*1).
  { rewrite (bo_lastvals s Hb). unfold announced, prev_version.
    destruct (_ <? 2)%nat; [constructor|]. destruct (committed s !! _) as [prev|] eqn:E; [|constructor].
    apply sel_vals_nodup, (bo_keys_comm s Hb). eapply elem_of_list_lookup_2, E. }
  assert (Hnew : NoDup (lastvals s').*1) by (rewrite Hlv; apply sel_vals_nodup, base_key_ok, Hb).
  assert (Hp : ∀ a p, (a, p) ∈ lastvals s' → 0 < p).
  { intros a p. rewrite Hlv, elem_of_sel_vals. intros (d & Hd' & _ & <-). apply Hpos, Hd'. }
  assert (Hf : (length (lastvals s) + length (lastvals s') < S (length (lastvals s) + length (lastvals s')))%nat) by lia.
  split; [exact Hlv|]. rewrite Hups.
  pose proof (val_updates_wellformed _ _ _ Hold Hnew Hf Hp) as Hw.
  split; [exact Hw|]. split.
  { unfold ValSet.tm_apply_updates in Hw. destruct (ValSet.tm_check _ _); [injection Hw as Hw; exact Hw | discriminate]. }
  split; [apply val_updates_nodup; assumption|]. split.
  - apply val_updates_removals; assumption.
  - apply val_updates_nonneg; try assumption. intros a p H. pose proof (Hp a p H). lia.
Qed.
Print Assumptions C10_block.

(* ================================================================== 5. (V3) histories *)
Definition blocks := list (header * list tx).

Fixpoint run_blocks (s : state) (bs : blocks) : option (state * list (list (addr * Z))) :=
  match bs with
  | [] => Some (s, [])
  | b :: r =>
      match do_block s b.1 b.2 with
      | Some (s', u) => match run_blocks s' r with Some (sf, us) => Some (sf, u :: us) | None => None end
      | None => None
      end
  end.

Definition ops_of (bs : blocks) : list sop := concat (map (λ b, block_ops b.1 b.2) bs).

(* the states at which the blocks of a run begin *)
Fixpoint block_starts (s : state) (bs : blocks) : list state :=
  match bs with [] => [] | b :: r => s :: block_starts (srun s (block_ops b.1 b.2)) r end.

Lemma run_blocks_srun bs : ∀ s sf us, run_blocks s bs = Some (sf, us) → srun s (ops_of bs) = sf ∧ length us = length bs.
Proof.
  induction bs as [|b r IH]; intros s sf us; cbn [run_blocks].
  { intros [= <- <-]. auto. }
  destruct (do_block s b.1 b.2) as [[s' u]|] eqn:Ed; [|discriminate].
  destruct (run_blocks s' r) as [[sf' us']|] eqn:Er; [|discriminate]. intros [= <- <-].
  apply do_block_srun in Ed as [Ed _]. apply IH in Er as [Er El].
  unfold ops_of. cbn [map concat]. rewrite srun_app, Ed. split; [exact Er | simpl; congruence].
Qed.

Lemma tm_run_fold upss : ∀ s r, ValSet.tm_run s upss = Some r → fold_left ValSet.apply_updates upss s = r.
Proof.
  induction upss as [|u upss IH]; intros s r; simpl; [intros [= <-]; reflexivity|].
  unfold ValSet.tm_apply_updates. destruct (ValSet.tm_check s u); [|discriminate]. apply IH.
Qed.

(* the boundary invariant holds after every block of a run (no hypothesis on the powers) *)
Lemma run_blocks_boundary bs : ∀ s sf upss,
  boundary_ok s → run_blocks s bs = Some (sf, upss) →
  boundary_ok sf ∧ length (committed sf) = (length (committed s) + length bs)%nat.
Proof.
  induction bs as [|b r IH]; intros s sf upss Hb; cbn [run_blocks].
  { intros [= <- <-]. split; [exact Hb | simpl; lia]. }
  destruct (do_block s b.1 b.2) as [[s' u]|] eqn:Ed; [|discriminate].
  destruct (run_blocks s' r) as [[sf' us']|] eqn:Er; [|discriminate]. intros [= <- <-].
  destruct (do_block_inv _ _ _ _ _ Hb Ed) as (Hb' & Hc & _).
  destruct (IH s' sf' us' Hb' Er) as (Hbf & Hlen).
  split; [exact Hbf|]. rewrite Hlen, Hc, app_length. simpl. lia.
Qed.

Lemma history_from bs : ∀ s sf upss,
  boundary_ok s → run_blocks s bs = Some (sf, upss) → Forall sel_positive (block_starts s bs) →
  boundary_ok sf ∧ length (committed sf) = (length (committed s) + length bs)%nat ∧
  ValSet.tm_run (sort_addr (lastvals s)) upss = Some (sort_addr (lastvals sf)).
Proof.
  induction bs as [|b r IH]; intros s sf upss Hb; cbn [run_blocks block_starts].
  { intros [= <- <-] _. split; [exact Hb|]. split; [simpl; lia | reflexivity]. }
  destruct (do_block s b.1 b.2) as [[s' u]|] eqn:Ed; [|discriminate].
  destruct (run_blocks s' r) as [[sf' us']|] eqn:Er; [|discriminate]. intros [= <- <-] Hpos.
  apply Forall_cons in Hpos as [Hp Hpos].
  destruct (do_block_srun _ _ _ _ _ Ed) as [Hs _]. rewrite Hs in Hpos.
  destruct (do_block_inv _ _ _ _ _ Hb Ed) as (Hb' & Hc & _).
  destruct (C10_block _ _ _ _ _ Hb Hp Ed) as (_ & Ht & _).
  destruct (IH s' sf' us' Hb' Er Hpos) as (Hbf & Hlen & Hrun).
  split; [exact Hbf|]. split.
  - rewrite Hlen, Hc, app_length. simpl. lia.
  - cbn [ValSet.tm_run]. rewrite Ht. exact Hrun.
Qed.

(* (V3 a, b1) For a run of blocks from genesis in which every BeginBlock and EndBlock answers Ok:
   - the validator record after block n is [] for n = 1 (block 1 runs on an empty committed tree)
     and for n >= 2 the selection from committed version n-1 under that version's parameters
     (which are the parameters in force during block n);
   - Tendermint's validator-set update, started from the EMPTY set and fed the updates of blocks
     1..n in order, accepts every one of them and ends with exactly that record. *)
Theorem C10_history g bs sf upss :
  run_blocks (init_chain g) bs = Some (sf, upss) →
  Forall sel_positive (block_starts (init_chain g) bs) →
  srun (init_chain g) (ops_of bs) = sf ∧
  length (committed sf) = length bs ∧
  lastvals sf = announced sf ∧
  ValSet.tm_run [] upss = Some (sort_addr (lastvals sf)) ∧
  fold_left ValSet.apply_updates upss [] = sort_addr (lastvals sf).
Proof.
  intros Hr Hpos.
  destruct (history_from bs _ _ _ (init_chain_boundary g) Hr Hpos) as (Hb & Hlen & Hrun).
  split; [apply (run_blocks_srun bs _ _ _ Hr)|]. split; [exact Hlen|]. split; [apply (bo_lastvals sf Hb)|].
  change (sort_addr (lastvals (init_chain g))) with (@nil (addr * Z)) in Hrun.
  split; [exact Hrun | apply tm_run_fold, Hrun].
Qed.

(* (a) spelled out *)
Corollary C10_selection_at g bs sf upss :
  run_blocks (init_chain g) bs = Some (sf, upss) →
  Forall sel_positive (block_starts (init_chain g) bs) →
  ((length bs < 2)%nat → lastvals sf = []) ∧
  (∀ prev, (2 ≤ length bs)%nat → committed sf !! (length bs - 2)%nat = Some prev →
     lastvals sf = map (λ d, (d_addr d, d_total d)) (selection (lparams prev) prev)).
Proof.
  intros Hr Hpos. destruct (C10_history g bs sf upss Hr Hpos) as (_ & Hlen & Ha & _).
  rewrite Ha. unfold announced, prev_version. rewrite Hlen. split.
  - intros H. apply Nat.ltb_lt in H. rewrite H. reflexivity.
  - intros prev H Hp. destruct (length bs <? 2)%nat eqn:E; [apply Nat.ltb_lt in E; lia|]. rewrite Hp. reflexivity.
Qed.

(* ------------------------------------------------------------------ (b2) starting from the genesis validator set *)
Notation key_strict l := (StronglySorted N.lt (l.*1)).

Lemma sort_addr_strict l : NoDup l.*1 → key_strict (sort_addr l).
Proof.
  intros Hnd. apply key_sorted_strict; [apply StronglySorted_merge_sort; apply _ | rewrite sort_addr_perm; exact Hnd].
Qed.

(* announcing a whole set over a set it covers replaces that set *)
Lemma apply_cover (new : list (addr * Z)) : ∀ G,
  key_strict G → key_strict new → (∀ a, a ∈ G.*1 → a ∈ new.*1) → (∀ a p, (a, p) ∈ new → p ≠ 0) →
  ValSet.apply_updates G new = new.
Proof.
  induction new as [|[a p] new IH]; intros G HG HN Hsub Hnz.
  { destruct G as [|[k v] r]; [reflexivity|]. exfalso. specialize (Hsub k). rewrite fmap_cons in Hsub.
    assert (H : k ∈ ([] : list (addr * Z)).*1) by (apply Hsub; left). inversion H. }
  rewrite fmap_cons in HN. apply StronglySorted_inv in HN as [HN' Hlt]. rewrite Forall_forall in Hlt. cbn [fst] in Hlt.
  assert (Hp : p ≠ 0) by (apply (Hnz a); left).
  rewrite ValSet.apply_updates_cons, (ValSet.apply_put_nz _ _ _ Hp).
  assert (Hhead : ∀ b, In b (map fst new) → (a < b)%N).
  { intros b Hb. apply Hlt. apply elem_of_list_In. exact Hb. }
  assert (Hnz' : ∀ b q, (b, q) ∈ new → q ≠ 0) by (intros b q H; apply (Hnz b); right; exact H).
  destruct G as [|[k v] r].
  { cbn [ValSet.set_put]. rewrite ValSet.apply_updates_head by exact Hhead. f_equal.
    apply IH; [constructor | exact HN' | intros x Hx; inversion Hx | exact Hnz']. }
  rewrite fmap_cons in HG. apply StronglySorted_inv in HG as [HG' Hgt]. rewrite Forall_forall in Hgt. cbn [fst] in Hgt.
  assert (Hk : k ∈ ((a, p) :: new).*1) by (apply Hsub; rewrite fmap_cons; left).
  rewrite fmap_cons in Hk. cbn [fst] in Hk.
  cbn [ValSet.set_put].
  destruct (N.compare_spec a k) as [E|L|G'].
  - subst k. rewrite ValSet.apply_updates_head by exact Hhead. f_equal.
    apply IH; [exact HG' | exact HN' | | exact Hnz'].
    intros x Hx. pose proof (Hgt x Hx) as Hax.
    assert (Hx' : x ∈ ((a, p) :: new).*1) by (apply Hsub; rewrite fmap_cons; right; exact Hx).
    rewrite fmap_cons in Hx'. apply elem_of_cons in Hx' as [->|Hx']; [cbn in Hax; lia | exact Hx'].
  - rewrite ValSet.apply_updates_head by exact Hhead. f_equal.
    apply IH; [rewrite fmap_cons; constructor; [exact HG' | rewrite Forall_forall; exact Hgt] | exact HN' | | exact Hnz'].
    intros x Hx. assert (Hx' : x ∈ ((a, p) :: new).*1) by (apply Hsub, Hx).
    rewrite fmap_cons in Hx'. apply elem_of_cons in Hx' as [->|Hx']; [|exact Hx'].
    exfalso. rewrite fmap_cons in Hx. cbn [fst] in Hx. apply elem_of_cons in Hx as [->|Hx]; [lia|].
    pose proof (Hgt _ Hx). lia.
  - exfalso. apply elem_of_cons in Hk as [->|Hk]; [lia|]. pose proof (Hlt _ Hk). lia.
Qed.

(* INTENDED (property text): for every run, the fold of the updates over the GENESIS validator
   set equals the current selection.  That is false of the model and of the Go code (see
   [C10_genesis_leaver_refuted] below): EndBlock never diffs against the genesis set; block 1
   announces nothing and block 2 announces the whole selection S_2, so genesis validators that
   are not in S_2 are never removed.  With the hypothesis that S_2 covers the genesis set it is
   true from block 2 on: *)
Theorem C10_history_genesis g b1 b2 rest s2 u12 sf upss :
  NoDup (gen_validators g).*1 →
  run_blocks (init_chain g) [b1; b2] = Some (s2, u12) →
  (∀ a, a ∈ (gen_validators g).*1 → a ∈ (lastvals s2).*1) →
  run_blocks (init_chain g) (b1 :: b2 :: rest) = Some (sf, upss) →
  Forall sel_positive (block_starts (init_chain g) (b1 :: b2 :: rest)) →
  fold_left ValSet.apply_updates upss (sort_addr (gen_validators g)) = sort_addr (lastvals sf).
Proof.
  intros Hnd H12 Hcover Hrun Hpos. pose proof (init_chain_boundary g) as Hb0.
  cbn [run_blocks] in H12, Hrun.
  destruct (do_block (init_chain g) b1.1 b1.2) as [[s1 u1]|] eqn:Ed1; [|discriminate].
  destruct (do_block s1 b2.1 b2.2) as [[s2' u2]|] eqn:Ed2; [|discriminate].
  injection H12 as <- <-.
  destruct (run_blocks s2' rest) as [[sf' us]|] eqn:Er; [|discriminate]. injection Hrun as <- <-.
  cbn [block_starts] in Hpos. apply Forall_cons in Hpos as [Hp0 Hpos]. apply Forall_cons in Hpos as [Hp1 Hpos].
  destruct (do_block_srun _ _ _ _ _ Ed1) as [Hs1 _]. rewrite Hs1 in Hp1, Hpos.
  destruct (do_block_srun _ _ _ _ _ Ed2) as [Hs2 _]. rewrite Hs2 in Hpos.
  destruct (do_block_inv _ _ _ _ _ Hb0 Ed1) as (Hb1 & _ & _ & Hlv1 & Hu1).
  destruct (do_block_inv _ _ _ _ _ Hb1 Ed2) as (Hb2 & _ & _ & Hlv2 & Hu2).
  assert (Hl1 : lastvals s1 = []).
  { rewrite Hlv1. destruct (base_of_boundary _ Hb0) as [[_ ->]|[Hn _]]; [apply sel_vals_empty | contradiction Hn; reflexivity]. }
  assert (Hu1' : u1 = []) by (rewrite Hu1, Hl1; reflexivity).
  assert (Hu2' : u2 = sort_addr (lastvals s2')) by (rewrite Hu2, Hl1; reflexivity).
  destruct (history_from rest s2' sf' us Hb2 Er Hpos) as (_ & _ & Ht).
  cbn [fold_left]. rewrite Hu1', Hu2'. rewrite ValSet.apply_updates_nil.
  rewrite apply_cover.
  - apply tm_run_fold, Ht.
  - apply sort_addr_strict, Hnd.
  - apply sort_addr_strict. rewrite Hlv2. apply sel_vals_nodup, base_key_ok, Hb1.
  - intros a. rewrite !sort_addr_perm. apply Hcover.
  - intros a p. rewrite sort_addr_perm, Hlv2, elem_of_sel_vals. intros (d & Hd & _ & <-).
    pose proof (Hp1 d Hd). lia.
Qed.
Print Assumptions C10_history.
Print Assumptions C10_history_genesis.

(* ================================================================== 6. concrete runs: examples and the refutation *)
Definition sel_positiveb (s : state) : bool := forallb (λ d, 0 <? d_total d) (selection (gparams s) (base_of s)).
Lemma sel_positiveb_ok s : sel_positiveb s = true → sel_positive s.
Proof.
  unfold sel_positiveb, sel_positive. rewrite forallb_forall. intros H d Hd.
  apply Z.ltb_lt, H, elem_of_list_In, Hd.
Qed.
Lemma starts_positiveb_ok l : forallb sel_positiveb l = true → Forall sel_positive l.
Proof.
  rewrite forallb_forall, Forall_forall. intros H s Hs. apply sel_positiveb_ok, H, elem_of_list_In, Hs.
Qed.

Definition run_state (s : state) (bs : blocks) : state := (default (s, []) (run_blocks s bs)).1.
Definition run_updates (s : state) (bs : blocks) : list (list (addr * Z)) := (default (s, []) (run_blocks s bs)).2.
Definition run_okb (s : state) (bs : blocks) : bool := match run_blocks s bs with Some _ => true | None => false end.
Lemma run_blocks_proj s bs : run_okb s bs = true → run_blocks s bs = Some (run_state s bs, run_updates s bs).
Proof. unfold run_okb, run_state, run_updates. destruct (run_blocks s bs) as [[a b]|]; [reflexivity | discriminate]. Qed.

Definition ex_params : params := {|
  g_version := 1; g_maxValidatorCnt := 5; g_minValidatorStake := amountPerPower; g_minDelegatorStake := 0;
  g_rewardPerPower := 0; g_lazyRewardBlocks := 2; g_lazyApplyingBlocks := 1; g_gasPrice := 1; g_minTrxGas := 1;
  g_maxTrxGas := 1000; g_maxBlockGas := 100000; g_minVotingPeriodBlocks := 1; g_maxVotingPeriodBlocks := 10;
  g_minSelfStakeRatio := 0; g_maxUpdatableStakeRatio := 100; g_maxIndividualStakeRatio := 100; g_slashRatio := 50;
  g_signedBlocksWindow := 100; g_minSignedBlocks := 1 |}.
(* two genesis validators (powers 10 and 20), three funded accounts *)
Definition ex_genesis : genesis := {|
  gen_params := ex_params;
  gen_holders := [(1%N, 1000); (2%N, 1000); (3%N, 5 * amountPerPower + 1000)];
  gen_validators := [(1%N, 10); (2%N, 20)] |}.
Definition ex_hd (h : Z) : header := {| h_height := h; h_proposer := None; h_votes := []; h_evidence := [] |}.
(* a validator unstakes its genesis stake (hash 0) *)
Definition ex_unstake (a : addr) (nonce : Z) : tx := {|
  t_type := TRX_UNSTAKING; t_from := a; t_to := a; t_from_ok := true; t_to_ok := true; t_amount := 0;
  t_price := 1; t_gas := 1; t_nonce := nonce; t_payload := PUnstake 0%N true; t_hash := 100%N; t_sigok := true;
  t_evm := None |}.
Definition ex_stake (a : addr) (amt nonce : Z) (h : hash) : tx := {|
  t_type := TRX_STAKING; t_from := a; t_to := a; t_from_ok := true; t_to_ok := true; t_amount := amt;
  t_price := 1; t_gas := 1; t_nonce := nonce; t_payload := PNone; t_hash := h; t_sigok := true; t_evm := None |}.

Lemma ex_genesis_nodup : NoDup (gen_validators ex_genesis).*1.
Proof. cbn. apply NoDup_cons. split; [rewrite elem_of_list_singleton; discriminate | apply NoDup_singleton]. Qed.

(* block 2: account 3 stakes 5 units on itself; block 3: validator 1 unstakes *)
Definition good_blocks : blocks :=
  [(ex_hd 1, []); (ex_hd 2, [ex_stake 3%N (5 * amountPerPower) 0 77%N]); (ex_hd 3, [ex_unstake 1%N 0]);
   (ex_hd 4, []); (ex_hd 5, [])].

Example val_updates_wellformed_ex :
  let old := [(3%N, 5); (1%N, 10); (2%N, 20)] in let new := [(2%N, 25); (4%N, 7); (3%N, 5)] in
  val_updates 7 (sort_addr old) (sort_addr new) = [(1%N, 0); (2%N, 25); (4%N, 7)] ∧
  ValSet.tm_apply_updates (sort_addr old) (val_updates 7 (sort_addr old) (sort_addr new)) = Some (sort_addr new).
Proof.
  intros old new. split; [vm_compute; reflexivity|].
  apply val_updates_wellformed.
  - apply NoDup_ListNoDup, ValSet.Examples.nodupb_sound. reflexivity.
  - apply NoDup_ListNoDup, ValSet.Examples.nodupb_sound. reflexivity.
  - simpl. lia.
  - intros a p H. apply elem_of_list_In in H. simpl in H.
    destruct H as [[= <- <-]|[[= <- <-]|[[= <- <-]|[]]]]; lia.
Qed.

Example C10_history_ex :
  ∃ sf upss,
    run_blocks (init_chain ex_genesis) good_blocks = Some (sf, upss) ∧
    Forall sel_positive (block_starts (init_chain ex_genesis) good_blocks) ∧
    upss = [[]; [(1%N, 10); (2%N, 20)]; [(3%N, 5)]; [(1%N, 0)]; []] ∧
    lastvals sf = [(2%N, 20); (3%N, 5)] ∧
    ValSet.tm_run [] upss = Some (sort_addr (lastvals sf)).
Proof.
  exists (run_state (init_chain ex_genesis) good_blocks), (run_updates (init_chain ex_genesis) good_blocks).
  assert (Hr := run_blocks_proj (init_chain ex_genesis) good_blocks eq_refl).
  assert (Hp : Forall sel_positive (block_starts (init_chain ex_genesis) good_blocks))
    by (apply starts_positiveb_ok; vm_compute; reflexivity).
  split; [exact Hr|]. split; [exact Hp|]. split; [vm_compute; reflexivity|]. split; [vm_compute; reflexivity|].
  apply (C10_history _ _ _ _ Hr Hp).
Qed.

(* the hypotheses of the per-block theorem hold at every block of that run, e.g. at block 4, whose
   EndBlock returns the removal of validator 1 *)
Example C10_block_ex :
  let s := run_state (init_chain ex_genesis) (take 3 good_blocks) in
  boundary_ok s ∧ sel_positive s ∧
  lastvals s = [(2%N, 20); (1%N, 10); (3%N, 5)] ∧
  (snd <$> do_block s (ex_hd 4) []) = Some [(1%N, 0)] ∧
  ((λ x : state * list (addr * Z), lastvals x.1) <$> do_block s (ex_hd 4) []) = Some [(2%N, 20); (3%N, 5)].
Proof.
  intros s.
  assert (Hr := run_blocks_proj (init_chain ex_genesis) (take 3 good_blocks) eq_refl). fold s in Hr.
  assert (Hp : Forall sel_positive (block_starts (init_chain ex_genesis) (take 3 good_blocks)))
    by (apply starts_positiveb_ok; vm_compute; reflexivity).
  destruct (history_from _ _ _ _ (init_chain_boundary ex_genesis) Hr Hp) as (Hb & _).
  split; [exact Hb|]. split; [apply sel_positiveb_ok; vm_compute; reflexivity|].
  repeat split; vm_compute; reflexivity.
Qed.

(* the selection theorems apply to the committed states of that run: version 2 holds the three
   delegatees 1, 2, 3, ranked 2 (20), 1 (10), 3 (5) *)
Example selection_spec_ex :
  let sf := run_state (init_chain ex_genesis) good_blocks in
  ∃ v2, committed sf !! 1%nat = Some v2 ∧ dels_key_ok v2 ∧ 0 ≤ g_maxValidatorCnt (lparams v2) ∧
        sel_vals (lparams v2) v2 = [(2%N, 20); (1%N, 10); (3%N, 5)].
Proof.
  intros sf.
  assert (Hr := run_blocks_proj (init_chain ex_genesis) good_blocks eq_refl). fold sf in Hr.
  assert (Hp : Forall sel_positive (block_starts (init_chain ex_genesis) good_blocks))
    by (apply starts_positiveb_ok; vm_compute; reflexivity).
  destruct (history_from _ _ _ _ (init_chain_boundary ex_genesis) Hr Hp) as (Hb & Hlen & _).
  destruct (committed sf !! 1%nat) as [v2|] eqn:E.
  2:{ apply lookup_ge_None in E. simpl in Hlen. lia. }
  exists v2. split; [reflexivity|]. split; [eapply (bo_keys_comm sf Hb), elem_of_list_lookup_2, E|].
  assert (Hv : (λ v, (g_maxValidatorCnt (lparams v), sel_vals (lparams v) v)) <$> committed sf !! 1%nat
               = Some (5, [(2%N, 20); (1%N, 10); (3%N, 5)])) by (vm_compute; reflexivity).
  rewrite E in Hv. injection Hv as -> ->. split; [lia | reflexivity].
Qed.

(* the genesis form of the history theorem applies to that run: the selection of block 2 is the
   genesis set *)
Example C10_history_genesis_ex :
  fold_left ValSet.apply_updates (run_updates (init_chain ex_genesis) good_blocks) (sort_addr (gen_validators ex_genesis))
  = sort_addr (lastvals (run_state (init_chain ex_genesis) good_blocks)) ∧
  sort_addr (lastvals (run_state (init_chain ex_genesis) good_blocks)) = [(2%N, 20); (3%N, 5)].
Proof.
  split; [|vm_compute; reflexivity].
  assert (Hr := run_blocks_proj (init_chain ex_genesis) good_blocks eq_refl).
  assert (Hr2 := run_blocks_proj (init_chain ex_genesis) (take 2 good_blocks) eq_refl).
  eapply (C10_history_genesis ex_genesis _ _ _ _ _ _ _ ex_genesis_nodup Hr2); [|exact Hr|].
  - assert (Hl : (lastvals (run_state (init_chain ex_genesis) (take 2 good_blocks))).*1 = [2%N; 1%N])
      by (vm_compute; reflexivity).
    intros a. rewrite Hl. cbn. rewrite !elem_of_cons. tauto.
  - apply starts_positiveb_ok. vm_compute. reflexivity.
Qed.

(* REFUTATION of the property as worded ("applying the updates, in order, to the genesis validator
   set always yields exactly the selection"): genesis validator 1 unstakes its genesis stake in
   block 1.  Block 1 announces nothing, block 2 announces the selection {2}, block 3 nothing: the
   consensus engine, which started from the genesis set {1, 2}, is never told to remove 1, although
   every block answered Ok and every update list is well-formed.  (Go: StakeCtrler.lastValidators
   starts empty and InitLedger does not fill it; validatorUpdates diffs against it.) *)
Definition leaver_blocks : blocks := [(ex_hd 1, [ex_unstake 1%N 0]); (ex_hd 2, []); (ex_hd 3, [])].

Theorem C10_genesis_leaver_refuted :
  ∃ g bs sf upss,
    NoDup (gen_validators g).*1 ∧
    run_blocks (init_chain g) bs = Some (sf, upss) ∧
    Forall sel_positive (block_starts (init_chain g) bs) ∧
    upss = [[]; [(2%N, 20)]; []] ∧
    sort_addr (lastvals sf) = [(2%N, 20)] ∧
    fold_left ValSet.apply_updates upss (sort_addr (gen_validators g)) = [(1%N, 10); (2%N, 20)] ∧
    fold_left ValSet.apply_updates upss (sort_addr (gen_validators g)) ≠ sort_addr (lastvals sf).
Proof.
  exists ex_genesis, leaver_blocks,
    (run_state (init_chain ex_genesis) leaver_blocks), (run_updates (init_chain ex_genesis) leaver_blocks).
  split; [exact ex_genesis_nodup|].
  split; [apply run_blocks_proj; vm_compute; reflexivity|].
  split; [apply starts_positiveb_ok; vm_compute; reflexivity|].
  split; [vm_compute; reflexivity|]. split; [vm_compute; reflexivity|]. split; [vm_compute; reflexivity|].
  vm_compute. discriminate.
Qed.
Print Assumptions C10_genesis_leaver_refuted.

(* ================================================================== 7. the key discipline for arbitrary operation sequences *)
Lemma end_block_fail s s' r : end_block s = (s', r) → (∀ u, r ≠ Ok u) → s' = s.
Proof.
  unfold end_block.
  destruct (freeze_proposals _ _ _) as [l1|e|pn]; [|intros [= <- _] _; reflexivity|intros [= <- _] _; reflexivity].
  destruct (apply_proposals _ _ _ _) as [[l2 np]|e|pn]; [|intros [= <- _] _; reflexivity|intros [= <- _] _; reflexivity].
  match goal with |- match ?x with Some _ => _ | None => _ end = _ → _ => destruct x as [l3|] end;
    [|intros [= <- _] _; reflexivity].
  destruct (unfreeze _ _ _) as [l4|e|pn]; [|intros [= <- _] _; reflexivity|intros [= <- _] _; reflexivity].
  destruct (_ <? 0); [intros [= <- _] _; reflexivity|].
  intros [= _ <-] H. exfalso. eapply H. reflexivity.
Qed.

Lemma end_block_keeps s : committed (end_block s).1 = committed s ∧ dels (work (end_block s).1) = dels (work s).
Proof.
  destruct (end_block s) as [s' r] eqn:E. cbn [fst]. destruct r as [ups|e|p].
  - apply end_block_ok in E. split; apply E.
  - apply end_block_fail in E as ->; [auto | discriminate].
  - apply end_block_fail in E as ->; [auto | discriminate].
Qed.

Definition keys_ok (s : state) : Prop := dels_key_ok (work s) ∧ ∀ l, l ∈ committed s → dels_key_ok l.

Lemma sstep_keys_ok s o : keys_ok s → keys_ok (sstep s o).
Proof.
  intros [Hw Hc]. destruct o as [hd|t| |]; cbn [sstep].
  - destruct (begin_block_frame s hd) as (B1 & _ & _ & _ & _ & [_ B7]). split; [apply B7, Hw | rewrite B1; exact Hc].
  - destruct (deliver_frame s t) as [(D1 & _) [_ D9]]. split; [apply D9, Hw | rewrite D1; exact Hc].
  - destruct (end_block_keeps s) as [E1 E2]. split; [unfold dels_key_ok; rewrite E2; exact Hw | rewrite E1; exact Hc].
  - split; [exact Hw|]. intros l. cbn. rewrite elem_of_app, elem_of_list_singleton. intros [H| ->]; auto.
Qed.

(* every delegatee is stored under its own address, in the working ledgers and in every committed
   version, after any sequence of operations whatsoever *)
Theorem dels_key_ok_reachable g ops : keys_ok (srun (init_chain g) ops).
Proof.
  assert (H0 : keys_ok (init_chain g)).
  { split; [apply (bo_keys_work _ (init_chain_boundary g)) | apply (bo_keys_comm _ (init_chain_boundary g))]. }
  revert H0. generalize (init_chain g) as s. induction ops as [|o ops IH]; intros s Hs; [exact Hs|].
  simpl. apply IH, sstep_keys_ok, Hs.
Qed.
Print Assumptions dels_key_ok_reachable.

(* ================================================================== 8. the positivity hypothesis *)
Lemma block_starts_boundary bs : ∀ s sf upss,
  boundary_ok s → run_blocks s bs = Some (sf, upss) → Forall boundary_ok (block_starts s bs).
Proof.
  induction bs as [|b r IH]; intros s sf upss Hb; cbn [run_blocks block_starts]; [constructor|].
  destruct (do_block s b.1 b.2) as [[s' u]|] eqn:Ed; [|discriminate].
  destruct (run_blocks s' r) as [[sf' us']|] eqn:Er; [|discriminate]. intros _.
  destruct (do_block_srun _ _ _ _ _ Ed) as [-> _].
  destruct (do_block_inv _ _ _ _ _ Hb Ed) as (Hb' & _).
  constructor; [exact Hb | eapply IH; eassumption].
Qed.

(* C10_history under the hypotheses in the form the other invariants deliver them: at the start of
   every block the minimum validator stake is worth at least one unit of power (true of
   [params_ok] parameter sets) and the committed delegatees satisfy 0 <= self <= total (C11) *)
Corollary C10_history_totals g bs sf upss :
  run_blocks (init_chain g) bs = Some (sf, upss) →
  Forall (λ s, 1 ≤ min_power (gparams s) ∧ totals_ok (base_of s)) (block_starts (init_chain g) bs) →
  lastvals sf = announced sf ∧
  ValSet.tm_run [] upss = Some (sort_addr (lastvals sf)) ∧
  fold_left ValSet.apply_updates upss [] = sort_addr (lastvals sf).
Proof.
  intros Hr Hh.
  pose proof (block_starts_boundary bs _ _ _ (init_chain_boundary g) Hr) as Hb.
  assert (Hp : Forall sel_positive (block_starts (init_chain g) bs)).
  { rewrite Forall_forall in Hh, Hb |- *. intros s Hs. destruct (Hh s Hs) as [H1 H2].
    apply sel_positive_of_totals; auto. }
  destruct (C10_history g bs sf upss Hr Hp) as (_ & _ & H1 & H2 & H3). auto.
Qed.
Print Assumptions C10_history_totals.

(* REFUTATION of well-formedness without [sel_positive]: with a minimum validator stake below one
   unit of power (here 0) a delegatee whose stakes were all slashed away (stakes that would lose
   less than one unit are removed, the emptied delegatee stays in the ledger with total power 0)
   is still "eligible"; EndBlock announces it with power 0, which the consensus engine reads as the
   removal of a validator it does not have, and rejects. *)
Definition zp_params : params := {|
  g_version := 1; g_maxValidatorCnt := 5; g_minValidatorStake := 0; g_minDelegatorStake := 0;
  g_rewardPerPower := 0; g_lazyRewardBlocks := 2; g_lazyApplyingBlocks := 1; g_gasPrice := 1; g_minTrxGas := 1;
  g_maxTrxGas := 1000; g_maxBlockGas := 100000; g_minVotingPeriodBlocks := 1; g_maxVotingPeriodBlocks := 10;
  g_minSelfStakeRatio := 0; g_maxUpdatableStakeRatio := 100; g_maxIndividualStakeRatio := 100; g_slashRatio := 50;
  g_signedBlocksWindow := 100; g_minSignedBlocks := 1 |}.
Definition zp_genesis : genesis :=
  {| gen_params := zp_params; gen_holders := []; gen_validators := [(1%N, 1); (2%N, 20)] |}.
(* block 1 carries evidence against validator 1 *)
Definition zp_blocks : blocks :=
  [({| h_height := 1; h_proposer := None; h_votes := []; h_evidence := [1%N] |}, []); (ex_hd 2, [])].

Theorem C10_zero_power_refuted :
  ∃ g bs sf upss,
    run_blocks (init_chain g) bs = Some (sf, upss) ∧
    upss = [[]; [(1%N, 0); (2%N, 20)]] ∧
    lastvals sf = [(2%N, 20); (1%N, 0)] ∧
    ValSet.tm_run [] upss = None ∧
    fold_left ValSet.apply_updates upss [] ≠ sort_addr (lastvals sf).
Proof.
  exists zp_genesis, zp_blocks, (run_state (init_chain zp_genesis) zp_blocks), (run_updates (init_chain zp_genesis) zp_blocks).
  split; [apply run_blocks_proj; vm_compute; reflexivity|].
  split; [vm_compute; reflexivity|]. split; [vm_compute; reflexivity|]. split; [vm_compute; reflexivity|].
  vm_compute. discriminate.
Qed.
Print Assumptions C10_zero_power_refuted.
